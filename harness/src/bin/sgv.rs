// The ast-grep CLI rebuilt from /repo's current working tree with the verification hooks enabled.
fn main() {
  // mirrors crates/cli/src/main.rs
  if let Err(e) = ast_grep::execute_main() {
    eprintln!("{e:?}");
    std::process::exit(1);
  }
}
