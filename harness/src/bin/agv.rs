use agverif::*;
use ast_grep_core::Language;

fn main() {
  let args: Vec<String> = std::env::args().collect();
  let cmd = args.get(1).map(|s| s.as_str()).unwrap_or("");
  match cmd {
    "project" => {
      // agv project <Lang> <file>
      let l = util::lang(&args[2]);
      let src = std::fs::read_to_string(&args[3]).unwrap();
      let g = l.ast_grep(&src);
      let p = proj::project(&g.root(), true);
      println!("{}", serde_json::json!({"lang": util::lang_name(l), "n": p.nodes}));
    }
    "drive" => drive(&args[2..]),
    "zero-width" => {
      // agv zero-width <corpus dir>: real (not MISSING) zero-width nodes per corpus file
      for (l, path, text) in util::corpus(&args[2]) {
        let g = l.ast_grep(&text);
        let root = g.root();
        let errs = root.dfs().filter(|n| n.is_error() || n.get_ts_node().is_missing()).count();
        let zs: Vec<String> = root.dfs().filter(|n| n.range().is_empty() && !n.get_ts_node().is_missing())
          .map(|n| format!("{}{}<{}", n.kind(), if n.is_named() { "" } else { "(anon)" }, n.parent().map(|p| p.kind().to_string()).unwrap_or_default())).collect();
        println!("{path}: errors={errs} zero-width={zs:?}");
      }
    }
    "c12-apply" => c12::apply_child(&args[2]),
    "universe" => {
      // agv universe --mode carrier|corpus|both [--corpus d] [--seed n] [--tier t] --out f
      let a = &args[2..];
      rules::universe(
        opt(a, "--mode").unwrap_or("both"),
        opt(a, "--corpus").unwrap_or("/verif/corpus"),
        opt(a, "--seed").and_then(|s| s.parse().ok()).unwrap_or(0),
        opt(a, "--tier") == Some("thorough"),
        opt(a, "--out").expect("--out"),
      )
    }
    _ => {
      eprintln!("usage: agv <project|...>");
      std::process::exit(2);
    }
  }
}

fn opt<'a>(args: &'a [String], name: &str) -> Option<&'a str> {
  args.iter().position(|a| a == name).and_then(|i| args.get(i + 1)).map(|s| s.as_str())
}

/// agv drive <cxx> [--vectors f] [--corpus dir] [--seed n] --out f [--tier quick|thorough]
fn drive(args: &[String]) {
  let prop = args[0].to_lowercase();
  let vectors = opt(args, "--vectors");
  let corpus = opt(args, "--corpus").unwrap_or("/verif/corpus");
  let seed: u64 = opt(args, "--seed").and_then(|s| s.parse().ok()).unwrap_or(0);
  let out = opt(args, "--out").expect("--out");
  let thorough = opt(args, "--tier") == Some("thorough");
  match prop.as_str() {
    "c19" => c19::drive(vectors, corpus, seed, out, thorough),
    "c02" | "c03" | "c04rep" => c03::drive(&prop, vectors, opt(args, "--vectors2"), corpus, seed, out, thorough),
    "c01cli" => c01::drive(vectors, opt(args, "--vectors2"), corpus, seed, out, thorough),
    "c06" | "c07" | "fix" => fix::drive(vectors, opt(args, "--vectors2"), corpus, seed, out, thorough, &prop),
    "c10" => c10::drive(vectors, corpus, seed, out, thorough),
    "c14" => c14::drive(vectors.expect("--vectors"), out, thorough),
    "c15" => c15::drive(vectors.expect("--vectors"), out, thorough, seed),
    "c16" => c16::drive(corpus, seed, out, thorough),
    "c17" => c17::drive(seed, out, thorough),
    "c18" => c18::drive(vectors, seed, out, thorough),
    "c12" => c12::drive(vectors.expect("--vectors"), out),
    "c13" => c13::drive(seed, out, thorough),
    "c11" => c11::drive(vectors.expect("--vectors"), opt(args, "--vectors2"), seed, out, thorough),
    "testrun" => testrun::drive(vectors.expect("--vectors"), out),
    "project" => projpaths::drive(vectors.expect("--vectors"), out),
    "walk" => walkrec::drive(vectors.expect("--vectors"), out),
    "strcase" => strcase::drive(vectors.expect("--vectors"), out),
    "c08" => c08::drive(vectors.expect("--vectors"), seed, out, thorough),
    "c09" => c09::drive(vectors.expect("--vectors"), seed, out, thorough),
    "rules" => rules::drive(opt(args, "--universe").expect("--universe"), vectors.expect("--vectors"), out),
    "c20" => c20::drive(vectors.expect("--vectors"), out),
    _ => {
      eprintln!("unknown property {prop}");
      std::process::exit(2);
    }
  }
}
