//! Recorder for spec/Walk.tla: `sgv run -p 'foo($A)'` over a small tree with hidden, git-ignored and .ignore-d files, for
//! every combination of -l, --no-ignore, --globs and explicit file targets that MC_Walk enumerates.  What is recorded:
//! the files the run reported (every file of the tree holds `foo(1)`).  Judged by spec/trace/Trace_Walk.tla.
use crate::cli::{self, json_lines, run_sgv};
use crate::util::{self, NdWriter};
use serde_json::{json, Value};

fn layout(root: &str) {
  let w = |rel: &str, content: &str| {
    let p = format!("{root}/{rel}");
    std::fs::create_dir_all(std::path::Path::new(&p).parent().unwrap()).unwrap();
    std::fs::write(p, content).unwrap();
  };
  std::fs::create_dir_all(format!("{root}/.git")).unwrap(); // .gitignore files count inside a repository only
  w(".gitignore", "build/\n*.gen.js\n");
  w(".ignore", "src/skip.js\n");
  for f in ["src/a.js", "src/a.test.js", "src/b.ts", "src/x.gen.js", "src/skip.js", "src/.hid/h.js", ".top.js", "build/o.js", "lib/i.js", "notes.txt"] {
    w(f, "foo(1)\n");
  }
}

fn glob_text(pat: &str) -> &'static str {
  match pat { "test" => "*.test.js", "src" => "src/**", "gen" => "*.gen.js", _ => ".top.js" }
}

pub fn drive(vectors: &str, out: &str) {
  let root = format!("/var/tmp/agv-walk-{}", std::process::id());
  let _ = std::fs::remove_dir_all(&root);
  layout(&root);
  let vecs = util::read_ndjson(vectors);
  let recs = cli::par_map(&vecs, 8, |i, v| {
    let mut args: Vec<String> = vec!["run".into(), "-p".into(), "foo($A)".into(), "--json=stream".into()];
    let lang = v["lang"].as_str().unwrap_or("infer");
    if lang != "infer" {
      args.push("-l".into());
      args.push(lang.into());
    }
    let mut ni: Vec<String> = v["no_ignore"].as_array().map(|a| a.iter().map(|s| s.as_str().unwrap_or("").to_string()).collect()).unwrap_or_default();
    ni.sort();
    for n in &ni {
      args.push("--no-ignore".into());
      args.push(n.clone());
    }
    for g in v["globs"].as_array().cloned().unwrap_or_default() {
      args.push("--globs".into());
      args.push(format!("{}{}", if g["neg"] == true { "!" } else { "" }, glob_text(g["pat"].as_str().unwrap_or(""))));
    }
    let target = v["target"].as_str().unwrap_or("tree");
    if target != "tree" {
      args.push(target.into());
    }
    let argv: Vec<&str> = args.iter().map(|s| s.as_str()).collect();
    let o = run_sgv(&argv, &root, None, 30, &[]);
    let mut files: Vec<String> = json_lines(&o.stdout).iter().map(|m| m["file"].as_str().unwrap_or("").trim_start_matches("./").to_string()).collect();
    files.sort();
    files.dedup();
    json!({"id": format!("walk{i}"), "lang": lang, "no_ignore": ni, "globs": v["globs"], "target": target, "typed": args, "files": files,
           "exit": o.code, "stderr": o.stderr.chars().take(200).collect::<String>()})
  });
  let _ = std::fs::remove_dir_all(&root);
  let mut w = NdWriter::new(out);
  let mut n_files = 0;
  for r in &recs {
    n_files += r["files"].as_array().map(|a| a.len()).unwrap_or(0);
    w.put(r);
  }
  let n = w.finish();
  util::summary(json!({"records": n, "cli_runs": n, "files_reported": n_files}));
}
