//! C12 recorder: rule documents assembled from variant tables (the same tables as spec/mc/MC_C12.tla),
//! loaded by the real code; accepted documents are applied to `foo(abc)` and the replacement recorded.
//! A match phase that may not terminate (utility recursion) runs in a child process.
use crate::cli;
use crate::util::{self, NdWriter};
use ast_grep_config::{from_yaml_string, GlobalRules};
use ast_grep_core::replacer::Replacer;
use ast_grep_core::Language;
use ast_grep_language::SupportLang;
use serde_json::{json, Value};
use std::panic::{catch_unwind, AssertUnwindSafe};

pub const SOURCE: &str = "foo(abc)";

pub fn render(v: &Value) -> Value {
  let s = |k: &str| v[k].as_str().unwrap();
  let rule = match s("m") {
    "m1" => json!({"pattern": "foo($A)"}),
    "m2" => json!({"all": [{"pattern": "foo($A)"}, {"matches": "U1"}]}),
    "m3" => json!({"all": [{"pattern": "foo($A)"}, {"has": {"matches": "U1", "stopBy": "end"}}]}),
    "m4" => json!({"regex": "abc"}),
    "m6" => json!({"all": [{"pattern": "foo($A)"}, {"nthChild": {"position": 1, "ofRule": {"matches": "U9"}}}]}),
    "m7" => json!({"all": [{"pattern": "foo($A)"}, {"nthChild": {"position": 1, "ofRule": {"matches": "U1"}}}]}),
    "m8" => json!({"all": [{"pattern": "foo($A)"}, {"nthChild": {"position": 1, "ofRule": {"pattern": "$N"}}}]}),
    _ => json!({"all": [{"pattern": "foo($A)"}, {"matches": "U9"}]}),
  };
  let utils = match s("u") {
    "u0" => json!(null),
    "u1" => json!({"U1": {"kind": "call_expression"}}),
    "u2" => json!({"U1": {"matches": "U2"}, "U2": {"kind": "call_expression"}}),
    "u3" => json!({"U1": {"not": {"matches": "U1"}}}),
    "u4" => json!({"U1": {"all": [{"matches": "U2"}]}, "U2": {"any": [{"matches": "U1"}]}}),
    "u5" => json!({"U1": {"any": [{"kind": "call_expression"}, {"has": {"matches": "U1", "stopBy": "end"}}]}}),
    "u6" => json!({"U1": {"nthChild": {"position": 1, "ofRule": {"matches": "U1"}}}}),
    "u7" => json!({"U1": {"any": [{"kind": "call_expression"}, {"matches": "U9"}]}}),
    // rule objects with several keys at one level
    "u9" => json!({"U1": {"matches": "U3", "not": {"matches": "U2"}}, "U2": {"matches": "U1"}, "U3": {"kind": "call_expression"}}),
    "u10" => json!({"U1": {"kind": "call_expression", "all": [{"matches": "U2"}], "any": [{"matches": "U3"}, {"kind": "call_expression"}]},
                    "U2": {"kind": "call_expression"}, "U3": {"any": [{"matches": "U1"}, {"kind": "call_expression"}]}}),
    "u11" => json!({"U1": {"matches": "U2", "any": [{"kind": "call_expression"}, {"matches": "U9"}]}, "U2": {"kind": "call_expression"}}),
    "u12" => json!({"U1": {"regex": "foo", "all": [{"matches": "U2"}], "any": [{"matches": "U3"}, {"kind": "number"}]},
                    "U2": {"kind": "call_expression"}, "U3": {"matches": "U2", "regex": "abc"}}),
    "u13" => json!({"U1": {"kind": "call_expression", "nthChild": {"position": 1, "ofRule": {"matches": "U9"}}}}),
    _ => json!({"U1": {"pattern": "foo($B)"}}),
  };
  let cons = match s("c") {
    "c0" => json!(null),
    "c1" => json!({"A": {"regex": "abc"}}),
    "c2" => json!({"B": {"regex": "abc"}}),
    "c4" => json!({"A": {"kind": "identifier", "nthChild": {"position": 1, "ofRule": {"matches": "U9"}}}}),
    "c5" => json!({"A": {"any": [{"kind": "identifier"}, {"matches": "U9"}]}}),
    "c6" => json!({"A": {"pattern": "$C"}, "C": {"pattern": "$D"}}),
    _ => json!({"A": {"pattern": "$C"}}),
  };
  let sub = |src: &str| json!({"substring": {"source": src}});
  let trans = match s("t") {
    "t0" => json!(null),
    "t1" => json!({"X": sub("$A")}),
    "t2" => json!({"X": sub("$Q")}),
    "t3" => json!({"X": sub("$X")}),
    "t4" => json!({"X": sub("$Y"), "Y": sub("$X")}),
    "t5" => json!({"X": sub("$Y"), "Y": sub("$A")}),
    "t7" => json!({"X": {"rewrite": {"source": "$A", "rewriters": ["R1"]}}}),
    "t9" => json!({"X": {"rewrite": {"source": "$X", "rewriters": ["R1"]}}}),
    "t10" => json!({"X": {"rewrite": {"source": "$Y", "rewriters": ["R1"]}}, "Y": sub("$X")}),
    _ => json!({"X": {"rewrite": {"source": "$A", "rewriters": ["R9"]}}}),
  };
  let fix = match s("f") {
    "f0" => json!(null),
    "f1" => json!("bar($A)"),
    "f2" => json!("bar($X)"),
    "f3" => json!("bar($Z)"),
    "f4" => json!({"template": "bar($X)"}),
    "f5" => json!({"template": "bar($A)"}),
    "f7" => json!("bar($C, $D)"),
    "f8" => json!("bar($XY)"),
    "f9" => json!("bar($N)"),
    "f10" => json!({"template": "bar($X)", "expandEnd": {"regex": "^;$"}}),
    _ => json!("bar($C)"),
  };
  let rews = match s("r") {
    "r0" => json!(null),
    "r1" => json!([{"id": "R1", "rule": {"pattern": "abc"}, "fix": "xyz"}]),
    "r3" => json!([{"id": "R1", "rule": {"pattern": "abc"}, "fix": "<$A>"}]),
    "r4" => json!([{"id": "R1", "rule": {"pattern": "abc", "nthChild": {"position": 1, "ofRule": {"matches": "U9"}}}, "fix": "xyz"}]),
    "r5" => json!([{"id": "R1", "rule": {"any": [{"pattern": "abc"}, {"matches": "U9"}]}, "fix": "xyz"}]),
    // R1 applies R2 to what it captured; r6: R2 in turn names the undefined R9, r7: the chain resolves
    "r6" => json!([{"id": "R1", "rule": {"pattern": "$Q", "regex": "^abc$"}, "transform": {"Y": {"rewrite": {"source": "$Q", "rewriters": ["R2"]}}}, "fix": "<$Y>"},
                   {"id": "R2", "rule": {"pattern": "$P", "regex": "^abc$"}, "transform": {"Z": {"rewrite": {"source": "$P", "rewriters": ["R9"]}}}, "fix": "xyz"}]),
    "r7" => json!([{"id": "R1", "rule": {"pattern": "$Q", "regex": "^abc$"}, "transform": {"Y": {"rewrite": {"source": "$Q", "rewriters": ["R2"]}}}, "fix": "<$Y>"},
                   {"id": "R2", "rule": {"pattern": "abc"}, "fix": "xyz"}]),
    "r8" => json!([{"id": "R1", "rule": {"pattern": "abc"}, "fix": "xyz"},
                   {"id": "R3", "rule": {"pattern": "$P", "regex": "^abc$"}, "transform": {"Z": {"rewrite": {"source": "$P", "rewriters": ["R9"]}}}, "fix": "q"}]),
    _ => json!([{"id": "R1", "rule": {"pattern": "abc"}}]),
  };
  let mut doc = json!({"id": "t", "language": "JavaScript", "rule": rule});
  for (k, val) in [("utils", utils), ("constraints", cons), ("transform", trans), ("fix", fix), ("rewriters", rews)] {
    if !val.is_null() {
      doc[k] = val;
    }
  }
  doc
}

/// expected value of a fix variable on SOURCE (documented in MC_C12: A = abc, X = substring(A) or rewritten A, ...)
fn expected_fix(v: &Value) -> Value {
  // t7 rewrites A with R1: r1 replaces it by a constant, r3 by a text that quotes the enclosing rule's capture A
  let x = if v["t"] == "t7" { if v["r"] == "r3" { "<abc>" } else if v["r"] == "r7" { "<xyz>" } else { "xyz" } } else { "abc" };
  match v["f"].as_str().unwrap() {
    "f0" => json!(null),
    "f1" | "f5" => json!("bar(abc)"),
    "f2" | "f4" | "f10" => json!(format!("bar({x})")),
    "f6" => json!("bar(abc)"),
    "f7" => json!("bar(abc, abc)"),
    // N is the matched call itself (the first named child of its statement that `$N` matches)
    "f9" => json!("bar(foo(abc))"),
    _ => json!("bar()"),
  }
}

/// load + apply in this process; returns (load, replacement, matched)
pub fn load_and_apply(yaml: &str, apply: bool) -> Value {
  let globals = GlobalRules::default();
  let r = catch_unwind(AssertUnwindSafe(|| from_yaml_string::<SupportLang>(yaml, &globals)));
  match r {
    Err(_) => json!({"load": "panic"}),
    Ok(Err(e)) => json!({"load": "rejected", "error": format!("{e:?}").chars().take(200).collect::<String>()}),
    Ok(Ok(cfgs)) => {
      if !apply {
        return json!({"load": "accepted"});
      }
      let cfg = &cfgs[0];
      let g = SupportLang::JavaScript.ast_grep(SOURCE);
      let out = catch_unwind(AssertUnwindSafe(|| {
        let nm = g.root().find(&cfg.matcher);
        match (nm, cfg.get_fixer()) {
          (Some(nm), Ok(Some(fixer))) => (true, Some(String::from_utf8_lossy(&fixer.generate_replacement(&nm)).to_string())),
          (Some(_), _) => (true, None),
          (None, _) => (false, None),
        }
      }));
      match out {
        Err(_) => json!({"load": "accepted", "apply": "panic"}),
        Ok((matched, repl)) => json!({"load": "accepted", "apply": "ok", "matched": matched, "replacement": repl}),
      }
    }
  }
}

pub fn apply_child(file: &str) {
  let yaml = std::fs::read_to_string(file).unwrap();
  println!("RESULT {}", load_and_apply(&yaml, true));
}

pub fn drive(vectors: &str, out: &str) {
  std::panic::set_hook(Box::new(|_| {}));
  let all = util::read_ndjson(vectors);
  let me = std::env::current_exe().unwrap().to_string_lossy().to_string();
  let scratch = format!("/var/tmp/agv-c12-{}", std::process::id());
  std::fs::create_dir_all(&scratch).unwrap();
  let recs = cli::par_map(&all, 12, |i, v| {
    let doc = render(v);
    let yaml = serde_json::to_string(&doc).unwrap();
    // documents whose utilities refer to each other in a cycle: if such a document is (wrongly) accepted, loading or
    // matching may not terminate or may overflow the stack - a crash of the code under test must stay an observation
    let risky = yaml.contains("ofRule") || matches!(v["u"].as_str().unwrap_or(""), "u3" | "u4" | "u5" | "u6" | "u9" | "u10");
    let res = if risky {
      // isolate the whole load + apply in a child process
      let f = format!("{scratch}/d{i}.yml");
      std::fs::write(&f, &yaml).unwrap();
      let o = std::process::Command::new("timeout").args(["20", &me, "c12-apply", &f]).output().unwrap();
      let _ = std::fs::remove_file(&f);
      let so = String::from_utf8_lossy(&o.stdout).to_string();
      match so.lines().find_map(|l| l.strip_prefix("RESULT ")) {
        Some(j) => serde_json::from_str(j).unwrap(),
        None => json!({"load": "crash", "apply": "crash", "status": o.status.code(), "signal": format!("{:?}", o.status)}),
      }
    } else {
      load_and_apply(&yaml, true)
    };
    // TLC's JSON reader has no null: every field is present with a default
    let norm = json!({
      "load": res["load"].as_str().unwrap_or("crash"),
      "error": res["error"].as_str().unwrap_or(""),
      "apply": res["apply"].as_str().unwrap_or("none"),
      "matched": res["matched"].as_bool().unwrap_or(false),
      "replacement": res["replacement"].as_str().unwrap_or("<none>"),
      "signal": res["signal"].as_str().unwrap_or(""),
    });
    let exp = expected_fix(v);
    json!({"id": format!("c12v{i}"), "v": v, "yaml": doc, "res": norm, "expected": exp.as_str().unwrap_or("<none>")})
  });
  let _ = std::fs::remove_dir_all(&scratch);
  let mut w = NdWriter::new(out);
  let (mut acc, mut rej) = (0, 0);
  for r in &recs {
    if r["res"]["load"] == "accepted" { acc += 1 } else { rej += 1 }
    w.put(r);
  }
  let n = w.finish();
  util::summary(json!({"records": n, "accepted": acc, "rejected": rej}));
}
