//! C01, CLI half: `sg run` (file and --stdin) and `sg scan` (file and --stdin) against the library
//! search, for the same pattern, source and strictness.  Cases: TLC's prefilter vectors (class members
//! with optional modifiers), TLC's near-miss sibling lists, and patterns cut from corpus files.
use crate::c03::render_list;
use crate::c19::all_nodes;
use crate::cli::{self, byte_ranges, json_lines, run_sgv};
use crate::mrec::{self, LEVELS};
use crate::util::{self, NdWriter, Rng};
use ast_grep_core::{Language, Pattern};
use ast_grep_language::SupportLang;
use serde_json::{json, Value};
use std::panic::{catch_unwind, AssertUnwindSafe};

struct Case {
  id: String,
  lang: SupportLang,
  ext: String,
  pattern: String,
  src: String,
  /// Some(kind): `pattern` is a context and the pattern proper is the first node of that kind in it
  selector: Option<String>,
  extra: Value,
}

fn ranges_json(v: &[(usize, usize)]) -> Value {
  json!(v.iter().map(|(s, e)| json!([s, e])).collect::<Vec<_>>())
}

fn ext_of(l: SupportLang) -> &'static str {
  use SupportLang::*;
  match l {
    Bash => "sh", C => "c", Cpp => "cpp", CSharp => "cs", Css => "css", Elixir => "ex", Go => "go", Haskell => "hs",
    Html => "html", Java => "java", JavaScript => "js", Json => "json", Kotlin => "kt", Lua => "lua", Php => "php",
    Python => "py", Ruby => "rb", Rust => "rs", Scala => "scala", Swift => "swift", Tsx => "tsx", TypeScript => "ts", Yaml => "yml",
  }
}

fn run_case(c: &Case, scratch: &str, idx: usize) -> Vec<Value> {
  let dir = format!("{scratch}/c{idx}");
  std::fs::create_dir_all(&dir).unwrap();
  let file = format!("t.{}", c.ext);
  std::fs::write(format!("{dir}/{file}"), &c.src).unwrap();
  let lname = util::lang_name(c.lang);
  let mut out = vec![];
  let built = catch_unwind(AssertUnwindSafe(|| match &c.selector {
    None => Pattern::try_new(&c.pattern, c.lang),
    Some(k) => Pattern::contextual(&c.pattern, k, c.lang),
  }));
  let Ok(Ok(base)) = built else {
    let _ = std::fs::remove_dir_all(&dir);
    return out;
  };
  let g = c.lang.ast_grep(&c.src);
  for lv in LEVELS {
    let pat = base.clone().with_strictness(mrec::strictness(lv));
    let lib = catch_unwind(AssertUnwindSafe(|| {
      g.root().find_all(&pat).map(|m| (m.range().start, m.range().end)).collect::<Vec<_>>()
    }));
    let Ok(lib) = lib else { continue };
    let fixed = pat.fixed_string().to_string();
    let parg = format!("--pattern={}", c.pattern); // a pattern may start with `-`
    let mut a1 = vec!["run", &parg, "-l", &lname, "--strictness", lv, "--json=stream"];
    if let Some(k) = &c.selector {
      a1.push("--selector");
      a1.push(k);
    }
    let mut a2 = a1.clone();
    a1.push(&file);
    a2.push("--stdin");
    let rf = run_sgv(&a1, &dir, None, 20, &[]);
    let rs = run_sgv(&a2, &dir, Some(&c.src), 20, &[]);
    let rule = match &c.selector {
      None => json!({"id": "r", "language": lname, "rule": {"pattern": {"context": c.pattern, "strictness": lv}}}),
      Some(k) => json!({"id": "r", "language": lname, "rule": {"pattern": {"context": c.pattern, "selector": k, "strictness": lv}}}),
    }
    .to_string();
    let sf = run_sgv(&["scan", "--inline-rules", &rule, "--json=stream", &file], &dir, None, 20, &[]);
    let ss = run_sgv(&["scan", "--inline-rules", &rule, "--json=stream", "--stdin"], &dir, Some(&c.src), 20, &[]);
    let mut rec = json!({
      "id": c.id, "lang": lname, "pattern": c.pattern, "selector": c.selector.clone().unwrap_or_default(), "src": c.src, "s": lv,
      "lib": ranges_json(&lib),
      "run_file": ranges_json(&byte_ranges(&json_lines(&rf.stdout))),
      "run_stdin": ranges_json(&byte_ranges(&json_lines(&rs.stdout))),
      "scan_file": ranges_json(&byte_ranges(&json_lines(&sf.stdout))),
      "scan_stdin": ranges_json(&byte_ranges(&json_lines(&ss.stdout))),
      "codes": [rf.code, rs.code, sf.code, ss.code],
      "fixed": fixed, "fixed_present": fixed.is_empty() || c.src.contains(&fixed),
    });
    if let Value::Object(m) = &c.extra {
      for (k, v) in m {
        rec[k] = v.clone();
      }
    }
    out.push(rec);
  }
  let _ = std::fs::remove_dir_all(&dir);
  out
}

fn strs(v: &Value) -> Vec<String> {
  v.as_array().unwrap().iter().map(|x| x.as_str().unwrap().to_string()).collect()
}

pub fn drive(pf_vectors: Option<&str>, near_vectors: Option<&str>, corpus: &str, seed: u64, out: &str, thorough: bool) {
  std::panic::set_hook(Box::new(|_| {}));
  let mut rng = Rng::new(seed ^ 0xC01);
  let mut cases: Vec<Case> = vec![];
  let js = SupportLang::JavaScript;
  if let Some(v) = pf_vectors {
    for (i, v) in util::read_ndjson(v).iter().enumerate() {
      let mods = |m: &Value| {
        let b: Vec<bool> = m.as_array().unwrap().iter().map(|x| x.as_bool().unwrap()).collect();
        format!("{}{}", if b[0] { "static " } else { "" }, if b[1] { "async " } else { "" })
      };
      let pattern = format!("class A {{ {}{}() {{}} }}", mods(&v["mp"]), v["pname"].as_str().unwrap());
      let src = format!("class A {{ {}{}() {{}} }}\n", mods(&v["ms"]), v["sname"].as_str().unwrap());
      cases.push(Case { id: format!("pf{i}"), lang: js, ext: "js".into(), pattern, src, selector: None, extra: json!({"mode": "prefilter", "hide": v["hide"]}) });
    }
  }
  if let Some(v) = near_vectors {
    let all = util::read_ndjson(v);
    let want = if thorough { 400 } else { 60 };
    let step = (all.len() / want).max(1);
    for (i, v) in all.iter().enumerate().filter(|(i, _)| i % step == 0) {
      let (cs, gs) = (strs(&v["cs"]), strs(&v["gs"]));
      // two statements so that the file holds several candidate nodes
      let src = format!("{};\nfoo({});\n", render_list(&cs), render_list(&cs));
      cases.push(Case { id: format!("near{i}"), lang: js, ext: "js".into(), pattern: render_list(&gs), src, selector: None, extra: json!({"mode": "near"}) });
    }
  }
  // files without any token: only white space, only a comment, only a line break - their root node is still a node
  // that a pattern can match (`$$$` matches the empty statement list)
  for (k, src) in ["\n", "  \n\n\t\n", " ", "// only a comment\n", "\u{feff}\n"].iter().enumerate() {
    for (j, pattern) in ["$$$", "$$$A"].iter().enumerate() {
      cases.push(Case { id: format!("blank{k}-{j}"), lang: js, ext: "js".into(), pattern: pattern.to_string(), src: src.to_string(), selector: None, extra: json!({"mode": "near"}) });
    }
  }
  let per_file = if thorough { 6 } else { 1 };
  for (l, path, text) in util::corpus(corpus) {
    if l == SupportLang::Html {
      continue; // injected documents are C18's concern
    }
    let g = l.ast_grep(&text);
    let sites: Vec<_> = all_nodes(&g)
      .into_iter()
      .filter(|n| {
        let t = n.get_ts_node();
        n.is_named() && t.child_count() >= 2 && !mrec::has_error_or_missing(&t) && n.text().len() < 120 && !n.text().contains('$') && !n.text().contains('\n')
      })
      .collect();
    if sites.is_empty() || (!thorough && !path.ends_with(&format!("a.{}", ext_of(l)))) {
      continue;
    }
    for k in 0..per_file {
      let site = rng.pick(&sites).clone();
      let kids: Vec<_> = site.children().filter(|c| c.is_named()).collect();
      let text_site = site.text().to_string();
      let pattern = if !kids.is_empty() && k % 2 == 0 {
        let kid = rng.pick(&kids);
        let (s, e) = (kid.range().start - site.range().start, kid.range().end - site.range().start);
        format!("{}$V{}", &text_site[..s], &text_site[e..])
      } else {
        text_site
      };
      cases.push(Case { id: format!("{path}#{k}"), lang: l, ext: ext_of(l).into(), pattern: pattern.clone(), src: text.clone(), selector: None, extra: json!({"mode": "corpus"}) });
      // the same pattern left inside the text of its parent, selected by kind (contextual pattern)
      if let Some(par) = site.parent() {
        let pt = par.text().to_string();
        if pt.len() < 200 && !pt.contains('$') && !pt.contains('\n') && par.range() != site.range() && !mrec::has_error_or_missing(&par.get_ts_node()) {
          let (s0, e0) = (site.range().start - par.range().start, site.range().end - par.range().start);
          let context = format!("{}{}{}", &pt[..s0], pattern, &pt[e0..]);
          cases.push(Case { id: format!("{path}#{k}ctx"), lang: l, ext: ext_of(l).into(), pattern: context, src: text.clone(),
                            selector: Some(site.kind().to_string()), extra: json!({"mode": "corpus"}) });
        }
      }
    }
  }
  let scratch = format!("/var/tmp/agv-c01-{}", std::process::id());
  std::fs::create_dir_all(&scratch).unwrap();
  let results = cli::par_map(&cases, 12, |i, c| run_case(c, &scratch, i));
  let _ = std::fs::remove_dir_all(&scratch);
  let mut w = NdWriter::new(out);
  let mut langs = std::collections::BTreeSet::new();
  for rs in &results {
    for r in rs {
      langs.insert(r["lang"].as_str().unwrap().to_string());
      // the (large) corpus source is not needed by the judge
      let mut r = r.clone();
      if r["mode"] == "corpus" {
        r["src"] = json!("");
      }
      w.put(&r);
    }
  }
  let n = w.finish();
  util::summary(json!({"records": n, "cases": cases.len(), "cli_runs": n * 4, "languages": langs}));
}
