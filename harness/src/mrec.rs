//! Match records shared by C02 / C03 (/ C04): the real Pattern (as a table of PatternNode), the real
//! candidate subtree (raw projection) and the real outcome of Pattern::match_node at each strictness.
use crate::proj::{self, N};
use crate::util;
use ast_grep_core::matcher::PatternNode;
use ast_grep_core::meta_var::MetaVariable;
use ast_grep_core::matcher::MatcherExt;
use ast_grep_core::{Matcher, MatchStrictness, Pattern};
use ast_grep_language::SupportLang;
use serde_json::{json, Map, Value};
use std::panic::{catch_unwind, AssertUnwindSafe};

pub const LEVELS: [&str; 5] = ["cst", "smart", "ast", "relaxed", "signature"];

pub fn strictness(s: &str) -> MatchStrictness {
  s.parse().unwrap()
}

fn mv_json(m: &MetaVariable) -> Value {
  match m {
    MetaVariable::Capture(n, named) => json!({"ty": "capture", "name": n, "named": named}),
    MetaVariable::Dropped(named) => json!({"ty": "dropped", "name": "", "named": named}),
    MetaVariable::Multiple => json!({"ty": "multiple", "name": "", "named": false}),
    MetaVariable::MultiCapture(n) => json!({"ty": "multicap", "name": n, "named": false}),
  }
}

/// PatternNode -> table (preorder ids, root = 1); returns also byte-less structure only
pub fn pattern_table(p: &PatternNode) -> Vec<Value> {
  fn rec(p: &PatternNode, out: &mut Vec<Value>) -> usize {
    let id = out.len() + 1;
    let none = json!({"ty": "none", "name": "", "named": false});
    match p {
      PatternNode::MetaVar { meta_var } => {
        out.push(json!({"ty": "M", "kid": 0, "nm": false, "t": "", "mv": mv_json(meta_var), "ch": []}));
      }
      PatternNode::Terminal { text, is_named, kind_id } => {
        out.push(json!({"ty": "T", "kid": kind_id, "nm": is_named, "t": text, "mv": none, "ch": []}));
      }
      PatternNode::Internal { kind_id, children } => {
        out.push(json!({"ty": "I", "kid": kind_id, "nm": true, "t": "", "mv": none, "ch": []}));
        let mut ch = vec![];
        for c in children {
          ch.push(rec(c, out));
        }
        out[id - 1]["ch"] = json!(ch);
      }
    }
    id
  }
  let mut out = vec![];
  rec(p, &mut out);
  out
}

pub fn slim_table(p: &proj::Projection) -> Vec<Value> {
  p.nodes
    .iter()
    .map(|n| json!({"kid": n.kid, "nm": n.nm, "cm": n.cm, "t": n.t, "p": n.p, "ch": n.ch, "s": n.s, "e": n.e}))
    .collect()
}

/// outcome of pattern.match_node(cand) with ids relative to projection `p` (of the candidate subtree)
pub fn outcome(pattern: &Pattern<SupportLang>, cand: &N, p: &proj::Projection) -> Value {
  let r = catch_unwind(AssertUnwindSafe(|| {
    let m = pattern.match_node(cand.clone());
    let len = pattern.get_match_len(cand.clone());
    (m, len)
  }));
  match r {
    Err(_) => json!({"ok": false, "panic": true, "single": {}, "multi": {}, "len": -1}),
    Ok((None, len)) => json!({"ok": false, "panic": false, "single": {}, "multi": {}, "len": len.map(|l| l as i64).unwrap_or(-1)}),
    Ok((Some(nm), len)) => {
      let env = nm.get_env();
      let mut single = Map::new();
      let mut multi = Map::new();
      for v in env.get_matched_variables() {
        match v {
          MetaVariable::Capture(name, _) => {
            if let Some(n) = env.get_match(&name) {
              single.insert(name.clone(), json!(p.id_of(n)));
            }
          }
          MetaVariable::MultiCapture(name) => {
            let ns = env.get_multiple_matches(&name);
            multi.insert(name.clone(), json!(ns.iter().map(|n| p.id_of(n)).collect::<Vec<_>>()));
          }
          _ => {}
        }
      }
      json!({"ok": true, "panic": false, "single": single, "multi": multi,
             "len": len.map(|l| l as i64).unwrap_or(-1)})
    }
  }
}

/// one record: pattern text parsed in `lang`, matched against `cand` at all five levels
pub fn match_record(
  id: &str,
  lang: SupportLang,
  pattern_text: &str,
  cand: &N,
  extra: Value,
) -> Option<Value> {
  let base = catch_unwind(AssertUnwindSafe(|| Pattern::try_new(pattern_text, lang))).ok()?.ok()?;
  let p = proj::project(cand, true);
  let pt = pattern_table(&base.node);
  let mut outs = Map::new();
  for lv in LEVELS {
    let pat = base.clone().with_strictness(strictness(lv));
    outs.insert(lv.to_string(), outcome(&pat, cand, &p));
  }
  let mut rec = json!({
    "id": id, "lang": util::lang_name(lang), "pattern": pattern_text,
    "cand": cand.text().chars().take(300).collect::<String>(),
    "PT": pt, "T": slim_table(&p), "outs": outs,
  });
  if let Value::Object(m) = extra {
    for (k, v) in m {
      rec[k] = v;
    }
  }
  Some(rec)
}

pub fn has_error_or_missing(n: &tree_sitter::Node) -> bool {
  if n.is_error() || n.is_missing() {
    return true;
  }
  (0..n.child_count()).any(|i| n.child(i).map(|c| has_error_or_missing(&c)).unwrap_or(false))
}
