//! Match records shared by C02 / C03 (/ C04): the real Pattern (as a table of PatternNode), the real
//! candidate subtree (raw projection) and the real outcome of Pattern::match_node at each strictness.
use crate::proj::{self, N};
use crate::util;
use ast_grep_core::matcher::PatternNode;
use ast_grep_core::meta_var::MetaVariable;
use ast_grep_core::matcher::MatcherExt;
use ast_grep_core::{Matcher, MatchStrictness, Pattern};
use ast_grep_language::SupportLang;
use serde_json::{json, Map, Value};
use std::panic::{catch_unwind, AssertUnwindSafe};

pub const LEVELS: [&str; 5] = ["cst", "smart", "ast", "relaxed", "signature"];

pub fn strictness(s: &str) -> MatchStrictness {
  s.parse().unwrap()
}

fn mv_json(m: &MetaVariable) -> Value {
  match m {
    MetaVariable::Capture(n, named) => json!({"ty": "capture", "name": n, "named": named}),
    MetaVariable::Dropped(named) => json!({"ty": "dropped", "name": "", "named": named}),
    MetaVariable::Multiple => json!({"ty": "multiple", "name": "", "named": false}),
    MetaVariable::MultiCapture(n) => json!({"ty": "multicap", "name": n, "named": false}),
  }
}

/// PatternNode -> table (preorder ids, root = 1); returns also byte-less structure only
pub fn pattern_table(p: &PatternNode) -> Vec<Value> {
  fn rec(p: &PatternNode, out: &mut Vec<Value>) -> usize {
    let id = out.len() + 1;
    let none = json!({"ty": "none", "name": "", "named": false});
    match p {
      PatternNode::MetaVar { meta_var } => {
        out.push(json!({"ty": "M", "kid": 0, "nm": false, "t": "", "mv": mv_json(meta_var), "ch": []}));
      }
      PatternNode::Terminal { text, is_named, kind_id } => {
        out.push(json!({"ty": "T", "kid": kind_id, "nm": is_named, "t": text, "mv": none, "ch": []}));
      }
      PatternNode::Internal { kind_id, children } => {
        out.push(json!({"ty": "I", "kid": kind_id, "nm": true, "t": "", "mv": none, "ch": []}));
        let mut ch = vec![];
        for c in children {
          ch.push(rec(c, out));
        }
        out[id - 1]["ch"] = json!(ch);
      }
    }
    id
  }
  let mut out = vec![];
  rec(p, &mut out);
  out
}

/// `src` = the text the byte offsets of the projection refer to.  `t` is the text of leaves and of named nodes without
/// named children (any length) and, for the other nodes, their whole text when it is short; `tk` says whether `t` is
/// the node's whole text (a pattern token is compared with the whole text of whatever candidate it stands against).
pub fn slim_table(p: &proj::Projection, src: &str) -> Vec<Value> {
  p.nodes
    .iter()
    .map(|n| {
      let own = n.ch.iter().all(|c| !p.nodes[c - 1].nm);
      let (t, tk) = if own {
        (n.t.clone(), true)
      } else if n.e - n.s <= 160 && src.is_char_boundary(n.s) && src.is_char_boundary(n.e) {
        (src[n.s..n.e].to_string(), true)
      } else {
        (String::new(), false)
      };
      json!({"kid": n.kid, "nm": n.nm, "cm": n.cm, "t": t, "tk": tk, "p": n.p, "ch": n.ch, "s": n.s, "e": n.e})
    })
    .collect()
}

/// outcome of pattern.match_node(cand) with ids relative to projection `p` (of the candidate subtree)
pub fn outcome(pattern: &Pattern<SupportLang>, cand: &N, p: &proj::Projection) -> Value {
  let r = catch_unwind(AssertUnwindSafe(|| {
    let m = pattern.match_node(cand.clone());
    let len = pattern.get_match_len(cand.clone());
    (m, len)
  }));
  match r {
    Err(_) => json!({"ok": false, "panic": true, "single": {}, "multi": {}, "len": -1}),
    Ok((None, len)) => json!({"ok": false, "panic": false, "single": {}, "multi": {}, "len": len.map(|l| l as i64).unwrap_or(-1)}),
    Ok((Some(nm), len)) => {
      let env = nm.get_env();
      let mut single = Map::new();
      let mut multi = Map::new();
      for v in env.get_matched_variables() {
        match v {
          MetaVariable::Capture(name, _) => {
            if let Some(n) = env.get_match(&name) {
              single.insert(name.clone(), json!(p.id_of(n)));
            }
          }
          MetaVariable::MultiCapture(name) => {
            let ns = env.get_multiple_matches(&name);
            multi.insert(name.clone(), json!(ns.iter().map(|n| p.id_of(n)).collect::<Vec<_>>()));
          }
          _ => {}
        }
      }
      json!({"ok": true, "panic": false, "single": single, "multi": multi,
             "len": len.map(|l| l as i64).unwrap_or(-1)})
    }
  }
}

/// The pattern text as the parser sees it, computed without the pattern code under test: `$` becomes the language's
/// expando character, the text is parsed, and the single node it parses to (of the candidate's kind)
/// is tabulated (preorder ids, root = 1): a node whose text is a meta-variable spelling is a hole, a leaf is a token,
/// anything else keeps all its children (nodes the parser invented - MISSING - aside).  None when the text does not
/// parse to such a node.
pub fn reference_table(lang: SupportLang, pattern_text: &str, kind_id: u16) -> Option<Vec<Value>> {
  reference_table_sel(lang, pattern_text, kind_id, None)
}

fn spelling(t: &str, ex: char) -> Option<Value> {
  let sig = t.chars().take_while(|c| *c == ex).count();
  let name: String = t.chars().skip(sig).collect();
  let ok_name = |n: &str| n.chars().next().map(|c| c.is_ascii_uppercase() || c == '_').unwrap_or(false)
    && n.chars().all(|c| c.is_ascii_uppercase() || c.is_ascii_digit() || c == '_');
  match sig {
    1 | 2 if ok_name(&name) => Some(if name.starts_with('_') { json!({"ty": "dropped", "name": "", "named": sig == 1}) }
                                    else { json!({"ty": "capture", "name": name, "named": sig == 1}) }),
    3 if name.is_empty() || name.starts_with('_') && ok_name(&name) => Some(json!({"ty": "multiple", "name": "", "named": false})),
    3 if ok_name(&name) => Some(json!({"ty": "multicap", "name": name, "named": false})),
    _ => None,
  }
}

fn tabulate(n: &N, ex: char, out: &mut Vec<Value>) -> usize {
  let id = out.len() + 1;
  let none = json!({"ty": "none", "name": "", "named": false});
  let t = n.text();
  if let Some(mv) = spelling(&t, ex) {
    out.push(json!({"ty": "M", "kid": 0, "nm": false, "t": "", "mv": mv, "ch": []}));
  } else if n.get_ts_node().child_count() == 0 {
    out.push(json!({"ty": "T", "kid": n.kind_id(), "nm": n.is_named(), "t": t, "mv": none, "ch": []}));
  } else {
    out.push(json!({"ty": "I", "kid": n.kind_id(), "nm": true, "t": "", "mv": none, "ch": []}));
    let mut ch = vec![];
    for c in n.children() {
      if !c.get_ts_node().is_missing() {
        ch.push(tabulate(&c, ex, out));
      }
    }
    out[id - 1]["ch"] = json!(ch);
  }
  id
}

/// `selector_at` = Some(byte offset): the text is a CONTEXT and the pattern is the node selected in it by kind -
/// the reference semantics of `selector` is "the first node of that kind in document order, the outermost of nodes
/// starting together" (a plain pre-order walk over the raw tree-sitter tree, written here without Node::find / dfs);
/// the table is produced only when that node starts at the given offset (the place the pattern was cut at).
pub fn reference_table_sel(lang: SupportLang, pattern_text: &str, kind_id: u16, selector_at: Option<usize>) -> Option<Vec<Value>> {
  use ast_grep_core::Language;
  let ex = lang.expando_char();
  let text: String = pattern_text.chars().map(|c| if c == '$' { ex } else { c }).collect();
  let g = lang.ast_grep(&text);
  let mut root = g.root();
  if let Some(at) = selector_at {
    // `$` and the expando character have the same width in every built-in language (both ASCII), offsets carry over
    fn first_of_kind<'a>(n: N<'a>, kind_id: u16) -> Option<N<'a>> {
      if n.kind_id() == kind_id {
        return Some(n);
      }
      let cnt = n.get_ts_node().child_count();
      for i in 0..cnt {
        if let Some(c) = n.child(i as usize) {
          if let Some(f) = first_of_kind(c, kind_id) {
            return Some(f);
          }
        }
      }
      None
    }
    let sel = first_of_kind(root, kind_id)?;
    if sel.range().start != at {
      return None;
    }
    let mut out = vec![];
    tabulate(&sel, ex, &mut out);
    return Some(out);
  }
  // the pattern is the single node the text parses to: from the root down while a node has exactly one child
  loop {
    let t = root.get_ts_node();
    if t.child_count() != 1 || spelling(&root.text(), ex).is_some() {
      break;
    }
    root = root.child(0)?;
  }
  if root.kind_id() != kind_id {
    return None;
  }
  let mut out = vec![];
  tabulate(&root, ex, &mut out);
  Some(out)
}

/// one record: pattern text parsed in `lang`, matched against `cand` at all five levels
pub fn match_record(
  id: &str,
  lang: SupportLang,
  pattern_text: &str,
  cand: &N,
  extra: Value,
) -> Option<Value> {
  match_record_sel(id, lang, pattern_text, None, cand, extra)
}

/// `selector` = Some((kind name, byte offset of the cut site in the context)): `pattern_text` is a context and the
/// pattern under test is Pattern::contextual(context, kind)
pub fn match_record_sel(
  id: &str,
  lang: SupportLang,
  pattern_text: &str,
  selector: Option<(&str, usize)>,
  cand: &N,
  extra: Value,
) -> Option<Value> {
  let is_cut = extra["mode"] == "cut";
  let rt = if is_cut { reference_table_sel(lang, pattern_text, cand.kind_id(), selector.map(|s| s.1)) } else { None };
  if is_cut && selector.is_some() && rt.is_none() {
    return None; // the selector does not denote the cut site in this context: not a case of the property
  }
  let p = proj::project(cand, true);
  let built = catch_unwind(AssertUnwindSafe(|| match selector {
    None => Pattern::try_new(pattern_text, lang),
    Some((kind, _)) => Pattern::contextual(pattern_text, kind, lang),
  }));
  let base = match built {
    Ok(Ok(b)) => b,
    _ => {
      // the pattern was refused: for a pattern cut from this very node that is an outcome, not a reason to skip it
      let rt = rt?;
      let no = json!({"ok": false, "panic": false, "single": {}, "multi": {}, "len": -1, "yaml": -1, "vianew": -1});
      let mut rec = json!({
        "id": id, "lang": util::lang_name(lang), "pattern": pattern_text, "cand": cand.text().chars().take(300).collect::<String>(),
        "PT": rt.clone(), "RT": rt, "nopat": true, "T": slim_table(&p, cand.root().get_text()),
        "outs": LEVELS.iter().map(|lv| (lv.to_string(), no.clone())).collect::<Map<String, Value>>(),
      });
      if let Value::Object(m) = extra {
        for (k, v) in m {
          rec[k] = v;
        }
      }
      return Some(rec);
    }
  };
  let pt = pattern_table(&base.node);
  let mut outs = Map::new();
  for lv in LEVELS {
    let pat = base.clone().with_strictness(strictness(lv));
    let mut o = outcome(&pat, cand, &p);
    // the same pattern written as the pattern OBJECT of a rule (context, selector, strictness): the rule loader builds
    // its own Pattern from the three keys; 1 = it matches the candidate, 0 = it does not, -1 = not built
    let mut obj = json!({"context": pattern_text, "strictness": lv});
    if let Some((kind, _)) = selector {
      obj["selector"] = json!(kind);
    }
    let via_rule = catch_unwind(AssertUnwindSafe(|| {
      let ser: ast_grep_config::SerializableRule = ast_grep_config::from_str(&json!({"pattern": obj}).to_string()).ok()?;
      let rule = ast_grep_config::DeserializeEnv::new(lang).deserialize_rule(ser).ok()?;
      let mut env = std::borrow::Cow::Owned(ast_grep_core::meta_var::MetaVarEnv::new());
      Some(ast_grep_core::Matcher::match_node_with_env(&rule, cand.clone(), &mut env).is_some())
    }));
    o["yaml"] = json!(match via_rule { Ok(Some(true)) => 1, Ok(Some(false)) => 0, _ => -1 });
    // ... and built by the infallible constructor `Pattern::new` (the one behind `Pattern::str`, `impl Matcher for str` and
    // the language bindings): the same pattern, whatever was compiled before it on this thread
    let via_new = if selector.is_some() { -1 } else {
      match catch_unwind(AssertUnwindSafe(|| {
        let pn = Pattern::new(pattern_text, lang).with_strictness(strictness(lv));
        let mut env = std::borrow::Cow::Owned(ast_grep_core::meta_var::MetaVarEnv::new());
        ast_grep_core::Matcher::match_node_with_env(&pn, cand.clone(), &mut env).is_some()
      })) { Ok(true) => 1, Ok(false) => 0, Err(_) => -1 }
    };
    o["vianew"] = json!(via_new);
    outs.insert(lv.to_string(), o);
  }
  let mut rec = json!({
    "id": id, "lang": util::lang_name(lang), "pattern": pattern_text,
    "cand": cand.text().chars().take(300).collect::<String>(),
    "PT": pt, "RT": rt.unwrap_or_default(), "nopat": false, "T": slim_table(&p, cand.root().get_text()), "outs": outs,
  });
  if let Value::Object(m) = extra {
    for (k, v) in m {
      rec[k] = v;
    }
  }
  Some(rec)
}

pub fn has_error_or_missing(n: &tree_sitter::Node) -> bool {
  if n.is_error() || n.is_missing() {
    return true;
  }
  (0..n.child_count()).any(|i| n.child(i).map(|c| has_error_or_missing(&c)).unwrap_or(false))
}
