//! recorder for TestRunner.tla: every test file exported by MC_TestRunner is materialised (rule, test file,
//! snapshot file in the recorded state), `sgv test` runs with the flags of the vector, then plain `sgv test`,
//! then `sgv test -U` again; marks of the summary line, exit status and snapshot bytes are recorded
use crate::cli::{self, run_sgv};
use crate::project::Project;
use crate::util::{self, NdWriter};
use serde_json::{json, Value};

fn marks_of(stdout: &str, id: &str) -> Vec<String> {
  for line in stdout.lines() {
    let line = strip_ansi(line);
    for tag in ["PASS ", "FAIL "] {
      if let Some(rest) = line.strip_prefix(tag) {
        let mut it = rest.split_whitespace();
        if it.next() == Some(id) {
          return it.next().unwrap_or("").chars().map(|c| c.to_string()).collect();
        }
      }
    }
  }
  vec![]
}

fn strip_ansi(s: &str) -> String {
  let mut out = String::new();
  let mut it = s.chars();
  while let Some(c) = it.next() {
    if c == '\u{1b}' {
      for d in it.by_ref() {
        if d.is_ascii_alphabetic() {
          break;
        }
      }
    } else {
      out.push(c);
    }
  }
  out
}

pub fn drive(vectors: &str, out: &str) {
  let all = util::read_ndjson(vectors);
  let scratch = format!("/var/tmp/agv-testrun-{}", std::process::id());
  let recs = cli::par_map(&all, 12, |i, v| {
    let p = Project::new(&format!("{scratch}/p{i}"));
    p.config(Some(&json!({"testConfigs": [{"testDir": "tests"}]})));
    p.rule("t.yml", &json!({"id": "t", "language": "JavaScript", "message": "m", "rule": {"pattern": "foo($A)"}, "fix": "bar($A)"}));
    let cases = v["cases"].as_array().unwrap();
    let text = |k: usize, c: &Value| if c["hit"] == true { format!("foo(k{k})") } else { format!("nope(k{k})") };
    let valid: Vec<String> = cases.iter().enumerate().filter(|(_, c)| c["kind"] == "valid").map(|(k, c)| text(k, c)).collect();
    let invalid: Vec<String> = cases.iter().enumerate().filter(|(_, c)| c["kind"] == "invalid").map(|(k, c)| text(k, c)).collect();
    p.write("tests/t-test.yml", serde_json::to_string(&json!({"id": "t", "valid": valid, "invalid": invalid})).unwrap().as_bytes());
    // bring the snapshot file into the recorded state: let the tool write the true snapshots, then remove / spoil entries
    let _ = run_sgv(&["test", "-U"], &p.root, None, 30, &[]);
    let snap_path = "tests/__snapshots__/t-snapshot.yml";
    let raw = String::from_utf8_lossy(&p.read(snap_path)).to_string();
    let mut y: serde_yaml::Value = serde_yaml::from_str(&raw).unwrap_or(serde_yaml::Value::Null);
    let spoiled: serde_yaml::Value = serde_yaml::from_str("{labels: [{source: stale, style: primary, start: 0, end: 5}]}").unwrap();
    if y.get("snapshots").is_none() {
      y = serde_yaml::from_str("{id: t, snapshots: {}}").unwrap();
    }
    if let Some(map) = y.get_mut("snapshots").and_then(|s| s.as_mapping_mut()) {
      for (k, c) in cases.iter().enumerate() {
        if c["kind"] != "invalid" {
          continue;
        }
        let key = serde_yaml::Value::String(text(k, c));
        match (c["snap"].as_str().unwrap(), c["hit"] == true) {
          ("absent", _) => {
            map.remove(&key);
          }
          ("same", true) => {}
          _ => {
            map.insert(key, spoiled.clone());
          }
        }
      }
    }
    p.write(snap_path, serde_yaml::to_string(&y).unwrap().as_bytes());
    // the run under observation
    let mut args = vec!["test"];
    if v["skip"] == true {
      args.push("--skip-snapshot-tests");
    }
    if v["update"] == true {
      args.push("-U");
    }
    let o1 = run_sgv(&args, &p.root, None, 30, &[]);
    let snap1 = String::from_utf8_lossy(&p.read(snap_path)).to_string();
    let o2 = run_sgv(&["test"], &p.root, None, 30, &[]);
    let o3 = run_sgv(&["test", "-U"], &p.root, None, 30, &[]);
    let snap3 = String::from_utf8_lossy(&p.read(snap_path)).to_string();
    let o4 = run_sgv(&["test"], &p.root, None, 30, &[]);
    p.remove();
    json!({"id": format!("tr{i}"), "cases": v["cases"], "skip": v["skip"], "update": v["update"],
           "marks": marks_of(&o1.stdout, "t"), "exit": o1.code, "marks2": marks_of(&o2.stdout, "t"), "exit2": o2.code,
           "marks3": marks_of(&o3.stdout, "t"), "exit3": o3.code, "marks4": marks_of(&o4.stdout, "t"), "exit4": o4.code,
           "snap_changed_by_second_update": v["update"] == true && snap1 != snap3,
           "stderr": o1.stderr.chars().take(160).collect::<String>()})
  });
  let _ = std::fs::remove_dir_all(&scratch);
  let mut w = NdWriter::new(out);
  for r in &recs {
    w.put(r);
  }
  let n = w.finish();
  util::summary(json!({"records": n}));
}
