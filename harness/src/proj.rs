//! JSON projection of real tree-sitter trees onto the node table of spec/Tree.tla.
//! Built from the raw tree-sitter node API (child(i)/kind/ranges), NOT from ast-grep's Node API,
//! so that ast-grep's navigation can be judged against it.
use ast_grep_core::{Node, StrDoc};
use ast_grep_language::SupportLang;
use serde::Serialize;
use std::collections::HashMap;

pub type N<'a> = Node<'a, StrDoc<SupportLang>>;

#[derive(Serialize, Clone, Debug, PartialEq)]
pub struct PNode {
  pub k: String,
  pub kid: u16,
  pub nm: bool,
  pub cm: bool,
  pub err: bool,
  pub miss: bool,
  pub leaf: bool,
  /// text of leaves and of named nodes without named children (what exact equality needs)
  pub t: String,
  /// parent id (0 for the root of the projection)
  pub p: usize,
  pub ch: Vec<usize>,
  pub f: String,
  pub s: usize,
  pub e: usize,
  pub sl: usize,
  pub sc: usize,
  pub el: usize,
  pub ec: usize,
}

/// key that identifies a tree-sitter node inside one tree
pub type Key = (usize, u32, u32, u16);
pub fn key_ts(n: &tree_sitter::Node) -> Key {
  (n.id(), n.start_byte(), n.end_byte(), n.kind_id())
}
pub fn key(n: &N) -> Key {
  key_ts(&n.get_ts_node())
}

pub struct Projection {
  pub nodes: Vec<PNode>,
  pub index: HashMap<Key, usize>,
}

impl Projection {
  /// id of a node handed out by ast-grep. Identity = (tree-sitter node id, byte range, kind id).
  /// tree-sitter's cursor can report a different (un-aliased) kind for the very same node after
  /// goto_previous_sibling in error-recovery trees (`let` vs `identifier`); that is the parser library
  /// disagreeing with itself, so the lookup falls back to (node id, byte range).
  pub fn id_of(&self, n: &N) -> usize {
    if let Some(i) = self.index.get(&key(n)) {
      return *i;
    }
    let k = key(n);
    self
      .index
      .iter()
      .find(|(q, _)| q.0 == k.0 && q.1 == k.1 && q.2 == k.2)
      .map(|(_, i)| *i)
      .unwrap_or(0)
  }
  pub fn ids<'a>(&self, it: impl Iterator<Item = N<'a>>) -> Vec<usize> {
    it.map(|n| self.id_of(&n)).collect()
  }
}

fn rec(
  n: tree_sitter::Node,
  field: String,
  parent: usize,
  src: &[u8],
  with_text: bool,
  out: &mut Vec<PNode>,
  index: &mut HashMap<Key, usize>,
) -> usize {
  let id = out.len() + 1;
  let kind = n.kind().to_string();
  let named_leaf = n.named_child_count() == 0;
  let t = if with_text && (n.child_count() == 0 || named_leaf) {
    n.utf8_text(src).map(|c| c.to_string()).unwrap_or_default()
  } else {
    String::new()
  };
  let sp = n.start_position();
  let ep = n.end_position();
  out.push(PNode {
    cm: kind.contains("comment"),
    k: kind,
    kid: n.kind_id(),
    nm: n.is_named(),
    err: n.is_error(),
    miss: n.is_missing(),
    leaf: n.child_count() == 0,
    t,
    p: parent,
    ch: vec![],
    f: field,
    s: n.start_byte() as usize,
    e: n.end_byte() as usize,
    sl: sp.row() as usize,
    sc: sp.column() as usize,
    el: ep.row() as usize,
    ec: ep.column() as usize,
  });
  index.entry(key_ts(&n)).or_insert(id);
  let mut cursor = n.walk();
  let mut ch = vec![];
  if cursor.goto_first_child() {
    loop {
      let f = cursor.field_name().map(|c| c.to_string()).unwrap_or_default();
      let c = cursor.node();
      ch.push(rec(c, f, id, src, with_text, out, index));
      if !cursor.goto_next_sibling() {
        break;
      }
    }
  }
  out[id - 1].ch = ch;
  id
}

pub fn project(n: &N, with_text: bool) -> Projection {
  let mut nodes = vec![];
  let mut index = HashMap::new();
  let src = n.root().get_text().as_bytes();
  rec(n.get_ts_node(), String::new(), 0, src, with_text, &mut nodes, &mut index);
  Projection { nodes, index }
}

pub fn count_nodes(n: &tree_sitter::Node) -> usize {
  let mut c = 1;
  for i in 0..n.child_count() {
    if let Some(ch) = n.child(i) {
      c += count_nodes(&ch);
    }
  }
  c
}

pub fn has_zero_width_child(n: &tree_sitter::Node) -> bool {
  (0..n.child_count()).any(|i| n.child(i).map(|c| c.start_byte() == c.end_byte()).unwrap_or(false))
}
