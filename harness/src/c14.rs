//! C14 recorder: suppression layouts (from TLC) rendered as JavaScript, scanned by the library
//! (CombinedScan::scan with the unused-suppression rule) and by `sg scan --json` in a real project.
use crate::cli::{self, json_lines, run_sgv};
use crate::project::Project;
use crate::util::{self, NdWriter};
use ast_grep_config::{from_yaml_string, CombinedScan, GlobalRules, Severity};
use ast_grep_core::Language;
use ast_grep_language::SupportLang;
use serde_json::{json, Value};

/// how an abstract layout is written down; the layout (and therefore the verdict) is the same for every skin
#[derive(Clone, Copy)]
pub struct Skin {
  pub id: usize,
  pub python: bool, // `#` comments, Python rules
  pub block: bool,  // /* ... */ comments
  pub wrap: bool,   // everything inside `function f() {` ... `}`, indented: the comments and calls are nested
  pub crlf: bool,
  pub idfmt: usize, // 0 "a, b"  1 "a,b"  2 " a ,  b "
  /// C: statements inside `void f() {`, and a line of statements that no rule matches is written as a preprocessor
  /// directive (`#define N 0`) - a node that contains its own line break and so reaches onto the next line
  pub c: bool,
  /// Rust: statements inside `fn f() {`; the grammar calls its comments `line_comment` / `block_comment`
  pub rust: bool,
}

pub const SKINS: [Skin; 11] = [
  Skin { id: 0, python: false, block: false, wrap: false, crlf: false, idfmt: 0, c: false, rust: false },
  Skin { id: 1, python: false, block: true, wrap: false, crlf: false, idfmt: 1, c: false, rust: false },
  Skin { id: 2, python: false, block: false, wrap: true, crlf: false, idfmt: 2, c: false, rust: false },
  Skin { id: 3, python: false, block: false, wrap: false, crlf: true, idfmt: 0, c: false, rust: false },
  Skin { id: 4, python: true, block: false, wrap: false, crlf: false, idfmt: 1, c: false, rust: false },
  Skin { id: 5, python: false, block: true, wrap: true, crlf: true, idfmt: 2, c: false, rust: false },
  Skin { id: 6, python: false, block: false, wrap: true, crlf: false, idfmt: 0, c: true, rust: false },
  Skin { id: 7, python: false, block: false, wrap: true, crlf: false, idfmt: 0, c: false, rust: true },
  Skin { id: 8, python: false, block: true, wrap: true, crlf: false, idfmt: 1, c: false, rust: true },
  Skin { id: 9, python: false, block: false, wrap: false, crlf: false, idfmt: 3, c: false, rust: false },
  Skin { id: 10, python: false, block: true, wrap: true, crlf: false, idfmt: 3, c: false, rust: false },
];

fn ids_text(ids: &Value, skin: &Skin) -> Option<String> {
  // the second rule of the layouts (r2) is called `r1x` in rule files and comments: the first rule's id is a proper prefix
  // of it, and a comment that lists one of them says nothing about the other
  let v: Vec<&str> = ids.as_array().unwrap().iter().map(|x| match x.as_str().unwrap() { "r2" => "r1x", o => o }).collect();
  let (open, close) = if skin.python { ("# ", "") } else if skin.block { ("/* ", " */") } else { ("// ", "") };
  if v == ["-"] {
    None
  } else if v == ["*"] {
    Some(format!("{open}ast-grep-ignore{close}"))
  } else {
    let list = match skin.idfmt {
      0 => v.join(", "),
      1 => v.join(","),
      // the list is followed by an explanation inside the comment: an id ends at the first white space
      3 => format!("{} -- see ticket 12", v.join(", ")),
      _ => format!(" {}", v.join(" ,  ")),
    };
    // (with idfmt 3 a block comment ends in `**/`: the terminator is no part of the last id either)
    let close = if skin.idfmt == 3 && skin.block { " **/" } else { close };
    Some(format!("{open}ast-grep-ignore:{}{list}{close}", if skin.idfmt == 1 { "" } else { " " }))
  }
}

fn stmt_text(rules: &Value) -> &'static str {
  let v: Vec<&str> = rules.as_array().unwrap().iter().map(|x| x.as_str().unwrap()).collect();
  match (v.contains(&"r1"), v.contains(&"r2")) {
    (true, true) => "b(0);",
    (true, false) => "a1(0);",
    (false, true) => "a2(0);",
    _ => "n(0);",
  }
}

/// the text and the number of lines put before the layout's first line
pub fn render(layout: &Value, skin: &Skin) -> (String, usize) {
  let mut out = String::new();
  let ind = if skin.wrap { "  " } else { "" };
  if skin.wrap {
    out.push_str(if skin.c { "void f() {\n" } else if skin.rust { "fn f() {\n" } else { "function f() {\n" });
  }
  for line in layout.as_array().unwrap() {
    out.push_str(ind);
    if line["kind"] == "comment" {
      out.push_str(&ids_text(&line["ids"], skin).unwrap());
    } else {
      let stmts: Vec<&str> = line["stmts"].as_array().unwrap().iter().map(stmt_text).collect();
      if skin.c && !stmts.is_empty() && stmts.iter().all(|s| *s == "n(0);") && ids_text(&line["trail"], skin).is_none() {
        out.truncate(out.len() - ind.len());
        out.push_str("#define N 0\n");
        continue;
      }
      out.push_str(&stmts.join(" "));
      if let Some(c) = ids_text(&line["trail"], skin) {
        out.push(' ');
        out.push_str(&c);
      }
    }
    out.push('\n');
  }
  if skin.wrap {
    out.push_str("}\n");
  }
  let out = if skin.crlf { out.replace('\n', "\r\n") } else { out };
  (out, if skin.wrap { 1 } else { 0 })
}

fn rules_json(lang: &str) -> Vec<Value> {
  if lang == "C" {
    // `b($$$)` on its own does not parse to a call in C: the calls are named by kind and text
    return vec![
      json!({"id": "r1", "language": lang, "severity": "warning", "message": "m1", "fix": "fixed()",
             "rule": {"kind": "call_expression", "regex": "^(a1|b)\\("}}),
      json!({"id": "r1x", "language": lang, "severity": "warning", "message": "m2",
             "rule": {"kind": "call_expression", "regex": "^(a2|b)\\("}}),
    ];
  }
  vec![
    // r1 has a fix: with separate_fix its matches travel as diffs, and must be silenced just the same
    json!({"id": "r1", "language": lang, "severity": "warning", "message": "m1", "fix": "fixed()",
           "rule": {"any": [{"pattern": "a1($$$)"}, {"pattern": "b($$$)"}]}}),
    json!({"id": "r1x", "language": lang, "severity": "warning", "message": "m2",
           "rule": {"any": [{"pattern": "a2($$$)"}, {"pattern": "b($$$)"}]}}),
  ]
}

/// (line 1-based, k = index of the call on its line, rule) for findings; comment lines for unused
fn classify(src: &str, hits: &[(String, usize, usize)], off: usize) -> (Vec<Value>, Vec<usize>) {
  let lines: Vec<&str> = src.lines().collect();
  let mut findings = vec![];
  let mut unused = vec![];
  for (rule, line0, col) in hits {
    if rule == "unused-suppression" {
      unused.push(line0 + 1 - off);
      continue;
    }
    let text = lines.get(*line0).copied().unwrap_or("");
    // statements are separated by "; " - count the calls that start before this column
    let before: String = text.chars().take(*col).collect();
    let k = before.matches(';').count() + 1;
    findings.push(json!({"line": line0 + 1 - off, "k": k, "rule": if rule == "r1x" { "r2" } else { rule.as_str() }}));
  }
  unused.sort();
  (findings, unused)
}

pub fn drive(vectors: &str, out: &str, thorough: bool) {
  std::panic::set_hook(Box::new(|_| {}));
  let mut layouts = util::read_ndjson(vectors);
  if !thorough {
    // the quick model stops at two lines; every layout is also tried behind a line of code that no rule matches
    // (what stands before a comment decides whether the comment is taken for an own-line or a trailing one)
    let neutral = json!({"kind": "code", "stmts": [[]], "trail": ["-"], "ids": ["-"]});
    let ext: Vec<Value> = layouts.iter().map(|l| {
      let mut v = vec![neutral.clone()];
      v.extend(l.as_array().unwrap().iter().cloned());
      json!(v)
    }).collect();
    layouts.extend(ext);
  }
  let globals = GlobalRules::default();
  let mk = |lang: &str| {
    let yaml = rules_json(lang).iter().map(|r| serde_json::to_string(r).unwrap()).collect::<Vec<_>>().join("\n---\n");
    from_yaml_string::<SupportLang>(&yaml, &globals).expect("rules load")
  };
  let (cfgs_js, cfgs_py, cfgs_c, cfgs_rs) = (mk("JavaScript"), mk("Python"), mk("C"), mk("Rust"));
  let scratch = format!("/var/tmp/agv-c14-{}", std::process::id());
  // CLI runs are the expensive part: every layout in thorough, a stride in quick
  let stride = (layouts.len() / if thorough { 6000 } else { 400 }).max(1);
  let mut w = NdWriter::new(out);
  let mut n_cli = 0;
  // layouts are processed in chunks and written out at once: the thorough model exports > 150 000 of them
  for (chunk_no, chunk) in layouts.chunks(4000).enumerate() {
  let base = chunk_no * 4000;
  let results = cli::par_map(chunk, 12, |k, layout| {
    let i = base + k;
    // every layout in its plain form and in one more skin, in turn
    let skins: Vec<Skin> = if i % 11 == 0 { vec![SKINS[0]] } else { vec![SKINS[0], SKINS[i % 11]] };
    let mut recs = vec![];
    for skin in &skins {
      let (src, off) = render(layout, skin);
      let lang = if skin.python { SupportLang::Python } else if skin.c { SupportLang::C } else if skin.rust { SupportLang::Rust } else { SupportLang::JavaScript };
      let cfgs = if skin.python { &cfgs_py } else if skin.c { &cfgs_c } else if skin.rust { &cfgs_rs } else { &cfgs_js };
      let unused_cfg = CombinedScan::unused_config(Severity::Hint, lang);
      let g = lang.ast_grep(&src);
      for separate_fix in [false, true] {
        let mut scan = CombinedScan::new(cfgs.iter().collect());
        scan.set_unused_suppression_rule(&unused_cfg);
        let r = std::panic::catch_unwind(std::panic::AssertUnwindSafe(|| {
          let res = scan.scan(&g, separate_fix);
          let mut hits = vec![];
          for (rule, ms) in &res.matches {
            for m in ms {
              hits.push((rule.id.clone(), m.start_pos().line(), m.start_pos().column(m.get_node())));
            }
          }
          for (rule, m) in &res.diffs {
            hits.push((rule.id.clone(), m.start_pos().line(), m.start_pos().column(m.get_node())));
          }
          hits
        }));
        let Ok(hits) = r else { continue };
        let (findings, unused) = classify(&src, &hits, off);
        recs.push(json!({"id": format!("c14v{i}s{}", skin.id), "front": if separate_fix { "lib-separate-fix" } else { "lib" }, "layout": layout, "src": src,
          "skin": skin.id, "findings": findings, "unused": unused, "outside": {"checked": false, "reports": [], "line": 0, "confined": false}}));
      }
      if i % stride == 0 {
        let p = Project::new(&format!("{scratch}/p{i}s{}", skin.id));
        p.config(None);
        // in every other project the rules are confined to src/: the file outside then has no applicable rule at all,
        // and its only comment - a suppression that silences nothing - must still be reported as unused
        let confined = (i / stride.max(1)) % 2 == 1;
        for mut r in rules_json(if skin.python { "Python" } else if skin.c { "C" } else if skin.rust { "Rust" } else { "JavaScript" }) {
          if confined {
            r["files"] = json!(["src/**"]);
          }
          p.rule(&format!("{}.yml", r["id"].as_str().unwrap()), &r);
        }
        let ext = if skin.python { "py" } else if skin.c { "c" } else if skin.rust { "rs" } else { "js" };
        let outside = if skin.python { "# ast-grep-ignore\nn(0)\n" } else if skin.c { "void g() {\n  // ast-grep-ignore\n  n(0);\n}\n" } else if skin.rust { "fn g() {\n  // ast-grep-ignore\n  n(0);\n}\n" } else { "// ast-grep-ignore\nn(0);\n" };
        p.write(&format!("scripts/x.{ext}"), outside.as_bytes());
        p.write(if skin.python { "src/t.py" } else if skin.c { "src/t.c" } else if skin.rust { "src/t.rs" } else { "src/t.js" }, src.as_bytes());
        let o = run_sgv(&["scan", "--json=stream"], &p.root, None, 20, &[]);
        let outside_reports: Vec<Value> = json_lines(&o.stdout).iter().filter(|v| v["file"].as_str().unwrap_or("").contains("scripts/x."))
          .map(|v| json!([v["ruleId"], v["range"]["start"]["line"]])).collect();
        let hits: Vec<(String, usize, usize)> = json_lines(&o.stdout)
          .iter()
          .filter(|v| !v["file"].as_str().unwrap_or("").contains("scripts/x."))
          .map(|v| {
            (v["ruleId"].as_str().unwrap_or("").to_string(), v["range"]["start"]["line"].as_u64().unwrap_or(0) as usize,
             v["range"]["start"]["column"].as_u64().unwrap_or(0) as usize)
          })
          .collect();
        let (findings, unused) = classify(&src, &hits, off);
        recs.push(json!({"id": format!("c14v{i}s{}", skin.id), "front": "cli", "layout": layout, "src": src, "skin": skin.id, "findings": findings, "unused": unused, "code": o.code,
          "outside": {"checked": true, "reports": outside_reports, "line": if skin.c || skin.rust { 1 } else { 0 }, "confined": confined}}));
        p.remove();
      }
    }
    recs
  });
  for rs in results {
    for r in rs {
      if r["front"] == "cli" {
        n_cli += 1;
      }
      w.put(&r);
    }
  }
  }
  let _ = std::fs::remove_dir_all(&scratch);
  let n = w.finish();
  util::summary(json!({"records": n, "layouts": layouts.len(), "cli_runs": n_cli}));
}
