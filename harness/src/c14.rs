//! C14 recorder: suppression layouts (from TLC) rendered as JavaScript, scanned by the library
//! (CombinedScan::scan with the unused-suppression rule) and by `sg scan --json` in a real project.
use crate::cli::{self, json_lines, run_sgv};
use crate::project::Project;
use crate::util::{self, NdWriter};
use ast_grep_config::{from_yaml_string, CombinedScan, GlobalRules, Severity};
use ast_grep_core::Language;
use ast_grep_language::SupportLang;
use serde_json::{json, Value};

fn ids_text(ids: &Value) -> Option<String> {
  let v: Vec<&str> = ids.as_array().unwrap().iter().map(|x| x.as_str().unwrap()).collect();
  if v == ["-"] {
    None
  } else if v == ["*"] {
    Some("// ast-grep-ignore".to_string())
  } else {
    Some(format!("// ast-grep-ignore: {}", v.join(", ")))
  }
}

fn stmt_text(rules: &Value) -> &'static str {
  let v: Vec<&str> = rules.as_array().unwrap().iter().map(|x| x.as_str().unwrap()).collect();
  match (v.contains(&"r1"), v.contains(&"r2")) {
    (true, true) => "b(0);",
    (true, false) => "a1(0);",
    (false, true) => "a2(0);",
    _ => "n(0);",
  }
}

pub fn render(layout: &Value) -> String {
  let mut out = String::new();
  for line in layout.as_array().unwrap() {
    if line["kind"] == "comment" {
      out.push_str(&ids_text(&line["ids"]).unwrap());
    } else {
      let stmts: Vec<&str> = line["stmts"].as_array().unwrap().iter().map(stmt_text).collect();
      out.push_str(&stmts.join(" "));
      if let Some(c) = ids_text(&line["trail"]) {
        out.push(' ');
        out.push_str(&c);
      }
    }
    out.push('\n');
  }
  out
}

fn rules_json() -> Vec<Value> {
  vec![
    json!({"id": "r1", "language": "JavaScript", "severity": "warning", "message": "m1",
           "rule": {"any": [{"pattern": "a1($$$)"}, {"pattern": "b($$$)"}]}}),
    json!({"id": "r2", "language": "JavaScript", "severity": "warning", "message": "m2",
           "rule": {"any": [{"pattern": "a2($$$)"}, {"pattern": "b($$$)"}]}}),
  ]
}

/// (line 1-based, k = index of the call on its line, rule) for findings; comment lines for unused
fn classify(src: &str, hits: &[(String, usize, usize)]) -> (Vec<Value>, Vec<usize>) {
  let lines: Vec<&str> = src.lines().collect();
  let mut findings = vec![];
  let mut unused = vec![];
  for (rule, line0, col) in hits {
    if rule == "unused-suppression" {
      unused.push(line0 + 1);
      continue;
    }
    let text = lines.get(*line0).copied().unwrap_or("");
    // statements are separated by "; " - count the calls that start before this column
    let before: String = text.chars().take(*col).collect();
    let k = before.matches(';').count() + 1;
    findings.push(json!({"line": line0 + 1, "k": k, "rule": rule}));
  }
  unused.sort();
  (findings, unused)
}

pub fn drive(vectors: &str, out: &str, thorough: bool) {
  std::panic::set_hook(Box::new(|_| {}));
  let layouts = util::read_ndjson(vectors);
  let globals = GlobalRules::default();
  let yaml = rules_json().iter().map(|r| serde_json::to_string(r).unwrap()).collect::<Vec<_>>().join("\n---\n");
  let cfgs = from_yaml_string::<SupportLang>(&yaml, &globals).expect("rules load");
  let unused_cfg = CombinedScan::unused_config(Severity::Hint, SupportLang::JavaScript);
  let scratch = format!("/var/tmp/agv-c14-{}", std::process::id());
  // CLI runs are the expensive part: every layout in thorough, a stride in quick
  let stride = if thorough { 1 } else { (layouts.len() / 400).max(1) };
  let results = cli::par_map(&layouts, 12, |i, layout| {
    let src = render(layout);
    let g = SupportLang::JavaScript.ast_grep(&src);
    let mut recs = vec![];
    for separate_fix in [false, true] {
      let mut scan = CombinedScan::new(cfgs.iter().collect());
      scan.set_unused_suppression_rule(&unused_cfg);
      let r = std::panic::catch_unwind(std::panic::AssertUnwindSafe(|| {
        let res = scan.scan(&g, separate_fix);
        let mut hits = vec![];
        for (rule, ms) in &res.matches {
          for m in ms {
            hits.push((rule.id.clone(), m.start_pos().line(), m.start_pos().column(m.get_node())));
          }
        }
        for (rule, m) in &res.diffs {
          hits.push((rule.id.clone(), m.start_pos().line(), m.start_pos().column(m.get_node())));
        }
        hits
      }));
      let Ok(hits) = r else { continue };
      let (findings, unused) = classify(&src, &hits);
      recs.push(json!({"id": format!("c14v{i}"), "front": if separate_fix { "lib-separate-fix" } else { "lib" }, "layout": layout, "src": src,
        "findings": findings, "unused": unused}));
    }
    if i % stride == 0 {
      let p = Project::new(&format!("{scratch}/p{i}"));
      p.config(None);
      for r in rules_json() {
        p.rule(&format!("{}.yml", r["id"].as_str().unwrap()), &r);
      }
      p.write("src/t.js", src.as_bytes());
      let o = run_sgv(&["scan", "--json=stream"], &p.root, None, 20, &[]);
      let hits: Vec<(String, usize, usize)> = json_lines(&o.stdout)
        .iter()
        .map(|v| {
          (v["ruleId"].as_str().unwrap_or("").to_string(), v["range"]["start"]["line"].as_u64().unwrap_or(0) as usize,
           v["range"]["start"]["column"].as_u64().unwrap_or(0) as usize)
        })
        .collect();
      let (findings, unused) = classify(&src, &hits);
      recs.push(json!({"id": format!("c14v{i}"), "front": "cli", "layout": layout, "src": src, "findings": findings, "unused": unused, "code": o.code}));
      p.remove();
    }
    recs
  });
  let _ = std::fs::remove_dir_all(&scratch);
  let mut w = NdWriter::new(out);
  let mut n_cli = 0;
  for rs in results {
    for r in rs {
      if r["front"] == "cli" {
        n_cli += 1;
      }
      w.put(&r);
    }
  }
  let n = w.finish();
  util::summary(json!({"records": n, "layouts": layouts.len(), "cli_runs": n_cli}));
}
