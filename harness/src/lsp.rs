//! A minimal JSON-RPC client that talks to the real ast-grep language server in-process
//! (tower-lsp LspService over in-memory duplex streams).  It records every message with a sequence
//! number, answers the server's own requests (workspace/workspaceFolders, workspace/applyEdit) with a
//! configurable delay, and can wait for quiescence.
use ast_grep_config::{from_yaml_string, GlobalRules, RuleCollection};
use ast_grep_language::SupportLang;
use ast_grep_lsp::{Backend, LspService, Server};
use serde_json::{json, Value};
use std::collections::HashMap;
use std::sync::atomic::{AtomicU64, Ordering};
use std::sync::{Arc, Mutex};
use std::time::{Duration, Instant};
use tokio::io::{duplex, AsyncReadExt, AsyncWriteExt, DuplexStream};

#[derive(Default)]
pub struct Log {
  pub events: Vec<Value>, // {seq, dir: "in"|"out", msg}
  pub responses: HashMap<u64, Value>,
  pub last_activity: Option<Instant>,
  pub pending_server_requests: usize,
}

pub struct Session {
  pub rt: tokio::runtime::Runtime,
  writer: Arc<tokio::sync::Mutex<DuplexStream>>,
  pub log: Arc<Mutex<Log>>,
  seq: Arc<AtomicU64>,
  next_id: AtomicU64,
  pub base: String,
}

fn frame(v: &Value) -> Vec<u8> {
  let body = serde_json::to_string(v).unwrap();
  format!("Content-Length: {}\r\n\r\n{}", body.len(), body).into_bytes()
}

impl Session {
  /// rules: YAML documents; base: workspace root (absolute); folder_delay_ms: how long the client waits before
  /// answering the server's workspace/workspaceFolders request
  pub fn start(rules_yaml: &str, base: &str, folder_delay_ms: u64, threads: usize) -> Session {
    // the lsp_handler_done hook events of this process go to one file; sessions are told apart by their URIs,
    // so every session gets its own workspace directory name
    static NEXT: AtomicU64 = AtomicU64::new(0);
    if std::env::var("AST_GREP_VERIF_TRACE").is_err() {
      let f = hook_file();
      let _ = std::fs::remove_file(&f);
      std::env::set_var("AST_GREP_VERIF_TRACE", &f);
    }
    let base = &format!("{base}-s{}", NEXT.fetch_add(1, Ordering::SeqCst));
    let rt = tokio::runtime::Builder::new_multi_thread().worker_threads(threads.max(1)).enable_all().build().unwrap();
    let globals = GlobalRules::default();
    let rules = from_yaml_string::<SupportLang>(rules_yaml, &globals).map_err(|e| format!("{e:?}"));
    let rc = rules.and_then(|r| RuleCollection::try_new(r).map_err(|e| format!("{e:?}")));
    let base_path = std::path::PathBuf::from(base);
    let (service, socket) = LspService::build(|client| Backend::new(client, base_path, rc)).finish();
    let (req_client, req_server) = duplex(1 << 20);
    let (resp_server, mut resp_client) = duplex(1 << 20);
    let log = Arc::new(Mutex::new(Log::default()));
    let seq = Arc::new(AtomicU64::new(0));
    let writer = Arc::new(tokio::sync::Mutex::new(req_client));
    rt.spawn(Server::new(req_server, resp_server, socket).serve(service));
    // reader
    let (l2, s2, w2) = (log.clone(), seq.clone(), writer.clone());
    let base2 = base.to_string();
    rt.spawn(async move {
      let mut buf: Vec<u8> = vec![];
      let mut chunk = vec![0u8; 65536];
      loop {
        let Ok(n) = resp_client.read(&mut chunk).await else { break };
        if n == 0 {
          break;
        }
        buf.extend_from_slice(&chunk[..n]);
        loop {
          let Some(hdr_end) = buf.windows(4).position(|w| w == b"\r\n\r\n") else { break };
          let header = String::from_utf8_lossy(&buf[..hdr_end]).to_string();
          let len: usize = header.lines().find_map(|l| l.strip_prefix("Content-Length: ").and_then(|v| v.trim().parse().ok())).unwrap_or(0);
          if buf.len() < hdr_end + 4 + len {
            break;
          }
          let body: Vec<u8> = buf[hdr_end + 4..hdr_end + 4 + len].to_vec();
          buf.drain(..hdr_end + 4 + len);
          let Ok(msg) = serde_json::from_slice::<Value>(&body) else { continue };
          let n = s2.fetch_add(1, Ordering::SeqCst) + 1;
          let is_request = msg.get("method").is_some() && msg.get("id").is_some();
          {
            let mut l = l2.lock().unwrap();
            l.last_activity = Some(Instant::now());
            if msg.get("method").is_none() {
              if let Some(id) = msg["id"].as_u64() {
                l.responses.insert(id, msg.clone());
              }
            }
            if is_request {
              l.pending_server_requests += 1;
            }
            l.events.push(json!({"seq": n, "dir": "in", "msg": msg}));
          }
          if is_request {
            let (l3, s3, w3, base3) = (l2.clone(), s2.clone(), w2.clone(), base2.clone());
            let method = msg["method"].as_str().unwrap_or("").to_string();
            let id = msg["id"].clone();
            tokio::spawn(async move {
              let result = match method.as_str() {
                "workspace/workspaceFolders" => {
                  tokio::time::sleep(Duration::from_millis(folder_delay_ms)).await;
                  json!([{"uri": format!("file://{base3}"), "name": "ws"}])
                }
                "workspace/applyEdit" => json!({"applied": true}),
                _ => Value::Null,
              };
              let resp = json!({"jsonrpc": "2.0", "id": id, "result": result});
              let n = s3.fetch_add(1, Ordering::SeqCst) + 1;
              {
                let mut l = l3.lock().unwrap();
                l.events.push(json!({"seq": n, "dir": "out", "msg": resp}));
                l.pending_server_requests -= 1;
                l.last_activity = Some(Instant::now());
              }
              let mut w = w3.lock().await;
              let _ = w.write_all(&frame(&resp)).await;
            });
          }
        }
      }
    });
    let s = Session { rt, writer, log, seq, next_id: AtomicU64::new(100), base: base.to_string() };
    let caps = json!({"textDocument": {"codeAction": {"codeActionLiteralSupport": {"codeActionKind": {"valueSet": ["quickfix", "source.fixAll"]}}}},
                      "workspace": {"workspaceFolders": true, "applyEdit": true}});
    s.request("initialize", json!({"capabilities": caps, "rootUri": format!("file://{base}"), "processId": null}), 5000);
    s.notify("initialized", json!({}));
    s.wait_quiescent(80, 3000);
    s
  }

  fn send(&self, v: Value) {
    let n = self.seq.fetch_add(1, Ordering::SeqCst) + 1;
    {
      let mut l = self.log.lock().unwrap();
      l.events.push(json!({"seq": n, "dir": "out", "msg": v}));
      l.last_activity = Some(Instant::now());
    }
    let w = self.writer.clone();
    self.rt.block_on(async move {
      let mut w = w.lock().await;
      let _ = w.write_all(&frame(&v)).await;
    });
  }

  /// write several messages back to back in one write (a burst the server reads without pauses)
  pub fn send_batch(&self, vs: Vec<Value>) {
    let mut bytes = vec![];
    {
      let mut l = self.log.lock().unwrap();
      for v in &vs {
        let n = self.seq.fetch_add(1, Ordering::SeqCst) + 1;
        l.events.push(json!({"seq": n, "dir": "out", "msg": v}));
        bytes.extend_from_slice(&frame(v));
      }
      l.last_activity = Some(Instant::now());
    }
    let w = self.writer.clone();
    self.rt.block_on(async move {
      let mut w = w.lock().await;
      let _ = w.write_all(&bytes).await;
    });
  }

  pub fn notify(&self, method: &str, params: Value) {
    self.send(json!({"jsonrpc": "2.0", "method": method, "params": params}));
  }

  pub fn request(&self, method: &str, params: Value, timeout_ms: u64) -> Option<Value> {
    let id = self.next_id.fetch_add(1, Ordering::SeqCst);
    self.send(json!({"jsonrpc": "2.0", "id": id, "method": method, "params": params}));
    let t0 = Instant::now();
    loop {
      if let Some(r) = self.log.lock().unwrap().responses.remove(&id) {
        return Some(r);
      }
      if t0.elapsed() > Duration::from_millis(timeout_ms) {
        return None;
      }
      std::thread::sleep(Duration::from_millis(2));
    }
  }

  /// no message for `idle_ms` and no unanswered server request; false on timeout
  pub fn wait_quiescent(&self, idle_ms: u64, timeout_ms: u64) -> bool {
    let t0 = Instant::now();
    loop {
      {
        let l = self.log.lock().unwrap();
        let idle = l.last_activity.map(|t| t.elapsed() >= Duration::from_millis(idle_ms)).unwrap_or(true);
        if idle && l.pending_server_requests == 0 {
          return true;
        }
      }
      if t0.elapsed() > Duration::from_millis(timeout_ms) {
        return false;
      }
      std::thread::sleep(Duration::from_millis(3));
    }
  }

  /// number of document notification handlers that have run to their end for this document (hook events)
  pub fn handlers_done(&self, rel: &str) -> usize {
    let uri = self.uri(rel);
    let Ok(f) = std::env::var("AST_GREP_VERIF_TRACE") else { return 0 };
    let Ok(text) = std::fs::read_to_string(&f) else { return 0 };
    text
      .lines()
      .filter(|l| l.contains("\"lsp_handler_done\""))
      .filter_map(|l| serde_json::from_str::<Value>(l).ok())
      .filter(|v| {
        // the server reports the URI as it parsed it
        v["uri"].as_str().map(|u| u == uri || tower_lsp::lsp_types::Url::parse(&uri).map(|p| p.as_str() == u).unwrap_or(false)).unwrap_or(false)
      })
      .count()
  }

  /// wait until `n` handlers of the document have finished (deterministic, from the hook), then flush the
  /// server's outgoing messages with a request/response round trip; false on timeout
  pub fn wait_handlers(&self, rel: &str, n: usize, timeout_ms: u64) -> bool {
    let t0 = Instant::now();
    while self.handlers_done(rel) < n {
      if t0.elapsed() > Duration::from_millis(timeout_ms) {
        return false;
      }
      std::thread::sleep(Duration::from_millis(2));
    }
    let _ = self.request("workspace/executeCommand", json!({"command": "verif-barrier", "arguments": []}), 3000);
    self.wait_quiescent(15, 2000)
  }

  pub fn uri(&self, rel: &str) -> String {
    if rel.starts_with('/') {
      return format!("file://{rel}");
    }
    format!("file://{}/{}", self.base, rel)
  }
  pub fn open(&self, rel: &str, lang_id: &str, version: i64, text: &str) {
    self.notify("textDocument/didOpen", json!({"textDocument": {"uri": self.uri(rel), "languageId": lang_id, "version": version, "text": text}}));
  }
  pub fn change(&self, rel: &str, version: i64, text: &str) {
    self.notify("textDocument/didChange", json!({"textDocument": {"uri": self.uri(rel), "version": version}, "contentChanges": [{"text": text}]}));
  }
  pub fn close(&self, rel: &str) {
    self.notify("textDocument/didClose", json!({"textDocument": {"uri": self.uri(rel)}}));
  }
  /// all publishDiagnostics received so far for a document, in order: (seq, version, diagnostics)
  pub fn published(&self, rel: &str) -> Vec<(u64, i64, Vec<Value>)> {
    let uri = self.uri(rel);
    self.log.lock().unwrap().events.iter().filter_map(|e| {
      let m = &e["msg"];
      if e["dir"] == "in" && m["method"] == "textDocument/publishDiagnostics" && m["params"]["uri"] == uri.as_str() {
        Some((e["seq"].as_u64().unwrap(), m["params"]["version"].as_i64().unwrap_or(-1), m["params"]["diagnostics"].as_array().cloned().unwrap_or_default()))
      } else {
        None
      }
    }).collect()
  }
  pub fn events(&self) -> Vec<Value> {
    self.log.lock().unwrap().events.clone()
  }
  pub fn shutdown(self) {
    self.rt.shutdown_timeout(Duration::from_millis(200));
  }
}

pub fn hook_file() -> String {
  format!("/var/tmp/agv-lsp-hook-{}.ndjson", std::process::id())
}

/// (line, character) in characters -> byte offset
pub fn offset_of(text: &str, line: u64, character: u64) -> usize {
  let mut off = 0usize;
  for (i, l) in text.split_inclusive('\n').enumerate() {
    if i as u64 == line {
      return off + l.chars().take(character as usize).map(|c| c.len_utf8()).sum::<usize>();
    }
    off += l.len();
  }
  off
}
