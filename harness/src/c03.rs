//! C02 / C03 drivers: TLC's abstract sibling lists rendered as JavaScript arrays, and holes cut
//! textually in corpus files of all 23 languages.  Outcomes are judged by Trace_Match.tla.
use crate::c19::{all_nodes, G};
use crate::mrec::{self, match_record};
use crate::proj::{self, N};
use crate::util::{self, NdWriter, Rng};
use ast_grep_core::Language;
use ast_grep_language::SupportLang;
use serde_json::{json, Value};

fn strs(v: &Value) -> Vec<String> {
  v.as_array().unwrap().iter().map(|x| x.as_str().unwrap().to_string()).collect()
}

fn sym_text(s: &str) -> &str {
  match s {
    "cm" => "/*c*/",
    "Na" => "[a]",
    "Nab" => "[a, b]",
    "N$A" => "[$A]",
    "N$$$" => "[$$$]",
    x => x,
  }
}

/// render a symbol list as the inside of a JS array; explicit "," symbols are extra commas
pub fn render_list(syms: &[String]) -> String {
  let mut out = String::from("[");
  let mut need_sep = false;
  for s in syms {
    if s == "," {
      out.push(',');
      need_sep = false;
      continue;
    }
    if need_sep && s != "cm" {
      out.push(',');
    }
    if out.len() > 1 {
      out.push(' ');
    }
    out.push_str(sym_text(s));
    if s != "cm" {
      need_sep = true;
    }
  }
  out.push(']');
  out
}

fn first_array<'a>(g: &'a G) -> Option<N<'a>> {
  all_nodes(g).into_iter().find(|n| n.kind() == "array")
}

pub fn drive_c03_vectors(vectors: &str, w: &mut NdWriter) -> usize {
  let l = SupportLang::JavaScript;
  let mut n = 0;
  for (i, v) in util::read_ndjson(vectors).iter().enumerate() {
    let (cs, gs) = (strs(&v["cs"]), strs(&v["gs"]));
    let src = render_list(&cs);
    let pat = render_list(&gs);
    let g = l.ast_grep(&src);
    let Some(arr) = first_array(&g) else { continue };
    if let Some(r) = match_record(&format!("c03v{i}"), l, &pat, &arr, json!({"mode": "near", "cs": cs, "gs": gs, "src": src})) {
      w.put(&r);
      n += 1;
    }
    // every third pair once more with the pattern left inside a context and selected by kind (`x = [..]`, selector
    // array): a contextual pattern obeys the chosen strictness like any other - also when it is written as the pattern
    // object of a rule (the `yaml` verdict of the record)
    if i % 3 == 0 {
      let context = format!("x = {pat}");
      if let Some(r) = mrec::match_record_sel(&format!("c03v{i}sel"), l, &context, Some(("array", 4)), &arr,
                                              json!({"mode": "near", "cs": cs, "gs": gs, "src": src})) {
        w.put(&r);
        n += 1;
      }
    }
  }
  n
}

pub fn drive_c02_vectors(vectors: &str, w: &mut NdWriter) -> (usize, usize) {
  let l = SupportLang::JavaScript;
  let (mut n, mut skipped) = (0, 0);
  for (i, v) in util::read_ndjson(vectors).iter().enumerate() {
    let cs = strs(&v["cs"]);
    let holes: Vec<bool> = v["holes"].as_array().unwrap().iter().map(|b| b.as_bool().unwrap()).collect();
    let tail = v["tail"].as_u64().unwrap() as usize;
    let src = render_list(&cs);
    // the pattern is cut from the symbol list the same way a user would cut the text
    let mut gs: Vec<String> = vec![];
    for (k, s) in cs.iter().enumerate() {
      if tail != 0 && k + 1 == tail {
        gs.push("$$$W".into());
        break;
      }
      gs.push(if holes[k] { format!("$V{}", k + 1) } else { s.clone() });
    }
    let pat = render_list(&gs);
    let g = l.ast_grep(&src);
    let Some(arr) = first_array(&g) else { continue };
    let p = proj::project(&arr, false);
    // ids of the abstracted elements in the real tree: the k-th non-comma symbol is the k-th
    // non-punctuation child of the array
    let elems: Vec<usize> = p.nodes[0].ch.iter().cloned().filter(|&c| p.nodes[c - 1].nm).collect();
    let named_pos: Vec<usize> = cs.iter().enumerate().filter(|(_, s)| *s != ",").map(|(k, _)| k).collect();
    if elems.len() != named_pos.len() {
      skipped += 1;
      continue;
    }
    let id_of_sym = |k: usize| elems[named_pos.iter().position(|&q| q == k).unwrap()];
    let mut hs = vec![];
    for k in 0..cs.len() {
      if holes[k] && (tail == 0 || k + 1 < tail) {
        hs.push(json!({"name": format!("V{}", k + 1), "id": id_of_sym(k)}));
      }
    }
    let tl = if tail == 0 {
      json!({"name": "", "ids": []})
    } else {
      let first = id_of_sym(tail - 1);
      let last = id_of_sym(*named_pos.last().unwrap());
      let ids: Vec<usize> = p.nodes[0].ch.iter().cloned().filter(|&c| c >= first && c <= last).collect();
      json!({"name": "W", "ids": ids})
    };
    if let Some(r) = match_record(&format!("c02v{i}"), l, &pat, &arr,
      json!({"mode": "cut", "cs": cs, "src": src, "holes": hs, "tail": tl})) {
      w.put(&r);
      n += 1;
    } else {
      skipped += 1;
    }
  }
  (n, skipped)
}

/// error-free named nodes of moderate size
fn cut_sites<'a>(g: &'a G, max_nodes: usize) -> Vec<N<'a>> {
  all_nodes(g)
    .into_iter()
    .filter(|n| {
      let t = n.get_ts_node();
      n.is_named()
        && t.child_count() >= 2
        && !mrec::has_error_or_missing(&t)
        && proj::count_nodes(&t) <= max_nodes
        && !n.text().contains('$')
        && n.parent().is_some()
    })
    .collect()
}

fn named_descendants<'a>(n: &N<'a>) -> Vec<N<'a>> {
  let mut out = vec![];
  fn rec<'a>(n: &N<'a>, out: &mut Vec<N<'a>>) {
    for c in n.children() {
      if c.is_named() && c.range().start < c.range().end {
        out.push(c.clone());
      }
      rec(&c, out);
    }
  }
  rec(n, &mut out);
  out
}

/// cut holes textually; returns (pattern text, holes [(name, node)], tail (name, nodes))
fn cut<'a>(site: &N<'a>, rng: &mut Rng, want_tail: bool) -> Option<(String, Vec<(String, N<'a>)>, Option<(String, Vec<N<'a>>)>)> {
  let descs = named_descendants(site);
  if descs.is_empty() {
    return None;
  }
  let base = site.range().start;
  let text = site.text().to_string();
  let mut spans: Vec<(usize, usize, String)> = vec![];
  let mut holes = vec![];
  let mut tail = None;
  if want_tail {
    // a parent inside the site with >= 2 named children: abstract its named children k.. to $$$W
    let mut parents: Vec<N> = descs.iter().filter(|d| d.children().filter(|c| c.is_named()).count() >= 2).cloned().collect();
    if site.children().filter(|c| c.is_named()).count() >= 2 {
      parents.push(site.clone());
    }
    if parents.is_empty() {
      return None;
    }
    let par = rng.pick(&parents).clone();
    let named: Vec<N> = par.children().filter(|c| c.is_named()).collect();
    let k = rng.below(named.len());
    let first = named[k].clone();
    let last = named[named.len() - 1].clone();
    let run: Vec<N> = par.children().filter(|c| c.range().start >= first.range().start && c.range().end <= last.range().end).collect();
    // the name of the run is spelled in turn with letters only, with a digit, with an underscore and a digit
    let tname = *rng.pick(&["W", "W2", "REST_1", "W"]);
    spans.push((first.range().start, last.range().end, format!("$$${tname}")));
    tail = Some((tname.to_string(), run));
  }
  let n_holes = 1 + rng.below(3);
  for i in 0..n_holes {
    let d = rng.pick(&descs).clone();
    let (s, e) = (d.range().start, d.range().end);
    if spans.iter().any(|(a, b, _)| s < *b && *a < e) {
      continue;
    }
    let name = format!("V{}", i + 1);
    spans.push((s, e, format!("${name}")));
    holes.push((name, d));
  }
  if holes.is_empty() && tail.is_none() {
    return None;
  }
  spans.sort();
  let mut out = String::new();
  let mut pos = base;
  for (s, e, rep) in &spans {
    out.push_str(&text[pos - base..s - base]);
    out.push_str(rep);
    pos = *e;
  }
  out.push_str(&text[pos - base..]);
  Some((out, holes, tail))
}

pub fn drive_corpus(corpus: &str, seed: u64, thorough: bool, w: &mut NdWriter) -> Value {
  let mut rng = Rng::new(seed ^ 0xC02);
  let per_file_cut = if thorough { 60 } else { 10 };
  let per_file_near = if thorough { 40 } else { 6 };
  let per_file_broken = if thorough { 40 } else { 8 };
  let per_file_ctx = if thorough { 60 } else { 12 };
  let (mut n_cut, mut n_near, mut n_self, mut n_broken, mut n_zero, mut n_ctx) = (0, 0, 0, 0, 0, 0);
  let mut langs = std::collections::BTreeSet::new();
  // one text that is code in many languages, matched by itself and by patterns cut from it, language after language on
  // this one thread: what was compiled for one language must not reach the next (same pattern TEXT, other grammar)
  for round in 0..2 {
    let shared = [SupportLang::JavaScript, SupportLang::Python, SupportLang::Ruby, SupportLang::Lua, SupportLang::TypeScript, SupportLang::Kotlin,
                  SupportLang::Swift, SupportLang::Go, SupportLang::Tsx, SupportLang::Php];
    let order: Vec<SupportLang> = if round == 0 { shared.to_vec() } else { shared.iter().rev().cloned().collect() };
    for l in order {
      let src = if l == SupportLang::Php { "<?php foo(a, b, c);\n" } else if l == SupportLang::Go { "package m\nfunc f() { foo(a, b, c) }\n" } else { "foo(a, b, c)\n" };
      let g = l.ast_grep(src);
      let Some(site) = all_nodes(&g).into_iter().filter(|n| n.text() == "foo(a, b, c)" && n.is_named()).last() else { continue };
      if let Some(r) = match_record(&format!("shared-{}-{round}#self", util::lang_name(l)), l, "foo(a, b, c)", &site,
        json!({"mode": "cut", "holes": [], "tail": {"name": "", "ids": []}})) {
        w.put(&r);
        n_self += 1;
      }
      for (k, pat) in ["foo($X, b, $Y)", "$F(a, $$$REST)", "foo(a, /* c */ b, c)"].iter().enumerate() {
        if let Some(r) = match_record(&format!("shared-{}-{round}#near{k}", util::lang_name(l)), l, pat, &site, json!({"mode": "near"})) {
          w.put(&r);
          n_near += 1;
        }
      }
    }
  }
  // code nested far deeper than any corpus site: a sum of 70 operands (left-nested 69 levels), calls nested 40 deep
  {
    let sum = (0..70).map(|i| format!("a{i}")).collect::<Vec<_>>().join(" + ");
    let mut calls = String::from("x, y");
    for _ in 0..40 {
      calls = format!("f({calls})");
    }
    for (k, (l, src, text)) in [(SupportLang::JavaScript, format!("total = {sum};\n"), sum.clone()), (SupportLang::Python, format!("{calls}\n"), calls.clone()),
                                (SupportLang::Rust, format!("fn m() {{ let t = {sum}; }}\n"), sum.clone())].iter().enumerate() {
      let g = l.ast_grep(src);
      let Some(site) = all_nodes(&g).into_iter().filter(|n| n.text() == *text && n.is_named()).last() else { continue };
      if let Some(r) = match_record(&format!("deep{k}#self"), *l, text, &site, json!({"mode": "cut", "holes": [], "tail": {"name": "", "ids": []}})) {
        w.put(&r);
        n_self += 1;
      }
    }
  }
  // ... and nothing learnt about the KINDS of one grammar either (kind numbers mean other things in the next grammar): a
  // comment of one language is examined as a skippable node, then calls of another language with one more argument -
  // a number, a float, a string, a name - are tried against `foo(bar)` at every level
  {
    let shared = [SupportLang::Tsx, SupportLang::TypeScript, SupportLang::Go, SupportLang::Python, SupportLang::JavaScript, SupportLang::Ruby,
                  SupportLang::Lua, SupportLang::Kotlin, SupportLang::Swift, SupportLang::Java, SupportLang::C, SupportLang::Rust];
    let wrap = |l: SupportLang, call: &str| -> String {
      match l {
        SupportLang::Go => format!("package m\nfunc f() {{ {call} }}\n"),
        SupportLang::Java => format!("class A {{ void m() {{ {call}; }} }}\n"),
        SupportLang::C => format!("void m() {{ {call}; }}\n"),
        SupportLang::Rust => format!("fn m() {{ {call}; }}\n"),
        _ => format!("{call}\n"),
      }
    };
    let comment_of = |l: SupportLang| match l { SupportLang::Python | SupportLang::Ruby => "foo(\n# c\nbar)", SupportLang::Lua => "foo(--[[ c ]] bar)", _ => "foo(/* c */ bar)" };
    let mut k = 0;
    for a in shared {
      for b in shared {
        if a == b {
          continue;
        }
        k += 1;
        if !thorough && k % 4 != (seed % 4) as usize && !matches!((a, b), (SupportLang::Tsx, SupportLang::TypeScript) | (SupportLang::Go, SupportLang::Python)) {
          continue;
        }
        let mut texts: Vec<(SupportLang, String)> = vec![(a, wrap(a, comment_of(a)))];
        for arg in ["1", "1.5", "\"s\"", "x"] {
          texts.push((b, wrap(b, &format!("foo({arg}, bar)"))));
        }
        for (j, (l, src)) in texts.iter().enumerate() {
          let g = l.ast_grep(src);
          let Some(site) = all_nodes(&g).into_iter().filter(|n| n.text().starts_with("foo(") && n.text().ends_with("bar)") && n.is_named()).last() else { continue };
          if let Some(r) = match_record(&format!("kinds-{}-{}#{j}", util::lang_name(a), util::lang_name(b)), *l, "foo(bar)", &site, json!({"mode": "near"})) {
            w.put(&r);
            n_near += 1;
          }
        }
      }
    }
  }
  for (l, path, text) in util::corpus(corpus) {
    let g = l.ast_grep(&text);
    let sites = cut_sites(&g, 70);
    if sites.is_empty() {
      continue;
    }
    langs.insert(util::lang_name(l));
    // sites whose text has characters outside ASCII (kept literally next to the holes of the pattern)
    let wide: Vec<N> = sites.iter().filter(|s| !s.text().is_ascii()).cloned().collect();
    for i in 0..per_file_cut {
      let site = if i % 5 >= 3 && !wide.is_empty() { rng.pick(&wide).clone() } else { rng.pick(&sites).clone() };
      let p = proj::project(&site, false);
      // (a) the code itself must match itself
      if i % 3 == 0 {
        if let Some(r) = match_record(&format!("{path}#self{i}"), l, &site.text(), &site,
          json!({"mode": "cut", "holes": [], "tail": {"name": "", "ids": []}})) {
          w.put(&r);
          n_self += 1;
        }
        continue;
      }
      // (b) holes / trailing run
      let Some((pat, holes, tail)) = cut(&site, &mut rng, i % 3 == 2) else { continue };
      let hs: Vec<Value> = holes.iter().map(|(n, d)| json!({"name": n, "id": p.id_of(d)})).collect();
      let tl = match &tail {
        None => json!({"name": "", "ids": []}),
        Some((n, run)) => json!({"name": n, "ids": run.iter().map(|d| p.id_of(d)).collect::<Vec<_>>()}),
      };
      if let Some(r) = match_record(&format!("{path}#cut{i}"), l, &pat, &site, json!({"mode": "cut", "holes": hs, "tail": tl})) {
        w.put(&r);
        n_cut += 1;
      }
    }
    // (e) every site with a real zero-width descendant (an empty raw string, an empty heredoc body: named nodes the
    // parser reports with no text, which are not MISSING nodes): the code matches itself, with and without holes
    let zero: Vec<N> = sites.iter().filter(|s| s.dfs().any(|d| d.range().is_empty() && !d.get_ts_node().is_missing())).cloned().collect();
    for (i, site) in zero.iter().enumerate().take(if thorough { 200 } else { 40 }) {
      let p = proj::project(site, false);
      if let Some(r) = match_record(&format!("{path}#zself{i}"), l, &site.text(), site,
        json!({"mode": "cut", "holes": [], "tail": {"name": "", "ids": []}})) {
        w.put(&r);
        n_zero += 1;
      }
      if let Some((pat, holes, tail)) = cut(site, &mut rng, i % 2 == 1) {
        let hs: Vec<Value> = holes.iter().map(|(n, d)| json!({"name": n, "id": p.id_of(d)})).collect();
        let tl = match &tail {
          None => json!({"name": "", "ids": []}),
          Some((n, run)) => json!({"name": n, "ids": run.iter().map(|d| p.id_of(d)).collect::<Vec<_>>()}),
        };
        if let Some(r) = match_record(&format!("{path}#zcut{i}"), l, &pat, site, json!({"mode": "cut", "holes": hs, "tail": tl})) {
          w.put(&r);
          n_zero += 1;
        }
      }
    }
    // (f) contextual patterns: the site's text (with holes) is left inside the text of an enclosing node and the
    // pattern is Pattern::contextual(context, selector = kind of the site).  The case is kept when, in the recorder's
    // own parse of the context, the first node of that kind in document order is the site itself.
    // nodes with exactly one child (statement wrappers, `argument`, `block_node`, ...) can be selected as well
    let wrappers: Vec<N> = all_nodes(&g)
      .into_iter()
      .filter(|n| {
        let t = n.get_ts_node();
        n.is_named() && t.child_count() == 1 && !mrec::has_error_or_missing(&t) && proj::count_nodes(&t) <= 70 && !n.text().contains('$') && n.parent().is_some()
          && n.parent().map(|p| p.range() != n.range()).unwrap_or(false)
      })
      .collect();
    for i in 0..per_file_ctx {
      let site = if i % 3 == 2 && !wrappers.is_empty() { rng.pick(&wrappers).clone() } else { rng.pick(&sites).clone() };
      let mut anc = match site.parent() { Some(a) => a, None => continue };
      if i % 2 == 1 {
        if let Some(a2) = anc.parent() {
          anc = a2;
        }
      }
      let at = anc.get_ts_node();
      if mrec::has_error_or_missing(&at) || proj::count_nodes(&at) > 160 || anc.text().contains('$') || anc.range() == site.range() {
        continue;
      }
      let p = proj::project(&site, false);
      let (pat, hs, tl) = if i % 4 == 0 {
        (site.text().to_string(), vec![], json!({"name": "", "ids": []}))
      } else {
        let Some((pat, holes, tail)) = cut(&site, &mut rng, i % 4 == 3) else { continue };
        let hs: Vec<Value> = holes.iter().map(|(n, d)| json!({"name": n, "id": p.id_of(d)})).collect();
        let tl = match &tail {
          None => json!({"name": "", "ids": []}),
          Some((n, run)) => json!({"name": n, "ids": run.iter().map(|d| p.id_of(d)).collect::<Vec<_>>()}),
        };
        (pat, hs, tl)
      };
      let atext = anc.text().to_string();
      let (s0, e0) = (site.range().start - anc.range().start, site.range().end - anc.range().start);
      let context = format!("{}{}{}", &atext[..s0], pat, &atext[e0..]);
      let kind = site.kind().to_string();
      if let Some(r) = mrec::match_record_sel(&format!("{path}#ctx{i}"), l, &context, Some((&kind, s0)), &site,
        json!({"mode": "cut", "holes": hs, "tail": tl, "selector": kind, "ctx": true})) {
        w.put(&r);
        n_ctx += 1;
      }
    }
    // (c) near misses: a pattern cut at one site against other nodes of the same kind
    for i in 0..per_file_near {
      let site = rng.pick(&sites).clone();
      let Some((pat, _, _)) = cut(&site, &mut rng, i % 2 == 1) else { continue };
      let same: Vec<&N> = sites.iter().filter(|s| s.kind_id() == site.kind_id() && s.range() != site.range()).collect();
      if same.is_empty() {
        continue;
      }
      for _ in 0..3 {
        let other = (*rng.pick(&same)).clone();
        if let Some(r) = match_record(&format!("{path}#near{i}"), l, &pat, &other, json!({"mode": "near"})) {
          w.put(&r);
          n_near += 1;
        }
      }
    }
    // (d) damaged sources: the pattern is cut from the intact site, the candidates come from the same text with
    // one anonymous token blanked out, so the tree has ERROR / MISSING nodes where the pattern has tokens
    for i in 0..per_file_broken {
      let site = rng.pick(&sites).clone();
      let text = site.text().to_string();
      let pat = if i % 2 == 0 { text.clone() } else { match cut(&site, &mut rng, false) { Some((p, _, _)) => p, None => continue } };
      let base = site.range().start;
      let toks: Vec<std::ops::Range<usize>> = site.dfs().filter(|n| !n.is_named() && n.is_leaf() && !n.range().is_empty()).map(|n| n.range()).collect();
      if toks.is_empty() {
        continue;
      }
      let t = rng.pick(&toks).clone();
      let mut damaged = String::new();
      damaged.push_str(&text[..t.start - base]);
      damaged.push_str(&" ".repeat(t.len()));
      damaged.push_str(&text[t.end - base..]);
      let g2 = l.ast_grep(&damaged);
      let root = g2.root();
      if !mrec::has_error_or_missing(&root.get_ts_node()) {
        continue;
      }
      let cands: Vec<N> = root.dfs().filter(|n| n.kind_id() == site.kind_id() && n.dfs().count() <= 90).take(3).collect();
      // every fourth case: the pattern is the damaged text too (a pattern with ERROR nodes)
      let pat = if i % 4 == 3 { damaged.clone() } else { pat };
      for (k, c) in cands.iter().enumerate() {
        if let Some(r) = match_record(&format!("{path}#broken{i}.{k}"), l, &pat, c, json!({"mode": "near"})) {
          w.put(&r);
          n_broken += 1;
        }
      }
    }
  }
  json!({"corpus_cut": n_cut, "corpus_self": n_self, "corpus_near": n_near, "corpus_broken": n_broken, "corpus_zero_width": n_zero, "corpus_contextual": n_ctx, "languages": langs})
}

/// C04, first clause, for single patterns: a variable that occurs twice; candidates whose two sub-terms are identical,
/// different, or equal up to trailing optional children (`new Foo` / `new Foo(1)`, `if` with and without `else`)
pub fn drive_repeated(w: &mut NdWriter) -> usize {
  let js = SupportLang::JavaScript;
  let ts = SupportLang::TypeScript;
  let py = SupportLang::Python;
  let rs = SupportLang::Rust;
  let cases: Vec<(SupportLang, &str, Vec<&str>)> = vec![
    (js, "foo($A, $A)", vec!["foo(new Foo, new Foo(1))", "foo(new Foo(1), new Foo)", "foo(new Foo, new Foo)", "foo(a.b, a.b)", "foo(a.b, a.b.c)", "foo(x => 1, x => 1)",
                             "foo(function(){}, function(){ a })", "foo(a ? b : c, a ? b : c)", "foo(\"é\", \"é\")", "foo(/* c */ a, a)", "foo(a, /* c */ a)", "foo(-a, -a.b)"]),
    (js, "[$A, $A]", vec!["[new Foo, new Foo(2)]", "[new Foo(2), new Foo(2)]", "[class {}, class { m() {} }]", "[yield, yield a]", "[a, a]", "[[1, 2], [1, 2, 3]]", "[[1, 2], [1, 2]]"]),
    (js, "$C ? $A : $A", vec!["c ? new Foo : new Foo(1)", "c ? new Foo : new Foo", "c ? x : x", "c ? x : y"]),
    (js, "$A = $A", vec!["a.b = a.b", "a.b = a.b.c", "x = x", "x = y"]),
    (js, "if ($C) $S else $S", vec!["if (c) x(); else x();", "if (c) { x() } else { x(); y() }", "if (c) new A; else new A(1);"]),
    (ts, "foo($A, $A)", vec!["foo(new Foo, new Foo<T>())", "foo(new Foo<T>(), new Foo<T>())", "foo(a as T, a as T)", "foo(a!, a!.b)"]),
    (py, "foo($A, $A)", vec!["foo(lambda: 1, lambda: 1)", "foo(a.b, a.b.c)", "foo(a.b, a.b)", "foo(not a, not a)", "foo(x if c else y, x if c else y)", "foo(-a, -a)"]),
    (py, "[$A, $A]", vec!["[a, a]", "[a, b]", "[f(a), f(a, b)]", "[f(a), f(a)]"]),
    // `$$$A` twice: the runs agree on their named nodes; the first occurrence may be the empty one
    (js, "pair(f($$$A), g($$$A))", vec!["pair(f(), g(1, 2))", "pair(f(1, 2), g())", "pair(f(), g())", "pair(f(1, 2), g(1, 2))", "pair(f(1, 2), g(1, 3))", "pair(f(1), g(1, 2))",
                                        "pair(f(1, 2,), g(1, 2))", "pair(f(a.b), g(a.b.c))"]),
    (js, "if (c) { $$$B } else { $$$B }", vec!["if (c) { } else { launch(); }", "if (c) { launch(); } else { }", "if (c) { a(); } else { a(); }", "if (c) { a(); b(); } else { a(); }",
                                               "if (c) { } else { }", "if (c) { a(); /* x */ } else { a(); }"]),
    // anonymous tokens after the ellipsis in the pattern stand for trailing anonymous tokens only
    (js, "pair(f($$$A,), g($$$A))", vec!["pair(f(a, b), g(a))", "pair(f(a, b), g(a, b))", "pair(f(a, b,), g(a, b))", "pair(f(a), g(a))", "pair(f(), g())", "pair(f(a /* c */), g(a))"]),
    (js, "foo($$$A,)", vec!["foo(a, b)", "foo(a, b,)", "foo(a)", "foo()", "foo(a /* c */)", "foo(a, /* c */)"]),
    (js, "[$$$A, ]", vec!["[a, b]", "[a, b, ]", "[a, , ]", "[, ]", "[]"]),
    (py, "foo($$$A,)", vec!["foo(a, b)", "foo(a, b,)", "foo(a)", "foo()"]),
    (rs, "foo($$$A,)", vec!["foo(a, b)", "foo(a, b,)", "foo(a)", "foo()"]),
    // a candidate tried and rejected after an ellipsis must not leave its bindings behind
    (js, "f($$$, g($A, 1), $A)", vec!["f(g(y, 1), y)", "f(g(x, 2), g(y, 1), y)", "f(g(x, 1), g(y, 1), y)", "f(0, g(x, 2), g(y, 1), y)", "f(g(x, 2), g(y, 1), x)"]),
    (js, "[$$$, [$A, 1], $A]", vec!["[[x, 2], [y, 1], y]", "[[y, 1], y]", "[[x, 2], [y, 1], x]"]),
    (py, "f($$$, g($A, 1), $A)", vec!["f(g(x, 2), g(y, 1), y)", "f(g(y, 1), y)"]),
    (rs, "f($$$, g($A, 1), $A)", vec!["f(g(x, 2), g(y, 1), y)", "f(g(y, 1), y)"]),
    (js, "[[$$$A], $$$A]", vec!["[[], 1, 2]", "[[1, 2], 1, 2]", "[[1, 2]]", "[[1], 1, 2]", "[[]]"]),
    (py, "pair(f($$$A), g($$$A))", vec!["pair(f(), g(1, 2))", "pair(f(1, 2), g())", "pair(f(1, 2), g(1, 2))", "pair(f(1), g(2))"]),
    (rs, "pair(f($$$A), g($$$A))", vec!["pair(f(), g(1, 2))", "pair(f(1, 2), g())", "pair(f(1, 2), g(1, 2))", "pair(f(), g())"]),
    (rs, "foo($A, $A)", vec!["foo(a.b, a.b)", "foo(a.b, a.b.c)", "foo(x as u8, x as u8)", "foo(&a, &a.b)", "foo(return, return 1)", "foo(break, break 'l)"]),
  ];
  let mut n = 0;
  for (l, pat, srcs) in &cases {
    for (k, src) in srcs.iter().enumerate() {
      let g = l.ast_grep(*src);
      // candidates: every node the pattern could be tried on
      for (j, c) in g.root().dfs().enumerate() {
        if c.dfs().count() > 60 || !c.is_named() {
          continue;
        }
        if let Some(r) = match_record(&format!("rep-{}-{pat}-{k}.{j}", util::lang_name(*l)), *l, pat, &c, json!({"mode": "near"})) {
          w.put(&r);
          n += 1;
        }
      }
    }
  }
  n
}

pub fn drive(prop: &str, vectors: Option<&str>, vectors2: Option<&str>, corpus: &str, seed: u64, out: &str, thorough: bool) {
  std::panic::set_hook(Box::new(|_| {}));
  let mut w = NdWriter::new(out);
  let mut summ = json!({});
  if prop == "c04rep" {
    summ["repeated_variable_records"] = json!(drive_repeated(&mut w));
    summ["records"] = json!(w.finish());
    util::summary(summ);
    return;
  }
  summ["repeated_variable_records"] = json!(drive_repeated(&mut w));
  if let Some(v) = vectors {
    summ["c03_vectors"] = json!(drive_c03_vectors(v, &mut w));
  }
  if let Some(v) = vectors2 {
    let (n, sk) = drive_c02_vectors(v, &mut w);
    summ["c02_vectors"] = json!(n);
    summ["c02_vectors_skipped"] = json!(sk);
  }
  let c = drive_corpus(corpus, seed, thorough, &mut w);
  for (k, v) in c.as_object().unwrap() {
    summ[k] = v.clone();
  }
  summ["records"] = json!(w.finish());
  summ["prop"] = json!(prop);
  util::summary(summ);
}
