//! C11 recorder: rule documents from the generator model (field -> value class) rendered to YAML and offered to the
//! real CLI in isolated children under a timeout: as a rule file (scanned over three texts), as inline rules on
//! stdin input, as a utility file, as a test file and as sgconfig.yml.  A seeded byte-level mutation stage follows.
use crate::cli::{self, run_sgv};
use crate::project::Project;
use crate::util::{self, NdWriter, Rng};
use serde_json::{json, Map, Value};

fn s(v: &Value, k: &str) -> String {
  v[k].as_str().unwrap_or("").to_string()
}

/// (field, class) -> contribution; returns the document as YAML text
pub fn render(v: &Value) -> String {
  let mut rule = Map::new();
  let mut doc = Map::new();
  let mut utils = Map::new();
  match s(v, "pattern").as_str() {
    "valid" => { rule.insert("pattern".into(), json!("foo($A)")); }
    "empty" => { rule.insert("pattern".into(), json!("")); }
    "bare_ellipsis" => { rule.insert("pattern".into(), json!("$$$")); }
    "unclosed" => { rule.insert("pattern".into(), json!("foo(")); }
    "number_type" => { rule.insert("pattern".into(), json!(123)); }
    "contextual" => { rule.insert("pattern".into(), json!({"context": "class A { foo($A) {} }", "selector": "method_definition"})); }
    "bad_selector" => { rule.insert("pattern".into(), json!({"context": "foo($A)", "selector": "no_such_kind"})); }
    "skipped_token_then_ellipsis" => { rule.insert("pattern".into(), json!({"context": "[, $$$]", "strictness": "relaxed"})); }
    "lone_sigil" => { rule.insert("pattern".into(), json!("$")); }
    // no pattern: the rule's kinds are the parser's ERROR kind, whose number lies above every kind of the grammar
    "none_kind_error" => { rule.insert("kind".into(), json!("ERROR")); }
    "none_any_error" => { rule.insert("any".into(), json!([{"kind": "ERROR"}, {"kind": "number"}])); }
    "adjacent_ellipses_open_list" => { rule.insert("pattern".into(), json!("switch ($X) { case $V:\n $$$A\n $$$B\n break }")); }
    _ => { rule.insert("pattern".into(), json!("foo(\"é🦀\", $A)")); }
  }
  match s(v, "kind").as_str() {
    "valid" => { rule.insert("kind".into(), json!("call_expression")); }
    "unknown" => { rule.insert("kind".into(), json!("no_such_kind")); }
    "list_type" => { rule.insert("kind".into(), json!([1])); }
    "empty" => { rule.insert("kind".into(), json!("")); }
    _ => {}
  }
  match s(v, "regex").as_str() {
    "valid" => { rule.insert("regex".into(), json!("^foo")); }
    "invalid" => { rule.insert("regex".into(), json!("(")); }
    "empty" => { rule.insert("regex".into(), json!("")); }
    "lookaround" => { rule.insert("regex".into(), json!("(?=foo)")); }
    _ => {}
  }
  match s(v, "nthChild").as_str() {
    "one" => { rule.insert("nthChild".into(), json!(1)); }
    "anb" => { rule.insert("nthChild".into(), json!("2n+1")); }
    "overflow" => { rule.insert("nthChild".into(), json!("99999999999n+1")); }
    "garbage" => { rule.insert("nthChild".into(), json!("n n")); }
    "negative" => { rule.insert("nthChild".into(), json!(-1)); }
    "of_self_util" => {
      rule.insert("nthChild".into(), json!({"position": 1, "ofRule": {"matches": "SELF"}}));
      utils.insert("SELF".into(), json!({"nthChild": {"position": 1, "ofRule": {"matches": "SELF"}}}));
    }
    "zero" => { rule.insert("nthChild".into(), json!(0)); }
    // formulas at the limits of the number type (accepted by the parser of the notation)
    "anb_min_offset" => { rule.insert("nthChild".into(), json!("-n - 2147483647")); }
    "anb_max_both" => { rule.insert("nthChild".into(), json!("2147483647n+2147483647")); }
    "anb_neg_step_max" => { rule.insert("nthChild".into(), json!({"position": "-2147483647n+1", "reverse": true})); }
    "numeric_beyond_u32" => { rule.insert("nthChild".into(), json!(4294967297u64)); }
    "object_missing_position" => { rule.insert("nthChild".into(), json!({"reverse": true})); }
    _ => {}
  }
  match s(v, "range").as_str() {
    "valid" => { rule.insert("range".into(), json!({"start": {"line": 0, "column": 0}, "end": {"line": 0, "column": 6}})); }
    "reversed" => { rule.insert("range".into(), json!({"start": {"line": 3, "column": 0}, "end": {"line": 0, "column": 0}})); }
    "huge" => { rule.insert("range".into(), json!({"start": {"line": 0, "column": 0}, "end": {"line": 18446744073709551615u64, "column": 4294967296u64}})); }
    _ => {}
  }
  match s(v, "has").as_str() {
    "valid" => { rule.insert("has".into(), json!({"kind": "identifier"})); }
    "bad_field" => { rule.insert("has".into(), json!({"kind": "identifier", "field": "no_such_field"})); }
    "bad_stopby" => { rule.insert("has".into(), json!({"kind": "identifier", "stopBy": "sometimes"})); }
    "stopby_rule" => { rule.insert("has".into(), json!({"kind": "number", "stopBy": {"kind": "arguments"}})); }
    "field_on_follows" => { rule.insert("follows".into(), json!({"kind": "identifier", "field": "function"})); }
    "empty_object" => { rule.insert("has".into(), json!({})); }
    _ => {}
  }
  match s(v, "matches").as_str() {
    "undefined" => { rule.insert("matches".into(), json!("nope")); }
    "local_ok" => { rule.insert("matches".into(), json!("u")); utils.insert("u".into(), json!({"kind": "call_expression"})); }
    "self_cycle" => { rule.insert("matches".into(), json!("u")); utils.insert("u".into(), json!({"matches": "u"})); }
    "mutual_cycle" => {
      rule.insert("matches".into(), json!("u"));
      utils.insert("u".into(), json!({"any": [{"matches": "w"}]}));
      utils.insert("w".into(), json!({"not": {"matches": "u"}}));
    }
    // cycles that hide in a second key of a rule object
    "cycle_via_sibling_key" => {
      rule.insert("matches".into(), json!("u"));
      utils.insert("u".into(), json!({"matches": "k", "not": {"matches": "w"}}));
      utils.insert("w".into(), json!({"matches": "u"}));
      utils.insert("k".into(), json!({"kind": "call_expression"}));
    }
    "cycle_all_and_any" => {
      rule.insert("matches".into(), json!("u"));
      utils.insert("u".into(), json!({"all": [{"kind": "call_expression"}], "any": [{"matches": "w"}, {"kind": "call_expression"}]}));
      utils.insert("w".into(), json!({"any": [{"matches": "u"}, {"kind": "number"}]}));
    }
    // a long chain of utilities, each reaching the next one through two references: loading and scanning stay linear in
    // the length of the chain
    "deep_chain_two_refs" => {
      rule.insert("matches".into(), json!("c0"));
      for k in 0..36 {
        utils.insert(format!("c{k}"), json!({"any": [{"matches": format!("c{}", k + 1)}, {"all": [{"kind": "call_expression"}, {"matches": format!("c{}", k + 1)}]}]}));
      }
      utils.insert("c36".into(), json!({"kind": "call_expression"}));
    }
    "cycle_via_ofrule" => {
      rule.insert("matches".into(), json!("u"));
      utils.insert("u".into(), json!({"kind": "call_expression", "nthChild": {"position": 1, "ofRule": {"matches": "w"}}}));
      utils.insert("w".into(), json!({"matches": "u"}));
    }
    "global_self_via_local_utils" => {
      // read as the global utility file `gen`, the local util refers back to the file's own id
      rule.insert("matches".into(), json!("u"));
      utils.insert("u".into(), json!({"any": [{"kind": "number"}, {"matches": "gen"}]}));
    }
    "cycle_via_relation" => {
      rule.insert("matches".into(), json!("u"));
      utils.insert("u".into(), json!({"any": [{"kind": "number"}, {"has": {"matches": "u", "stopBy": "end"}}, {"inside": {"matches": "u"}}]}));
    }
    _ => {}
  }
  doc.insert("rule".into(), Value::Object(rule));
  match s(v, "cons").as_str() {
    "valid" => { doc.insert("constraints".into(), json!({"A": {"regex": "^b"}})); }
    "sigil_key" => { doc.insert("constraints".into(), json!({"$A": {"regex": "^b"}})); }
    "lowercase_key" => { doc.insert("constraints".into(), json!({"a": {"regex": "^b"}})); }
    "wrong_type" => { doc.insert("constraints".into(), json!({"A": 3})); }
    "undefined_key" => { doc.insert("constraints".into(), json!({"Q": {"kind": "number"}})); }
    _ => {}
  }
  let tr = |t: Value| json!({"X": t});
  match s(v, "transform").as_str() {
    "substring" => { doc.insert("transform".into(), tr(json!({"substring": {"source": "$A", "startChar": 1, "endChar": -1}}))); }
    "empty_source" => { doc.insert("transform".into(), tr(json!({"substring": {"source": ""}}))); }
    "no_sigil_source" => { doc.insert("transform".into(), tr(json!({"substring": {"source": "A"}}))); }
    "lone_sigil_source" => { doc.insert("transform".into(), tr(json!({"substring": {"source": "$"}}))); }
    "multibyte_source" => { doc.insert("transform".into(), tr(json!({"substring": {"source": "éA"}}))); }
    "bad_replace_regex" => { doc.insert("transform".into(), tr(json!({"replace": {"source": "$A", "replace": "(", "by": ""}}))); }
    "bad_case" => { doc.insert("transform".into(), tr(json!({"convert": {"source": "$A", "toCase": "sPoNgE"}}))); }
    "undefined_rewriter" => { doc.insert("transform".into(), tr(json!({"rewrite": {"source": "$A", "rewriters": ["ghost"]}}))); }
    "huge_index" => { doc.insert("transform".into(), tr(json!({"substring": {"source": "$A", "startChar": 2147483647i64, "endChar": -2147483648i64}}))); }
    "self_cycle" => { doc.insert("transform".into(), tr(json!({"substring": {"source": "$X"}}))); }
    "unknown_kind" => { doc.insert("transform".into(), tr(json!({"explode": {"source": "$A"}}))); }
    "convert_snake" => { doc.insert("transform".into(), tr(json!({"convert": {"source": "$A", "toCase": "snakeCase"}}))); }
    "convert_camel" => { doc.insert("transform".into(), tr(json!({"convert": {"source": "$A", "toCase": "camelCase"}}))); }
    "convert_kebab" => { doc.insert("transform".into(), tr(json!({"convert": {"source": "$A", "toCase": "kebabCase"}}))); }
    "convert_pascal" => { doc.insert("transform".into(), tr(json!({"convert": {"source": "$A", "toCase": "pascalCase"}}))); }
    "convert_upper" => { doc.insert("transform".into(), tr(json!({"convert": {"source": "$A", "toCase": "upperCase"}}))); }
    "convert_capitalize" => { doc.insert("transform".into(), tr(json!({"convert": {"source": "$A", "toCase": "capitalize"}}))); }
    "convert_separated" => { doc.insert("transform".into(), tr(json!({"convert": {"source": "$A", "toCase": "snakeCase", "separatedBy": ["caseChange", "underscore", "dash"]}}))); }
    "substring_negative" => { doc.insert("transform".into(), tr(json!({"substring": {"source": "$A", "startChar": -2, "endChar": -1}}))); }
    // indices that cross for some capture lengths only (start 2 / end -2 crosses for exactly three characters)
    "substring_crossed" => { doc.insert("transform".into(), tr(json!({"substring": {"source": "$A", "startChar": 2, "endChar": -2}}))); }
    "substring_reversed" => { doc.insert("transform".into(), tr(json!({"substring": {"source": "$A", "startChar": 2, "endChar": 1}}))); }
    "replace_valid" => { doc.insert("transform".into(), tr(json!({"replace": {"source": "$A", "replace": "(?<first>.)", "by": "$first$first"}}))); }
    "chain" => { doc.insert("transform".into(), json!({"X": {"convert": {"source": "$A", "toCase": "kebabCase"}}, "Y": {"substring": {"source": "$X", "startChar": 1}}, "Z": {"convert": {"source": "$Y", "toCase": "camelCase"}}})); }
    _ => {}
  }
  match s(v, "fix").as_str() {
    "string" => { doc.insert("fix".into(), json!("bar($A, $X)")); }
    "object" => { doc.insert("fix".into(), json!({"template": "bar($A)", "expandEnd": {"regex": ",", "stopBy": "neighbor"}})); }
    "expand_bad_rule" => { doc.insert("fix".into(), json!({"template": "", "expandEnd": {"kind": "no_such_kind"}})); }
    "number_type" => { doc.insert("fix".into(), json!(42)); }
    "undefined_var" => { doc.insert("fix".into(), json!("bar($NOPE)")); }
    "sigils_only" => { doc.insert("fix".into(), json!("$$$ $ $$ $$$$")); }
    _ => {}
  }
  match s(v, "rewriters").as_str() {
    "valid" => { doc.insert("rewriters".into(), json!([{"id": "rw", "rule": {"kind": "number"}, "fix": "N"}])); }
    "duplicate_ids" => { doc.insert("rewriters".into(), json!([{"id": "rw", "rule": {"kind": "number"}, "fix": "N"}, {"id": "rw", "rule": {"kind": "string"}, "fix": "S"}])); }
    "no_fix" => { doc.insert("rewriters".into(), json!([{"id": "rw", "rule": {"kind": "number"}}])); }
    "recursive" => { doc.insert("rewriters".into(), json!([{"id": "rw", "rule": {"pattern": "[$$$E]"}, "transform": {"R": {"rewrite": {"source": "$$$E", "rewriters": ["rw"]}}}, "fix": "<$R>"}])); }
    "clash_with_util" => { doc.insert("rewriters".into(), json!([{"id": "u", "rule": {"kind": "number"}, "fix": "N"}])); utils.insert("u".into(), json!({"kind": "number"})); }
    // rewriters that are used: their fixes widen the edit (expandStart / expandEnd) beyond the text being rewritten,
    // resp. overlap each other
    "self_on_same_node" => {
      doc.insert("rewriters".into(), json!([{"id": "rw", "rule": {"pattern": "$B"}, "transform": {"R": {"rewrite": {"source": "$B", "rewriters": ["rw"]}}}, "fix": "<$R>"}]));
      let mut t = doc.get("transform").and_then(|t| t.as_object().cloned()).unwrap_or_default();
      t.insert("RW".into(), json!({"rewrite": {"source": "$A", "rewriters": ["rw"]}}));
      doc.insert("transform".into(), Value::Object(t));
      if !doc.contains_key("fix") {
        doc.insert("fix".into(), json!("bar($RW)"));
      }
    }
    c @ ("expand_start_outside" | "expand_end_outside" | "expand_both_joined" | "used_overlapping") => {
      let fix = match c {
        "expand_start_outside" => json!({"template": "N", "expandStart": {"regex": "."}}),
        "expand_end_outside" => json!({"template": "N", "expandEnd": {"regex": "."}}),
        "expand_both_joined" => json!({"template": "N", "expandStart": {"regex": "[(, ]"}, "expandEnd": {"regex": "[), ]"}}),
        _ => json!("N"),
      };
      let mut rws = vec![json!({"id": "rw", "rule": {"kind": "number"}, "fix": fix})];
      if c == "used_overlapping" {
        rws.push(json!({"id": "rw2", "rule": {"kind": "array"}, "fix": {"template": "ARR", "expandEnd": {"regex": ","}}}));
      }
      let names: Vec<Value> = rws.iter().map(|r| r["id"].clone()).collect();
      doc.insert("rewriters".into(), json!(rws));
      let mut rewrite = json!({"rewrite": {"source": "$A", "rewriters": names}});
      if c == "expand_both_joined" {
        rewrite["rewrite"]["joinBy"] = json!("+");
      }
      let mut t = doc.get("transform").and_then(|t| t.as_object().cloned()).unwrap_or_default();
      t.insert("RW".into(), rewrite);
      doc.insert("transform".into(), Value::Object(t));
      if !doc.contains_key("fix") {
        doc.insert("fix".into(), json!("bar($RW)"));
      }
    }
    _ => {}
  }
  if !utils.is_empty() {
    doc.insert("utils".into(), Value::Object(utils));
  }
  match s(v, "severity").as_str() {
    "off" => { doc.insert("severity".into(), json!("off")); }
    "invalid" => { doc.insert("severity".into(), json!("catastrophic")); }
    "error" => { doc.insert("severity".into(), json!("error")); }
    _ => {}
  }
  match s(v, "globs").as_str() {
    "valid" => { doc.insert("files".into(), json!(["**/*.js"])); }
    "invalid_glob" => { doc.insert("files".into(), json!(["[unclosed"])); doc.insert("ignores".into(), json!(["**/{a,b"])); }
    "wrong_type" => { doc.insert("files".into(), json!("src")); }
    _ => {}
  }
  match s(v, "ident").as_str() {
    "present" | "duplicate_in_file" => { doc.insert("id".into(), json!("gen")); }
    "empty" => { doc.insert("id".into(), json!("")); }
    _ => {}
  }
  match s(v, "language").as_str() {
    "js" => { doc.insert("language".into(), json!("JavaScript")); }
    "unknown" => { doc.insert("language".into(), json!("Klingon")); }
    "number_type" => { doc.insert("language".into(), json!(7)); }
    _ => {}
  }
  doc.insert("message".into(), json!("found $A $X"));
  let mut text = serde_json::to_string(&Value::Object(doc.clone())).unwrap();
  match s(v, "extra").as_str() {
    "unknown_top_key" => { doc.insert("frobnicate".into(), json!(true)); text = serde_json::to_string(&Value::Object(doc)).unwrap(); }
    "unknown_rule_key" => { text = text.replacen("\"rule\":{", "\"rule\":{\"frobnicate\":1,", 1); }
    "yaml_anchor_cycle" => { text = format!("anchors: &a [*a]\n{}", text); }
    "tabs" => { text = format!("id: gen\nlanguage: JavaScript\nrule:\n\tpattern: foo($A)\n"); }
    "deep_not" => {
      let depth = 3000;
      text = format!("id: gen\nlanguage: JavaScript\nrule: {}{{\"kind\": \"number\"}}{}\n", "{\"not\": ".repeat(depth), "}".repeat(depth));
    }
    _ => {}
  }
  if s(v, "ident") == "duplicate_in_file" {
    text = format!("{text}\n---\n{text}");
  }
  text
}

fn classify(code: i32, stderr: &str) -> &'static str {
  match code {
    0 | 1 => "ok",
    124 | 137 => "hang",
    101 => "panic",
    c if c < 0 || c >= 128 => "signal",
    _ => {
      if stderr.contains("panicked at") { "panic" } else { "error" }
    }
  }
}

const TEXTS: [(&str, &str); 5] = [
  // an html file whose css regions are met out of document order (script regions are collected before style regions)
  ("e.html", "<html><head><style>\na { color: red }\n</style></head>\n<body><script lang=\"css\">\nb { color: blue }\n</script>\n<script>\nfoo(1);\n</script></body></html>\n"),
  // captured texts that stress per-character work: upper/lower runs with multi-byte letters, title-case digraphs,
  // letters whose case mapping changes length, combining marks, separators at the edges
  ("d.js", "foo(ÉÀb); foo(XMLÉb); foo(ǅemal); foo(ßtraSSe); foo(İi̇I); foo(aB_c__D); foo(_); foo($x); foo(ÀÉ); foo(é); foo(x̃Ỹz); foo(ＡＢc); foo(\"ÉÀb-Çd_ÊF\"); foo(ab); foo(abc); foo(abcd); foo(\"\");\n"),
  ("a.js", "foo(b1); foo(bar, 1); foo(\"é🦀\", [1, 2, 3]); [, 2, x]; foo([1, [2, 3]]);\nclass A { foo(q) {} }\nfoo(7); foo([8]);foo(9)\nswitch (q) { case 1: break; }\nswitch (r) { case 2: foo(2); bar(); break; }\n"),
  ("b.js", "foo(\nfoo(b"),
  ("c.js", ";"),
];

fn run_modes(id: &str, text: &str, scratch: &str) -> Vec<Value> {
  let mut out = vec![];
  let mut push = |mode: &str, o: cli::CliOut| {
    out.push(json!({"id": id, "mode": mode, "code": o.code, "outcome": classify(o.code, &o.stderr),
      "stderr": o.stderr.chars().take(240).collect::<String>()}));
  };
  // (1) rule file
  let p = Project::new(&format!("{scratch}/{id}-rule"));
  p.write("rule.yml", text.as_bytes());
  for (n, t) in TEXTS {
    p.write(&format!("src/{n}"), t.as_bytes());
  }
  push("rule-file", run_sgv(&["scan", "-r", "rule.yml", "--json=stream", "src"], &p.root, None, 15, &[]));
  push("rule-file-update", run_sgv(&["scan", "-r", "rule.yml", "-U", "src"], &p.root, None, 15, &[]));
  // (2) inline rules on stdin input
  push("inline-stdin", run_sgv(&["scan", "--inline-rules", text, "--stdin", "--json=stream"], &p.root, Some(TEXTS[1].1), 15, &[]));
  p.remove();
  // (3) project: as rule in ruleDirs, as utility file, as test file
  let p = Project::new(&format!("{scratch}/{id}-proj"));
  p.config(Some(&json!({"utilDirs": ["utils"], "testConfigs": [{"testDir": "tests"}]})));
  p.write("rules/gen.yml", text.as_bytes());
  p.write("utils/gen-util.yml", text.as_bytes());
  p.write("tests/gen-test.yml", text.as_bytes());
  p.write("tests/ok-test.yml", br#"{"id": "gen", "valid": ["bar(1)"], "invalid": ["foo(bar, 1)"]}"#);
  for (n, t) in TEXTS {
    p.write(&format!("src/{n}"), t.as_bytes());
  }
  push("project-scan", run_sgv(&["scan", "--json=stream"], &p.root, None, 15, &[]));
  push("project-test", run_sgv(&["test", "--skip-snapshot-tests"], &p.root, None, 15, &[]));
  p.remove();
  // (4) as sgconfig.yml
  let p = Project::new(&format!("{scratch}/{id}-cfg"));
  p.write("sgconfig.yml", text.as_bytes());
  p.write("src/a.js", TEXTS[1].1.as_bytes());
  push("as-sgconfig", run_sgv(&["scan"], &p.root, None, 15, &[]));
  p.remove();
  out
}

/// a project whose sgconfig.yml is assembled from value classes (spec/RuleDocGen.tla CfgClasses); scan and test
fn run_config(id: &str, v: &Value, scratch: &str) -> Vec<Value> {
  let mut out = vec![];
  let mut cfg = Map::new();
  let p = Project::new(&format!("{scratch}/{id}-cfgdoc"));
  match s(v, "ruleDirs").as_str() {
    "valid" => { cfg.insert("ruleDirs".into(), json!(["rules"])); }
    "empty" => { cfg.insert("ruleDirs".into(), json!([])); }
    "nonexistent" => { cfg.insert("ruleDirs".into(), json!(["no-such-dir"])); }
    "string_type" => { cfg.insert("ruleDirs".into(), json!("rules")); }
    "two_dirs" => { cfg.insert("ruleDirs".into(), json!(["rules", "more-rules"])); p.write("more-rules/m.yml", br#"{"id": "more", "language": "JavaScript", "rule": {"pattern": "bar($A)"}}"#); }
    _ => {}
  }
  match s(v, "utilDirs").as_str() {
    "valid" => { cfg.insert("utilDirs".into(), json!(["utils"])); }
    "empty" => { cfg.insert("utilDirs".into(), json!([])); }
    "nonexistent" => { cfg.insert("utilDirs".into(), json!(["no-such-utils"])); }
    "string_type" => { cfg.insert("utilDirs".into(), json!("utils")); }
    _ => {}
  }
  match s(v, "testConfigs").as_str() {
    "valid" => { cfg.insert("testConfigs".into(), json!([{"testDir": "tests"}])); }
    "empty" => { cfg.insert("testConfigs".into(), json!([])); }
    "no_testdir" => { cfg.insert("testConfigs".into(), json!([{"snapshotDir": "snaps"}])); }
    "snapshot_dir" => { cfg.insert("testConfigs".into(), json!([{"testDir": "tests", "snapshotDir": "snaps"}])); }
    "nonexistent_dir" => { cfg.insert("testConfigs".into(), json!([{"testDir": "no-such-tests"}])); }
    _ => {}
  }
  match s(v, "languageGlobs").as_str() {
    "valid" => { cfg.insert("languageGlobs".into(), json!({"javascript": ["*.mjsx"]})); }
    "empty" => { cfg.insert("languageGlobs".into(), json!({})); }
    "unknown_language" => { cfg.insert("languageGlobs".into(), json!({"klingon": ["*.kl"]})); }
    "string_type" => { cfg.insert("languageGlobs".into(), json!({"javascript": "*.mjsx"})); }
    "narrow" => { cfg.insert("languageGlobs".into(), json!({"tsx": ["*.view.ts"], "javascript": ["*.view.ts"]})); }
    _ => {}
  }
  match s(v, "languageInjections").as_str() {
    "valid" => { cfg.insert("languageInjections".into(), json!([{"hostLanguage": "js", "rule": {"pattern": "css`$CONTENT`"}, "injected": "css"}])); }
    "empty" => { cfg.insert("languageInjections".into(), json!([])); }
    "unknown_host" => { cfg.insert("languageInjections".into(), json!([{"hostLanguage": "klingon", "rule": {"pattern": "css`$CONTENT`"}, "injected": "css"}])); }
    "bad_rule" => { cfg.insert("languageInjections".into(), json!([{"hostLanguage": "js", "rule": {"pattern": "css`$OTHER`"}, "injected": "css"}])); }
    "no_injected" => { cfg.insert("languageInjections".into(), json!([{"hostLanguage": "js", "rule": {"pattern": "css`$CONTENT`"}}])); }
    _ => {}
  }
  match s(v, "customLanguages").as_str() {
    "empty" => { cfg.insert("customLanguages".into(), json!({})); }
    "missing_library" => { cfg.insert("customLanguages".into(), json!({"mylang": {"libraryPath": "no-such-lib.so", "extensions": ["ml"]}})); }
    _ => {}
  }
  p.write("sgconfig.yml", serde_json::to_string(&Value::Object(cfg)).unwrap().as_bytes());
  p.write("rules/r.yml", br#"{"id": "r", "language": "JavaScript", "severity": "warning", "rule": {"pattern": "foo($A)"}, "fix": "bar($A)"}"#);
  p.write("utils/u.yml", br#"{"id": "gu", "language": "JavaScript", "rule": {"kind": "number"}}"#);
  p.write("tests/r-test.yml", br#"{"id": "r", "valid": ["bar(1)"], "invalid": ["foo(bar, 1)"]}"#);
  let snapdir = if s(v, "testConfigs") == "snapshot_dir" { "snaps" } else { "tests/__snapshots__" };
  match s(v, "snapshots").as_str() {
    // a snapshot whose id has no test case; a snapshot file that is not a snapshot
    "orphan" => { p.write(&format!("{snapdir}/ghost-snapshot.yml"), b"id: ghost\nsnapshots:\n  \"1\":\n    labels:\n    - source: \"1\"\n      style: primary\n      start: 0\n      end: 1\n"); }
    "garbage" => { p.write(&format!("{snapdir}/r-snapshot.yml"), b"- not\n- a: snapshot\n"); }
    _ => {}
  }
  for (n, t) in TEXTS {
    p.write(&format!("src/{n}"), t.as_bytes());
  }
  p.write("src/w.view.ts", b"foo(1);\nconst s = css`a { color: red }`;\n");
  let mut push = |mode: &str, o: cli::CliOut| {
    out.push(json!({"id": id, "mode": mode, "code": o.code, "outcome": classify(o.code, &o.stderr),
      "stderr": o.stderr.chars().take(240).collect::<String>()}));
  };
  push("config-scan", run_sgv(&["scan", "--json=stream"], &p.root, None, 15, &[]));
  push("config-test", run_sgv(&["test"], &p.root, None, 15, &[]));
  push("config-test-update", run_sgv(&["test", "-U"], &p.root, None, 15, &[]));
  push("config-test-again", run_sgv(&["test"], &p.root, None, 15, &[]));
  p.remove();
  out
}

fn mutate(text: &str, rng: &mut Rng) -> String {
  let b = text.as_bytes();
  match rng.below(5) {
    0 => String::from_utf8_lossy(&b[..rng.below(b.len().max(1))]).to_string(),
    1 => {
      let i = rng.below(b.len().max(1));
      let mut v = b.to_vec();
      let junk = b"{}[]:,\"'&*!|>-#%@`\n\t ";
      v.insert(i, junk[rng.below(junk.len())]);
      String::from_utf8_lossy(&v).to_string()
    }
    2 => text.replacen(':', ": :", 1 + rng.below(3)),
    3 => format!("{text}\n{text}"),
    _ => text.replace('"', ""),
  }
}

pub fn drive(vectors: &str, cfg_vectors: Option<&str>, seed: u64, out: &str, thorough: bool) {
  let mut rng = Rng::new(seed ^ 0xC11);
  let all = util::read_ndjson(vectors);
  let stride = if thorough { 1 } else { (all.len() / 420).max(1) };
  let mut cases: Vec<(String, String, Value)> = vec![];
  for (i, v) in all.iter().enumerate() {
    // every single-deviation document always; pairs by stride
    let dev = v.as_object().unwrap().iter().filter(|(k, c)| {
      let d = match k.as_str() { "pattern" => "valid", "severity" => "default", "ident" => "present", "language" => "js", "extra" => "none", _ => "absent" };
      c.as_str() != Some(d)
    }).count();
    if dev <= 1 || (i + seed as usize) % stride == 0 {
      cases.push((format!("d{i}"), render(v), v.clone()));
    }
  }
  // the byte-mutation stage (plain fuzzing, reported separately; not attributed to the specification)
  let n_mut = if thorough { 600 } else { 60 };
  for k in 0..n_mut {
    let base = &cases[rng.below(cases.len())].1.clone();
    // a mutated document can still hold the construct of a listed known finding: said by the text itself
    let text = mutate(base, &mut rng);
    let keeps_rel = text.contains("\"has\":{\"matches\":\"u\"") && text.contains("\"inside\":{\"matches\":\"u\"");
    let keeps_rw = text.contains("\"rewriters\":[\"rw\"],\"source\":\"$B\"");
    cases.push((format!("mut{k}"), text, json!({"mutation": true, "matches": "n/a", "rewriters": "n/a", "keeps_relational_cycle": keeps_rel, "keeps_self_rewriter": keeps_rw})));
  }
  let scratch = format!("/var/tmp/agv-c11-{}", std::process::id());
  std::fs::create_dir_all(&scratch).unwrap();
  let mut results = cli::par_map(&cases, 14, |_, (id, text, _)| run_modes(id, text, &scratch));
  // project configurations: all single deviations always, pairs by stride
  if let Some(cv) = cfg_vectors {
    let all_cfg = util::read_ndjson(cv);
    let cstride = if thorough { 1 } else { 4 };
    let defaults = [("ruleDirs", "valid"), ("utilDirs", "absent"), ("testConfigs", "valid"), ("languageGlobs", "absent"), ("languageInjections", "absent"), ("customLanguages", "absent"), ("snapshots", "none")];
    let picked: Vec<(String, Value)> = all_cfg.iter().enumerate().filter(|(i, v)| {
      let dev = defaults.iter().filter(|(k, d)| v[*k].as_str() != Some(*d)).count();
      dev <= 1 || (i + seed as usize) % cstride == 0
    }).map(|(i, v)| (format!("cfg{i}"), v.clone())).collect();
    let cres = cli::par_map(&picked, 14, |_, (id, v)| run_config(id, v, &scratch));
    for ((id, v), rs) in picked.iter().zip(cres.into_iter()) {
      let mut d = v.clone();
      d["config"] = json!(true);
      d["matches"] = json!("n/a");
      d["rewriters"] = json!("n/a");
      cases.push((id.clone(), serde_json::to_string(v).unwrap(), d));
      results.push(rs);
    }
  }
  let _ = std::fs::remove_dir_all(&scratch);
  let mut w = NdWriter::new(out);
  let mut runs = 0;
  let mut classes = std::collections::BTreeMap::new();
  for ((id, text, v), rs) in cases.iter().zip(results.iter()) {
    for r in rs {
      *classes.entry(r["outcome"].as_str().unwrap().to_string()).or_insert(0usize) += 1;
      runs += 1;
    }
    w.put(&json!({"id": id, "doc": v, "mutation": v.get("mutation").is_some(), "text": text.chars().take(700).collect::<String>(), "runs": rs}));
  }
  let n = w.finish();
  util::summary(json!({"records": n, "documents": cases.len(), "child_runs": runs, "outcomes": classes, "generated_documents_in_model": all.len()}));
}
