//! C06 / C07 recorder: real replacement texts (templates + indentation) and real edits (library
//! replace_all, CLI --json, file after --update-all).  Judged by spec/trace/Trace_Fix.tla.
use crate::c19::{all_nodes, char_widths};
use crate::cli::{self, json_lines, run_sgv};
use crate::mrec;
use crate::proj;
use crate::util::{self, NdWriter, Rng};
use ast_grep_config::{from_yaml_string, GlobalRules};
use ast_grep_core::matcher::MatcherExt;
use ast_grep_core::meta_var::MetaVariable;
use ast_grep_core::replacer::Replacer;
use ast_grep_core::traversal::Visitor;
use ast_grep_core::{Language, Pattern};
use ast_grep_language::SupportLang;
use serde_json::{json, Value};
use std::panic::{catch_unwind, AssertUnwindSafe};

fn chars(s: &str) -> Value {
  json!(s.chars().map(|c| c.to_string()).collect::<Vec<_>>())
}
fn join(v: &Value) -> String {
  v.as_array().unwrap().iter().map(|c| c.as_str().unwrap()).collect()
}
fn bytes(s: &[u8]) -> Value {
  json!(s.iter().map(|b| *b as u32).collect::<Vec<_>>())
}

/// byte offset -> char offset (records for TLC index characters)
fn char_off(s: &str, byte: usize) -> usize {
  s[..byte.min(s.len())].chars().count()
}

// ------------------------------------------------------------------ C07
fn tpl_record(id: &str, lang: SupportLang, src: &str, pattern: &str, template: &str, site_hint: Option<usize>) -> Option<Value> {
  let g = lang.ast_grep(src);
  let pat = catch_unwind(AssertUnwindSafe(|| Pattern::try_new(pattern, lang))).ok()?.ok()?;
  let nm = match site_hint {
    Some(off) => all_nodes(&g).into_iter().filter(|n| n.range().start == off).find_map(|n| pat.match_node(n))?,
    None => g.root().find(&pat)?,
  };
  let out = catch_unwind(AssertUnwindSafe(|| template.generate_replacement(&nm)));
  let env = nm.get_env();
  let mut bind = vec![];
  for v in env.get_matched_variables() {
    match v {
      MetaVariable::Capture(name, _) => {
        if let Some(n) = env.get_match(&name) {
          bind.push(json!({"name": chars(&name), "multi": false, "lo": char_off(src, n.range().start), "hi": char_off(src, n.range().end)}));
        }
      }
      MetaVariable::MultiCapture(name) => {
        let ns = env.get_multiple_matches(&name);
        if let (Some(a), Some(b)) = (ns.first(), ns.last()) {
          bind.push(json!({"name": chars(&name), "multi": true, "lo": char_off(src, a.range().start), "hi": char_off(src, b.range().end)}));
        }
      }
      _ => {}
    }
  }
  // what the public replace call does with it: the whole text after the edit
  let mut g2 = lang.ast_grep(src);
  let replaced = catch_unwind(AssertUnwindSafe(|| {
    let edit = nm.replace_by(template);
    (edit.position, edit.deleted_length, g2.edit(edit).is_ok(), g2.source().to_string())
  }));
  Some(json!({
    "mode": "tpl", "id": id, "lang": util::lang_name(lang), "pattern": pattern,
    "src": chars(src), "raw": chars(template), "site": char_off(src, nm.range().start), "siteEnd": char_off(src, nm.range().end),
    "bind": bind, "panic": out.is_err(), "self": template == "g($A)" && pattern == "g($A)" && !src.contains("(\n"),
    "out": chars(&String::from_utf8_lossy(&out.unwrap_or_default())),
    "after": match replaced { Ok((_, _, true, s)) => chars(&s), _ => json!([]) },
  }))
}

fn drive_tpl(vectors: Option<&str>, corpus: &str, rng: &mut Rng, thorough: bool, w: &mut NdWriter) -> (usize, usize) {
  let (mut nv, mut nc) = (0, 0);
  if let Some(v) = vectors {
    for (i, v) in util::read_ndjson(v).iter().enumerate() {
      let src = join(&v["src"]);
      let raw = join(&v["raw"]);
      let site = v["site"].as_u64().unwrap() as usize;
      if let Some(r) = tpl_record(&format!("c07v{i}"), SupportLang::JavaScript, &src, "g($A)", &raw, Some(site)) {
        w.put(&r);
        nv += 1;
      }
    }
  }
  // corpus: a multi-line named node N inside a site S; pattern = S with N abstracted
  let per_file = if thorough { 12 } else { 3 };
  for (l, path, text) in util::corpus(corpus) {
    if text.contains('\r') || text.contains('\t') {
      continue; // the indentation clause is judged on space-indented LF text (see Template.tla Judged)
    }
    let g = l.ast_grep(&text);
    let nodes = all_nodes(&g);
    let multi: Vec<_> = nodes
      .iter()
      .filter(|n| n.is_named() && n.text().contains('\n') && n.text().len() < 400 && !mrec::has_error_or_missing(&n.get_ts_node()) && !n.text().contains('$'))
      .collect();
    if multi.is_empty() {
      continue;
    }
    for k in 0..per_file {
      let n = (*rng.pick(&multi)).clone();
      let Some(site) = n.parent() else { continue };
      if site.text().len() > 700 || site.parent().is_none() || mrec::has_error_or_missing(&site.get_ts_node()) {
        continue;
      }
      let st = site.text().to_string();
      let (s, e) = (n.range().start - site.range().start, n.range().end - site.range().start);
      let pattern = format!("{}$V{}", &st[..s], &st[e..]);
      let template = match k % 4 {
        0 => "$V".to_string(),
        1 => "wrap($V)".to_string(),
        2 => "wrap(\n    $V,\n  $V\n)".to_string(),
        _ => pattern.clone(), // rewriting the node to itself
      };
      if let Some(mut r) = tpl_record(&format!("{path}#tpl{k}"), l, &text, &pattern, &template, Some(site.range().start)) {
        r["self"] = json!(k % 4 == 3);
        w.put(&r);
        nc += 1;
      }
    }
  }
  (nv, nc)
}

// ------------------------------------------------------------------ C06
struct EditCase {
  id: String,
  lang: SupportLang,
  ext: &'static str,
  src: String,
  rule: Value, // full rule file as JSON (= YAML)
  expanded: bool,
}

fn edit_record(c: &EditCase, scratch: &str, idx: usize) -> Option<Value> {
  let yaml = serde_json::to_string(&c.rule).unwrap();
  let globals = GlobalRules::default();
  let cfgs = catch_unwind(AssertUnwindSafe(|| from_yaml_string::<SupportLang>(&yaml, &globals))).ok()?.ok()?;
  let cfg = &cfgs[0];
  let fixer = cfg.get_fixer().ok()??;
  let g = c.lang.ast_grep(&c.src);
  let root = g.root();
  let p = proj::project(&root, false);
  let lib = catch_unwind(AssertUnwindSafe(|| {
    let ms: Vec<_> = Visitor::new(&cfg.matcher).reentrant(false).visit(root.clone()).collect();
    let by_ref = root.replace_all(&cfg.matcher, &fixer);
    let edits = root.replace_all(&cfg.matcher, fixer);
    (ms, edits, by_ref)
  }));
  let (ms, edits, by_ref) = lib.ok()?;
  let lib_by_ref: Vec<Value> = by_ref.iter().map(|e| json!({"pos": e.position, "del": e.deleted_length, "ins": bytes(&e.inserted_text)})).collect();
  // which match an edit belongs to: the match whose own make_edit has the same range (replace_all may
  // drop edits, so positions in the two lists do not correspond)
  let fixer2 = cfg.get_fixer().ok()??;
  let raw: Vec<(usize, usize, usize)> = ms
    .iter()
    .map(|m| {
      let e = m.make_edit(&cfg.matcher, &fixer2);
      (e.position, e.deleted_length, p.id_of(m.get_node()))
    })
    .collect();
  let mut used = vec![false; raw.len()];
  let lib_edits: Vec<Value> = edits
    .iter()
    .map(|e| {
      let k = (0..raw.len()).find(|&k| !used[k] && raw[k].0 == e.position && raw[k].1 == e.deleted_length);
      if let Some(k) = k {
        used[k] = true;
      }
      json!({"pos": e.position, "del": e.deleted_length, "ins": bytes(&e.inserted_text), "node": k.map(|k| raw[k].2).unwrap_or(0),
             "utf8": std::str::from_utf8(&e.inserted_text).is_ok()})
    })
    .collect();
  // CLI: announced edits, then the file after --update-all
  let dir = format!("{scratch}/e{idx}");
  std::fs::create_dir_all(&dir).unwrap();
  let file = format!("t.{}", c.ext);
  std::fs::write(format!("{dir}/{file}"), &c.src).unwrap();
  let js = run_sgv(&["scan", "--inline-rules", &yaml, "--json=stream", &file], &dir, None, 20, &[]);
  let cli_json: Vec<Value> = json_lines(&js.stdout)
    .iter()
    .filter(|v| v.get("replacementOffsets").is_some())
    .map(|v| {
      json!({
        "s": v["range"]["byteOffset"]["start"], "e": v["range"]["byteOffset"]["end"],
        "pos": v["replacementOffsets"]["start"], "del": v["replacementOffsets"]["end"].as_u64().unwrap_or(0) - v["replacementOffsets"]["start"].as_u64().unwrap_or(0),
        "ins": bytes(v["replacement"].as_str().unwrap_or("").as_bytes()),
      })
    })
    .collect();
  let up = run_sgv(&["scan", "--inline-rules", &yaml, "-U", &file], &dir, None, 20, &[]);
  let after = std::fs::read(format!("{dir}/{file}")).unwrap_or_default();
  let applied = up.stdout.lines().find_map(|l| l.strip_prefix("Applied ").and_then(|r| r.split(' ').next()).and_then(|n| n.parse::<usize>().ok())).unwrap_or(0);
  let _ = std::fs::remove_dir_all(&dir);
  Some(json!({
    "mode": "edit", "id": c.id, "lang": util::lang_name(c.lang), "rule": c.rule, "expanded": c.expanded,
    "src": bytes(c.src.as_bytes()), "cw": char_widths(&c.src),
    "T": p.nodes.iter().map(|n| json!({"s": n.s, "e": n.e, "p": n.p, "ch": n.ch})).collect::<Vec<_>>(),
    "lib": lib_edits, "lib_by_ref": lib_by_ref, "cli": cli_json, "after": bytes(&after), "after_utf8": std::str::from_utf8(&after).is_ok(),
    "applied": applied, "codes": [js.code, up.code],
    "text": c.src.chars().take(200).collect::<String>(),
  }))
}

fn ident_of_width(w: u64, matched: bool, k: usize) -> String {
  // distinct names; byte width grows with w (1, 2, 4) through 2-byte letters
  let head = if matched { "m" } else { "u" };
  let filler = match w {
    1 => "".to_string(),
    2 => "é".to_string(),
    _ => "éé".to_string(),
  };
  format!("{head}{k}{filler}")
}

fn edit_cases(vectors: Option<&str>, corpus: &str, rng: &mut Rng, thorough: bool) -> Vec<EditCase> {
  let js = SupportLang::JavaScript;
  let mut out = vec![];
  if let Some(v) = vectors {
    for (i, v) in util::read_ndjson(v).iter().enumerate() {
      let widths: Vec<u64> = v["widths"].as_array().unwrap().iter().map(|x| x.as_u64().unwrap()).collect();
      let matched: Vec<bool> = v["matched"].as_array().unwrap().iter().map(|x| x.as_bool().unwrap()).collect();
      let el = v["el"].as_u64().unwrap();
      let er = v["er"].as_u64().unwrap();
      let ins = v["ins"].as_u64().unwrap() as usize;
      let elems: Vec<String> = widths.iter().enumerate().map(|(k, w)| ident_of_width(*w, matched[k], k)).collect();
      let crlf = i % 5 == 4;
      let nl = if crlf { "\r\n" } else { "\n" };
      // a file need not start with a token: leading blank lines / indentation (the root node then starts after byte 0)
      let lead = ["", "\n\n", "  \t", "\n \n  "][i % 4].replace('\n', nl);
      let src = format!("{lead}let é = 1;{nl}[{}];{nl}", elems.join(", "));
      let mut fix = json!({"template": "XY"[..ins].to_string()});
      if el == 1 {
        fix["expandStart"] = json!({"regex": ",", "stopBy": "neighbor"});
      }
      if er == 1 {
        fix["expandEnd"] = json!({"regex": ",", "stopBy": "neighbor"});
      } else if er == 2 {
        fix["expandEnd"] = json!({"regex": "^\\]$", "stopBy": "end"});
      }
      let expanded = el != 0 || er != 0;
      let rule = json!({"id": "r", "language": "JavaScript",
        "rule": {"kind": "identifier", "regex": "^m", "inside": {"kind": "array"}},
        "fix": if expanded { fix } else { json!("XY"[..ins].to_string()) }});
      out.push(EditCase { id: format!("c06v{i}"), lang: js, ext: "js", src, rule, expanded });
    }
  }
  // hand-picked shapes: nested matches, trailing punctuation trimmed by the match length, multi-byte text
  let fixed: Vec<(&str, Value)> = vec![
    ("foo(foo(a), foo(b));\n", json!({"pattern": "foo($A)"})),
    ("let s = \"é🦀\"; foo(\"🦀\", s);\n", json!({"pattern": "foo($$$A)"})),
    ("var a = 1; var b = 2\n", json!({"pattern": "var $A = $B"})),
    ("foo(a)\r\nfoo(b)\r\n", json!({"pattern": "foo($A)"})),
    ("foo(a, ;\nfoo(b)\n", json!({"pattern": "foo($A)"})),
    ("\n\n  foo(a);\n  foo(b);\n\n", json!({"pattern": "foo($A)"})),
    ("   foo(é)", json!({"pattern": "foo($A)"})),
  ];
  for (i, (src, rule)) in fixed.iter().enumerate() {
    for (j, fix) in ["bar($A)", "$A", ""].iter().enumerate() {
      let r = json!({"id": "r", "language": "JavaScript", "rule": rule, "fix": fix});
      out.push(EditCase { id: format!("fixed{i}_{j}"), lang: js, ext: "js", src: src.to_string(), rule: r, expanded: false });
    }
  }
  // corpus: cut a pattern with one hole at a corpus site, fix wraps the hole
  let per_file = if thorough { 4 } else { 1 };
  for (l, path, text) in util::corpus(corpus) {
    if l == SupportLang::Html || (!thorough && !path.contains("/c.")) {
      continue;
    }
    let g = l.ast_grep(&text);
    let sites: Vec<_> = all_nodes(&g)
      .into_iter()
      .filter(|n| n.is_named() && n.get_ts_node().child_count() >= 2 && n.text().len() < 100 && !n.text().contains('$') && !mrec::has_error_or_missing(&n.get_ts_node()))
      .collect();
    if sites.is_empty() {
      continue;
    }
    for k in 0..per_file {
      let site = rng.pick(&sites).clone();
      let kids: Vec<_> = site.children().filter(|c| c.is_named()).collect();
      if kids.is_empty() {
        continue;
      }
      let kid = rng.pick(&kids);
      let st = site.text().to_string();
      let (s, e) = (kid.range().start - site.range().start, kid.range().end - site.range().start);
      let pattern = format!("{}$V{}", &st[..s], &st[e..]);
      let rule = json!({"id": "r", "language": util::lang_name(l), "rule": {"pattern": pattern}, "fix": "$V"});
      let src = if k % 2 == 1 { format!("\n \n{text}") } else { text.clone() };
      out.push(EditCase { id: format!("{path}#edit{k}"), lang: l, ext: ext_of(&path), src, rule, expanded: false });
    }
  }
  out
}

fn ext_of(path: &str) -> &'static str {
  let e = path.rsplit('.').next().unwrap_or("txt");
  for x in ["sh", "c", "cpp", "cs", "css", "ex", "go", "hs", "html", "java", "js", "json", "kt", "lua", "php", "py", "rb", "rs", "scala", "swift", "tsx", "ts", "yml"] {
    if x == e {
      return x;
    }
  }
  "txt"
}

pub fn drive(tpl_vectors: Option<&str>, edit_vectors: Option<&str>, corpus: &str, seed: u64, out: &str, thorough: bool, which: &str) {
  std::panic::set_hook(Box::new(|_| {}));
  let mut rng = Rng::new(seed ^ 0xF1);
  let mut w = NdWriter::new(out);
  let mut summ = json!({});
  if which != "c06" {
    let (nv, nc) = drive_tpl(tpl_vectors, corpus, &mut rng, thorough, &mut w);
    summ["tpl_vectors"] = json!(nv);
    summ["tpl_corpus"] = json!(nc);
  }
  if which != "c07" {
    let cases = edit_cases(edit_vectors, corpus, &mut rng, thorough);
    let scratch = format!("/var/tmp/agv-fix-{}", std::process::id());
    std::fs::create_dir_all(&scratch).unwrap();
    let recs = cli::par_map(&cases, 12, |i, c| edit_record(c, &scratch, i));
    let _ = std::fs::remove_dir_all(&scratch);
    let mut n = 0;
    for r in recs.into_iter().flatten() {
      w.put(&r);
      n += 1;
    }
    summ["edit_cases"] = json!(cases.len());
    summ["edit_records"] = json!(n);
  }
  summ["records"] = json!(w.finish());
  util::summary(summ);
}
