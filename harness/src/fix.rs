//! C06 / C07 recorder: real replacement texts (templates + indentation) and real edits (library
//! replace_all, CLI --json, file after --update-all).  Judged by spec/trace/Trace_Fix.tla.
use crate::c19::{all_nodes, char_widths};
use crate::cli::{self, json_lines, run_sgv};
use crate::mrec;
use crate::proj;
use crate::util::{self, NdWriter, Rng};
use ast_grep_config::{from_yaml_string, GlobalRules};
use ast_grep_core::matcher::MatcherExt;
use ast_grep_core::meta_var::MetaVariable;
use ast_grep_core::replacer::Replacer;
use ast_grep_core::traversal::Visitor;
use ast_grep_core::{Language, Pattern};
use ast_grep_language::SupportLang;
use serde_json::{json, Value};
use std::panic::{catch_unwind, AssertUnwindSafe};

fn chars(s: &str) -> Value {
  json!(s.chars().map(|c| c.to_string()).collect::<Vec<_>>())
}
fn join(v: &Value) -> String {
  v.as_array().unwrap().iter().map(|c| c.as_str().unwrap()).collect()
}
fn bytes(s: &[u8]) -> Value {
  json!(s.iter().map(|b| *b as u32).collect::<Vec<_>>())
}

/// byte offset -> char offset (records for TLC index characters)
fn char_off(s: &str, byte: usize) -> usize {
  s[..byte.min(s.len())].chars().count()
}

// ------------------------------------------------------------------ C07
fn tpl_record(id: &str, lang: SupportLang, src: &str, pattern: &str, template: &str, site_hint: Option<usize>) -> Option<Value> {
  let g = lang.ast_grep(src);
  let pat = catch_unwind(AssertUnwindSafe(|| Pattern::try_new(pattern, lang))).ok()?.ok()?;
  let nm = match site_hint {
    Some(off) => all_nodes(&g).into_iter().filter(|n| n.range().start == off).find_map(|n| pat.match_node(n))?,
    None => g.root().find(&pat)?,
  };
  let out = catch_unwind(AssertUnwindSafe(|| template.generate_replacement(&nm)));
  let env = nm.get_env();
  let mut bind = vec![];
  for v in env.get_matched_variables() {
    match v {
      MetaVariable::Capture(name, _) => {
        if let Some(n) = env.get_match(&name) {
          bind.push(json!({"name": chars(&name), "multi": false, "lo": char_off(src, n.range().start), "hi": char_off(src, n.range().end)}));
        }
      }
      MetaVariable::MultiCapture(name) => {
        let ns = env.get_multiple_matches(&name);
        if let (Some(a), Some(b)) = (ns.first(), ns.last()) {
          bind.push(json!({"name": chars(&name), "multi": true, "lo": char_off(src, a.range().start), "hi": char_off(src, b.range().end)}));
        }
      }
      _ => {}
    }
  }
  // what the public replace call does with it: the whole text after the edit
  let mut g2 = lang.ast_grep(src);
  let replaced = catch_unwind(AssertUnwindSafe(|| {
    let edit = nm.replace_by(template);
    (edit.position, edit.deleted_length, g2.edit(edit).is_ok(), g2.source().to_string())
  }));
  Some(json!({
    "mode": "tpl", "id": id, "lang": util::lang_name(lang), "pattern": pattern,
    "src": chars(src), "raw": chars(template), "site": char_off(src, nm.range().start), "siteEnd": char_off(src, nm.range().end),
    "bind": bind, "panic": out.is_err(), "self": template == "g($A)" && pattern == "g($A)" && !src.contains("(\n"),
    "out": chars(&String::from_utf8_lossy(&out.unwrap_or_default())),
    "after": match replaced { Ok((_, _, true, s)) => chars(&s), _ => json!([]) },
  }))
}

fn drive_tpl(vectors: Option<&str>, corpus: &str, rng: &mut Rng, thorough: bool, w: &mut NdWriter) -> (usize, usize) {
  let (mut nv, mut nc) = (0, 0);
  if let Some(v) = vectors {
    for (i, v) in util::read_ndjson(v).iter().enumerate() {
      let src = join(&v["src"]);
      let raw = join(&v["raw"]);
      let site = v["site"].as_u64().unwrap() as usize;
      if let Some(r) = tpl_record(&format!("c07v{i}"), SupportLang::JavaScript, &src, "g($A)", &raw, Some(site)) {
        w.put(&r);
        nv += 1;
      }
    }
  }
  // a captured run of siblings that ENDS in an unnamed token (a trailing comma): the slot stands for the whole run
  for (k, (src, pattern, template)) in [("foo(a, b,)\n", "foo($$$ARGS)", "foo($$$ARGS)"), ("const xs = [1, 2, 3,];\n", "[$$$I]", "f([$$$I])"),
                                        ("  bar(\n    x,\n    y,\n  );\n", "bar($$$A)", "baz($$$A)"), ("foo(a,)\n", "foo($$$ARGS)", "g($$$ARGS, $$$ARGS)")].iter().enumerate() {
    if let Some(r) = tpl_record(&format!("c07trail{k}"), SupportLang::JavaScript, src, pattern, template, None) {
      w.put(&r);
      nv += 1;
    }
  }
  // long lines: the site sits around and beyond the look-behind limit of the indentation arithmetic, behind a run of
  // spaces; rewriting g(..) to itself
  for lead in [0usize, 4] {
    for gap in [1usize, 4] {
      for pad in (470..=540).step_by(if thorough { 1 } else { 2 }) {
        let ind = " ".repeat(lead);
        let src = format!("{ind}const t = [0,{}\"{}\", g({{\n{ind}    a: 1,\n{ind}    b: 2\n{ind}}})];\n", " ".repeat(gap), "x".repeat(pad));
        let site = src.find("g(").unwrap();
        if let Some(r) = tpl_record(&format!("c07long-{lead}-{gap}-{pad}"), SupportLang::JavaScript, &src, "g($A)", "g($A)", Some(site)) {
          w.put(&r);
          nv += 1;
        }
      }
    }
  }
  // text indented with TAB characters only: rewriting g(..) to itself, at several depths, with nested continuation lines
  for depth in 0..=3usize {
    for shape in 0..3 {
      let t = "\t".repeat(depth);
      let src = match shape {
        0 => format!("function f() {{\n{t}const v = g({{\n{t}\ta: 1,\n{t}\tb: [\n{t}\t\t2\n{t}\t]\n{t}}});\n}}\n"),
        1 => format!("{t}let w = g([\n{t}\t1,\n{t}\t[\n{t}\t\t2\n{t}\t]\n{t}]);\n"),
        _ => format!("if (x) {{\n{t}\tfoo(g(function () {{\n{t}\t\treturn 1;\n{t}\t}}), 2);\n}}\n"),
      };
      let site = src.find("g(").unwrap();
      {
        if let Some(r) = tpl_record(&format!("c07tab-{depth}-{shape}"), SupportLang::JavaScript, &src, "g($A)", "g($A)", Some(site)) {
          let mut r = r;
          r["self"] = json!(true);
          w.put(&r);
          nv += 1;
        }
      }
    }
  }
  // corpus: a multi-line named node N inside a site S; pattern = S with N abstracted
  let per_file = if thorough { 12 } else { 6 };
  for (l, path, text) in util::corpus(corpus) {
    if text.contains('\r') || text.contains('\t') {
      continue; // the indentation clause is judged on space-indented LF text (see Template.tla Judged)
    }
    let g = l.ast_grep(&text);
    let nodes = all_nodes(&g);
    let multi: Vec<_> = nodes
      .iter()
      .filter(|n| n.is_named() && n.text().contains('\n') && n.text().len() < 400 && !mrec::has_error_or_missing(&n.get_ts_node()) && !n.text().contains('$'))
      .collect();
    if multi.is_empty() {
      continue;
    }
    for k in 0..per_file {
      let n = (*rng.pick(&multi)).clone();
      let Some(site) = n.parent() else { continue };
      if site.text().len() > 700 || site.parent().is_none() || mrec::has_error_or_missing(&site.get_ts_node()) {
        continue;
      }
      let st = site.text().to_string();
      let (s, e) = (n.range().start - site.range().start, n.range().end - site.range().start);
      let pattern = format!("{}$V{}", &st[..s], &st[e..]);
      let template = match k % 6 {
        0 => "$V".to_string(),
        1 => "wrap($V)".to_string(),
        2 => "wrap(\n    $V,\n  $V\n)".to_string(),
        // sigils that start no meta variable are literal text and shift the slots behind them
        4 => "$(\n    $V,\n  $.x $V\n)".to_string(),
        5 => "$1 $$ $(\n   $V)".to_string(),
        _ => pattern.clone(), // rewriting the node to itself
      };
      // "rewriting a node to itself": the template is the node's text as a template author writes it, i.e. with the
      // continuation lines relative to the first line (the indentation of the site's line removed); it is judged
      // only when the hole captured exactly the node that was cut out
      let mut is_self = k % 6 == 3;
      let template = if is_self {
        let before = &text[..site.range().start];
        let line = &before[before.rfind('\n').map(|i| i + 1).unwrap_or(0)..];
        let ind = line.len() - line.trim_start_matches(' ').len();
        let lines: Vec<&str> = template.split('\n').collect();
        if lines.iter().skip(1).all(|l| l.trim().is_empty() || l.starts_with(&" ".repeat(ind))) {
          lines.iter().enumerate().map(|(i, l)| if i == 0 || l.len() < ind { l.to_string() } else { l[ind..].to_string() }).collect::<Vec<_>>().join("\n")
        } else {
          is_self = false;
          template
        }
      } else {
        template
      };
      if let Some(mut r) = tpl_record(&format!("{path}#tpl{k}"), l, &text, &pattern, &template, Some(site.range().start)) {
        let hole_ok = r["bind"].as_array().map(|b| b.iter().any(|x| x["lo"] == json!(char_off(&text, n.range().start)) && x["hi"] == json!(char_off(&text, n.range().end)) && x["multi"] == false)).unwrap_or(false);
        r["self"] = json!(is_self && hole_ok);
        w.put(&r);
        nc += 1;
      }
    }
  }
  (nv, nc)
}


// ------------------------------------------------------------------------------------------------
// C07, "or the transformed string": fix templates that use variables produced by `transform`, in the string form and
/// "rewriting a node to itself is a no-op", with every variable of the fix passed through a transformation that changes
/// nothing (a `replace` whose expression matches nothing): single and multi-node captures, on one line or several,
/// at several indentations.  The transformed string stands where the captured text would stand.
fn selfx_records(w: &mut NdWriter) -> usize {
  let lang = SupportLang::JavaScript;
  let rule = json!({"id": "r", "language": "JavaScript", "rule": {"pattern": "function $F() { $$$BODY }"},
    "transform": {"NEW": {"replace": {"source": "$$$BODY", "replace": "@@never@@", "by": ""}},
                  "NAME": {"replace": {"source": "$F", "replace": "@@never@@", "by": ""}}},
    "fix": "function $NAME() {\n  $NEW\n}"});
  let rule1 = json!({"id": "r", "language": "JavaScript", "rule": {"pattern": "wrap($A)"},
    "transform": {"SAME": {"replace": {"source": "$A", "replace": "@@never@@", "by": ""}}}, "fix": "wrap($SAME)"});
  let globals = ast_grep_config::GlobalRules::default();
  let mut n = 0;
  for ind in [0usize, 2, 4, 6] {
    let i = " ".repeat(ind);
    let cases: Vec<(&Value, String)> = vec![
      (&rule, format!("if (x) {{\n{i}function f() {{\n{i}  foo(\n{i}    1\n{i}  );\n{i}  bar(2);\n{i}}}\n}}\n")),
      (&rule, format!("{i}function g() {{\n{i}  one();\n{i}}}\n")),
      (&rule, format!("{i}function h() {{\n{i}  if (a) {{\n{i}    b();\n{i}  }}\n{i}  c(\"é\");\n{i}}}\n")),
      (&rule1, format!("{i}v = wrap({{\n{i}  a: 1,\n{i}  b: [\n{i}    2\n{i}  ]\n{i}}});\n")),
      (&rule1, format!("{i}wrap(single);\n")),
    ];
    for (k, (doc, src)) in cases.iter().enumerate() {
      let Ok(cfgs) = ast_grep_config::from_yaml_string::<SupportLang>(&serde_json::to_string(doc).unwrap(), &globals) else { continue };
      let cfg = &cfgs[0];
      let g = lang.ast_grep(src.as_str());
      let Some(nm) = g.root().find(&cfg.matcher) else { continue };
      let Some(fixer) = cfg.matcher.fixer.as_ref() else { continue };
      let out = catch_unwind(AssertUnwindSafe(|| fixer.generate_replacement(&nm)));
      w.put(&json!({"mode": "selfx", "id": format!("selfx-{ind}-{k}"), "lang": "JavaScript", "src": chars(src), "matched": chars(&nm.text()),
        "panic": out.is_err(), "out": chars(&String::from_utf8_lossy(&out.unwrap_or_default()))}));
      n += 1;
    }
  }
  n
}

// in the object form of `fix` (with and without expansions); values are single-line, so no indentation is involved.
fn tplx_records(w: &mut NdWriter) -> usize {
  let lang = SupportLang::JavaScript;
  let sources = ["oldName(fooBar);\n", "x = oldName(\"é🦀\", b);\n", "oldName(a_b-c, [1, 2]); oldName(z)\n"];
  let templates = ["newName($UP, $ARG, '$HEAD')", "$UP", "$$$REST|$UP|$NOPE|$up|$", "f($HEAD$HEAD, $ARG)", "$KEBAB-$UP", "$$$REST",
                   // two sigils: the spelling that captures unnamed nodes in a pattern; in a template it names the same variable
                   "$$ARG|$$UP|$$$REST|$$NOPE", "g($$HEAD$$ARG)"];
  let transform = json!({
    "UP": {"convert": {"source": "$ARG", "toCase": "upperCase"}},
    "HEAD": {"substring": {"source": "$ARG", "startChar": 0, "endChar": 3}},
    "KEBAB": {"convert": {"source": "$UP", "toCase": "kebabCase"}},
    // names that are proper prefixes of other variables of the templates (`$ARG`, `$UP`, `$$$REST`, `$HEAD`): a variable is
    // read up to the end of its name, whatever shorter names exist
    "AR": {"convert": {"source": "$ARG", "toCase": "upperCase"}},
    "U": {"substring": {"source": "$ARG", "startChar": 1}},
    "RES": {"convert": {"source": "$ARG", "toCase": "lowerCase"}},
    "HEA": {"substring": {"source": "$ARG", "endChar": 1}},
  });
  let mut n = 0;
  for (si, src) in sources.iter().enumerate() {
    for (ti, tpl) in templates.iter().enumerate() {
      for form in ["string", "object", "object-expand"] {
        let fix = match form {
          "string" => json!(tpl),
          "object" => json!({"template": tpl}),
          _ => json!({"template": tpl, "expandEnd": {"regex": "^;$"}}),
        };
        let rule = json!({"id": "r", "language": "JavaScript", "rule": {"pattern": "oldName($ARG, $$$REST)"}, "transform": transform, "fix": fix});
        let rule2 = json!({"id": "r", "language": "JavaScript", "rule": {"pattern": "oldName($ARG)"}, "transform": transform, "fix": fix});
        for (ri, doc) in [rule, rule2].iter().enumerate() {
          let globals = ast_grep_config::GlobalRules::default();
          let Ok(cfgs) = ast_grep_config::from_yaml_string::<SupportLang>(&serde_json::to_string(doc).unwrap(), &globals) else { continue };
          let cfg = &cfgs[0];
          let g = lang.ast_grep(*src);
          let Some(nm) = g.root().find(&cfg.matcher) else { continue };
          let Some(fixer) = cfg.matcher.fixer.as_ref() else { continue };
          let out = catch_unwind(AssertUnwindSafe(|| fixer.generate_replacement(&nm)));
          let env = nm.get_env();
          let mut vals = vec![];
          for v in env.get_matched_variables() {
            match v {
              MetaVariable::Capture(name, _) => {
                if let Some(node) = env.get_match(&name) {
                  vals.push(json!({"name": chars(&name), "multi": false, "val": chars(&node.text())}));
                }
              }
              MetaVariable::MultiCapture(name) => {
                let ns = env.get_multiple_matches(&name);
                let text = match (ns.first(), ns.last()) {
                  (Some(a), Some(b)) => src[a.range().start..b.range().end].to_string(),
                  _ => String::new(),
                };
                vals.push(json!({"name": chars(&name), "multi": true, "val": chars(&text)}));
              }
              _ => {}
            }
          }
          for key in ["UP", "HEAD", "KEBAB", "AR", "U", "RES", "HEA"] {
            if let Some(b) = env.get_transformed(key) {
              vals.push(json!({"name": chars(key), "multi": false, "val": chars(&String::from_utf8_lossy(b))}));
            }
          }
          w.put(&json!({"mode": "tplx", "id": format!("tplx-s{si}t{ti}-{form}-{ri}"), "lang": "JavaScript", "form": form, "raw": chars(tpl), "vals": vals,
                        "panic": out.is_err(), "out": chars(&String::from_utf8_lossy(&out.unwrap_or_default()))}));
          n += 1;
        }
      }
    }
  }
  n
}

// ------------------------------------------------------------------ C06
struct EditCase {
  id: String,
  lang: SupportLang,
  ext: &'static str,
  src: String,
  rule: Value, // full rule file as JSON (= YAML)
  expanded: bool,
  /// how the fix widens the edit: (expandStart, expandEnd); 0 = not, 1 = a comma next to the node, 2 = expandStart: the
  /// nearest comma before it (stopBy: end), expandEnd: the nearest `]` after it (stopBy: end); None = not one of these
  exp: Option<(u8, u8)>,
}

fn edit_record(c: &EditCase, scratch: &str, idx: usize) -> Option<Value> {
  let yaml = serde_json::to_string(&c.rule).unwrap();
  let globals = GlobalRules::default();
  let cfgs = catch_unwind(AssertUnwindSafe(|| from_yaml_string::<SupportLang>(&yaml, &globals))).ok()?.ok()?;
  let cfg = &cfgs[0];
  let fixer = cfg.get_fixer().ok()??;
  let g = c.lang.ast_grep(&c.src);
  let root = g.root();
  let p = proj::project(&root, false);
  let lib = catch_unwind(AssertUnwindSafe(|| {
    let ms: Vec<_> = Visitor::new(&cfg.matcher).reentrant(false).visit(root.clone()).collect();
    let by_ref = root.replace_all(&cfg.matcher, &fixer);
    let edits = root.replace_all(&cfg.matcher, fixer);
    (ms, edits, by_ref)
  }));
  let (ms, edits, by_ref) = lib.ok()?;
  let lib_by_ref: Vec<Value> = by_ref.iter().map(|e| json!({"pos": e.position, "del": e.deleted_length, "ins": bytes(&e.inserted_text)})).collect();
  // which match an edit belongs to: the match whose own make_edit has the same range (replace_all may
  // drop edits, so positions in the two lists do not correspond)
  let fixer2 = cfg.get_fixer().ok()??;
  let raw: Vec<(usize, usize, usize)> = ms
    .iter()
    .map(|m| {
      let e = m.make_edit(&cfg.matcher, &fixer2);
      (e.position, e.deleted_length, p.id_of(m.get_node()))
    })
    .collect();
  let mut used = vec![false; raw.len()];
  let lib_edits: Vec<Value> = edits
    .iter()
    .map(|e| {
      let k = (0..raw.len()).find(|&k| !used[k] && raw[k].0 == e.position && raw[k].1 == e.deleted_length);
      if let Some(k) = k {
        used[k] = true;
      }
      json!({"pos": e.position, "del": e.deleted_length, "ins": bytes(&e.inserted_text), "node": k.map(|k| raw[k].2).unwrap_or(0),
             "utf8": std::str::from_utf8(&e.inserted_text).is_ok()})
    })
    .collect();
  // CLI: announced edits, then the file after --update-all
  let dir = format!("{scratch}/e{idx}");
  std::fs::create_dir_all(&dir).unwrap();
  let file = format!("t.{}", c.ext);
  std::fs::write(format!("{dir}/{file}"), &c.src).unwrap();
  let js = run_sgv(&["scan", "--inline-rules", &yaml, "--json=stream", &file], &dir, None, 20, &[]);
  let cli_json: Vec<Value> = json_lines(&js.stdout)
    .iter()
    .filter(|v| v.get("replacementOffsets").is_some())
    .map(|v| {
      json!({
        "s": v["range"]["byteOffset"]["start"], "e": v["range"]["byteOffset"]["end"],
        "pos": v["replacementOffsets"]["start"], "del": v["replacementOffsets"]["end"].as_u64().unwrap_or(0) - v["replacementOffsets"]["start"].as_u64().unwrap_or(0),
        "ins": bytes(v["replacement"].as_str().unwrap_or("").as_bytes()),
      })
    })
    .collect();
  let up = run_sgv(&["scan", "--inline-rules", &yaml, "-U", &file], &dir, None, 20, &[]);
  let after = std::fs::read(format!("{dir}/{file}")).unwrap_or_default();
  let applied = up.stdout.lines().find_map(|l| l.strip_prefix("Applied ").and_then(|r| r.split(' ').next()).and_then(|n| n.parse::<usize>().ok())).unwrap_or(0);
  let _ = std::fs::remove_dir_all(&dir);
  // tx: 1 = the node reads `,`, 2 = `]`, 100 + k = a statement (text ending in `;`) with the k-th distinct text
  let mut stmts: Vec<&str> = p.nodes.iter().filter_map(|n| c.src.get(n.s..n.e)).filter(|t| t.ends_with(';') && t.len() > 1).collect();
  stmts.sort();
  stmts.dedup();
  let t_rows: Vec<Value> = p.nodes.iter().map(|n| json!({"s": n.s, "e": n.e, "p": n.p, "ch": n.ch,
    "tx": match c.src.get(n.s..n.e) { Some(",") => 1, Some("]") => 2,
            Some(t) => stmts.iter().position(|x| *x == t).map(|k| 100 + k).unwrap_or(0), _ => 0 }})).collect();
  Some(json!({
    "mode": "edit", "id": c.id, "lang": util::lang_name(c.lang), "rule": c.rule, "expanded": c.expanded,
    "src": bytes(c.src.as_bytes()), "cw": char_widths(&c.src),
    "T": t_rows,
    "exp": match c.exp { Some((a, b)) => json!([a, b]), None => json!([9, 9]) },
    "raw": raw.iter().map(|(p, d, _)| json!({"pos": p, "del": d, "ins": []})).collect::<Vec<_>>(),
    "lib": lib_edits, "lib_by_ref": lib_by_ref, "cli": cli_json, "after": bytes(&after), "after_utf8": std::str::from_utf8(&after).is_ok(),
    "applied": applied, "codes": [js.code, up.code],
    "text": c.src.chars().take(200).collect::<String>(),
  }))
}

fn ident_of_width(w: u64, matched: bool, k: usize) -> String {
  // distinct names; byte width grows with w (1, 2, 4) through 2-byte letters
  let head = if matched { "m" } else { "u" };
  let filler = match w {
    1 => "".to_string(),
    2 => "é".to_string(),
    _ => "éé".to_string(),
  };
  format!("{head}{k}{filler}")
}

fn edit_cases(vectors: Option<&str>, corpus: &str, rng: &mut Rng, thorough: bool) -> Vec<EditCase> {
  let js = SupportLang::JavaScript;
  let mut out = vec![];
  if let Some(v) = vectors {
    for (i, v) in util::read_ndjson(v).iter().enumerate() {
      let widths: Vec<u64> = v["widths"].as_array().unwrap().iter().map(|x| x.as_u64().unwrap()).collect();
      let matched: Vec<bool> = v["matched"].as_array().unwrap().iter().map(|x| x.as_bool().unwrap()).collect();
      let el = v["el"].as_u64().unwrap();
      let er = v["er"].as_u64().unwrap();
      let ins = v["ins"].as_u64().unwrap() as usize;
      let elems: Vec<String> = widths.iter().enumerate().map(|(k, w)| ident_of_width(*w, matched[k], k)).collect();
      let crlf = i % 5 == 4;
      let nl = if crlf { "\r\n" } else { "\n" };
      // a file need not start with a token: leading blank lines / indentation (the root node then starts after byte 0)
      let lead = ["", "\n\n", "  \t", "\n \n  "][i % 4].replace('\n', nl);
      let src = format!("{lead}let é = 1;{nl}[{}];{nl}", elems.join(", "));
      let mut fix = json!({"template": "XY"[..ins].to_string()});
      if el == 1 {
        fix["expandStart"] = json!({"regex": ",", "stopBy": "neighbor"});
      }
      if er == 1 {
        fix["expandEnd"] = json!({"regex": ",", "stopBy": "neighbor"});
      } else if er == 2 {
        fix["expandEnd"] = json!({"regex": "^\\]$", "stopBy": "end"});
      }
      let expanded = el != 0 || er != 0;
      let rule = json!({"id": "r", "language": "JavaScript",
        "rule": {"kind": "identifier", "regex": "^m", "inside": {"kind": "array"}},
        "fix": if expanded { fix } else { json!("XY"[..ins].to_string()) }});
      out.push(EditCase { id: format!("c06v{i}"), lang: js, ext: "js", src, rule, expanded, exp: Some((el as u8, er as u8)) });
    }
  }
  // hand-picked shapes: nested matches, trailing punctuation trimmed by the match length, multi-byte text
  let fixed: Vec<(&str, Value)> = vec![
    ("foo(foo(a), foo(b));\n", json!({"pattern": "foo($A)"})),
    ("let s = \"é🦀\"; foo(\"🦀\", s);\n", json!({"pattern": "foo($$$A)"})),
    ("var a = 1; var b = 2\n", json!({"pattern": "var $A = $B"})),
    ("foo(a)\r\nfoo(b)\r\n", json!({"pattern": "foo($A)"})),
    ("foo(a, ;\nfoo(b)\n", json!({"pattern": "foo($A)"})),
    ("\n\n  foo(a);\n  foo(b);\n\n", json!({"pattern": "foo($A)"})),
    ("   foo(é)", json!({"pattern": "foo($A)"})),
    // matches that touch (one ends where the next one starts): none is nested in or overlaps another one
    ("{}{}{}\n", json!({"kind": "statement_block"})),
    ("let t = `${a}${b}${c}`;\n", json!({"kind": "template_substitution"})),
    ("a;b;;c;\n", json!({"kind": "expression_statement"})),
    // a file that starts with a byte order mark: three bytes of the file like any others (offsets count them, -U keeps them)
    ("\u{feff}foo(1)\nlet s = \"é\";\n\"éé\";foo(2)\n", json!({"pattern": "foo($A)"})),
  ];
  for (i, (src, rule)) in fixed.iter().enumerate() {
    for (j, fix) in ["bar($A)", "$A", ""].iter().enumerate() {
      let r = json!({"id": "r", "language": "JavaScript", "rule": rule, "fix": fix});
      out.push(EditCase { id: format!("fixed{i}_{j}"), lang: js, ext: "js", src: src.to_string(), rule: r, expanded: false, exp: None });
    }
  }
  // expansions that search beyond the neighbour (stopBy: end): several siblings before / after the match satisfy the
  // expansion rule; the edit starts at the NEAREST one before it, ends at the nearest one after it
  for (i, src) in ["x = [a, b, m1, c, m2, d];\n", "[m0, é, mm, z];\n", "f([a, /* c */ b, m3], [m4]);\n"].iter().enumerate() {
    for (j, (el, er)) in [(2u8, 0u8), (2, 2), (2, 1), (0, 2), (1, 2)].iter().enumerate() {
      let mut fix = json!({"template": "Q"});
      match el { 1 => { fix["expandStart"] = json!({"regex": "^,$", "stopBy": "neighbor"}); } 2 => { fix["expandStart"] = json!({"regex": "^,$", "stopBy": "end"}); } _ => {} }
      match er { 1 => { fix["expandEnd"] = json!({"regex": "^,$", "stopBy": "neighbor"}); } 2 => { fix["expandEnd"] = json!({"regex": "^\\]$", "stopBy": "end"}); } _ => {} }
      let rule = json!({"id": "r", "language": "JavaScript", "rule": {"kind": "identifier", "regex": "^m", "inside": {"kind": "array"}}, "fix": fix});
      out.push(EditCase { id: format!("far{i}_{j}"), lang: js, ext: "js", src: src.to_string(), rule, expanded: true, exp: Some((*el, *er)) });
    }
  }
  // an expansion rule that names a variable of the match: the edit is widened over the next statement only when that
  // statement reads like the matched one (expandEnd code 3)
  for (i, src) in ["init();\ninit();\nstart();\nstop();\n", "a();\na();\na();\nb();\n", "x();\ny();\n"].iter().enumerate() {
    let rule = json!({"id": "r", "language": "JavaScript", "rule": {"kind": "expression_statement", "pattern": "$S"},
                      "fix": {"template": "$S", "expandEnd": {"pattern": "$S", "stopBy": "neighbor"}}});
    out.push(EditCase { id: format!("bound{i}"), lang: js, ext: "js", src: src.to_string(), rule, expanded: true, exp: Some((0, 3)) });
  }
  // corpus: cut a pattern with one hole at a corpus site, fix wraps the hole
  let per_file = if thorough { 4 } else { 1 };
  for (l, path, text) in util::corpus(corpus) {
    if l == SupportLang::Html || (!thorough && !path.contains("/c.")) {
      continue;
    }
    let g = l.ast_grep(&text);
    let sites: Vec<_> = all_nodes(&g)
      .into_iter()
      .filter(|n| n.is_named() && n.get_ts_node().child_count() >= 2 && n.text().len() < 100 && !n.text().contains('$') && !mrec::has_error_or_missing(&n.get_ts_node()))
      .collect();
    if sites.is_empty() {
      continue;
    }
    for k in 0..per_file {
      let site = rng.pick(&sites).clone();
      let kids: Vec<_> = site.children().filter(|c| c.is_named()).collect();
      if kids.is_empty() {
        continue;
      }
      let kid = rng.pick(&kids);
      let st = site.text().to_string();
      let (s, e) = (kid.range().start - site.range().start, kid.range().end - site.range().start);
      let pattern = format!("{}$V{}", &st[..s], &st[e..]);
      let rule = json!({"id": "r", "language": util::lang_name(l), "rule": {"pattern": pattern}, "fix": "$V"});
      let src = if k % 2 == 1 { format!("\n \n{text}") } else { text.clone() };
      out.push(EditCase { id: format!("{path}#edit{k}"), lang: l, ext: ext_of(&path), src, rule, expanded: false, exp: None });
    }
  }
  out
}


// ------------------------------------------------------------------------------------------------
// `rewrite` transformations (C06, last clause): the captured text, every node under it in DFS order with the
// verdict and edit of every listed rewriter on it (raw facts), and the text the transformation produced.
struct RwCase {
  id: String,
  src: String,
  source_var: &'static str, // "$$$ARGS" or "$A"
  pattern: &'static str,
  order: Vec<usize>, // rewriters listed in the transformation, by index into REWRITERS
  join_by: Option<&'static str>,
}

fn rewriter_docs() -> Vec<Value> {
  vec![
    json!({"id": "rw-num", "language": "JavaScript", "rule": {"kind": "number"}, "fix": "N"}),
    json!({"id": "rw-bar", "language": "JavaScript", "rule": {"pattern": "bar($X)"}, "fix": "baz($X)"}),
    json!({"id": "rw-str", "language": "JavaScript", "rule": {"kind": "string"}, "fix": "'é'"}),
    json!({"id": "rw-call", "language": "JavaScript", "rule": {"kind": "call_expression"}, "fix": "call"}),
    json!({"id": "rw-del", "language": "JavaScript", "rule": {"kind": "identifier", "regex": "^x"}, "fix": ""}),
    // rewriters whose rule is a bare relational rule (no kind / pattern next to it): the node that HAS a number is rewritten,
    // not the number; judged by statement (the edit replaces the node the rule was asked about), see rewrite_record
    json!({"id": "rw-has", "language": "JavaScript", "rule": {"has": {"kind": "number"}}, "fix": "H"}),
    json!({"id": "rw-in", "language": "JavaScript", "rule": {"inside": {"kind": "array"}}, "fix": "I"}),
    // a rewriter whose fix widens its edit to the comma before the node: for the first captured node that comma lies
    // BEFORE the captured text (pattern `foo(0, $$$ARGS)`), and such an edit is not applied
    json!({"id": "rw-exp", "language": "JavaScript", "rule": {"kind": "identifier", "regex": "^y$"}, "fix": {"template": "Y", "expandStart": {"regex": "^,$"}}}),
  ]
}

fn rewrite_cases(rng: &mut Rng, thorough: bool) -> Vec<RwCase> {
  let args_pool = ["1", "bar(2)", "x", "bar(bar(3))", "\"é🦀\"", "qux(4, bar(5))", "[6, x1]", "y"];
  let orders: Vec<Vec<usize>> = vec![vec![0], vec![1, 0], vec![0, 1], vec![3, 1, 0], vec![1, 3], vec![2, 4, 0], vec![4], vec![1, 2, 0, 4],
                                     vec![5], vec![6], vec![1, 5], vec![6, 0], vec![7], vec![7, 0], vec![1, 7]];
  let n = if thorough { 400 } else { 60 };
  let mut out = vec![];
  for i in 0..n {
    let k = 1 + rng.below(5);
    let args: Vec<&str> = (0..k).map(|_| *rng.pick(&args_pool[..])).collect();
    let sep = if rng.chance(1, 4) { ",\n    " } else { ", " };
    let lead = if rng.chance(1, 3) { "\n  " } else { "" };
    let (pattern, source_var, src) = if i % 3 == 2 {
      ("foo($A)", "$A", format!("{lead}foo({});\n", args[0]))
    } else if i % 5 == 4 {
      // the captured text starts behind a comma
      ("foo(0, $$$ARGS)", "$$$ARGS", format!("{lead}foo(0, {});\n", args.join(sep)))
    } else {
      ("foo($$$ARGS)", "$$$ARGS", format!("{lead}foo({});\n", args.join(sep)))
    };
    let join_by = match i % 4 { 1 => Some("+"), 3 => Some(""), _ => None };
    out.push(RwCase { id: format!("rw{i}"), src, source_var, pattern, order: rng.pick(&orders[..]).clone(), join_by });
  }
  // fixed: the expanding rewriter on the FIRST captured node (its widened edit starts before the captured text), in the
  // middle and at the end; the bare relational rewriters on nested arrays
  for (k, (pattern, source_var, src, order, join_by)) in [
    ("foo(0, $$$ARGS)", "$$$ARGS", "foo(0, y, 1, y);\n", vec![7], None),
    ("foo(0, $$$ARGS)", "$$$ARGS", "foo(0, y, bar(y), y);\n", vec![7, 0], None),
    ("foo(0, $$$ARGS)", "$$$ARGS", "foo(0, y, 1, y);\n", vec![7], Some("+")),
    ("foo($$$ARGS)", "$$$ARGS", "foo(y, y, [y]);\n", vec![7], None),
    ("foo(0, $A)", "$A", "foo(0, y);\n", vec![7], None),
    ("foo($$$ARGS)", "$$$ARGS", "foo([1, [2]], x, [[3]]);\n", vec![5], None),
    ("foo($$$ARGS)", "$$$ARGS", "foo([1, [x]], [y]);\n", vec![6, 0], None),
  ].into_iter().enumerate() {
    out.push(RwCase { id: format!("rwfixed{k}"), src: src.to_string(), source_var, pattern, order, join_by });
  }
  out
}

fn rewrite_record(c: &RwCase) -> Option<Value> {
  let lang = SupportLang::JavaScript;
  let docs = rewriter_docs();
  let names: Vec<String> = c.order.iter().map(|i| docs[*i]["id"].as_str().unwrap().to_string()).collect();
  let mut rw = json!({"source": c.source_var, "rewriters": names});
  if let Some(j) = c.join_by {
    rw["joinBy"] = json!(j);
  }
  let rewriters: Vec<Value> = docs.iter().map(|d| json!({"id": d["id"], "rule": d["rule"], "fix": d["fix"]})).collect();
  let rule = json!({"id": "r", "language": "JavaScript", "rule": {"pattern": c.pattern}, "rewriters": rewriters,
                    "transform": {"NEW": {"rewrite": rw}}, "fix": "out($NEW)"});
  let globals = ast_grep_config::GlobalRules::default();
  let cfg: Vec<ast_grep_config::RuleConfig<SupportLang>> = ast_grep_config::from_yaml_string(&serde_json::to_string(&rule).unwrap(), &globals).ok()?;
  let cfg = &cfg[0];
  // each rewriter on its own, to ask it about single nodes
  let bare = |d: &Value| d["rule"].get("kind").is_none() && d["rule"].get("pattern").is_none();
  let singles: Vec<Option<ast_grep_config::RuleConfig<SupportLang>>> = docs
    .iter()
    .map(|d| if bare(d) { None } else { Some(ast_grep_config::from_yaml_string(&serde_json::to_string(d).unwrap(), &globals).unwrap().remove(0)) })
    .collect();
  // a bare relational rule is not a rule file of its own (no kinds): the Rule alone says which nodes it matches, and the
  // statement says what the edit is - the node itself replaced by the fix
  let denv = ast_grep_config::DeserializeEnv::new(lang);
  let bares: Vec<Option<ast_grep_config::Rule<SupportLang>>> = docs
    .iter()
    .map(|d| if bare(d) { denv.deserialize_rule(ast_grep_config::from_str(&serde_json::to_string(&d["rule"]).unwrap()).unwrap()).ok() } else { None })
    .collect();
  let grep = lang.ast_grep(&c.src);
  let nm = grep.root().find(&cfg.matcher)?;
  let env = nm.get_env();
  let name = c.source_var.trim_start_matches('$');
  let nodes: Vec<_> = if c.source_var.starts_with("$$$") { env.get_multiple_matches(name) } else { env.get_match(name).cloned().into_iter().collect() };
  let out = env.get_transformed("NEW").cloned();
  let (cs, ce) = if nodes.is_empty() { (0, 0) } else { (nodes[0].range().start, nodes[nodes.len() - 1].range().end) };
  let mut cands = vec![];
  for n in &nodes {
    for d in n.dfs() {
      let mut hits = vec![];
      for (oi, ri) in c.order.iter().enumerate() {
        if let Some(rule) = &bares[*ri] {
          let mut e = std::borrow::Cow::Owned(ast_grep_core::meta_var::MetaVarEnv::new());
          if ast_grep_core::Matcher::match_node_with_env(rule, d.clone(), &mut e).is_some() {
            let r = d.range();
            hits.push(json!({"rw": oi + 1, "pos": r.start, "del": r.end - r.start, "ins": bytes(docs[*ri]["fix"].as_str().unwrap().as_bytes()), "by": "statement"}));
          }
          continue;
        }
        let m = &singles[*ri].as_ref().unwrap().matcher;
        let mut e = std::borrow::Cow::Owned(ast_grep_core::meta_var::MetaVarEnv::new());
        if let Some(found) = ast_grep_core::Matcher::match_node_with_env(m, d.clone(), &mut e) {
          let nm2 = ast_grep_core::NodeMatch::new(found, e.into_owned());
          let ed = nm2.make_edit(m, m.fixer.as_ref().unwrap());
          hits.push(json!({"rw": oi + 1, "pos": ed.position, "del": ed.deleted_length, "ins": bytes(&ed.inserted_text),
                           "by": if docs[*ri]["fix"].is_object() { "expanding-fix" } else { "code" }}));
        }
      }
      let r = d.range();
      cands.push(json!({"s": r.start, "e": r.end, "hits": hits}));
    }
  }
  Some(json!({"id": c.id, "mode": "rewrite", "text": c.src, "src": bytes(c.src.as_bytes()), "cs": cs, "ce": ce, "n_nodes": nodes.len(),
              "order": names, "join": c.join_by.is_some(), "joiner": bytes(c.join_by.unwrap_or("").as_bytes()),
              "cands": cands, "has_out": out.is_some(), "out": bytes(&out.clone().unwrap_or_default()),
              "out_utf8": String::from_utf8(out.unwrap_or_default()).is_ok()}))
}

fn ext_of(path: &str) -> &'static str {
  let e = path.rsplit('.').next().unwrap_or("txt");
  for x in ["sh", "c", "cpp", "cs", "css", "ex", "go", "hs", "html", "java", "js", "json", "kt", "lua", "php", "py", "rb", "rs", "scala", "swift", "tsx", "ts", "yml"] {
    if x == e {
      return x;
    }
  }
  "txt"
}

pub fn drive(tpl_vectors: Option<&str>, edit_vectors: Option<&str>, corpus: &str, seed: u64, out: &str, thorough: bool, which: &str) {
  std::panic::set_hook(Box::new(|_| {}));
  let mut rng = Rng::new(seed ^ 0xF1);
  let mut w = NdWriter::new(out);
  let mut summ = json!({});
  if which != "c06" {
    let (nv, nc) = drive_tpl(tpl_vectors, corpus, &mut rng, thorough, &mut w);
    summ["tpl_vectors"] = json!(nv);
    summ["tpl_corpus"] = json!(nc);
    summ["tpl_transformed"] = json!(tplx_records(&mut w));
    summ["self_rewrite_through_identity_transforms"] = json!(selfx_records(&mut w));
  }
  if which != "c07" {
    let cases = edit_cases(edit_vectors, corpus, &mut rng, thorough);
    let scratch = format!("/var/tmp/agv-fix-{}", std::process::id());
    std::fs::create_dir_all(&scratch).unwrap();
    let recs = cli::par_map(&cases, 12, |i, c| edit_record(c, &scratch, i));
    let _ = std::fs::remove_dir_all(&scratch);
    let mut n = 0;
    for r in recs.into_iter().flatten() {
      w.put(&r);
      n += 1;
    }
    summ["edit_cases"] = json!(cases.len());
    summ["edit_records"] = json!(n);
    let mut nrw = 0;
    for c in rewrite_cases(&mut rng, thorough) {
      if let Some(r) = rewrite_record(&c) {
        w.put(&r);
        nrw += 1;
      }
    }
    summ["rewrite_records"] = json!(nrw);
  }
  summ["records"] = json!(w.finish());
  util::summary(summ);
}
