//! C16 recorder: what `sg run` / `sg scan` print (three JSON styles with context flags, and the plain
//! `path:line:text` report) next to the bytes of the scanned files.  Judged by spec/trace/Trace_C16.tla.
use crate::c19::char_widths;
use crate::cli::{self, run_sgv};
use crate::project::Project;
use crate::util::{self, NdWriter, Rng};
use serde_json::{json, Value};

fn chars(s: &str) -> Value {
  json!(s.chars().map(|c| c.to_string()).collect::<Vec<_>>())
}

struct Case {
  id: String,
  files: Vec<(String, String)>, // (relative path, content)
  lang: &'static str,
  pattern: String,
  rewrite: Option<String>,
  ctx: (u32, u32, bool), // before, after, use -C
  style: &'static str,   // pretty | stream | compact | plain
  scan: bool,
  /// Some(kind): the rule is `kind: <kind>` instead of a pattern (scan only): every node of that kind is a match,
  /// whatever its shape (several lines, text ending in a line break, ...)
  kind: Option<String>,
}

fn item_json(v: &Value) -> Value {
  let rng = |r: &Value| json!({"s": r["byteOffset"]["start"], "e": r["byteOffset"]["end"],
    "sl": r["start"]["line"], "sc": r["start"]["column"], "el": r["end"]["line"], "ec": r["end"]["column"]});
  let mut mvs = vec![];
  if let Some(single) = v["metaVariables"]["single"].as_object() {
    for (_, m) in single {
      mvs.push(json!({"text": chars(m["text"].as_str().unwrap_or("")), "range": rng(&m["range"])}));
    }
  }
  if let Some(multi) = v["metaVariables"]["multi"].as_object() {
    for (_, ms) in multi {
      for m in ms.as_array().unwrap() {
        mvs.push(json!({"text": chars(m["text"].as_str().unwrap_or("")), "range": rng(&m["range"])}));
      }
    }
  }
  // secondary labels (the nodes the relational rules of the rule selected) are printed like meta variables: text + range
  let mut n_labels = 0;
  if let Some(ls) = v["labels"].as_array() {
    for m in ls {
      n_labels += 1;
      mvs.push(json!({"text": chars(m["text"].as_str().unwrap_or("")), "range": rng(&m["range"])}));
    }
  }
  json!({
    "nlabels": n_labels,
    "file": v["file"].as_str().unwrap_or("").trim_start_matches("./"),
    "text": chars(v["text"].as_str().unwrap_or("")), "range": rng(&v["range"]),
    "lines": chars(v["lines"].as_str().unwrap_or("")),
    "lead": v["charCount"]["leading"], "trail": v["charCount"]["trailing"],
    "mvs": mvs,
    "hasRepl": v.get("replacementOffsets").is_some(),
    "rs": v["replacementOffsets"]["start"].as_u64().unwrap_or(0), "re": v["replacementOffsets"]["end"].as_u64().unwrap_or(0),
  })
}

fn run_case(c: &Case, scratch: &str, idx: usize) -> Value {
  let p = Project::new(&format!("{scratch}/p{idx}"));
  for (path, content) in &c.files {
    p.write(path, content.as_bytes());
  }
  if c.id.starts_with("custom-injection") {
    // documents made by the project's own `languageInjections`: css inside styled`..` templates of JavaScript files
    p.config(Some(&json!({"languageInjections": [{"hostLanguage": "js", "rule": {"pattern": "styled`$CONTENT`"}, "injected": "css"}]})));
  }
  let mut args: Vec<String> = vec![];
  if c.scan {
    // every other scan uses an error-level rule: the exit status changes, what is printed does not (the closing bracket of
    // the JSON array included)
    let mut rule = json!({"id": "r", "language": c.lang, "severity": if idx % 2 == 0 { "error" } else { "warning" }, "message": "found $A", "rule": {"pattern": c.pattern}});
    if let Some(k) = &c.kind {
      rule["rule"] = match (k.split_once('>'), k.split_once('<')) {
        // `a>b`: an `a` that has a `b` below it; `a<b`: an `a` inside a `b` - the JSON record carries `labels` then
        (Some((a, b)), _) => json!({"kind": a, "has": {"kind": b, "stopBy": "end"}}),
        (_, Some((a, b))) => json!({"kind": a, "inside": {"kind": b, "stopBy": "end"}}),
        _ => json!({"kind": k}),
      };
    }
    if let Some(r) = &c.rewrite {
      rule["fix"] = json!(r);
    }
    args.extend(["scan".into(), "--inline-rules".into(), rule.to_string()]);
  } else {
    args.extend(["run".into(), "-p".into(), c.pattern.clone(), "-l".into(), c.lang.into()]);
    if let Some(r) = &c.rewrite {
      args.extend(["-r".into(), r.clone()]);
    }
  }
  if c.ctx.2 {
    if c.ctx.0 > 0 {
      args.extend(["-C".into(), c.ctx.0.to_string()]);
    }
  } else {
    if c.ctx.0 > 0 {
      args.extend(["-B".into(), c.ctx.0.to_string()]);
    }
    if c.ctx.1 > 0 {
      args.extend(["-A".into(), c.ctx.1.to_string()]);
    }
  }
  if c.style == "plain" {
    args.extend(["--color".into(), "never".into(), "--heading".into(), "never".into()]);
  } else {
    args.push(format!("--json={}", c.style));
  }
  let argv: Vec<&str> = args.iter().map(|s| s.as_str()).collect();
  let o = run_sgv(&argv, &p.root, None, 30, &[]);
  // the plain report says which lines it prints; the matches themselves come from a twin run of the same search
  let mut twin: Vec<Value> = vec![];
  if c.style == "plain" && !c.scan {
    let mut a2: Vec<String> = vec!["run".into(), "-p".into(), c.pattern.clone(), "-l".into(), c.lang.into()];
    if let Some(r) = &c.rewrite {
      a2.extend(["-r".into(), r.clone()]);
    }
    a2.push("--json=stream".into());
    let av: Vec<&str> = a2.iter().map(|s| s.as_str()).collect();
    let t = run_sgv(&av, &p.root, None, 30, &[]);
    for line in t.stdout.lines() {
      if let Ok(v) = serde_json::from_str::<Value>(line) {
        twin.push(json!({"file": v["file"].as_str().unwrap_or("").trim_start_matches("./"), "s": v["range"]["byteOffset"]["start"], "e": v["range"]["byteOffset"]["end"],
          "sl": v["range"]["start"]["line"], "el": v["range"]["end"]["line"]}));
      }
    }
  }
  p.remove();
  let files: Vec<Value> = c.files.iter().map(|(path, content)| {
    // st[k] = byte offset at which character k starts (k = len+1: end of text); TLC re-checks it in O(n)
    let mut st = vec![0usize];
    for ch in content.chars() {
      st.push(st.last().unwrap() + ch.len_utf8());
    }
    json!({"path": path, "chars": chars(content), "cw": char_widths(content), "st": st,
           "lines": content.split('\n').map(|l| l.strip_suffix('\r').unwrap_or(l)).collect::<Vec<_>>()})
  }).collect();
  let (before, after) = if c.ctx.2 { (c.ctx.0, c.ctx.0) } else { (c.ctx.0, c.ctx.1) };
  let mut rec = json!({"id": c.id, "args": args, "style": c.style, "scan": c.scan, "before": before, "after": after,
    "files": files, "exit": o.code, "parsed": false, "items": [], "entries": [], "separators": 0, "twin": twin, "rewrite": c.rewrite.is_some()});
  if c.style == "plain" {
    // entries `path:line:text`; group separators `--`
    let mut entries = vec![];
    let mut seps = 0;
    let mut odd = vec![];
    for line in o.stdout.lines() {
      if line == "--" {
        seps += 1;
        continue;
      }
      let mut it = line.splitn(3, ':');
      match (it.next(), it.next().and_then(|n| n.parse::<usize>().ok()), it.next()) {
        (Some(path), Some(n), Some(text)) => entries.push(json!({"path": path.trim_start_matches("./"), "line": n, "text": text})),
        _ => odd.push(line.to_string()),
      }
    }
    rec["entries"] = json!(entries);
    rec["separators"] = json!(seps);
    rec["odd"] = json!(odd);
    rec["parsed"] = json!(true);
  } else {
    let items: Option<Vec<Value>> = if c.style == "stream" {
      o.stdout.lines().filter(|l| !l.is_empty()).map(|l| serde_json::from_str::<Value>(l).ok()).collect()
    } else {
      serde_json::from_str::<Value>(&o.stdout).ok().and_then(|v| v.as_array().cloned())
    };
    if let Some(items) = items {
      rec["parsed"] = json!(true);
      rec["items"] = json!(items.iter().map(item_json).collect::<Vec<_>>());
    } else {
      rec["raw"] = json!(o.stdout.chars().take(400).collect::<String>());
    }
  }
  rec
}

pub fn drive(corpus: &str, seed: u64, out: &str, thorough: bool) {
  let mut rng = Rng::new(seed ^ 0xC16);
  let long = format!("let x = [{}];\nfoo(1);", (0..200).map(|i| format!("v{i}")).collect::<Vec<_>>().join(", "));
  let texts: Vec<String> = vec![
    "foo(1);\nbar(\"é🦀\", foo(2));\r\nfoo(3)".into(),
    "foo(a)".into(),
    "\n\nfoo(\n  1,\n  \"é\"\n);\n\n// end\n".into(),
    "let é = foo(🦀x);\r\nfoo(é); foo(é, é);\r\n".replace("🦀x", "\"🦀\""),
    long.clone() + "\n" + &format!("bar({}foo(\"🦀\"));", " ".repeat(600)),
    "// nothing here\n".into(),
    // a file that starts with a byte order mark (three bytes, one character): every offset and the columns of line 1 count it
    "\u{feff}foo(1); foo(\"é\");\nbar(foo(2));\n".into(),
    // matches far apart: several separate groups of lines in the report, each with its own context lines
    "// l1\n// l2 é\nfoo(1);\n// l4\n// l5\n// l6\n// l7\n// l8 🦀\n// l9\nfoo(2);\n// l11\n// l12\n// l13\n// l14\nbar(foo(3),\n  foo(4));\n// l17".into(),
  ];
  let mut cases = vec![];
  let styles = ["pretty", "stream", "compact", "plain"];
  let ctxs = [(0, 0, false), (1, 0, false), (0, 2, false), (1, 1, true), (2, 1, false)];
  let mut k = 0;
  for style in styles {
    for ctx in ctxs {
      for scan in [false, true] {
        if scan && style == "plain" {
          continue; // the path:line:text report is the `sg run` report
        }
        // how many of the files match: choose file subsets
        for subset in [vec![0usize], vec![5], vec![0, 5, 2], vec![1, 3, 4, 0], vec![5, 5], vec![7], vec![7, 2], vec![6], vec![6, 2]] {
          k += 1;
          if !thorough && k % 3 != (seed % 3) as usize {
            continue;
          }
          let files: Vec<(String, String)> = subset.iter().enumerate().map(|(j, t)| (format!("d{}/f{j}.js", j % 2), texts[*t].clone())).collect();
          let rewrite = if k % 4 == 0 { Some("bar($A)".to_string()) } else { None };
          cases.push(Case { id: format!("c16-{k}"), files, lang: "JavaScript", pattern: "foo($A)".into(), rewrite, ctx, style, scan, kind: None });
        }
      }
    }
  }
  // a match that spans several lines some of which are EMPTY (LF and CRLF ones): every printed line keeps its number
  let gaps = "// top\nfoo(\n\n  [1,\r\n\r\n  2]\n\n);\nlast();\n\nfoo([\n\n]);\n// end\n".to_string();
  for (j, (style, ctx)) in [("plain", (0, 0, false)), ("plain", (0, 1, false)), ("plain", (1, 1, true)), ("plain", (2, 3, false)), ("stream", (0, 1, false)), ("pretty", (1, 1, true))].into_iter().enumerate() {
    cases.push(Case { id: format!("c16-gaps-{j}"), files: vec![("d0/g.js".to_string(), gaps.clone())], lang: "JavaScript", pattern: "foo($A)".into(), rewrite: None, ctx, style, scan: false, kind: None });
  }
  // corpus files (CRLF c.* files; a.* for multi-byte text): pattern = an identifier-ish leaf is too language specific,
  // so use each language's most frequent named leaf text as a literal pattern
  for (l, path, text) in util::corpus(corpus) {
    if !(path.contains("/c.") || (thorough && path.contains("/a."))) || l == ast_grep_language::SupportLang::Html {
      continue;
    }
    use ast_grep_core::Language;
    let g = l.ast_grep(&text);
    let leaves: Vec<String> = crate::c19::all_nodes(&g).into_iter().filter(|n| n.is_named() && n.is_leaf() && n.text().len() >= 2 && n.text().len() < 20 && !n.text().contains('$') && !n.text().contains('\n')).map(|n| n.text().to_string()).collect();
    if leaves.is_empty() {
      continue;
    }
    let pat = rng.pick(&leaves).clone();
    let ext = path.rsplit('.').next().unwrap().to_string();
    let lname: &'static str = Box::leak(util::lang_name(l).into_boxed_str());
    for (style, ctx) in [("stream", (1, 1, true)), ("plain", (0, 1, false))] {
      cases.push(Case { id: format!("{path}#{style}"), files: vec![(format!("src/t.{ext}"), text.clone())], lang: lname, pattern: pat.clone(), rewrite: None, ctx, style, scan: false, kind: None });
    }
    // matches of every shape: `kind` rules for kinds of this file, first those with a node whose text ends in a line
    // break (preprocessor lines, doc comments, heredocs), then those with a node spanning lines, then any
    let mut by_kind: std::collections::BTreeMap<String, (usize, bool, bool)> = Default::default();
    for n in crate::c19::all_nodes(&g) {
      if !n.is_named() || n.range().is_empty() {
        continue;
      }
      let t = n.text();
      let e = by_kind.entry(n.kind().to_string()).or_insert((0, false, false));
      e.0 += 1;
      e.1 |= t.ends_with('\n');
      e.2 |= t.contains('\n');
    }
    let mut kinds: Vec<(u8, String)> = by_kind.iter().filter(|(_, v)| v.0 <= 40).map(|(k, v)| (if v.1 { 0 } else if v.2 { 1 } else { 2 }, k.clone())).collect();
    kinds.sort();
    let take = if thorough { 8 } else { 2 };
    let n_special = kinds.iter().filter(|k| k.0 == 0).count();
    let mut chosen: Vec<String> = kinds.iter().take(take.max(n_special.min(take + 2))).map(|k| k.1.clone()).collect();
    if kinds.len() > chosen.len() {
      chosen.push(kinds[chosen.len() + rng.below(kinds.len() - chosen.len())].1.clone());
    }
    for (j, k) in chosen.iter().enumerate() {
      let (style, ctx) = [("stream", (0, 0, false)), ("compact", (1, 1, true)), ("pretty", (0, 1, false))][j % 3];
      cases.push(Case { id: format!("{path}#kind-{k}"), files: vec![(format!("src/t.{ext}"), text.clone())], lang: lname, pattern: String::new(), rewrite: None, ctx, style, scan: true, kind: Some(k.clone()) });
    }
  }
  for (lang, ext, text, kinds) in [
    ("C", "c", "#include <stdio.h>\n#define GRÖSSE 42\nint main() { return 0; }\n#define LAST 1", vec!["preproc_include", "preproc_def"]),
    ("Rust", "rs", "//! crate doc é\n/// item doc\nfn f() {}\n// plain\n/// last", vec!["line_comment", "function_item"]),
    ("Python", "py", "def f():\n    return 1\n\n\nclass C:\n    x = \"é\"\n", vec!["function_definition", "block", "class_definition"]),
    ("Bash", "sh", "cat <<EOF\nhé\nEOF\necho 1\n", vec!["heredoc_body", "redirected_statement", "command"]),
  ] {
    for (j, k) in kinds.iter().enumerate() {
      let (style, ctx) = [("stream", (0, 0, false)), ("compact", (1, 1, true)), ("pretty", (0, 1, false))][j % 3];
      cases.push(Case { id: format!("shape-{lang}-{k}"), files: vec![(format!("src/t.{ext}"), text.to_string())], lang, pattern: String::new(), rewrite: None, ctx, style, scan: true, kind: Some(k.to_string()) });
    }
  }
  // relational rules: every record carries the secondary labels of its match
  let reltext = "é(1, [2, \"中\"]);\nfoo(\n  3,\r\n  bar(4, `t\n🦀`));\n";
  for (j, k) in ["call_expression>number", "number<arguments", "string<array", "template_string<call_expression", "arguments>template_string"].iter().enumerate() {
    let (style, ctx) = [("stream", (0, 0, false)), ("compact", (1, 1, true)), ("pretty", (0, 1, false))][j % 3];
    cases.push(Case { id: format!("labels-{k}"), files: vec![("src/t.js".to_string(), reltext.to_string())], lang: "JavaScript", pattern: String::new(), rewrite: None, ctx, style, scan: true, kind: Some(k.to_string()) });
  }
  // documents inside documents: JavaScript / CSS embedded in an html file (offsets are those of the file, not of the
  // embedded document), behind multi-byte text, with CRLF
  let html = "<html><head><title>é中🦀</title>\n<style>\na { color: red; }\n</style></head>\n<body>\n<p>foo(text) é</p>\n<script>\nfoo(1);\n  bar(\"é\", foo(2));\n</script>\n<script lang=\"ts\">\nfoo(3)\n</script></body></html>\n";
  for (j, (lang, pattern, text)) in [("JavaScript", "foo($A)", html.to_string()), ("JavaScript", "foo($A)", html.replace('\n', "\r\n")),
                                     ("Css", "color: $C", html.to_string()), ("TypeScript", "foo($A)", html.to_string()), ("Html", "<p>$$$A</p>", html.to_string())].into_iter().enumerate() {
    let (style, ctx) = [("stream", (0, 0, false)), ("compact", (1, 1, true)), ("pretty", (0, 2, false))][j % 3];
    cases.push(Case { id: format!("embedded-{lang}-{j}"), files: vec![("web/p.html".to_string(), text), ("web/q.html".to_string(), "<p>none</p>\n".to_string())], lang, pattern: pattern.to_string(),
                      rewrite: if j == 0 { Some("bar($A)".to_string()) } else { None }, ctx, style, scan: true, kind: if lang == "Css" { Some("declaration".to_string()) } else { None } });
  }
  // ... and the same for documents of a custom injection (offsets, lines and columns are those of the JavaScript file)
  let styled = "// é中🦀\nconst a = styled`\n  a { color: red }\n  b { margin: 0; color: \"é\" }\n`;\nconst é = \"🦀\"; const b = styled`c { color: blue }`;\n";
  for (j, text) in [styled.to_string(), styled.replace('\n', "\r\n")].into_iter().enumerate() {
    let (style, ctx) = [("stream", (0, 0, false)), ("pretty", (1, 1, true))][j % 2];
    cases.push(Case { id: format!("custom-injection-{j}"), files: vec![("web/s.js".to_string(), text)], lang: "Css", pattern: String::new(), rewrite: None, ctx, style, scan: true, kind: Some("declaration".to_string()) });
  }
  let scratch = format!("/var/tmp/agv-c16-{}", std::process::id());
  let recs = cli::par_map(&cases, 12, |i, c| run_case(c, &scratch, i));
  let _ = std::fs::remove_dir_all(&scratch);
  let mut w = NdWriter::new(out);
  let mut items = 0;
  let mut labels = 0;
  for r in &recs {
    labels += r["items"].as_array().map(|a| a.iter().map(|x| x["nlabels"].as_u64().unwrap_or(0)).sum::<u64>()).unwrap_or(0);
    items += r["items"].as_array().map(|a| a.len()).unwrap_or(0) + r["entries"].as_array().map(|a| a.len()).unwrap_or(0);
    w.put(r);
  }
  let n = w.finish();
  util::summary(json!({"records": n, "cli_runs": n, "items_and_entries": items, "secondary_labels_judged": labels}));
}
