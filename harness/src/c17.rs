//! C17 recorder: `sg run --json=stream -j N` over a directory tree with faulty files, under seeded schedule
//! perturbation; the hook trace of every run plus the outcome (records, inspect summary, exit status) and the
//! union of per-file runs.  Each run becomes one ndjson file for spec/trace/Trace_Worker.tla.
use crate::cli::{self, json_lines, run_sgv};
use crate::project::Project;
use crate::util::{self, Rng};
use serde_json::{json, Value};
use std::collections::BTreeMap;

fn key(v: &Value) -> String {
  format!("{}:{}:{}{}", v["file"].as_str().unwrap_or("").trim_start_matches("./"), v["range"]["byteOffset"]["start"], v["range"]["byteOffset"]["end"],
    match (v["ruleId"].as_str(), v["language"].as_str()) { (Some(r), Some(l)) if r.starts_with("lang-") => format!(":{r}:{l}"), _ => String::new() })
}

/// the "mixed" tree is a project: languageGlobs tell files of one extension apart (`*.view.ts` is Tsx, other `.ts`
/// files are TypeScript), one rule per language; which language a file has must not depend on its neighbours
fn setup_mixed(p: &Project) {
  p.config(Some(&json!({"languageGlobs": {"tsx": ["*.view.ts"]}})));
  p.rule("ts.yml", &json!({"id": "lang-ts", "language": "TypeScript", "severity": "error", "message": "m", "rule": {"pattern": "foo($A)"}}));
  p.rule("tsx.yml", &json!({"id": "lang-tsx", "language": "Tsx", "severity": "error", "message": "m", "rule": {"pattern": "foo($A)"}}));
  // html files carry documents of other languages (script, style): what a walker thread did for one file (parser
  // settings for the embedded ranges) must not reach the next file it takes
  p.rule("js.yml", &json!({"id": "lang-js", "language": "JavaScript", "severity": "error", "message": "m", "rule": {"pattern": "foo($A)"}}));
  p.rule("css.yml", &json!({"id": "lang-css", "language": "Css", "severity": "error", "message": "m", "rule": {"kind": "declaration"}}));
  // a language whose ONLY rule is confined by a glob: its files are still files of the tree
  p.rule("py.yml", &json!({"id": "lang-py", "language": "Python", "severity": "error", "message": "m", "rule": {"pattern": "foo($A)"}, "files": ["**/*.py"]}));
}

/// a path holding U+FFFD stands for a file whose NAME is not valid UTF-8 (the byte 0xE9 in its place): reported with the
/// replacement character, like every other file of the tree
fn write_file(p: &Project, path: &str, content: &[u8]) {
  if path == "hl/copy.js" {
    // a second NAME of hl/orig.js (a hard link): two files of the tree, each with its own findings
    let (src, dst) = (std::path::Path::new(&p.root).join("hl/orig.js"), std::path::Path::new(&p.root).join(path));
    let _ = std::fs::remove_file(&dst);
    std::fs::hard_link(src, dst).unwrap();
    return;
  }
  if path.contains('\u{fffd}') {
    use std::os::unix::ffi::OsStrExt;
    let raw: Vec<u8> = path.replace('\u{fffd}', "\u{1}").bytes().map(|b| if b == 1 { 0xE9 } else { b }).collect();
    let full = std::path::Path::new(&p.root).join(std::ffi::OsStr::from_bytes(&raw));
    if let Some(d) = full.parent() {
      std::fs::create_dir_all(d).unwrap();
    }
    std::fs::write(full, content).unwrap();
  } else {
    p.write(path, content);
  }
}

pub fn drive(seed: u64, outdir: &str, thorough: bool) {
  let mut rng = Rng::new(seed ^ 0xC17);
  std::fs::create_dir_all(outdir).unwrap();
  let scratch = format!("/var/tmp/agv-c17-{}", std::process::id());
  let n_trees = if thorough { 12 } else { 3 };
  let mut jobs = vec![];
  // the last trees are big: hundreds of files, so that the walker threads get far ahead of the printing thread
  let n_big = if thorough { 3 } else { 1 };
  // one more tree: a single small file with a finding next to larger files without any (the verdict of the whole
  // run hangs on one file, whichever thread finishes last)
  const N_LONELY: usize = 3;
  let n_trees = n_trees + n_big + N_LONELY + 1;
  let mixed_tree = n_trees - 1;
  // one more tree after all the others: files of four languages searched WITHOUT -l by a pattern that only some of the
  // languages can parse (`puts $A`: Ruby and Bash yes, JavaScript and Python no); a file whose language rejects the
  // pattern says nothing about the next file
  let poly_tree = n_trees;
  let n_trees_all = n_trees + 1;
  for tree in 0..n_trees_all {
    if tree == poly_tree {
      let mut files: Vec<(String, Vec<u8>, &'static str)> = vec![];
      for i in 0..28 {
        let (ext, body) = match i % 4 { 0 => ("rb", format!("puts {i}\n")), 1 => ("js", format!("puts({i});\n")), 2 => ("sh", format!("puts {i}\n")), _ => ("py", format!("puts({i})\n")) };
        // a file in whose language the pattern does not parse is counted as skipped, like an unreadable one
        files.push((format!("{}p{i}.{ext}", ["", "a/", "b/c/"][i % 3]), body.into_bytes(), if i % 2 == 1 { "pattern-rejected" } else { "ok" }));
      }
      for &j in &[1usize, 2, 4, 8] {
        for rep in 0..2 {
          jobs.push((tree, files.clone(), j, rep, rng.next() % 100000, false));
        }
      }
      continue;
    }
    let mixed = tree == mixed_tree;
    let lonely = !mixed && tree >= n_trees - 1 - N_LONELY;
    let big = !mixed && !lonely && tree >= n_trees - 1 - N_LONELY - n_big;
    // a tree: 6-14 files in nested directories; k matches per file; some faulty
    let n_files = if mixed { 24 } else if lonely { 8 } else if big { 320 + rng.below(120) } else { 6 + rng.below(9) };
    let mut files: Vec<(String, Vec<u8>, &'static str)> = vec![];
    for i in 0..n_files {
      let dir = if big { format!("d{}/", i % 17) } else { ["", "a/", "a/b/", "c/"][rng.below(4)].to_string() };
      // in a lonely tree the file with the finding is first, in the middle or last by name
      let path = if mixed { format!("{}m{i}.{}", ["", "a/", "a/b/"][i % 3], if i % 4 == 3 { "html" } else if i % 6 == 4 { "py" } else if (i * 7 / 3) % 2 == 0 { "ts" } else { "view.ts" }) }
        else if lonely && i == 0 { format!("src/{}.js", ["a0", "m", "zz"][n_trees - 2 - tree]) }
        else if lonely { format!("src/f{i}.js") } else { format!("{dir}f{i}.js") };
      // the first small tree always carries one file beyond the size limit with few lines (eligible: the limit is
      // size AND line count) and, in the thorough tier, one beyond both limits (skipped)
      let fault = if !big && tree == 0 && i == 0 { "large-few-lines" }
        else { match rng.below(if big { 40 } else { 9 }) { 0 => "empty", 1 => "non-utf8", 2 if thorough && !big => "oversized", _ => "ok" } };
      let fault = if lonely || mixed { "ok" } else { fault };
      let content: Vec<u8> = if mixed && i % 4 == 3 {
        format!("<html><head><style>\na {{ color: red }}\n</style></head>\n<body><p>foo(text {i})</p>\n<script>\nfoo({i});\n</script></body></html>\n").into_bytes()
      } else if mixed && i % 6 == 4 {
        format!("# file {i}\nfoo({i})\n").into_bytes()
      } else if mixed {
        format!("// file {i}\nfoo({i});\nconst v = <T,>(x: T) => x;\n").into_bytes()
      } else if lonely {
        // the file with the finding is a quarter of the size of the clean ones, which differ in size among
        // themselves: files start and finish at different times around it, and matching takes a while in each
        let mut t = String::new();
        let n = if i == 0 { 100 } else { 300 + 40 * ((i * 5) % 7) };
        for j in 0..n {
          t.push_str(&format!("function g{j}(a, b) {{\n  const x = bar(a, {j}) + baz(\"x\", b);\n  if (x > {j}) {{ log(x); }} else {{ log(-x); }}\n  return [x, a, b].map(v => twice(v));\n}}\n"));
        }
        if i == 0 { t.push_str("foo(1);\n"); }
        t.into_bytes()
      } else { match fault {
        "empty" => vec![],
        "non-utf8" => b"foo(1); \xff\xfe foo(2);\n".to_vec(),
        "large-few-lines" => {
          let mut s = String::from("foo(1);\n");
          let filler = format!("// {}\n", "x".repeat(99_996));
          for _ in 0..32 { s.push_str(&filler); }
          s.push_str("foo(2); bar(\"é\");\n");
          s.into_bytes()
        }
        "oversized" => {
          let mut s = String::new();
          for _ in 0..200_100 { s.push_str("// padding line..\n"); }
          s.push_str("foo(1);\n");
          s.into_bytes()
        }
        _ => {
          let k = if big { 1 + rng.below(2) } else { rng.below(4) };
          let mut s = String::from("// file\n");
          for j in 0..k { s.push_str(&format!("foo({j}); bar(\"é\");\n")); }
          s.into_bytes()
        }
      } };
      files.push((path, content, fault));
    }
    if tree == 1 {
      files.push(("a/caf\u{fffd}.js".to_string(), b"foo(1); foo(2);\n".to_vec(), "ok"));
    }
    if tree == 2 {
      files.push(("hl/orig.js".to_string(), b"foo(1); foo(2);\n".to_vec(), "ok"));
      files.push(("hl/copy.js".to_string(), b"foo(1); foo(2);\n".to_vec(), "ok"));
    }
    let threads: Vec<usize> = if mixed { vec![1, 2, 4] } else if lonely { vec![2, 4, 8] } else if big { (if thorough { vec![2, 8, 16] } else { vec![8] }) } else if thorough { vec![1, 2, 3, 4, 8, 16] } else { vec![1, 2, 4, 16] };
    let reps = if big { 1 } else if lonely { 3 } else if thorough { 4 } else { 2 };
    let reps = if mixed { 2 } else { reps };
    for &j in &threads {
      for rep in 0..reps {
        // big trees are printed into a pipe nobody reads for a while
        jobs.push((tree, files.clone(), j, rep, rng.next() % 100000, big));
      }
    }
  }
  // per-file reference runs are computed once per tree
  let mut expected: BTreeMap<usize, (Vec<String>, usize)> = BTreeMap::new();
  for tree in 0..n_trees_all {
    let files = &jobs.iter().find(|j| j.0 == tree).unwrap().1;
    let p = Project::new(&format!("{scratch}/ref{tree}"));
    for (path, content, _) in files {
      write_file(&p, path, content);
    }
    if tree == mixed_tree {
      setup_mixed(&p);
    }
    let refs = cli::par_map(files, 12, |_, (path, _, _)| {
      if path.contains('\u{fffd}') {
        // the name cannot be passed on a command line as text: its two findings are written down
        return vec![format!("{path}:0:6"), format!("{path}:8:14")];
      }
      let o = if tree == poly_tree { run_sgv(&["run", "-p", "puts $A", "--json=stream", path], &p.root, None, 60, &[]) }
        else if tree == mixed_tree { run_sgv(&["scan", "--json=stream", path], &p.root, None, 60, &[]) }
        else { run_sgv(&["run", "-p", "foo($A)", "-l", "js", "--json=stream", path], &p.root, None, 60, &[]) };
      json_lines(&o.stdout).iter().map(key).collect::<Vec<_>>()
    });
    let mut all: Vec<String> = refs.into_iter().flatten().collect();
    all.sort();
    let faulty = files.iter().filter(|f| f.2 != "ok" && f.2 != "large-few-lines").count();
    expected.insert(tree, (all, faulty));
    p.remove();
  }
  let results = cli::par_map(&jobs, 4, |idx, (tree, files, j, rep, sched, slow)| {
    let p = Project::new(&format!("{scratch}/run{idx}"));
    for (path, content, _) in files {
      write_file(&p, path, content);
    }
    let trace = format!("{scratch}/trace{idx}.ndjson");
    let _ = std::fs::remove_file(&trace);
    let jn = j.to_string();
    let sched_s = sched.to_string();
    // both workers share run_worker: `sg run` (pattern) and `sg scan` (rule file); every other job scans
    let mixed = *tree == mixed_tree;
    let poly = *tree == poly_tree;
    let lonely = !mixed && !poly && *tree >= n_trees - 1 - N_LONELY;
    let use_scan = !poly && (idx % 2 == 1 || lonely || mixed);
    if mixed {
      setup_mixed(&p);
    } else if use_scan {
      p.write(".verif-rule.yml", br#"{"id": "r", "language": "JavaScript", "severity": "error", "message": "m", "rule": {"pattern": "foo($A)"}}"#);
    }
    // `--inspect entity` adds one trace line per file (written by the walker threads themselves, through a shared
    // lock): it must not change what is found; the summary line is printed at both levels
    let inspect = if idx % 3 == 0 { "summary" } else { "entity" };
    let args: Vec<&str> = if poly { vec!["run", "-p", "puts $A", "--json=stream", "--inspect", inspect, "-j", &jn, "."] }
      else if mixed { vec!["scan", "--json=stream", "--inspect", inspect, "-j", &jn, "."] }
      else if use_scan { vec!["scan", "-r", ".verif-rule.yml", "--json=stream", "--inspect", inspect, "-j", &jn, "."] }
      else { vec!["run", "-p", "foo($A)", "-l", "js", "--json=stream", "--inspect", inspect, "-j", &jn, "."] };
    // lonely trees alternate between perturbed and unperturbed schedules
    let env_all = [("AST_GREP_VERIF_TRACE", trace.as_str()), ("AST_GREP_VERIF_SCHED", sched_s.as_str())];
    let env = if lonely && rep % 2 == 0 { &env_all[..1] } else { &env_all[..] };
    let o = if *slow { cli::run_sgv_slow_reader(&args, &p.root, 120, env, 1200) } else { run_sgv(&args, &p.root, None, 120, env) };
    p.remove();
    let events = if std::path::Path::new(&trace).exists() { util::read_ndjson(&trace) } else { vec![] };
    let _ = std::fs::remove_file(&trace);
    let items = json_lines(&o.stdout);
    let parsed = o.stdout.lines().filter(|l| !l.trim().is_empty()).count() == items.len();
    let mut printed: Vec<String> = items.iter().map(key).collect();
    printed.sort();
    let (mut scanned, mut skipped) = (-1i64, -1i64);
    for line in o.stderr.lines() {
      if let Some(rest) = line.strip_prefix("sg: summary|file: ") {
        for kv in rest.split(',') {
          let mut it = kv.split('=');
          match (it.next(), it.next().and_then(|v| v.parse::<i64>().ok())) {
            (Some("scannedFileCount"), Some(v)) => scanned = v,
            (Some("skippedFileCount"), Some(v)) => skipped = v,
            _ => {}
          }
        }
      }
    }
    // constants of the run for the trace spec, derived from its own events
    let mut outcome: BTreeMap<String, i64> = BTreeMap::new();
    let mut tids = std::collections::BTreeSet::new();
    for e in &events {
      let ev = e["ev"].as_str().unwrap_or("");
      let path = e["path"].as_str().unwrap_or("").to_string();
      match ev {
        "file_start" => { outcome.entry(path).or_insert(0); tids.insert(e["tid"].as_u64().unwrap_or(0)); }
        "file_skip" => { outcome.insert(path, -1); }
        "send" => { *outcome.entry(path).or_insert(0) += 1; }
        _ => {}
      }
    }
    let (exp, faulty) = &expected[tree];
    let config = json!({"ev": "config", "id": format!("tree{tree}-j{j}-r{rep}{}", if *slow { "-slowreader" } else { "" }), "threads_flag": j, "sched": sched, "front": if use_scan { "scan" } else { "run" }, "inspect": inspect,
      // `scan` with an error-level rule exits 1 exactly when some file has a finding, whatever thread saw it
      "expect_exit": if use_scan && !exp.is_empty() { 1 } else { 0 },
      "files": outcome.keys().collect::<Vec<_>>(), "outcome": outcome.values().collect::<Vec<_>>(), "tids": tids,
      "all_files": files.iter().map(|f| f.0.clone()).collect::<Vec<_>>(), "n_files": files.len(), "faulty": faulty,
      "expected": exp, "printed": printed, "parsed": parsed, "scanned": scanned, "skipped": skipped, "exit": o.code,
      "n_events": events.len()});
    let path = format!("{outdir}/run{idx}.ndjson");
    let mut w = util::NdWriter::new(&path);
    w.put(&config);
    for e in &events {
      w.put(e);
    }
    w.finish();
    (path, tids.len(), events.len())
  });
  let _ = std::fs::remove_dir_all(&scratch);
  let interleaved = results.iter().filter(|r| r.1 >= 2).count();
  util::summary(json!({"runs": results.len(), "trees": n_trees, "runs_with_2plus_walker_threads": interleaved,
    "events": results.iter().map(|r| r.2).sum::<usize>(), "files": results.iter().map(|r| r.0.clone()).collect::<Vec<_>>()}));
}
