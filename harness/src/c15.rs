//! C15 recorder: project configurations (from TLC) materialised on disk; `sg scan --json` from the project
//! root, non-interactive; which rule ids fire on which file, and the exit status.
use crate::cli::{self, json_lines, run_sgv};
use crate::project::Project;
use crate::util::{self, NdWriter};
use serde_json::{json, Value};

const PATHS: [&str; 9] = ["a.js", "src/a.js", "src/sub/b.js", "test/c.js", "src/x.ts", "src/p.view.ts", "lib/y.py", "src/w.mjsx", "README.md"];

pub fn drive(vectors: &str, out: &str, thorough: bool, seed: u64) {
  let all = util::read_ndjson(vectors);
  let want = if thorough { 6000 } else { 260 };
  let stride = (all.len() / want).max(1);
  let cases: Vec<(usize, &Value)> = all.iter().enumerate().filter(|(i, _)| (i + seed as usize) % stride == 0).collect();
  let scratch = format!("/var/tmp/agv-c15-{}", std::process::id());
  let recs = cli::par_map(&cases, 12, |_, (i, v)| {
    // in every third project a third rule r3, in the language of r1 and without globs, is read after r2: rules of one
    // language need not be neighbours in the order in which the rule files are read
    let mut v3 = (*v).clone();
    if i % 3 == 1 {
      let lang = v3["rules"][0]["lang"].clone();
      v3["rules"].as_array_mut().unwrap().push(json!({"id": "r3", "lang": lang, "files": [], "ignores": [], "sev": "error"}));
    }
    let v = &v3;
    let p = Project::new(&format!("{scratch}/p{i}"));
    let extra = match v["lglob"].as_str().unwrap_or("none") {
      "extra" => Some(json!({"languageGlobs": {"javascript": ["*.mjsx"]}})),
      // an extension that a built-in language (Python) owns is claimed for JavaScript
      "override" => Some(json!({"languageGlobs": {"javascript": ["*.py"]}})),
      // a glob narrower than an extension: two files of one extension, two languages
      "narrow" => Some(json!({"languageGlobs": {"tsx": ["*.view.ts"]}})),
      _ => None,
    };
    p.config(extra.as_ref());
    for r in v["rules"].as_array().unwrap() {
      // r2 is a bare identifier: a pattern that can match in the tree of another language as well (the identifier kind
      // has the same number in most grammars), so a rule applied to a file of the wrong language shows up as a finding
      let pat = if r["id"] == "r2" { "foo" } else { "foo($A)" };
      let mut rule = json!({"id": r["id"], "language": r["lang"], "severity": r["sev"], "message": "m", "rule": {"pattern": pat}});
      // in every other project the first rule offers a fix: whether a finding counts for the exit status has nothing to do with it
      if r["id"] == "r1" && i % 2 == 1 {
        rule["fix"] = json!("bar($A)");
      }
      if !r["files"].as_array().unwrap().is_empty() {
        rule["files"] = r["files"].clone();
      }
      if !r["ignores"].as_array().unwrap().is_empty() {
        rule["ignores"] = r["ignores"].clone();
      }
      p.rule(&format!("{}.yml", r["id"].as_str().unwrap()), &rule);
    }
    // one firing statement per file; the variant with a suppression comment checks the exit clause
    let suppressed: Vec<&str> = if i % 3 == 0 { vec!["src/a.js"] } else { vec![] };
    for path in PATHS {
      let body = if path.ends_with(".py") { "foo(1)\n".to_string() }
        else if suppressed.contains(&path) { "foo(1) // ast-grep-ignore\n".to_string() }
        else { "foo(1);\n".to_string() };
      p.write(path, body.as_bytes());
    }
    let mut args: Vec<String> = vec!["scan".into(), "--json=stream".into(), "--inspect".into(), "entity".into()];
    let dflt = v["dflt"].as_str().unwrap();
    if dflt != "none" {
      args.push(format!("--{dflt}"));
    }
    for pair in v["byId"].as_array().unwrap() {
      args.push(format!("--{}={}", pair[1].as_str().unwrap(), pair[0].as_str().unwrap()));
    }
    let filter: Vec<&str> = v["filter"].as_array().unwrap().iter().map(|x| x.as_str().unwrap()).collect();
    if filter != ["*"] {
      args.push("--filter".into());
      args.push(format!("^({})$", filter.join("|")));
    }
    let argv: Vec<&str> = args.iter().map(|s| s.as_str()).collect();
    let o = run_sgv(&argv, &p.root, None, 30, &[]);
    let mut per_path = serde_json::Map::new();
    for path in PATHS {
      per_path.insert(path.to_string(), json!([]));
    }
    let mut severities: Vec<String> = vec![];
    let mut sev: Vec<Value> = vec![];
    for rec in json_lines(&o.stdout) {
      let f = rec["file"].as_str().unwrap_or("").trim_start_matches("./").to_string();
      let id = rec["ruleId"].as_str().unwrap_or("").to_string();
      let s = rec["severity"].as_str().unwrap_or("").to_string();
      severities.push(s.clone());
      if id == "unused-suppression" {
        continue;
      }
      // (rule id, printed severity, the rule's own severity)
      let own = v["rules"].as_array().unwrap().iter().find(|r| r["id"] == id.as_str()).map(|r| r["sev"].clone()).unwrap_or(json!(""));
      sev.push(json!([id, s, own]));
      if let Some(Value::Array(a)) = per_path.get_mut(&f) {
        a.push(json!(id));
      } else {
        per_path.insert(f, json!([id]));
      }
    }
    p.remove();
    // the command's own account of what it applied: `sg: entity|file|<path>: language=L,appliedRuleCount=N` (stderr)
    let mut applied = serde_json::Map::new();
    for path in PATHS {
      applied.insert(path.to_string(), json!(0));
    }
    let mut inspected = false;
    for line in o.stderr.lines() {
      let Some(rest) = line.strip_prefix("sg: entity|file|") else { continue };
      let Some((path, kv)) = rest.rsplit_once(": ") else { continue };
      let Some(n) = kv.split(',').find_map(|x| x.strip_prefix("appliedRuleCount=")).and_then(|n| n.parse::<usize>().ok()) else { continue };
      inspected = true;
      applied.insert(path.trim_start_matches("./").to_string(), json!(n));
    }
    inspected |= o.stderr.lines().any(|l| l.starts_with("sg: summary|file:"));
    json!({"id": format!("c15v{i}"), "cfg": v, "args": args, "fired": per_path, "applied": applied, "inspected": inspected, "exit": o.code, "suppressed": suppressed, "severities": severities, "sev": sev,
           "stderr": o.stderr.chars().take(300).collect::<String>()})
  });
  let _ = std::fs::remove_dir_all(&scratch);
  let mut w = NdWriter::new(out);
  for r in &recs {
    w.put(r);
  }
  let n = w.finish();
  util::summary(json!({"records": n, "configurations_in_model": all.len()}));
}
