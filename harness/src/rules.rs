//! Rule universe + rule vector driver, shared by C01 / C04 / C05.
//!  universe: real trees (carrier programs or corpus subtrees), atoms (kinds, patterns compiled by the
//!            real Pattern::try_new, regex text sets, field names) and the pattern oracle pv.
//!  drive:    TLC-enumerated rule records -> YAML -> real Rule / RuleConfig -> per-node verdicts, envs,
//!            potential kinds, find_all / Visitor / CombinedScan results.
use crate::c19::{all_nodes, G};
use crate::mrec;
use crate::proj::{self, N};
use crate::util::{self, NdWriter, Rng};
use ast_grep_config::{from_str, from_yaml_string, CombinedScan, DeserializeEnv, GlobalRules, SerializableRule};
use ast_grep_core::matcher::MatcherExt;
use ast_grep_core::meta_var::MetaVariable;
use ast_grep_core::traversal::Visitor;
use ast_grep_core::{Language, Matcher, NodeMatch, Pattern, StrDoc};
use ast_grep_language::SupportLang;
use serde_json::{json, Map, Value};
use std::collections::HashMap;
use std::panic::{catch_unwind, AssertUnwindSafe};

/// node table for rule evaluation: slim table + full text, field, lines and char columns
pub fn rule_table(g: &G, p: &proj::Projection) -> Vec<Value> {
  let src = g.source();
  let line_starts: Vec<usize> = std::iter::once(0).chain(src.match_indices('\n').map(|(i, _)| i + 1)).collect();
  let col = |off: usize| -> (usize, usize) {
    let line = match line_starts.binary_search(&off) {
      Ok(l) => l,
      Err(l) => l - 1,
    };
    (line, src[line_starts[line]..off].chars().count())
  };
  p.nodes
    .iter()
    .map(|n| {
      let (sl, scc) = col(n.s);
      let (el, ecc) = col(n.e.min(src.len()));
      json!({"kid": n.kid, "nm": n.nm, "cm": n.cm, "t": n.t, "tx": &src[n.s..n.e.min(src.len())], "p": n.p, "ch": n.ch,
             "f": n.f, "s": n.s, "e": n.e, "sl": sl, "el": el, "scc": scc, "ecc": ecc, "k": n.k})
    })
    .collect()
}

/// the secondary labels of a match: the nodes its relational rules recorded, in the order they were recorded
fn labels_json(nm: &NodeMatch<StrDoc<SupportLang>>, p: &proj::Projection) -> Vec<usize> {
  nm.get_env().get_labels("secondary").map(|ns| ns.iter().map(|n| p.id_of(n)).collect()).unwrap_or_default()
}

fn env_json(nm: &NodeMatch<StrDoc<SupportLang>>, p: &proj::Projection) -> (Map<String, Value>, Map<String, Value>) {
  let env = nm.get_env();
  let mut single = Map::new();
  let mut multi = Map::new();
  for v in env.get_matched_variables() {
    match v {
      MetaVariable::Capture(name, _) => {
        if let Some(n) = env.get_match(&name) {
          single.insert(name.clone(), json!(p.id_of(n)));
        }
      }
      MetaVariable::MultiCapture(name) => {
        if name == "secondary" {
          continue;
        }
        let ns = env.get_multiple_matches(&name);
        multi.insert(name.clone(), json!(ns.iter().map(|n| p.id_of(n)).collect::<Vec<_>>()));
      }
      _ => {}
    }
  }
  (single, multi)
}

/// per-node outcome of a matcher over all nodes of the tree
fn per_node<M: Matcher<SupportLang>>(m: &M, nodes: &[N], p: &proj::Projection) -> (Vec<bool>, Vec<Value>, bool) {
  let mut verdicts = vec![];
  let mut envs = vec![];
  let mut panicked = false;
  for n in nodes {
    let r = catch_unwind(AssertUnwindSafe(|| m.match_node(n.clone())));
    match r {
      Err(_) => {
        panicked = true;
        verdicts.push(false);
        envs.push(json!({"single": {}, "multi": {}}));
      }
      Ok(None) => {
        verdicts.push(false);
        envs.push(json!({"single": {}, "multi": {}}));
      }
      Ok(Some(nm)) => {
        let (s, mu) = env_json(&nm, p);
        verdicts.push(true);
        envs.push(json!({"single": s, "multi": mu, "labels": labels_json(&nm, p)}));
      }
    }
  }
  (verdicts, envs, panicked)
}

// ------------------------------------------------------------------ universe
struct UniSpec {
  full: bool,
  lang: SupportLang,
  sources: Vec<String>,
  patterns: Vec<String>,
  kinds: Vec<String>,
  regex: Vec<Vec<String>>,
  fields: Vec<String>,
}

fn carrier_specs(thorough: bool) -> Vec<UniSpec> {
  let l = SupportLang::JavaScript;
  let mut v = vec![
    UniSpec {
      full: true,
      lang: l,
      sources: vec![
        "x; foo(1); foo(2);".into(),
        "x; foo(1); foo(1);".into(),
        "foo(2); x; foo(1);".into(),
        "foo(a, a); foo(a, b)".into(),
      ],
      patterns: vec!["foo($A)".into(), "foo($A);".into(), "foo($A, $A)".into(), "foo($A, $B)".into(), "x".into()],
      kinds: vec!["expression_statement".into(), "call_expression".into(), "number".into(), "identifier".into()],
      regex: vec![vec!["x".into(), "x;".into()], vec!["1".into()]],
      fields: vec!["function".into(), "arguments".into()],
    },
    UniSpec {
      full: true,
      lang: l,
      // (last text: nodes that span several lines and hold `a` / `b` alone on a line - a regex is tried on the WHOLE text
      // of a node, `^` and `$` are its two ends)
      sources: vec!["[a, [b, 1], foo(a)]".into(), "foo(bar(a), a, [a])".into(), "foo(bar(b), /*c*/ a)".into(), "foo(\na\n, [\nb\n])".into()],
      patterns: vec!["bar($A)".into(), "[$$$A]".into(), "a".into(), "foo($$$A)".into(), "$F($X)".into()],
      kinds: vec!["array".into(), "call_expression".into(), "identifier".into(), "arguments".into(), "comment".into()],
      regex: vec![vec!["a".into(), "b".into()]],
      fields: vec!["function".into(), "arguments".into()],
    },
  ];
  v.push(UniSpec {
    full: true,
    lang: l,
    sources: vec!["foo(bar(baz(1)), [[1]])".into(), "foo(bar(1), baz(2))".into()],
    patterns: vec!["baz($A)".into(), "1".into(), "bar($$$)".into()],
    kinds: vec!["number".into(), "array".into(), "call_expression".into(), "arguments".into()],
    regex: vec![],
    fields: vec!["arguments".into(), "function".into()],
  });
  // several siblings satisfy the same ofRule pattern with different bindings; wide characters before nodes on a line
  v.push(UniSpec {
    full: true,
    lang: l,
    sources: vec!["[foo(1), foo(2), foo(1)]".into(), "é = [foo(1), bar(2), foo(2)]".into(), "\"中\"; [foo(2)]".into()],
    patterns: vec!["foo($A)".into(), "$F(1)".into(), "$F($A)".into()],
    kinds: vec!["call_expression".into(), "array".into(), "number".into()],
    regex: vec![vec!["1".into()]],
    fields: vec!["function".into(), "arguments".into()],
  });
  v.push(UniSpec {
    full: true,
    lang: l,
    // (third text: sums nested in the LEFT operand - an ancestor that satisfies `inside`'s sub-rule but holds the node in
    // the wrong field is passed over without a trace, the next one binds the variables afresh)
    sources: vec!["123 + 4;x = 123 + z * 2;".into(), "foo(123 + 1, 5 + 123)".into(), "1 + t + 2; 3 + (4 + t)".into()],
    patterns: vec!["123+".into(), "$A +".into(), "123 + $B".into(), "foo(".into(), "$X + $Y".into()],
    kinds: vec!["binary_expression".into(), "number".into(), "expression_statement".into()],
    regex: vec![vec!["123".into()]],
    fields: vec!["left".into(), "right".into()],
  });
  // texts with syntax errors: `kind: ERROR` is a kind like any other wherever it stands in a rule (sub-rule of a relation,
  // negated, member of any / all), and ERROR nodes are candidates like any other
  v.push(UniSpec {
    full: false,
    lang: l,
    sources: vec!["foo(1); ) bar(2);".into(), "x = = 123; foo(2)".into(), "foo(1); bar(2)".into()],
    patterns: vec!["foo($A)".into(), "$F(2)".into()],
    kinds: vec!["ERROR".into(), "expression_statement".into(), "number".into()],
    regex: vec![],
    fields: vec!["function".into()],
  });
  if thorough {
    v.push(UniSpec {
      full: true,
      lang: l,
      sources: vec!["if (a) { foo(a); bar(b) } else { foo(b) }".into(), "a = foo(b); b = foo(a)".into()],
      patterns: vec!["foo($A)".into(), "$A = $B".into(), "$A = foo($A)".into(), "if ($C) $T else $E".into()],
      kinds: vec!["statement_block".into(), "if_statement".into(), "assignment_expression".into(), "identifier".into()],
      regex: vec![vec!["a".into()]],
      fields: vec!["left".into(), "right".into(), "condition".into(), "consequence".into()],
    });
  }
  v
}

fn has_zero_width(n: &tree_sitter::Node) -> bool {
  if n.start_byte() == n.end_byte() && n.parent().is_some() {
    return true;
  }
  (0..n.child_count()).any(|i| n.child(i).map(|c| has_zero_width(&c)).unwrap_or(false))
}

/// corpus universes: per language, a few small error-free subtrees; kinds/fields/patterns from them
fn corpus_specs(corpus: &str, rng: &mut Rng, per_lang: usize) -> Vec<UniSpec> {
  let mut by_lang: HashMap<String, Vec<(SupportLang, String)>> = HashMap::new();
  for (l, _p, text) in util::corpus(corpus) {
    by_lang.entry(util::lang_name(l)).or_default().push((l, text));
  }
  let mut names: Vec<_> = by_lang.keys().cloned().collect();
  names.sort();
  let mut out = vec![];
  for name in names {
    let files = &by_lang[&name];
    let l = files[0].0;
    let mut sources = vec![];
    let mut patterns = vec![];
    let mut kinds = vec![];
    let mut fields = vec![];
    let mut texts = vec![];
    for _ in 0..per_lang * 6 {
      if sources.len() >= per_lang {
        break;
      }
      let (_, text) = rng.pick(files);
      let g = l.ast_grep(text);
      let cands: Vec<N> = all_nodes(&g)
        .into_iter()
        .filter(|n| {
          let t = n.get_ts_node();
          let c = proj::count_nodes(&t);
          n.is_named() && (8..=45).contains(&c) && !mrec::has_error_or_missing(&t) && !has_zero_width(&t) && !n.text().contains('$')
        })
        .collect();
      if cands.is_empty() {
        continue;
      }
      let site = rng.pick(&cands).clone();
      let src = site.text().to_string();
      // the subtree must survive re-parsing on its own without errors
      let g2 = l.ast_grep(&src);
      if mrec::has_error_or_missing(&g2.root().get_ts_node()) || has_zero_width(&g2.root().get_ts_node()) {
        continue;
      }
      let nodes = all_nodes(&g2);
      let p = proj::project(&g2.root(), false);
      for n in &nodes {
        if n.is_named() && rng.chance(1, 4) && kinds.len() < 5 {
          let k = n.kind().to_string();
          if !kinds.contains(&k) {
            kinds.push(k);
          }
        }
      }
      for pn in &p.nodes {
        if !pn.f.is_empty() && !fields.contains(&pn.f) && fields.len() < 3 {
          fields.push(pn.f.clone());
        }
      }
      // patterns: sub-expressions, some with a hole
      let named: Vec<&N> = nodes.iter().filter(|n| n.is_named() && n.get_ts_node().child_count() >= 2).collect();
      for _ in 0..2 {
        if named.is_empty() || patterns.len() >= 4 {
          break;
        }
        let site = (*rng.pick(&named)).clone();
        let kids: Vec<N> = site.children().filter(|c| c.is_named()).collect();
        let text = if !kids.is_empty() && rng.chance(2, 3) {
          let k = rng.pick(&kids);
          let (s, e) = (k.range().start - site.range().start, k.range().end - site.range().start);
          let t = site.text().to_string();
          format!("{}$V{}", &t[..s], &t[e..])
        } else {
          site.text().to_string()
        };
        if text.len() < 80 && !patterns.contains(&text) {
          patterns.push(text);
        }
      }
      let leafs: Vec<&N> = nodes.iter().filter(|n| n.is_named() && n.is_leaf() && n.text().len() < 12).collect();
      if !leafs.is_empty() && texts.len() < 2 {
        texts.push(rng.pick(&leafs).text().to_string());
      }
      sources.push(src);
    }
    if sources.is_empty() || kinds.is_empty() {
      continue;
    }
    out.push(UniSpec { full: false, lang: l, sources, patterns, kinds, regex: if texts.is_empty() { vec![] } else { vec![texts] }, fields });
  }
  out
}

fn build_universe(spec: &UniSpec) -> Option<Value> {
  let l = spec.lang;
  let ts = l.get_ts_language();
  let mut kinds = vec![];
  for k in &spec.kinds {
    let id = ts.id_for_node_kind(k, true);
    if id != 0 {
      kinds.push(json!({"kid": id, "name": k}));
    }
  }
  let mut pats = vec![];
  let mut compiled = vec![];
  for t in &spec.patterns {
    let Ok(Ok(p)) = catch_unwind(AssertUnwindSafe(|| Pattern::try_new(t, l))) else { continue };
    // patterns that parse with an ERROR node are kept in the carrier universes only: their kind set must be
    // "every kind" (an ERROR root matches nodes of any kind)
    if p.has_error() && !spec.full {
      continue;
    }
    pats.push(json!({"text": t, "PT": mrec::pattern_table(&p.node), "strict": "smart"}));
    compiled.push(p);
  }
  let mut trees = vec![];
  for (i, src) in spec.sources.iter().enumerate() {
    let g = l.ast_grep(src);
    let p = proj::project(&g.root(), true);
    if p.nodes.len() > 70 {
      continue;
    }
    let nodes = all_nodes(&g);
    // the oracle: each pattern alone on each node
    let mut pv = vec![];
    let mut penv = vec![];
    for pat in &compiled {
      let (v, e, _) = per_node(pat, &nodes, &p);
      pv.push(v);
      penv.push(e);
    }
    trees.push(json!({"id": i + 1, "src": src, "T": rule_table(&g, &p), "pv": pv, "penv": penv}));
  }
  if trees.is_empty() {
    return None;
  }
  // tree-sitter itself can disagree about fields (cursor.field_name() vs child_by_field_name(), e.g. for
  // children of the root in the Lua grammar); such field names are not used: the reference for `field` is
  // only meaningful where the parser library is consistent
  let mut bad: Vec<String> = vec![];
  for src in &spec.sources {
    let g = l.ast_grep(src);
    for n in all_nodes(&g) {
      let t = n.get_ts_node();
      for f in &spec.fields {
        // first direct child the cursor labels with f
        let mut first = None;
        let mut c = t.walk();
        if c.goto_first_child() {
          loop {
            if c.field_name().map(|x| x == f.as_str()).unwrap_or(false) {
              first = Some(proj::key_ts(&c.node()));
              break;
            }
            if !c.goto_next_sibling() {
              break;
            }
          }
        }
        let by_name = t.child_by_field_name(f.as_str()).map(|x| proj::key_ts(&x));
        if by_name != first && !bad.contains(f) {
          bad.push(f.clone());
        }
      }
    }
  }
  let fields: Vec<&String> = spec.fields.iter().filter(|f| ts.field_id_for_name(f.as_str()).is_some() && !bad.contains(f)).collect();
  Some(json!({
    "lang": util::lang_name(l), "full": spec.full, "trees": trees, "kinds": kinds, "patterns": pats,
    "regex": spec.regex.iter().map(|t| json!({"texts": t})).collect::<Vec<_>>(),
    "fields": fields,
  }))
}

pub fn universe(mode: &str, corpus: &str, seed: u64, thorough: bool, out: &str) {
  std::panic::set_hook(Box::new(|_| {}));
  let mut rng = Rng::new(seed ^ 0x0511);
  let mut specs = vec![];
  if mode == "carrier" || mode == "both" {
    specs.extend(carrier_specs(thorough));
  }
  if mode == "corpus" || mode == "both" {
    specs.extend(corpus_specs(corpus, &mut rng, if thorough { 3 } else { 2 }));
  }
  let us: Vec<Value> = specs.iter().filter_map(build_universe).collect();
  let n_trees: usize = us.iter().map(|u| u["trees"].as_array().unwrap().len()).sum();
  std::fs::write(out, serde_json::to_string(&json!(us)).unwrap()).unwrap();
  util::summary(json!({"universes": us.len(), "trees": n_trees,
    "languages": us.iter().map(|u| u["lang"].as_str().unwrap().to_string()).collect::<std::collections::BTreeSet<_>>().len()}));
}

// ------------------------------------------------------------------ rule -> yaml
fn regex_of(texts: &Value) -> String {
  let alts: Vec<String> = texts.as_array().unwrap().iter().map(|t| regex::escape(t.as_str().unwrap())).collect();
  format!("^(?:{})$", alts.join("|"))
}

fn anb(a: i64, b: i64) -> String {
  if a == 0 {
    format!("{b}")
  } else if b == 0 {
    format!("{a}n")
  } else if b > 0 {
    format!("{a}n+{b}")
  } else {
    format!("{a}n{b}")
  }
}

/// name of the global utility a "cons" record stands for
fn global_id(r: &Value) -> String {
  use std::hash::{Hash, Hasher};
  let mut h = std::collections::hash_map::DefaultHasher::new();
  r.to_string().hash(&mut h);
  format!("g{:x}", h.finish() & 0xffff_ffff)
}

/// the global utility rules (id, language, rule, constraints) a rule record refers to
pub fn global_docs(u: &Value, r: &Value, out: &mut Vec<Value>) {
  match r {
    Value::Object(m) => {
      if m.get("op").and_then(|o| o.as_str()) == Some("cons") {
        let id = global_id(r);
        if !out.iter().any(|d| d["id"] == id.as_str()) {
          let var = r["var"].as_str().unwrap_or("A").to_string();
          let mut cons = Map::new();
          cons.insert(var, rule_yaml(u, &r["crule"]));
          out.push(json!({"id": id, "language": u["lang"], "rule": rule_yaml(u, &r["sub"]), "constraints": Value::Object(cons)}));
        }
      }
      for v in m.values() {
        global_docs(u, v, out);
      }
    }
    Value::Array(a) => {
      for v in a {
        global_docs(u, v, out);
      }
    }
    _ => {}
  }
}

fn globals_of(docs: &[Value]) -> Result<GlobalRules<SupportLang>, String> {
  let mut utils = vec![];
  for d in docs {
    utils.push(from_str(&serde_json::to_string(d).unwrap()).map_err(|e| e.to_string())?);
  }
  DeserializeEnv::parse_global_utils(utils).map_err(|e| format!("{e:?}"))
}

/// rule record (TLC json) -> serde_json value in the YAML rule schema
pub fn rule_yaml(u: &Value, r: &Value) -> Value {
  let op = r["op"].as_str().unwrap();
  match op {
    "pattern" => json!({"pattern": u["patterns"][r["pidx"].as_u64().unwrap() as usize - 1]["text"]}),
    "kind" => {
      let kid = r["kid"].as_u64().unwrap();
      let name = u["kinds"].as_array().unwrap().iter().find(|k| k["kid"].as_u64() == Some(kid)).map(|k| k["name"].clone());
      json!({"kind": name.unwrap_or(json!("ERROR"))})
    }
    "regex" => json!({"regex": regex_of(&r["texts"])}),
    "range" => json!({"range": {"start": {"line": r["sl"], "column": r["sc"]}, "end": {"line": r["el"], "column": r["ec"]}}}),
    // a reference to a global utility rule with a constraint; the utility itself is produced by global_docs()
    "cons" => json!({"matches": global_id(r)}),
    "nth" => {
      let pos = anb(r["a"].as_i64().unwrap(), r["b"].as_i64().unwrap());
      if r["of"]["op"] == "none" && r["rev"] == false {
        json!({"nthChild": pos})
      } else {
        let mut o = json!({"position": pos, "reverse": r["rev"]});
        if r["of"]["op"] != "none" {
          o["ofRule"] = rule_yaml(u, &r["of"]);
        }
        json!({"nthChild": o})
      }
    }
    "all" | "any" => {
      let subs: Vec<Value> = r["subs"].as_array().unwrap().iter().map(|s| rule_yaml(u, s)).collect();
      json!({op: subs})
    }
    "not" => json!({"not": rule_yaml(u, &r["sub"])}),
    "matches" => json!({"matches": r["id"]}),
    "inside" | "has" | "precedes" | "follows" => {
      let mut inner = rule_yaml(u, &r["sub"]);
      let stop = &r["stop"];
      inner["stopBy"] = match stop["op"].as_str().unwrap() {
        "neighbor" => json!("neighbor"),
        "end" => json!("end"),
        _ => rule_yaml(u, stop),
      };
      if r["field"].as_str().map(|f| !f.is_empty()).unwrap_or(false) {
        inner["field"] = r["field"].clone();
      }
      json!({op: inner})
    }
    _ => json!({"kind": "ERROR"}),
  }
}

/// the order in which the deserializer collects the keys of one rule object
const KEY_ORDER: [&str; 13] = ["pattern", "kind", "regex", "nthChild", "range", "inside", "has", "precedes", "follows", "all", "any", "not", "matches"];

/// like rule_yaml, but a conjunction (`all`) whose members are rule objects with pairwise different keys, listed in the
/// order the deserializer collects them, is written as one rule object holding all those keys
pub fn rule_yaml_obj(u: &Value, r: &Value) -> Value {
  let op = r["op"].as_str().unwrap();
  match op {
    "all" => {
      let subs: Vec<Value> = r["subs"].as_array().unwrap().iter().map(|s| rule_yaml_obj(u, s)).collect();
      let mut keys: Vec<&String> = vec![];
      let mut ok = true;
      for s in &subs {
        for k in s.as_object().unwrap().keys() {
          if keys.contains(&k) || !KEY_ORDER.contains(&k.as_str()) {
            ok = false;
          }
          keys.push(k);
        }
      }
      let rank = |k: &String| KEY_ORDER.iter().position(|x| x == k).unwrap_or(99);
      if ok && keys.windows(2).all(|w| rank(w[0]) < rank(w[1])) {
        let mut m = Map::new();
        for s in &subs {
          for (k, v) in s.as_object().unwrap() {
            m.insert(k.clone(), v.clone());
          }
        }
        Value::Object(m)
      } else {
        json!({"all": subs})
      }
    }
    "any" => json!({"any": r["subs"].as_array().unwrap().iter().map(|s| rule_yaml_obj(u, s)).collect::<Vec<_>>()}),
    "not" => json!({"not": rule_yaml_obj(u, &r["sub"])}),
    "nth" if r["of"]["op"] != "none" => {
      let mut o = rule_yaml(u, r);
      o["nthChild"]["ofRule"] = rule_yaml_obj(u, &r["of"]);
      o
    }
    "inside" | "has" | "precedes" | "follows" => {
      // the relation's own keys (stopBy, field) live in the same object as the sub-rule's keys
      let std = rule_yaml(u, r);
      let mut inner = rule_yaml_obj(u, &r["sub"]);
      if !inner.is_object() || inner.as_object().unwrap().keys().any(|k| k == "stopBy" || k == "field") {
        return std;
      }
      for k in ["stopBy", "field"] {
        if let Some(v) = std[op].get(k) {
          inner[k] = v.clone();
        }
      }
      json!({op: inner})
    }
    _ => rule_yaml(u, r),
  }
}

fn hits_of(v: &[bool]) -> Vec<usize> {
  v.iter().enumerate().filter(|(_, b)| **b).map(|(i, _)| i + 1).collect()
}
fn hit_envs(v: &[bool], envs: &[Value]) -> Vec<Value> {
  v.iter().enumerate().filter(|(_, b)| **b).map(|(i, _)| json!({"n": i + 1, "single": envs[i]["single"], "multi": envs[i]["multi"], "labels": envs[i].get("labels").cloned().unwrap_or(json!([]))})).collect()
}
fn pk_json(k: Option<bit_set::BitSet>) -> Value {
  match k {
    None => json!({"any": true, "set": []}),
    Some(bs) => json!({"any": false, "set": bs.iter().collect::<Vec<_>>()}),
  }
}

fn ids_of<'a>(it: impl Iterator<Item = NodeMatch<'a, StrDoc<SupportLang>>>, p: &proj::Projection) -> Vec<usize> {
  it.map(|nm| p.id_of(nm.get_node())).collect()
}

pub fn drive(universe_file: &str, vectors: &str, out: &str) {
  std::panic::set_hook(Box::new(|_| {}));
  let us: Value = serde_json::from_str(&std::fs::read_to_string(universe_file).unwrap()).unwrap();
  let mut w = NdWriter::new(out);
  let (mut n_loaded, mut n_rejected, mut n_cfg) = (0, 0, 0);
  // rule files that loaded, per (universe, tree): scanned together afterwards (C01: one rule or many)
  let mut together: std::collections::BTreeMap<(usize, usize), Vec<(String, Value, Vec<Value>, Vec<usize>)>> = Default::default();
  for (i, v) in util::read_ndjson(vectors).iter().enumerate() {
    let ui = v["u"].as_u64().unwrap() as usize;
    let ti = v["t"].as_u64().unwrap() as usize;
    let u = &us[ui - 1];
    let tree = &u["trees"][ti - 1];
    let l = util::lang(u["lang"].as_str().unwrap());
    let std_json = rule_yaml(u, &v["rule"]);
    let obj_json = rule_yaml_obj(u, &v["rule"]);
    let utils_json: Map<String, Value> = v["utils"].as_object().map(|m| m.iter().map(|(k, r)| (k.clone(), rule_yaml(u, r))).collect()).unwrap_or_default();
    let mut gdocs = vec![];
    global_docs(u, &v["rule"], &mut gdocs);
    if v["shadow"] == true {
      // global utilities with the ids of the local ones and a different body (a kind): the local ones shadow them
      let kind = u["kinds"].as_array().and_then(|k| k.first()).map(|k| k["name"].clone()).unwrap_or(json!("identifier"));
      for k in utils_json.keys() {
        gdocs.push(json!({"id": k, "language": u["lang"], "rule": {"kind": kind}}));
      }
    }
    let src = tree["src"].as_str().unwrap();
    let g = l.ast_grep(src);
    let p = proj::project(&g.root(), true);
    let nodes = all_nodes(&g);
    // the rule as written by rule_yaml, and - when it differs - with every conjunction whose members have different keys
    // written as ONE rule object with several keys (`{kind: K, has: {..}, all: [..], any: [..]}`), which means the same
    let mut spellings = vec![("", std_json.clone())];
    if obj_json != std_json {
      spellings.push(("o", obj_json));
    }
    for (sfx, rule_json) in spellings {
    let yaml_rule = serde_json::to_string(&rule_json).unwrap(); // JSON is YAML
    let mut rec = json!({"id": format!("r{i}{sfx}"), "u": ui, "t": ti, "lang": u["lang"], "rule": v["rule"], "utils": v["utils"], "shadow": v["shadow"] == true,
      "yaml": rule_json, "src": src, "load": "", "error": "", "hits": [], "envs": [], "panic": false,
      "pk": {"any": true, "set": []}, "cfg": {"ok": false}});
    // (1) the bare Rule through DeserializeEnv (no potential-kinds requirement)
    let built = catch_unwind(AssertUnwindSafe(|| -> Result<_, String> {
      let ser: SerializableRule = from_str(&yaml_rule).map_err(|e| e.to_string())?;
      let mut utils: HashMap<String, SerializableRule> = HashMap::new();
      for (k, r) in &utils_json {
        utils.insert(k.clone(), from_str(&serde_json::to_string(r).unwrap()).map_err(|e| e.to_string())?);
      }
      let globals = globals_of(&gdocs)?;
      let env = DeserializeEnv::new(l).with_globals(&globals).with_utils(&utils).map_err(|e| e.to_string())?;
      let rule = env.deserialize_rule(ser).map_err(|e| e.to_string())?;
      Ok((env, rule))
    }));
    match built {
      Err(_) => {
        rec["load"] = json!("panic");
      }
      Ok(Err(e)) => {
        rec["load"] = json!("error");
        rec["error"] = json!(e);
        n_rejected += 1;
      }
      Ok(Ok((_env, rule))) => {
        n_loaded += 1;
        let (verdicts, envs, panicked) = per_node(&rule, &nodes, &p);
        rec["load"] = json!("ok");
        rec["hits"] = json!(hits_of(&verdicts));
        rec["envs"] = json!(hit_envs(&verdicts, &envs));
        rec["panic"] = json!(panicked);
        rec["pk"] = pk_json(rule.potential_kinds());
      }
    }
    // (2) the full rule file: find_all, visitors, CombinedScan (needs potential kinds)
    let mut full = json!({"id": "r", "language": u["lang"], "rule": rule_json});
    if !utils_json.is_empty() {
      full["utils"] = Value::Object(utils_json.clone());
    }
    let full_yaml = serde_json::to_string(&full).unwrap();
    let cfg = catch_unwind(AssertUnwindSafe(|| {
      let globals = globals_of(&gdocs).unwrap_or_default();
      from_yaml_string::<SupportLang>(&full_yaml, &globals)
    }));
    match cfg {
      Ok(Ok(cfgs)) => {
        n_cfg += 1;
        let c = &cfgs[0];
        let root = g.root();
        let fa = catch_unwind(AssertUnwindSafe(|| ids_of(root.find_all(&c.matcher), &p)));
        let vis = catch_unwind(AssertUnwindSafe(|| ids_of(Visitor::new(&c.matcher).reentrant(true).visit(root.clone()), &p)));
        let non = catch_unwind(AssertUnwindSafe(|| ids_of(Visitor::new(&c.matcher).reentrant(false).visit(root.clone()), &p)));
        // the rewriting front of the overlap-free visit: one edit per outermost match (matches that merely touch included)
        let ra = catch_unwind(AssertUnwindSafe(|| root.replace_all(&c.matcher, "X").iter().map(|e| e.position).collect::<Vec<_>>()));
        let outer_pos = catch_unwind(AssertUnwindSafe(|| {
          Visitor::new(&c.matcher).reentrant(false).visit(root.clone()).map(|m| m.range().start).collect::<Vec<_>>()
        }));
        let comb = catch_unwind(AssertUnwindSafe(|| {
          let scan = CombinedScan::new(vec![c]);
          let r = scan.scan(&g, false);
          let mut ids = vec![];
          for (_, ms) in r.matches {
            ids.extend(ms.iter().map(|m| p.id_of(m.get_node())));
          }
          ids
        }));
        let (cv, _, _) = per_node(&c.matcher, &nodes, &p);
        if let (Ok(alone), true) = (&fa, sfx.is_empty()) {
          together.entry((ui, ti)).or_default().push((format!("r{i}"), full.clone(), gdocs.clone(), alone.clone()));
        }
        rec["cfg"] = json!({"ok": true, "hits": hits_of(&cv),
          "find_all": fa.unwrap_or(vec![0]), "visit": vis.unwrap_or(vec![0]), "visit_outer": non.unwrap_or(vec![0]),
          "combined": comb.unwrap_or(vec![0]), "ra_pos": ra.unwrap_or(vec![usize::MAX >> 40]), "outer_pos": outer_pos.unwrap_or(vec![]),
          "pk": pk_json(c.matcher.potential_kinds())});
      }
      _ => {
        rec["cfg"] = json!({"ok": false});
      }
    }
    w.put(&rec);
    }
  }
  // many rules scanned together: windows of up to four rule files over the same tree, some of them with a fix, in
  // both modes of CombinedScan::scan; every member must report what it reports alone
  let mut n_sets = 0;
  let mut w2 = NdWriter::new(&format!("{out}.sets"));
  for ((ui, ti), members) in &together {
    let u = &us[ui - 1];
    let l = util::lang(u["lang"].as_str().unwrap());
    let src = u["trees"][ti - 1]["src"].as_str().unwrap();
    let g = l.ast_grep(src);
    let p = proj::project(&g.root(), true);
    let windows: Vec<&[(String, Value, Vec<Value>, Vec<usize>)]> = members.chunks(4).collect();
    let cap = (windows.len() / 60).max(1);
    for (wi, win) in windows.iter().enumerate().filter(|(wi, _)| wi % cap == 0) {
      let out = catch_unwind(AssertUnwindSafe(|| {
        let mut globals = vec![];
        let mut cfgs = vec![];
        for (k, (_, full, gdocs, _)) in win.iter().enumerate() {
          let mut doc = full.clone();
          doc["id"] = json!(format!("m{k}"));
          // which members carry a fix changes with the window
          if (wi >> k) & 1 == 1 {
            doc["fix"] = json!("X");
          }
          globals.push(globals_of(gdocs).unwrap_or_default());
          cfgs.push(serde_json::to_string(&doc).unwrap());
        }
        let loaded: Vec<_> = cfgs.iter().zip(globals.iter()).map(|(y, gl)| from_yaml_string::<SupportLang>(y, gl).ok().and_then(|mut v| v.pop())).collect();
        if loaded.iter().any(|c| c.is_none()) {
          return None;
        }
        let loaded: Vec<_> = loaded.into_iter().flatten().collect();
        let scan = CombinedScan::new(loaded.iter().collect());
        let mut per_mode = vec![];
        for sep in [false, true] {
          let r = scan.scan(&g, sep);
          let mut by_id: std::collections::BTreeMap<String, Vec<usize>> = Default::default();
          for (c, ms) in r.matches {
            by_id.entry(c.id.clone()).or_default().extend(ms.iter().map(|m| p.id_of(m.get_node())));
          }
          for (c, m) in r.diffs {
            by_id.entry(c.id.clone()).or_default().push(p.id_of(m.get_node()));
          }
          per_mode.push(by_id);
        }
        Some(per_mode)
      }));
      let per_mode = match out { Ok(Some(m)) => m, Ok(None) => continue, Err(_) => vec![] };
      let ms: Vec<Value> = win.iter().enumerate().map(|(k, (rid, _, _, alone))| {
        let get = |mode: usize| per_mode.get(mode).map(|m| m.get(&format!("m{k}")).cloned().unwrap_or_default());
        json!({"rid": rid, "fix": (wi >> k) & 1 == 1, "alone": alone, "together": get(0).unwrap_or(vec![0]), "together_sep": get(1).unwrap_or(vec![0])})
      }).collect();
      w2.put(&json!({"id": format!("set-u{ui}t{ti}w{wi}"), "kind": "set", "lang": u["lang"], "src": src, "panic": per_mode.is_empty(), "members": ms}));
      n_sets += 1;
    }
  }
  let n = w.finish();
  w2.finish();
  util::summary(json!({"records": n, "rules_loaded": n_loaded, "rules_rejected": n_rejected, "configs_loaded": n_cfg, "rule_sets_scanned_together": n_sets}));
}
