//! C18 recorder: `--update-all` on materialised projects; the announced edits (`--json` of the same command),
//! the bytes of every file before and after, the "Applied N changes" line, the `write` hook events; twice
//! (repeated invocation).  Judged by spec/trace/Trace_C18.tla.
use crate::cli::{self, json_lines, run_sgv};
use crate::project::Project;
use crate::util::{self, NdWriter, Rng};
use serde_json::{json, Value};

fn bytes(s: &[u8]) -> Value {
  json!(s.iter().map(|b| *b as u32).collect::<Vec<_>>())
}

struct Case {
  id: String,
  files: Vec<(String, String)>,
  rules: Vec<Value>, // empty = use `run -p foo($A) -r bar($A)`
  /// statement mode: `run -p 'foo($A);' -r 'bar($A);'` so that two matches can touch without a byte between them
  stmt_mode: bool,
}

fn stmt(nested: bool, j: usize) -> String {
  if nested { format!("foo(foo(x{j}));") } else { format!("foo(x{j}é);") }
}

fn touching(a: &Value, b: &Value) -> bool {
  a[0].as_u64().unwrap() + a[1].as_u64().unwrap() == b[0].as_u64().unwrap()
}

fn doc_body(edits: &[Value], crlf: bool, stmt_mode: bool) -> String {
  // edits: [[pos, del], ...]; two edits whose ranges intersect are rendered as a nested match; in statement mode two
  // edits that touch (the second starts at the byte where the first ends) are rendered as statements without a byte between them
  let nl = if crlf { "\r\n" } else { "\n" };
  let mut out = String::new();
  let mut k = 0;
  while k < edits.len() {
    let nested = k + 1 < edits.len() && {
      let (a, b) = (&edits[k], &edits[k + 1]);
      a[0].as_u64().unwrap() + a[1].as_u64().unwrap() > b[0].as_u64().unwrap()
    };
    out.push_str(&stmt(nested, k));
    k += if nested { 2 } else { 1 };
    if !(stmt_mode && k < edits.len() && touching(&edits[k - 1], &edits[k])) {
      out.push_str(nl);
    }
  }
  out.push_str("keep(1);");
  out.push_str(nl);
  out
}

fn cases_from_vectors(vectors: &str, thorough: bool, rng: &mut Rng) -> Vec<Case> {
  let all = util::read_ndjson(vectors);
  let want = if thorough { 400 } else { 40 };
  let stride = (all.len() / want).max(1);
  let mut out = vec![];
  for (i, v) in all.iter().enumerate().filter(|(i, _)| i % stride == 0) {
    let docs = v["docs"].as_array().unwrap();
    let crlf = rng.chance(1, 4);
    let stmt_mode = docs.iter().any(|d| d.as_array().unwrap().windows(2).any(|w| touching(&w[0], &w[1])));
    let mut files = vec![("lib/untouched.js".to_string(), "keep(0);\n".to_string()), ("notes.txt".to_string(), "foo(1)\n".to_string())];
    if docs.len() == 1 {
      files.push(("src/t.js".to_string(), doc_body(docs[0].as_array().unwrap(), crlf, stmt_mode)));
    } else {
      let tags = ["<script>", "<script lang=\"ts\">"];
      let mut html = String::from("<html><body>\n");
      for (k, d) in docs.iter().enumerate() {
        html.push_str(tags[k % 2]);
        html.push('\n');
        html.push_str(&doc_body(d.as_array().unwrap(), crlf, stmt_mode));
        html.push_str("</script>\n");
      }
      html.push_str("<p>foo(text)</p>\n</body></html>\n");
      files.push(("src/t.html".to_string(), html));
    }
    out.push(Case { id: format!("c18v{i}"), files, rules: vec![], stmt_mode });
  }
  out
}

fn fixed_cases() -> Vec<Case> {
  let r1 = json!({"id": "r1", "language": "JavaScript", "severity": "warning", "message": "m", "rule": {"pattern": "foo($A)"}, "fix": "bar($A)"});
  let r2 = json!({"id": "r2", "language": "JavaScript", "severity": "warning", "message": "m", "rule": {"pattern": "foo(foo($A))"}, "fix": "baz($A)"});
  let r3 = json!({"id": "r3", "language": "JavaScript", "severity": "warning", "message": "m", "rule": {"pattern": "keep($A)"}, "fix": "kept($A)"});
  let r4 = json!({"id": "r4", "language": "Css", "severity": "warning", "message": "m", "rule": {"kind": "declaration", "regex": "^color: red"}, "fix": "color: blue"});
  let r5 = json!({"id": "r5", "language": "Html", "severity": "warning", "message": "m", "rule": {"pattern": "<b>$$$A</b>"}, "fix": "<i>$$$A</i>"});
  let r6 = json!({"id": "r6", "language": "TypeScript", "severity": "warning", "message": "m", "rule": {"pattern": "foo($A)"}, "fix": "bar($A)"});
  let r7 = json!({"id": "r7", "language": "JavaScript", "severity": "warning", "message": "m", "rule": {"pattern": "debugger;"}, "fix": ""});
  let r8 = json!({"id": "r8", "language": "JavaScript", "severity": "warning", "message": "m", "rule": {"pattern": "var $A = $B;"}, "fix": "let $A = $B;"});
  let r10 = json!({"id": "r10", "language": "JavaScript", "severity": "warning", "message": "m", "rule": {"pattern": "keep($A)"}, "fix": "keep($A)"});
  let r9 = json!({"id": "r9", "language": "JavaScript", "severity": "warning", "message": "m", "rule": {"pattern": "foo($A);"}, "fix": "qux($A);"});
  vec![
    // three and four documents in one file, each with an accepted fix
    Case { id: "scan-html-three-docs".into(), files: vec![("q.html".into(), "<html><body><b>x</b>\n<style>\na { color: red }\n</style><script>\nfoo(1);\n</script>\n<b>y é</b></body></html>\n".into()), ("r.html".into(), "<p>none</p>\n".into())], rules: vec![r1.clone(), r4.clone(), r5.clone()], stmt_mode: false },
    Case { id: "scan-html-four-docs".into(), files: vec![("s.html".into(), "<html><body>\n<script lang=\"ts\">\nfoo(2);\n</script>\n<b>x</b>\n<style>\na { color: red }\n</style><script>\nfoo(1);\n</script></body></html>\n".into())], rules: vec![r1.clone(), r4.clone(), r5.clone(), r6.clone()], stmt_mode: false },
    // unused suppression comments are findings with a fix of their own (the comment is deleted); they sit before,
    // between and after other fixable findings
    Case { id: "scan-unused-suppressions".into(), files: vec![("u.js".into(), "// ast-grep-ignore: r3\nfoo(1);\nkeep(2); // ast-grep-ignore: r1\nfoo(3);\n// ast-grep-ignore\nnothing();\nfoo(9); // ast-grep-ignore: r1\n// ast-grep-ignore\nfoo(10);\n".into()),
                                                              ("v.js".into(), "foo(4); // ast-grep-ignore: r3\n".into())], rules: vec![r1.clone(), r3.clone()], stmt_mode: false },
    Case { id: "scan-two-rules".into(), files: vec![("a.js".into(), "foo(foo(1)); keep(2);\nfoo(3);\n".into()), ("b.js".into(), "nothing();\n".into())], rules: vec![r1.clone(), r2.clone(), r3.clone()], stmt_mode: false },
    Case { id: "scan-html-js-css".into(), files: vec![("p.html".into(), "<html><style>\na { color: red }\n</style><script>\nfoo(1);\n</script></html>\n".into())], rules: vec![r1.clone(), r4.clone()], stmt_mode: false },
    Case { id: "scan-crlf".into(), files: vec![("w.js".into(), "foo(1);\r\nfoo(\"é🦀\");\r\n".into())], rules: vec![r1.clone()], stmt_mode: false },
    // fixes that touch: the second edit starts at the byte where the first ends (minified text, two rules on neighbouring statements)
    Case { id: "scan-touching".into(), files: vec![("m.js".into(), "var a = 1;debugger;var b = 2;foo(1);\nfoo(2);foo(3);foo(\"é\");debugger;\n".into()), ("m.css".into(), "a{color: red;color: red}\n".into())],
           rules: vec![r1.clone(), r4.clone(), r7.clone(), r8.clone(), r9.clone()], stmt_mode: false },
    // a fix that reproduces the text it replaces is an announced edit like any other: it takes part in the overlap filter
    // (the fixable match inside it is dropped) and in the count
    Case { id: "scan-noop-fix".into(), files: vec![("k.js".into(), "keep(foo(1));\nfoo(2);\nkeep(3);\n".into()), ("l.js".into(), "keep(4);\n".into())],
           rules: vec![r1.clone(), r10.clone()], stmt_mode: false },
    // fixes that widen the edit beyond the matched node (expandStart / expandEnd): what is announced is the widened range
    Case { id: "scan-expanded-fix".into(), files: vec![("x.js".into(), "const o = { Drop: 1, Keep: 2, Drop2: 3, Last: 4 };
f([m1, k, m2, \"é\", m3]);
".into()), ("y.js".into(), "g([m9]);
".into())],
           rules: vec![json!({"id": "r11", "language": "JavaScript", "severity": "warning", "message": "m", "rule": {"kind": "pair", "regex": "^Drop"}, "fix": {"template": "", "expandEnd": {"regex": ","}}}),
                       json!({"id": "r12", "language": "JavaScript", "severity": "warning", "message": "m", "rule": {"kind": "identifier", "regex": "^m", "inside": {"kind": "array"}}, "fix": {"template": "", "expandStart": {"regex": "^,$"}}})],
           stmt_mode: false },
    // many files with several documents each (html, script, style - every one with an accepted fix): the walker threads
    // send the documents of different files to the printer interleaved, and every file must still get all its edits
    Case { id: "scan-html-many".into(),
           files: (0..160).map(|i| (format!("w/d{}/p{i}.html", i % 7), format!("<html><body><p><b>hello {i}</b></p>\n<style>\na {{ color: red }}\n</style>\n<script>\nfoo({i});\n</script>\n<b>é {i}</b></body></html>\n"))).collect(),
           rules: vec![r1.clone(), r4.clone(), r5.clone()], stmt_mode: false },
    // documents made by a `languageInjections` entry of the project: css inside styled`..` templates of a JavaScript file,
    // next to fixes of the host document, on several lines and behind multi-byte text
    Case { id: "scan-custom-injection".into(),
           files: vec![("s.js".into(), "foo(1);\nconst a = styled`\n  a { color: red }\n  b { color: red; margin: 0 }\n`;\nconst é = styled`c { color: red }`; foo(\"é\");\nconst e = styled``;\n".into()),
                       ("t.js".into(), "const n = styled`x { color: red; ${ styled`y { color: red }` } }`;\nfoo(2);\n".into())],
           rules: vec![r1.clone(), r4.clone(),
                       json!({"sgconfig": {"languageInjections": [{"hostLanguage": "js", "rule": {"pattern": "styled`$CONTENT`"}, "injected": "css"}]}})],
           stmt_mode: false },
    // two fixable rules on the very same nodes, the second one silenced by name on one line: the first one's fix is
    // applied there, the suppression comment is in use (and stays), and where both apply one fix wins
    Case { id: "scan-two-fixes-one-node".into(),
           files: vec![("z.js".into(), "foo(1); // ast-grep-ignore: zz-second\nfoo(2);\n// ast-grep-ignore: zz-second\nfoo(3);\nfoo(4); // ast-grep-ignore: aa-first\n".into())],
           rules: vec![json!({"id": "aa-first", "language": "JavaScript", "severity": "warning", "message": "m", "rule": {"pattern": "foo($A)"}, "fix": "bar($A)"}),
                       json!({"id": "zz-second", "language": "JavaScript", "severity": "warning", "message": "m", "rule": {"pattern": "foo($A)"}, "fix": "baz($A)"})],
           stmt_mode: false },
    // a file whose name is not valid UTF-8: announced under its name with a replacement character, rewritten in place
    Case { id: "scan-odd-file-name".into(), files: vec![("o/caf\u{fffd}.js".into(), "foo(1);\nfoo(\"é\");\n".into()), ("o/plain.js".into(), "foo(2);\n".into())],
           rules: vec![r1.clone()], stmt_mode: false },
    Case { id: "scan-no-match".into(), files: vec![("n.js".into(), "keep();\n".into())], rules: vec![r1], stmt_mode: false },
  ]
}

/// a path holding U+FFFD stands for a file whose NAME has the byte 0xE9 there (not valid UTF-8); the reports show the
/// replacement character, the file on disk keeps its name
fn os_path(p: &Project, path: &str) -> std::path::PathBuf {
  use std::os::unix::ffi::OsStrExt;
  let raw: Vec<u8> = path.replace('\u{fffd}', "\u{1}").bytes().map(|b| if b == 1 { 0xE9 } else { b }).collect();
  std::path::Path::new(&p.root).join(std::ffi::OsStr::from_bytes(&raw))
}
fn snapshot(p: &Project, files: &[(String, String)]) -> Vec<Vec<u8>> {
  files.iter().map(|(path, _)| std::fs::read(os_path(p, path)).unwrap_or_default()).collect()
}

fn announced(stdout: &str) -> Vec<Value> {
  json_lines(stdout)
    .iter()
    .filter(|v| v.get("replacementOffsets").is_some())
    .map(|v| json!({"path": v["file"].as_str().unwrap_or("").trim_start_matches("./"), "lang": v["language"],
      "pos": v["replacementOffsets"]["start"], "del": v["replacementOffsets"]["end"].as_u64().unwrap_or(0) - v["replacementOffsets"]["start"].as_u64().unwrap_or(0),
      "ins": bytes(v["replacement"].as_str().unwrap_or("").as_bytes())}))
    .collect()
}

fn run_case(c: &Case, scratch: &str, idx: usize) -> Vec<Value> {
  let p = Project::new(&format!("{scratch}/p{idx}"));
  for (path, content) in &c.files {
    let full = os_path(&p, path);
    std::fs::create_dir_all(full.parent().unwrap()).unwrap();
    std::fs::write(full, content.as_bytes()).unwrap();
  }
  let base: Vec<String> = if c.rules.is_empty() {
    if c.stmt_mode {
      vec!["run".into(), "-p".into(), "foo($A);".into(), "-r".into(), "bar($A);".into()]
    } else {
      vec!["run".into(), "-p".into(), "foo($A)".into(), "-r".into(), "bar($A)".into()]
    }
  } else {
    // an entry {"sgconfig": {..}} among the rules stands for extra keys of sgconfig.yml (languageInjections, ...)
    p.config(c.rules.iter().find_map(|r| r.get("sgconfig")));
    for r in c.rules.iter().filter(|r| r.get("sgconfig").is_none()) {
      p.rule(&format!("{}.yml", r["id"].as_str().unwrap()), r);
    }
    vec!["scan".into()]
  };
  let mut recs = vec![];
  for round in 0..2 {
    let before = snapshot(&p, &c.files);
    let mut a1: Vec<&str> = base.iter().map(|s| s.as_str()).collect();
    a1.push("--json=stream");
    let js = run_sgv(&a1, &p.root, None, 30, &[]);
    let trace = format!("{scratch}/trace{idx}_{round}.ndjson");
    let _ = std::fs::remove_file(&trace);
    let mut a2: Vec<&str> = base.iter().map(|s| s.as_str()).collect();
    a2.push("-U");
    let up = run_sgv(&a2, &p.root, None, 30, &[("AST_GREP_VERIF_TRACE", trace.as_str())]);
    let writes: Vec<Value> = if std::path::Path::new(&trace).exists() { util::read_ndjson(&trace).into_iter().filter(|e| e["ev"] == "write").collect() } else { vec![] };
    let _ = std::fs::remove_file(&trace);
    let after = snapshot(&p, &c.files);
    let applied = up.stdout.lines().find_map(|l| l.strip_prefix("Applied ").and_then(|r| r.split(' ').next()).and_then(|n| n.parse::<usize>().ok())).unwrap_or(0);
    let files: Vec<Value> = c.files.iter().enumerate().map(|(k, (path, _))| json!({"path": path, "before": bytes(&before[k]), "after": bytes(&after[k])})).collect();
    recs.push(json!({"id": format!("{}#round{}", c.id, round + 1), "cmd": a2, "files": files, "announced": announced(&js.stdout),
      "applied": applied, "codes": [js.code, up.code], "writes": writes,
      "text": c.files.last().map(|f| f.1.chars().take(300).collect::<String>())}));
  }
  p.remove();
  recs
}

pub fn drive(vectors: Option<&str>, seed: u64, out: &str, thorough: bool) {
  let mut rng = Rng::new(seed ^ 0xC18);
  let mut cases = fixed_cases();
  if let Some(v) = vectors {
    cases.extend(cases_from_vectors(v, thorough, &mut rng));
  }
  let scratch = format!("/var/tmp/agv-c18-{}", std::process::id());
  let recs = cli::par_map(&cases, 12, |i, c| run_case(c, &scratch, i));
  let _ = std::fs::remove_dir_all(&scratch);
  let mut w = NdWriter::new(out);
  for rs in recs {
    for r in rs {
      w.put(&r);
    }
  }
  let n = w.finish();
  util::summary(json!({"records": n, "projects": cases.len()}));
}
