//! recorder for StringCase.tla: every string exported by MC_StringCase, rendered with concrete characters, goes
//! through the real `convert` transformation (snakeCase) of a loaded rule; result or panic is recorded
use crate::util::{self, NdWriter};
use ast_grep_config::{from_yaml_string, GlobalRules, RuleConfig};
use ast_grep_core::Language;
use ast_grep_language::SupportLang;
use serde_json::{json, Value};
use std::panic::{catch_unwind, AssertUnwindSafe};

fn concrete(c: &Value) -> (&'static str, &'static str) {
  // (character, its lower-case form)
  match (c["cls"].as_str().unwrap(), c["w"].as_u64().unwrap()) {
    ("lo", 1) => ("a", "a"),
    ("lo", _) => ("é", "é"),
    ("up", 1) => ("B", "b"),
    ("up", _) => ("É", "é"),
    ("ot", 1) => ("1", "1"),
    ("ot", _) => ("🦀", "🦀"),
    _ => ("_", "_"),
  }
}

fn rule(seps: &str) -> RuleConfig<SupportLang> {
  let yaml = format!(
    "id: t\nlanguage: JavaScript\nrule: {{pattern: $A, kind: string_fragment}}\ntransform:\n  X: {{convert: {{source: $A, toCase: snakeCase{seps}}}}}\n"
  );
  from_yaml_string::<SupportLang>(&yaml, &GlobalRules::default()).expect("convert rule loads").remove(0)
}

pub fn drive(vectors: &str, out: &str) {
  std::panic::set_hook(Box::new(|_| {}));
  let with_case = rule(", separatedBy: [caseChange, underscore]");
  let without = rule(", separatedBy: [underscore]");
  let dflt = rule("");
  let mut w = NdWriter::new(out);
  let mut n_panic = 0;
  for (i, v) in util::read_ndjson(vectors).iter().enumerate() {
    let chars: Vec<(&str, &str)> = v["s"].as_array().unwrap().iter().map(concrete).collect();
    let text: String = chars.iter().map(|c| c.0).collect();
    let lower: Vec<&str> = chars.iter().map(|c| c.1).collect();
    let cc = v["cc"] == true;
    let src = format!("x = '{text}'");
    let mut cfgs = vec![(if cc { &with_case } else { &without }, "explicit")];
    if cc {
      cfgs.push((&dflt, "default")); // no separatedBy = every separator, case changes included
    }
    for (cfg, how) in cfgs {
      let r = catch_unwind(AssertUnwindSafe(|| {
        let g = SupportLang::JavaScript.ast_grep(&src);
        let nm = g.root().find(&cfg.matcher)?;
        nm.get_env().get_transformed("X").map(|b| String::from_utf8_lossy(b).to_string())
      }));
      let (panic, real) = match r {
        Ok(Some(s)) => (false, s),
        Ok(None) => (false, "<unmatched>".to_string()),
        Err(_) => {
          n_panic += 1;
          (true, String::new())
        }
      };
      w.put(&json!({"id": format!("sc{i}-{how}"), "s": v["s"], "cc": cc, "text": text, "lower": lower,
                    "real": real.chars().map(|c| c.to_string()).collect::<Vec<_>>(), "panic": panic}));
    }
  }
  let n = w.finish();
  util::summary(json!({"records": n, "panics": n_panic}));
}
