use ast_grep_language::SupportLang;
use serde_json::Value;
use std::io::{BufRead, Write};
use std::str::FromStr;

pub fn lang(name: &str) -> SupportLang {
  SupportLang::from_str(name).unwrap_or_else(|_| panic!("unknown language {name}"))
}

pub fn lang_name(l: SupportLang) -> String {
  format!("{l}")
}

/// corpus directory name for a language
pub fn corpus_dir(l: SupportLang) -> String {
  lang_name(l).to_lowercase()
}

pub fn read_ndjson(path: &str) -> Vec<Value> {
  let f = std::fs::File::open(path).unwrap_or_else(|e| panic!("open {path}: {e}"));
  std::io::BufReader::new(f)
    .lines()
    .map(|l| l.unwrap())
    .filter(|l| !l.trim().is_empty())
    .map(|l| serde_json::from_str(&l).unwrap_or_else(|e| panic!("bad json line {l}: {e}")))
    .collect()
}

pub struct NdWriter {
  w: std::io::BufWriter<std::fs::File>,
  pub n: usize,
}
impl NdWriter {
  pub fn new(path: &str) -> Self {
    let f = std::fs::File::create(path).unwrap_or_else(|e| panic!("create {path}: {e}"));
    Self { w: std::io::BufWriter::new(f), n: 0 }
  }
  pub fn put(&mut self, v: &Value) {
    serde_json::to_writer(&mut self.w, v).unwrap();
    self.w.write_all(b"\n").unwrap();
    self.n += 1;
  }
  pub fn finish(mut self) -> usize {
    self.w.flush().unwrap();
    self.n
  }
}

/// tiny deterministic rng (xorshift*) so that runs are reproducible from VERIF_SEED
#[derive(Clone)]
pub struct Rng(pub u64);
impl Rng {
  pub fn new(seed: u64) -> Self {
    Rng(seed.wrapping_mul(0x9E3779B97F4A7C15) ^ 0xD1B54A32D192ED03)
  }
  pub fn next(&mut self) -> u64 {
    let mut x = self.0;
    x ^= x >> 12;
    x ^= x << 25;
    x ^= x >> 27;
    self.0 = x;
    x.wrapping_mul(0x2545F4914F6CDD1D)
  }
  pub fn below(&mut self, n: usize) -> usize {
    if n == 0 { 0 } else { (self.next() % n as u64) as usize }
  }
  pub fn chance(&mut self, num: usize, den: usize) -> bool {
    self.below(den) < num
  }
  pub fn pick<'a, T>(&mut self, v: &'a [T]) -> &'a T {
    &v[self.below(v.len())]
  }
}

/// all corpus files: (language, path, text)
pub fn corpus(root: &str) -> Vec<(SupportLang, String, String)> {
  let mut out = vec![];
  for &l in SupportLang::all_langs() {
    let dir = format!("{root}/{}", corpus_dir(l));
    let Ok(rd) = std::fs::read_dir(&dir) else { continue };
    let mut files: Vec<_> = rd.filter_map(|e| e.ok()).map(|e| e.path()).collect();
    files.sort();
    for p in files {
      if let Ok(s) = std::fs::read_to_string(&p) {
        out.push((l, p.to_string_lossy().to_string(), s));
      }
    }
  }
  out
}

pub fn summary(v: Value) {
  println!("SUMMARY {}", v);
}
