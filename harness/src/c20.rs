//! C20 recorder: meta-variable spellings in all languages, fix-template scanning, An+B, substring.
//! Cases come from TLC (MC_C20 VEC lines); outcomes are judged by spec/trace/Trace_C20.tla.
use crate::util::{self, NdWriter};
use ast_grep_config::{from_yaml_string, GlobalRules};
use ast_grep_core::matcher::PatternNode;
use ast_grep_core::meta_var::MetaVariable;
use ast_grep_core::replacer::{Replacer, TemplateFix};
use ast_grep_core::{Language, Pattern};
use ast_grep_language::SupportLang;
use serde_json::{json, Value};
use std::panic::{catch_unwind, AssertUnwindSafe};

pub fn chars_json(s: &str) -> Value {
  json!(s.chars().map(|c| c.to_string()).collect::<Vec<_>>())
}

pub fn mv_json(m: &Option<MetaVariable>) -> Value {
  match m {
    None => json!({"ty": "none", "name": [], "named": false}),
    Some(MetaVariable::Capture(n, named)) => json!({"ty": "capture", "name": chars_json(n), "named": named}),
    Some(MetaVariable::Dropped(named)) => json!({"ty": "dropped", "name": [], "named": named}),
    Some(MetaVariable::Multiple) => json!({"ty": "multiple", "name": [], "named": false}),
    Some(MetaVariable::MultiCapture(n)) => json!({"ty": "multicap", "name": chars_json(n), "named": false}),
  }
}

fn join(v: &Value) -> String {
  v.as_array().unwrap().iter().map(|c| c.as_str().unwrap()).collect()
}

fn pattern_root(s: &str, lang: SupportLang) -> Value {
  let r = catch_unwind(AssertUnwindSafe(|| Pattern::try_new(s, lang)));
  match r {
    Err(_) => json!({"ty": "panic", "mv": mv_json(&None)}),
    Ok(Err(_)) => json!({"ty": "error", "mv": mv_json(&None)}),
    Ok(Ok(p)) => match &p.node {
      PatternNode::MetaVar { meta_var } => json!({"ty": "metavar", "mv": mv_json(&Some(meta_var.clone()))}),
      PatternNode::Terminal { .. } => json!({"ty": "terminal", "mv": mv_json(&None)}),
      PatternNode::Internal { .. } => json!({"ty": "internal", "mv": mv_json(&None)}),
    },
  }
}

fn record_mv(s: &str) -> Value {
  let mut per_lang = vec![];
  for &l in SupportLang::all_langs() {
    let pre = l.pre_process_pattern(s).to_string();
    let mv = l.extract_meta_var(&pre);
    per_lang.push(json!({
      "lang": util::lang_name(l),
      "e": l.expando_char().to_string(),
      "pre": chars_json(&pre),
      "mv": mv_json(&mv),
      "pat": pattern_root(s, l),
    }));
  }
  // the template scanner uses meta_var_char(), the same in every language; JavaScript hosts the match
  let l = SupportLang::JavaScript;
  let g = l.ast_grep("f(a, b, c)");
  let nm = g.root().find(Pattern::new("f($A, $$$B)", l)).expect("host pattern must match");
  let fix = TemplateFix::try_new(s, &l).unwrap();
  let mut used: Vec<String> = fix.used_vars().into_iter().map(|v| v.to_string()).collect();
  used.sort();
  let out = catch_unwind(AssertUnwindSafe(|| String::from_utf8_lossy(&fix.generate_replacement(&nm)).to_string()));
  json!({
    "k": "mv", "s": chars_json(s), "langs": per_lang,
    "tpl": {
      "used": used.iter().map(|u| chars_json(u)).collect::<Vec<_>>(),
      "panic": out.is_err(),
      "out": chars_json(&out.unwrap_or_default()),
    }
  })
}

fn record_anb(s: &str) -> Value {
  let yaml = format!("id: t\nlanguage: JavaScript\nrule:\n  kind: number\n  nthChild: \"{s}\"\n");
  let globals = GlobalRules::default();
  let src = "[1, 2, 3, 4, 5, 6, 7, 8, 9, 10, 11, 12]";
  let r = catch_unwind(AssertUnwindSafe(|| {
    let cfgs = from_yaml_string::<SupportLang>(&yaml, &globals);
    match cfgs {
      Err(_) => (false, vec![]),
      Ok(c) => {
        let g = SupportLang::JavaScript.ast_grep(src);
        let idx: Vec<usize> = g.root().find_all(&c[0].matcher).map(|m| m.text().parse::<usize>().unwrap()).collect();
        (true, idx)
      }
    }
  }));
  // the same formula with an ofRule that every element - and every comma and bracket between them - satisfies: only
  // the named siblings are counted, so the same indices are selected
  let yaml_of = format!("id: t\nlanguage: JavaScript\nrule:\n  kind: number\n  nthChild:\n    position: \"{s}\"\n    ofRule: {{not: {{kind: string}}}}\n");
  let of = catch_unwind(AssertUnwindSafe(|| {
    let c = from_yaml_string::<SupportLang>(&yaml_of, &globals).ok()?;
    let g = SupportLang::JavaScript.ast_grep(src);
    Some(g.root().find_all(&c[0].matcher).map(|m| m.text().parse::<usize>().unwrap()).collect::<Vec<usize>>())
  }));
  let of_json = match of { Ok(Some(v)) => json!(v), Ok(None) => json!([99]), Err(_) => json!([98]) };
  match r {
    Ok((acc, idx)) => json!({"k": "anb", "s": chars_json(s), "accepted": acc, "matched": idx, "matched_of": of_json, "panic": false}),
    Err(_) => json!({"k": "anb", "s": chars_json(s), "accepted": false, "matched": [], "matched_of": of_json, "panic": true}),
  }
}

fn record_sub(s: &str) -> Value {
  let absent = 99i64;
  let mut bounds: Vec<i64> = (-7..=7).collect();
  bounds.push(absent);
  let src = format!("x = '{s}'");
  let g = SupportLang::JavaScript.ast_grep(&src);
  let globals = GlobalRules::default();
  let mut outs = vec![];
  for &st in &bounds {
    for &en in &bounds {
      let mut t = String::from("source: $A");
      if st != absent {
        t.push_str(&format!(", startChar: {st}"));
      }
      if en != absent {
        t.push_str(&format!(", endChar: {en}"));
      }
      let yaml = format!(
        "id: t\nlanguage: JavaScript\nrule: {{pattern: $A, kind: string_fragment}}\ntransform:\n  X: {{substring: {{{t}}}}}\n"
      );
      let r = catch_unwind(AssertUnwindSafe(|| {
        let c = from_yaml_string::<SupportLang>(&yaml, &globals).expect("substring rule must load");
        let nm = g.root().find(&c[0].matcher).expect("string fragment must match");
        let b = nm.get_env().get_transformed("X").cloned().unwrap_or_default();
        String::from_utf8_lossy(&b).to_string()
      }));
      outs.push(json!({"st": st, "en": en, "panic": r.is_err(), "out": chars_json(&r.unwrap_or_default())}));
    }
  }
  json!({"k": "sub", "s": chars_json(s), "outs": outs})
}

pub fn drive(vectors: &str, out: &str) {
  let mut w = NdWriter::new(out);
  let (mut n_mv, mut n_anb, mut n_sub) = (0, 0, 0);
  // silence panic messages of the code under test; panics are recorded as data
  std::panic::set_hook(Box::new(|_| {}));
  for v in util::read_ndjson(vectors) {
    let s = join(&v["s"]);
    match v["k"].as_str().unwrap() {
      "mv" => {
        w.put(&record_mv(&s));
        n_mv += 1;
      }
      "anb" => {
        w.put(&record_anb(&s));
        n_anb += 1;
      }
      "sub" => {
        w.put(&record_sub(&s));
        n_sub += 1;
      }
      _ => {}
    }
  }
  let n = w.finish();
  util::summary(json!({"records": n, "mv": n_mv, "anb": n_anb, "sub": n_sub,
    "languages": SupportLang::all_langs().iter().map(|l| util::lang_name(*l)).collect::<Vec<_>>()}));
}
