//! Recorder for spec/Project.tla: `sgv scan` started in every directory of a small layout with two projects (one
//! nested in the other), with and without `-c`, with the path argument typed in every way MC_Project enumerates.
//! What is recorded: which rule reported which file.  Judged by spec/trace/Trace_Project.tla.
use crate::cli::{self, json_lines, run_sgv};
use crate::util::{self, NdWriter};
use serde_json::{json, Value};

fn segs(v: &Value) -> Vec<String> {
  v.as_array().map(|a| a.iter().map(|s| s.as_str().unwrap_or("").to_string()).collect()).unwrap_or_default()
}

fn layout(root: &str) {
  let w = |rel: &str, content: &str| {
    let p = format!("{root}/{rel}");
    std::fs::create_dir_all(std::path::Path::new(&p).parent().unwrap()).unwrap();
    std::fs::write(p, content).unwrap();
  };
  w("sgconfig.yml", "ruleDirs: [rules]\n");
  w("rules/r.yml", "id: r\nlanguage: JavaScript\nrule: {pattern: foo($A)}\nfiles: ['src/**']\n");
  w("rules/q.yml", "id: q\nlanguage: JavaScript\nrule: {pattern: foo($A)}\nignores: ['src/deep/**']\n");
  w("rules/s.yml", "id: s\nlanguage: JavaScript\nrule: {pattern: foo($A)}\nfiles: ['**/deep/*.js']\n");
  w("pkg/sgconfig.yml", "ruleDirs: [rules]\n");
  w("pkg/rules/p.yml", "id: p\nlanguage: JavaScript\nrule: {pattern: foo($A)}\nfiles: ['lib/**']\n");
  w("pkg/rules/n.yml", "id: n\nlanguage: JavaScript\nrule: {pattern: foo($A)}\nignores: ['lib/**']\n");
  w("src/a.js", "foo(1)\n");
  w("src/deep/b.js", "foo(2)\n");
  w("other/c.js", "foo(3)\n");
  w("pkg/lib/d.js", "foo(4)\n");
  w("pkg/e.js", "foo(5)\n");
}

/// the relative path a user types to get from directory `from` to `to` (both below the workspace)
fn rel_typed(from: &[String], to: &[String]) -> Vec<String> {
  let common = from.iter().zip(to.iter()).take_while(|(a, b)| a == b).count();
  let mut out: Vec<String> = (0..from.len() - common).map(|_| "..".to_string()).collect();
  out.extend(to[common..].iter().cloned());
  out
}

/// the segments of the reported file below the workspace
fn resolve(root: &str, cwd: &[String], printed: &str) -> Vec<String> {
  let mut cur: Vec<String> = if printed.starts_with('/') {
    vec![]
  } else {
    let mut v: Vec<String> = root.split('/').filter(|s| !s.is_empty()).map(|s| s.to_string()).collect();
    v.extend(cwd.iter().cloned());
    v
  };
  for s in printed.split('/') {
    match s {
      "" | "." => {}
      ".." => { cur.pop(); }
      x => cur.push(x.to_string()),
    }
  }
  let rootsegs: Vec<String> = root.split('/').filter(|s| !s.is_empty()).map(|s| s.to_string()).collect();
  if cur.len() >= rootsegs.len() && cur[..rootsegs.len()] == rootsegs[..] { cur[rootsegs.len()..].to_vec() } else { cur }
}

pub fn drive(vectors: &str, out: &str) {
  let root = format!("/var/tmp/agv-proj-{}", std::process::id());
  let _ = std::fs::remove_dir_all(&root);
  layout(&root);
  let vecs = util::read_ndjson(vectors);
  let recs = cli::par_map(&vecs, 8, |i, v| {
    let cwd = segs(&v["cwd"]);
    let cfg = segs(&v["cfg"]);
    let kind = v["arg"]["kind"].as_str().unwrap_or("none");
    let cwd_path = if cwd.is_empty() { root.clone() } else { format!("{root}/{}", cwd.join("/")) };
    let mut args: Vec<String> = vec!["scan".into(), "--json=stream".into()];
    if cfg.first().map(|s| s == "+").unwrap_or(false) {
      // the configuration file is named relative to the current directory or, every other time, absolutely
      let dir = cfg[1..].to_vec();
      let typed = if i % 2 == 0 {
        let mut t = rel_typed(&cwd, &dir);
        t.push("sgconfig.yml".into());
        t.join("/")
      } else if dir.is_empty() { format!("{root}/sgconfig.yml") } else { format!("{root}/{}/sgconfig.yml", dir.join("/")) };
      args.push("-c".into());
      args.push(typed);
    }
    match kind {
      "rel" => {
        let s = segs(&v["arg"]["segs"]);
        let mut typed = if s.is_empty() { ".".to_string() } else { s.join("/") };
        // `./x` and `x/` are other spellings of `x`
        if !s.is_empty() && i % 3 == 1 && s[0] != ".." { typed = format!("./{typed}"); }
        if !s.is_empty() && i % 3 == 2 { typed.push('/'); }
        args.push(typed);
      }
      "abs" => {
        let t = segs(&v["arg"]["target"]);
        args.push(if t.is_empty() { root.clone() } else { format!("{root}/{}", t.join("/")) });
      }
      _ => {}
    }
    let argv: Vec<&str> = args.iter().map(|s| s.as_str()).collect();
    let o = run_sgv(&argv, &cwd_path, None, 30, &[]);
    let mut report: Vec<Value> = json_lines(&o.stdout).iter().map(|m| json!([resolve(&root, &cwd, m["file"].as_str().unwrap_or("")), m["ruleId"]])).collect();
    report.sort_by_key(|r| r.to_string());
    report.dedup();
    json!({"id": format!("proj{i}"), "cwd": cwd, "cfg": cfg, "arg": v["arg"], "typed": args.clone(), "at_root": v["at_root"],
           "report": report, "exit": o.code, "stderr": o.stderr.chars().take(200).collect::<String>()})
  });
  let _ = std::fs::remove_dir_all(&root);
  let mut w = NdWriter::new(out);
  let mut n_findings = 0;
  for r in &recs {
    n_findings += r["report"].as_array().map(|a| a.len()).unwrap_or(0);
    w.put(r);
  }
  let n = w.finish();
  util::summary(json!({"records": n, "cli_runs": n, "findings": n_findings}));
}
