//! C19 recorder: real navigation / traversal / position outcomes on real trees, as ids of the
//! raw tree-sitter projection.  Judged by spec/trace/Trace_C19.tla.
use crate::proj::{self, N};
use crate::util::{self, NdWriter, Rng};
use ast_grep_core::traversal::{Level, Post, Pre};
use ast_grep_core::{AstGrep, Language, StrDoc};
use ast_grep_language::SupportLang;
use serde_json::{json, Value};

pub type G = AstGrep<StrDoc<SupportLang>>;

/// all nodes in raw tree-sitter preorder, adopted as ast-grep nodes
pub fn all_nodes(g: &G) -> Vec<N<'_>> {
  fn rec<'a>(g: &'a G, n: tree_sitter::Node<'a>, out: &mut Vec<N<'a>>) {
    out.push(g.inner.adopt(n.clone()));
    let mut c = n.walk();
    if c.goto_first_child() {
      loop {
        rec(g, c.node(), out);
        if !c.goto_next_sibling() {
          break;
        }
      }
    }
  }
  let mut out = vec![];
  rec(g, g.root().get_ts_node(), &mut out);
  out
}

/// char classes of a text: 0 = newline, otherwise utf-8 width
pub fn char_widths(s: &str) -> Vec<u8> {
  s.chars().map(|c| if c == '\n' { 0 } else { c.len_utf8() as u8 }).collect()
}

/// render a preorder parent vector as nested JS arrays (leaf = identifier)
pub fn render_shape(par: &[usize]) -> String {
  fn rec(par: &[usize], i: usize, out: &mut String) {
    let kids: Vec<usize> = (0..par.len()).filter(|&j| par[j] == i + 1).collect();
    if kids.is_empty() {
      out.push((b'a' + (i % 26) as u8) as char);
    } else {
      out.push('[');
      for (k, c) in kids.iter().enumerate() {
        if k > 0 {
          out.push_str(", ");
        }
        rec(par, *c, out);
      }
      out.push(']');
    }
  }
  let mut s = String::new();
  rec(par, 0, &mut s);
  s
}

pub fn record_tree(
  id: &str,
  lang: SupportLang,
  file: &str,
  src: &str,
  rng: &mut Rng,
  n_obs: usize,
  max_nodes: usize,
) -> Option<Value> {
  let g = lang.ast_grep(src);
  let root = g.root();
  let p = proj::project(&root, false);
  if p.nodes.len() > max_nodes {
    return None;
  }
  let nodes = all_nodes(&g);
  let table: Vec<Value> = p
    .nodes
    .iter()
    .map(|n| json!({"p": n.p, "ch": n.ch, "s": n.s, "e": n.e, "sl": n.sl, "sc": n.sc, "el": n.el, "ec": n.ec}))
    .collect();
  let small_text = src.chars().count() <= 1500;
  let mut picks: Vec<usize> = vec![0];
  for _ in 0..n_obs {
    picks.push(rng.below(nodes.len()));
  }
  picks.sort();
  picks.dedup();
  let mut obs = vec![];
  for &i in &picks {
    let n = &nodes[i];
    let nid = p.id_of(n);
    let sub = proj::count_nodes(&n.get_ts_node());
    let mut o = json!({
      "n": nid,
      "anc": p.ids(n.ancestors()),
      "next": p.ids(n.next_all()),
      "prev": p.ids(n.prev_all()),
      "kids": p.ids(n.children()),
      "kidpar": n.children().map(|c| c.parent().map(|q| p.id_of(&q)).unwrap_or(0)).collect::<Vec<_>>(),
      "par": n.parent().map(|q| p.id_of(&q)).unwrap_or(0),
      "nx": n.next().map(|q| p.id_of(&q)).unwrap_or(0),
      "pv": n.prev().map(|q| p.id_of(&q)).unwrap_or(0),
      "rng": [n.range().start, n.range().end],
      "pos": [n.start_pos().line(), n.start_pos().column(n), n.end_pos().line(), n.end_pos().column(n)],
      "trav": sub <= 400,
    });
    if sub <= 400 {
      o["pre"] = json!(p.ids(Pre::new(n)));
      o["post"] = json!(p.ids(Post::new(n)));
      o["level"] = json!(p.ids(Level::new(n)));
      o["dfs"] = json!(p.ids(n.dfs()));
    }
    obs.push(o);
  }
  Some(json!({
    "id": id, "lang": util::lang_name(lang), "file": file,
    "T": table,
    "cw": if small_text { char_widths(src) } else { vec![] },
    "hasText": small_text,
    "obs": obs,
  }))
}

pub fn drive(vectors: Option<&str>, corpus: &str, seed: u64, out: &str, thorough: bool) {
  let mut w = NdWriter::new(out);
  let mut rng = Rng::new(seed);
  let mut n_vec = 0;
  let mut langs = std::collections::BTreeSet::new();
  if let Some(v) = vectors {
    for (i, vec) in util::read_ndjson(v).iter().enumerate() {
      let par: Vec<usize> = vec["par"].as_array().unwrap().iter().map(|x| x.as_u64().unwrap() as usize).collect();
      let src = render_shape(&par);
      if let Some(r) = record_tree(&format!("vec{i}"), SupportLang::JavaScript, "<vector>", &src, &mut rng, 6, 5000) {
        let mut r = r;
        r["par"] = json!(par);
        r["src"] = json!(src);
        w.put(&r);
        n_vec += 1;
      }
    }
  }
  let mut n_corpus = 0;
  let n_obs = if thorough { 60 } else { 14 };
  for (l, path, text) in util::corpus(corpus) {
    // the file itself, a version with a syntax error, and a truncated one
    let mut variants = vec![("orig", text.clone())];
    // a very long first line: columns beyond 255
    if path.contains("/a.") {
      // the first lines are joined into one: many nodes start beyond column 255
      let joined: String = text.splitn(14, '\n').collect::<Vec<_>>().join(" ");
      // short enough (<= 1500 characters) for the position clause to be judged on it
      let head: String = joined.chars().take(900).collect();
      variants.push(("longline", format!("{}{}", "  ".repeat(140), head)));
    }
    let chars: Vec<char> = text.chars().collect();
    if chars.len() > 10 {
      let cut = rng.below(chars.len() - 1);
      let mut broken: String = chars[..cut].iter().collect();
      broken.push_str(if rng.chance(1, 2) { "(" } else { "}" });
      broken.extend(chars[cut + 1..].iter());
      variants.push(("err", broken));
      if thorough {
        let cut2 = chars.len() / 2 + rng.below(chars.len() / 2);
        variants.push(("trunc", chars[..cut2].iter().collect()));
      }
    }
    for (tag, src) in variants {
      if let Some(r) = record_tree(&format!("{path}#{tag}"), l, &path, &src, &mut rng, n_obs, 6000) {
        let mut r = r;
        if tag != "orig" {
          r["src"] = json!(src);
        }
        w.put(&r);
        n_corpus += 1;
        langs.insert(util::lang_name(l));
      }
    }
  }
  // error recovery builds zero-width nodes that HAVE children (a statement made of one MISSING token): small texts
  // whose whole tree is traversed from the root.  A fixed list, plus statements of the corpus files truncated after
  // one of their tokens; those whose tree has such a node are kept first.
  let mut n_recovery = 0;
  let fixed: Vec<(SupportLang, &str)> = vec![
    (SupportLang::C, "if (a)"), (SupportLang::Cpp, "if (a)"), (SupportLang::CSharp, "if (a)"), (SupportLang::Bash, "$()"),
    (SupportLang::Css, "{}"), (SupportLang::C, "int f() { if (a) }"), (SupportLang::Java, "class A { void f() { if (a) } }"),
    (SupportLang::JavaScript, "if (a)"), (SupportLang::Go, "func f() { if a }"), (SupportLang::Rust, "fn f() { let x = ; }"),
    // ANONYMOUS nodes that have children (a token sequence aliased to a string by the grammar)
    (SupportLang::Python, "if a not in b:\n    pass\nx = a is not b\n"), (SupportLang::Swift, "var x: Int? = nil\nlet y: [String?]? = nil\n"),
  ];
  for (i, (l, src)) in fixed.iter().enumerate() {
    if let Some(mut r) = record_tree(&format!("recovery{i}"), *l, "<recovery>", src, &mut rng, 40, 2000) {
      r["src"] = json!(src);
      w.put(&r);
      n_recovery += 1;
    }
  }
  // ... and every such node of the corpus: the statement around it
  let mut n_anon = 0;
  for (l, path, text) in util::corpus(corpus) {
    let g = l.ast_grep(&text);
    let mut seen = 0;
    for n in all_nodes(&g) {
      if n.is_named() || n.children().count() == 0 || seen >= 2 {
        continue;
      }
      let Some(par) = n.parent() else { continue };
      let host = par.parent().unwrap_or(par);
      if proj::count_nodes(&host.get_ts_node()) > 80 {
        continue;
      }
      let src = host.text().to_string();
      if let Some(mut r) = record_tree(&format!("anon-{path}-{seen}"), l, "<anonymous-with-children>", &src, &mut rng, 40, 2000) {
        r["src"] = json!(src);
        w.put(&r);
        n_anon += 1;
        seen += 1;
      }
    }
  }
  fn has_hollow(n: &tree_sitter::Node) -> bool {
    (n.start_byte() == n.end_byte() && n.child_count() > 0) || (0..n.child_count()).any(|i| n.child(i).map(|c| has_hollow(&c)).unwrap_or(false))
  }
  for (l, path, text) in util::corpus(corpus) {
    if !thorough && !path.contains("/a.") {
      continue;
    }
    let g = l.ast_grep(&text);
    let sites: Vec<N> = all_nodes(&g).into_iter().filter(|n| n.is_named() && n.parent().is_some() && {
      let c = proj::count_nodes(&n.get_ts_node());
      (4..=60).contains(&c)
    }).collect();
    if sites.is_empty() {
      continue;
    }
    let mut hollow: Vec<String> = vec![];
    let mut other: Vec<String> = vec![];
    for _ in 0..(if thorough { 40 } else { 12 }) {
      let site = rng.pick(&sites).clone();
      let base = site.range().start;
      let toks: Vec<usize> = site.dfs().filter(|n| n.is_leaf() && !n.range().is_empty()).map(|n| n.range().end - base).collect();
      if toks.len() < 2 {
        continue;
      }
      let cut = toks[rng.below(toks.len() - 1)];
      let t = site.text();
      if !t.is_char_boundary(cut) {
        continue;
      }
      let src = t[..cut].to_string();
      let g2 = l.ast_grep(&src);
      let root = g2.root().get_ts_node();
      if has_hollow(&root) {
        hollow.push(src);
      } else if root.has_error() {
        other.push(src);
      }
    }
    hollow.dedup();
    for (k, src) in hollow.iter().take(3).chain(other.iter().take(1)).enumerate() {
      if let Some(mut r) = record_tree(&format!("{path}#trunc{k}"), l, &path, src, &mut rng, 40, 2000) {
        r["src"] = json!(src);
        w.put(&r);
        n_recovery += 1;
      }
    }
  }
  let n = w.finish();
  util::summary(json!({"records": n, "from_vectors": n_vec, "from_corpus": n_corpus, "error_recovery_texts": n_recovery, "anonymous_nodes_with_children_texts": n_anon, "languages": langs}));
}
