//! C08 recorder: one rule with a fix and one text; the edit every front end proposes.
//!
//!   json      `sg scan --json=stream`: replacementOffsets + replacement of every finding
//!   updated   the file after `sg scan --update-all`
//!   snapshot  `fixed` of the snapshot `sg test --update-all` writes for the text (invalid case)
//!   lib_*     the library: NodeMatch::make_edit, Node::replace (first match), Node::replace_all,
//!             with the fixer passed by reference as the CLI and the test runner do
//!   lsp_*     the language server: quick-fix code actions, the source.fixAll action, and the
//!             workspace/applyEdit request sent for the ast-grep.applyAllFixes command
//! next to the ingredients FixEdit.tla needs to say what the edit must be: the matched node's range, the
//! matcher's match length, the neighbouring siblings and whether the expansion rules match them, and the
//! replacement text the fixer generates.  Judged by spec/trace/Trace_C08.tla.
use crate::c09::{yaml_of, LangSpec, LANGS};
use crate::cli::{self, json_lines, run_sgv};
use crate::lsp::Session;
use crate::project::Project;
use crate::util::{self, NdWriter, Rng};
use ast_grep_config::{from_yaml_string, DeserializeEnv, GlobalRules, RuleConfig, SerializableRule};
use ast_grep_core::{Language, Matcher, Node, StrDoc};
use ast_grep_language::SupportLang;
use serde_json::{json, Value};
use std::borrow::Cow;

fn bytes(s: &[u8]) -> Value {
  json!(s.iter().map(|b| *b as u32).collect::<Vec<_>>())
}

/// rule families; `exp` describes the expansions the same way the rule document does
#[derive(Clone)]
struct Family {
  name: &'static str,
  rule: Value, // rule + fix (id and language are added)
  exp_start: Option<(Value, &'static str)>,
  exp_end: Option<(Value, &'static str)>,
}

fn families() -> Vec<Family> {
  vec![
    Family { name: "str-call", rule: json!({"rule": {"pattern": "foo($A)"}, "fix": "bar($A)"}), exp_start: None, exp_end: None },
    Family { name: "str-multi", rule: json!({"rule": {"pattern": "foo($$$ARGS)"}, "fix": "bar($$$ARGS, 0)"}), exp_start: None, exp_end: None },
    // the pattern has no trailing `;`: the matched node does, the edit must leave it alone
    Family { name: "trim-stmt", rule: json!({"rule": {"pattern": "let $X = $Y"}, "fix": "const $X = $Y"}), exp_start: None, exp_end: None },
    Family { name: "trim-empty", rule: json!({"rule": {"pattern": "let $X = $Y"}, "fix": ""}), exp_start: None, exp_end: None },
    Family { name: "obj-plain", rule: json!({"rule": {"pattern": "foo($A)"}, "fix": {"template": "baz($A)"}}), exp_start: None, exp_end: None },
    Family { name: "exp-end-comma", rule: json!({"rule": {"kind": "number", "regex": "^7$"}, "fix": {"template": "", "expandEnd": {"regex": "^,$"}}}),
             exp_start: None, exp_end: Some((json!({"regex": "^,$"}), "neighbor")) },
    Family { name: "exp-start-comma", rule: json!({"rule": {"kind": "number", "regex": "^7$"}, "fix": {"template": "", "expandStart": {"regex": "^,$"}}}),
             exp_start: Some((json!({"regex": "^,$"}), "neighbor")), exp_end: None },
    Family { name: "exp-both", rule: json!({"rule": {"kind": "number", "regex": "^7$"}, "fix": {"template": "8", "expandStart": {"regex": "^,$"}, "expandEnd": {"regex": "^,$"}}}),
             exp_start: Some((json!({"regex": "^,$"}), "neighbor")), exp_end: Some((json!({"regex": "^,$"}), "neighbor")) },
    Family { name: "exp-end-far", rule: json!({"rule": {"kind": "number", "regex": "^7$"}, "fix": {"template": "9", "expandEnd": {"kind": "number", "stopBy": "end"}}}),
             exp_start: None, exp_end: Some((json!({"kind": "number"}), "end")) },
    // expansions that reach a sibling on another line
    Family { name: "exp-start-comment-line", rule: json!({"rule": {"kind": "expression_statement", "regex": "^foo"}, "fix": {"template": "", "expandStart": {"kind": "comment"}}}),
             exp_start: Some((json!({"kind": "comment"}), "neighbor")), exp_end: None },
    Family { name: "exp-end-comment-far", rule: json!({"rule": {"kind": "expression_statement", "regex": "^foo"}, "fix": {"template": "gone();", "expandEnd": {"kind": "comment", "stopBy": "end"}}}),
             exp_start: None, exp_end: Some((json!({"kind": "comment"}), "end")) },
    // the template reproduces the matched text and only the expansion changes the file (a trailing comma is removed): an
    // edit like any other in every front end
    Family { name: "exp-identity", rule: json!({"rule": {"kind": "number", "regex": "^7$"}, "fix": {"template": "7", "expandEnd": {"regex": "^,$"}}}),
             exp_start: None, exp_end: Some((json!({"regex": "^,$"}), "neighbor")) },
    Family { name: "exp-trim", rule: json!({"rule": {"pattern": "let $X = $Y"}, "fix": {"template": "var $X = $Y", "expandEnd": {"kind": "comment"}}}),
             exp_start: None, exp_end: Some((json!({"kind": "comment"}), "neighbor")) },
  ]
}

fn make_text(ls: &LangSpec, rng: &mut Rng) -> String {
  let s = ls.semi;
  let pool: Vec<String> = vec![
    format!("foo(1){s}"),
    format!("foo(a, \"é中\"){s}"),
    format!("foo(foo(2)){s}"),
    format!("x = [7, 1, 7]{s}"),
    format!("x = [1, 7]{s}"),
    format!("x = [7]{s}"),
    format!("y = [7, 7, 2, 7]{s}"),
    // widened fixes that intersect in a chain: the first with the second, the second with the third, not the first with the third
    format!("w = [7, 7, 7]{s}"),
    format!("v = [7, 7, 7, 7, 1]{s}"),
    format!("g(7, k){s}"),
    "let a = 1;".to_string(),
    "let b = foo(3); // note".to_string(),
    "let c = 7".to_string(),
    format!("other(0){s}"),
    format!("// lead é\nfoo(8){s}"),
    format!("/* block\n   comment */\nfoo(9){s}\n// tail"),
    format!("z = \"😀\" + foo(4){s}"),
    format!("if (t) {{\n  foo(\n    5,\n    6\n  ){s}\n}}"),
  ];
  let n = 1 + rng.below(5);
  let mut body = String::new();
  for _ in 0..n {
    let piece: &String = rng.pick(&pool[..]);
    body.push_str(piece);
    body.push('\n');
  }
  // some texts start with blank lines: the tree's root node then starts after them, the document does not
  let lead = if rng.chance(1, 4) { "\n\n" } else { "" };
  let t = format!("{lead}{}{}{}", ls.pre, body, ls.post);
  if rng.chance(1, 5) { t.replace('\n', "\r\n") } else { t }
}

/// (line, character in UTF-16 units) -> byte offset
pub fn offset_of16(text: &str, line: u64, character: u64) -> usize {
  let mut off = 0usize;
  for (i, l) in text.split_inclusive('\n').enumerate() {
    if i as u64 == line {
      let mut units = 0u64;
      for (bi, ch) in l.char_indices() {
        if units >= character {
          return off + bi;
        }
        units += ch.len_utf16() as u64;
      }
      return off + l.len();
    }
    off += l.len();
  }
  off
}

fn lsp_edits(text: &str, edits: &Value) -> Value {
  json!(edits
    .as_array()
    .cloned()
    .unwrap_or_default()
    .iter()
    .map(|e| {
      let r = &e["range"];
      let s = offset_of16(text, r["start"]["line"].as_u64().unwrap_or(0), r["start"]["character"].as_u64().unwrap_or(0));
      let en = offset_of16(text, r["end"]["line"].as_u64().unwrap_or(0), r["end"]["character"].as_u64().unwrap_or(0));
      json!({"pos": s, "del": en.saturating_sub(s), "ins": bytes(e["newText"].as_str().unwrap_or("").as_bytes())})
    })
    .collect::<Vec<_>>())
}

fn sib(n: &Node<StrDoc<SupportLang>>, rule: &Option<ast_grep_config::Rule<SupportLang>>, env: &ast_grep_core::meta_var::MetaVarEnv<StrDoc<SupportLang>>) -> Value {
  let hit = match rule {
    Some(r) => {
      let mut e = Cow::Borrowed(env);
      r.match_node_with_env(n.clone(), &mut e).is_some()
    }
    None => false,
  };
  let r = n.range();
  json!({"s": r.start, "e": r.end, "hit": hit})
}

struct Case {
  id: String,
  li: usize,
  fam: Family,
  text: String,
  model_edits: Value, // edits predicted by MC_C08 for this case ([] of [pos, del]) or null
}

fn exp_of(kind: &str) -> Option<(Value, &'static str)> {
  match kind {
    "comma-neighbor" => Some((json!({"regex": "^,$"}), "neighbor")),
    "comma-end" => Some((json!({"regex": "^,$"}), "end")),
    "number-neighbor" => Some((json!({"kind": "number"}), "neighbor")),
    "number-end" => Some((json!({"kind": "number"}), "end")),
    _ => None,
  }
}

fn family_of_vector(v: &Value) -> Family {
  let (es, ee) = (exp_of(v["expS"].as_str().unwrap()), exp_of(v["expE"].as_str().unwrap()));
  let mut fix = json!({"template": v["tpl"]});
  let rel = |e: &(Value, &'static str)| {
    let mut r = e.0.clone();
    r["stopBy"] = json!(e.1);
    r
  };
  if let Some(e) = &es {
    fix["expandStart"] = rel(e);
  }
  if let Some(e) = &ee {
    fix["expandEnd"] = rel(e);
  }
  Family { name: "model", rule: json!({"rule": {"kind": "number", "regex": "^7$"}, "fix": fix}), exp_start: es, exp_end: ee }
}

fn record(case: &Case, scratch: &str) -> Value {
  let ls = &LANGS[case.li];
  let lang = util::lang(ls.lang);
  let fam = &case.fam;
  let mut doc = fam.rule.clone();
  doc["id"] = json!("fixme");
  doc["language"] = json!(ls.lang);
  doc["message"] = json!("fix me");
  doc["severity"] = json!("warning");
  let docs = vec![doc.clone()];
  let globals = GlobalRules::default();
  let cfgs: Vec<RuleConfig<SupportLang>> = match from_yaml_string(&yaml_of(&docs), &globals) {
    Ok(c) => c,
    Err(e) => return json!({"id": case.id, "skip": format!("rule rejected: {e:?}")}),
  };
  let c = &cfgs[0];
  let fixer = c.matcher.fixer.as_ref().expect("fixer");
  let text = &case.text;
  let grep = lang.ast_grep(text);
  let env = DeserializeEnv::new(lang);
  let mk = |r: &Option<(Value, &'static str)>| -> Option<ast_grep_config::Rule<SupportLang>> {
    let (v, _) = r.as_ref()?;
    let sr: SerializableRule = serde_json::from_value(v.clone()).ok()?;
    env.deserialize_rule(sr).ok()
  };
  let (rs, re) = (mk(&fam.exp_start), mk(&fam.exp_end));
  // ---- ingredients and library edits
  let mut matches = vec![];
  let mut lib_make_edit = vec![];
  for m in grep.root().find_all(&c.matcher) {
    let node = m.get_node().clone();
    let r = node.range();
    let mlen = c.matcher.get_match_len(node.clone()).map(|n| n as i64).unwrap_or(-1);
    let before: Vec<Value> = node.prev_all().map(|n| sib(&n, &rs, m.get_env())).collect();
    let after: Vec<Value> = node.next_all().map(|n| sib(&n, &re, m.get_env())).collect();
    let ins = ast_grep_core::replacer::Replacer::generate_replacement(fixer, &m);
    matches.push(json!({"s": r.start, "e": r.end, "mlen": mlen, "before": before, "after": after, "ins": bytes(&ins)}));
    let e = m.make_edit(&c.matcher, fixer);
    lib_make_edit.push(json!({"pos": e.position, "del": e.deleted_length, "ins": bytes(&e.inserted_text)}));
  }
  let lib_replace = match grep.root().replace(&c.matcher, fixer) {
    Some(e) => json!([{"pos": e.position, "del": e.deleted_length, "ins": bytes(&e.inserted_text)}]),
    None => json!([]),
  };
  let lib_replace_all: Vec<Value> =
    grep.root().replace_all(&c.matcher, fixer).into_iter().map(|e| json!({"pos": e.position, "del": e.deleted_length, "ins": bytes(&e.inserted_text)})).collect();
  // ---- CLI
  let p = Project::new(&format!("{scratch}/{}", case.id));
  p.config(Some(&json!({"testConfigs": [{"testDir": "tests"}]})));
  p.write("rules/all.yml", yaml_of(&docs).as_bytes());
  let rel = format!("src/t.{}", ls.ext);
  p.write(&rel, text.as_bytes());
  p.write("tests/fixme-test.yml", serde_json::to_string(&json!({"id": "fixme", "invalid": [text]})).unwrap().as_bytes());
  let mut exits = serde_json::Map::new();
  let o = run_sgv(&["scan", "--json=stream", &rel], &p.root, None, 30, &[]);
  exits.insert("json".into(), json!(o.code));
  let json_edits: Vec<Value> = json_lines(&o.stdout)
    .iter()
    .filter(|v| v.get("replacement").map(|r| !r.is_null()).unwrap_or(false))
    .map(|v| {
      let s = v["replacementOffsets"]["start"].as_u64().unwrap_or(0);
      let e = v["replacementOffsets"]["end"].as_u64().unwrap_or(0);
      json!({"pos": s, "del": e.saturating_sub(s), "ins": bytes(v["replacement"].as_str().unwrap_or("").as_bytes())})
    })
    .collect();
  let o = run_sgv(&["test", "--update-all"], &p.root, None, 30, &[]);
  exits.insert("test".into(), json!(o.code));
  let snap_raw = String::from_utf8_lossy(&p.read("tests/__snapshots__/fixme-snapshot.yml")).to_string();
  let mut snapshot = json!({"present": false, "fixed": []});
  if let Ok(y) = serde_yaml::from_str::<serde_yaml::Value>(&snap_raw) {
    if let Some(map) = y.get("snapshots").and_then(|s| s.as_mapping()) {
      for (k, v) in map {
        if k.as_str() == Some(text.as_str()) {
          if let Some(f) = v.get("fixed").and_then(|f| f.as_str()) {
            snapshot = json!({"present": true, "fixed": bytes(f.as_bytes())});
          }
        }
      }
    }
  }
  let o = run_sgv(&["scan", "--update-all", &rel], &p.root, None, 30, &[]);
  exits.insert("update".into(), json!(o.code));
  let updated = p.read(&rel);
  p.remove();
  // ---- language server
  let lsp_root = format!("{scratch}/lsp-{}", case.id);
  let sess = Session::start(&yaml_of(&docs), &lsp_root, 0, 2);
  let lrel = format!("t.{}", ls.ext);
  sess.open(&lrel, ls.lang, 1, text);
  sess.wait_handlers(&lrel, 1, 10000);
  let diags: Vec<Value> = sess.published(&lrel).last().map(|(_, _, d)| d.clone()).unwrap_or_default();
  let uri = sess.uri(&lrel);
  let whole = json!({"start": {"line": 0, "character": 0}, "end": {"line": 100000, "character": 0}});
  let qa = sess.request("textDocument/codeAction", json!({"textDocument": {"uri": uri}, "range": whole, "context": {"diagnostics": diags, "only": ["quickfix"]}}), 5000);
  let mut quick = vec![];
  if let Some(Value::Array(actions)) = qa.as_ref().map(|r| r["result"].clone()) {
    for a in actions {
      if let Some(ed) = a["edit"]["changes"].get(&uri) {
        for e in lsp_edits(text, ed).as_array().unwrap() {
          quick.push(e.clone());
        }
      }
    }
  }
  let fa = sess.request("textDocument/codeAction", json!({"textDocument": {"uri": uri}, "range": whole, "context": {"diagnostics": diags, "only": ["source.fixAll"]}}), 5000);
  let mut fixall = json!([]);
  if let Some(Value::Array(actions)) = fa.as_ref().map(|r| r["result"].clone()) {
    if let Some(a) = actions.first() {
      if let Some(ed) = a["edit"]["changes"].get(&uri) {
        fixall = lsp_edits(text, ed);
      }
    }
  }
  let before_n = sess.events().len();
  let _ = sess.request("workspace/executeCommand", json!({"command": "ast-grep.applyAllFixes", "arguments": [{"uri": uri, "languageId": ls.lang, "version": 1, "text": text}]}), 5000);
  sess.wait_quiescent(25, 3000);
  let mut apply = json!([]);
  for e in sess.events().iter().skip(before_n) {
    if e["dir"] == "in" && e["msg"]["method"] == "workspace/applyEdit" {
      if let Some(ed) = e["msg"]["params"]["edit"]["changes"].get(&uri) {
        apply = lsp_edits(text, ed);
      }
    }
  }
  sess.shutdown();
  json!({"id": case.id, "kind": "scan", "model_edits": case.model_edits, "lang": ls.lang, "family": fam.name, "text": text, "bytes": bytes(text.as_bytes()),
         "exp": {"hasS": fam.exp_start.is_some(), "hasE": fam.exp_end.is_some(),
                 "stopS": fam.exp_start.as_ref().map(|x| x.1).unwrap_or("neighbor"), "stopE": fam.exp_end.as_ref().map(|x| x.1).unwrap_or("neighbor")},
         "matches": matches, "ndiag": diags.len(),
         "fe": {"json": json_edits, "updated": bytes(&updated), "snapshot": snapshot, "lib_make_edit": lib_make_edit, "lib_replace": lib_replace,
                "lib_replace_all": lib_replace_all, "lsp_quickfix": quick, "lsp_fixall": fixall, "lsp_apply": apply},
         "exits": exits})
}

/// `sg run --pattern --rewrite`: the pattern matcher can match less than the node (no trailing `;`)
fn run_record(id: &str, li: usize, pattern: &str, rewrite: &str, text: &str, scratch: &str) -> Value {
  let ls = &LANGS[li];
  let lang = util::lang(ls.lang);
  let pat = match ast_grep_core::Pattern::try_new(pattern, lang) {
    Ok(p) => p,
    Err(e) => return json!({"id": id, "skip": format!("pattern rejected: {e:?}")}),
  };
  let grep = lang.ast_grep(text);
  let mut matches = vec![];
  let mut lib_make_edit = vec![];
  for m in grep.root().find_all(&pat) {
    let node = m.get_node().clone();
    let r = node.range();
    let mlen = pat.get_match_len(node.clone()).map(|n| n as i64).unwrap_or(-1);
    let ins = ast_grep_core::replacer::Replacer::generate_replacement(rewrite, &m);
    matches.push(json!({"s": r.start, "e": r.end, "mlen": mlen, "before": [], "after": [], "ins": bytes(&ins)}));
    let e = m.make_edit(&pat, &rewrite);
    lib_make_edit.push(json!({"pos": e.position, "del": e.deleted_length, "ins": bytes(&e.inserted_text)}));
  }
  let lib_replace = match grep.root().replace(&pat, rewrite) {
    Some(e) => json!([{"pos": e.position, "del": e.deleted_length, "ins": bytes(&e.inserted_text)}]),
    None => json!([]),
  };
  let lib_replace_all: Vec<Value> =
    grep.root().replace_all(&pat, rewrite).into_iter().map(|e| json!({"pos": e.position, "del": e.deleted_length, "ins": bytes(&e.inserted_text)})).collect();
  let p = Project::new(&format!("{scratch}/{id}"));
  let rel = format!("t.{}", ls.ext);
  p.write(&rel, text.as_bytes());
  let pa = format!("--pattern={pattern}");
  let rw = format!("--rewrite={rewrite}");
  let la = format!("--lang={}", ls.ext);
  let o = run_sgv(&["run", &pa, &rw, &la, "--json=stream", &rel], &p.root, None, 30, &[]);
  let json_edits: Vec<Value> = json_lines(&o.stdout)
    .iter()
    .filter(|v| v.get("replacement").map(|r| !r.is_null()).unwrap_or(false))
    .map(|v| {
      let s = v["replacementOffsets"]["start"].as_u64().unwrap_or(0);
      let e = v["replacementOffsets"]["end"].as_u64().unwrap_or(0);
      json!({"pos": s, "del": e.saturating_sub(s), "ins": bytes(v["replacement"].as_str().unwrap_or("").as_bytes())})
    })
    .collect();
  let o2 = run_sgv(&["run", &pa, &rw, &la, "--update-all", &rel], &p.root, None, 30, &[]);
  let updated = p.read(&rel);
  p.remove();
  json!({"id": id, "kind": "run", "model_edits": [], "lang": ls.lang, "family": "run", "text": text, "bytes": bytes(text.as_bytes()),
         "pattern": pattern, "rewrite": rewrite,
         "exp": {"hasS": false, "hasE": false, "stopS": "neighbor", "stopE": "neighbor"}, "matches": matches, "ndiag": matches.len(),
         "fe": {"json": json_edits, "updated": bytes(&updated), "lib_make_edit": lib_make_edit, "lib_replace": lib_replace, "lib_replace_all": lib_replace_all},
         "exits": {"json": o.code, "update": o2.code}})
}

pub fn drive(vectors: &str, seed: u64, out: &str, thorough: bool) {
  let mut w = NdWriter::new(out);
  let mut rng = Rng::new(seed ^ 0xc08);
  let scratch = format!("/var/tmp/agv-c08-{}", std::process::id());
  let _ = std::fs::create_dir_all(&scratch);
  let fams = families();
  let mut cases = vec![];
  // JavaScript and TypeScript carry all families; the call rewrites also run in Python, Rust, Go, Java, C
  let per = if thorough { 14 } else { 3 };
  for (li, ls) in LANGS.iter().enumerate() {
    for (fi, f) in fams.iter().enumerate() {
      let js_like = ls.ext == "js" || ls.ext == "ts";
      if !js_like && !matches!(f.name, "str-call" | "str-multi" | "obj-plain") {
        continue;
      }
      for k in 0..per {
        let _ = fi;
        cases.push(Case { id: format!("c08-{}-{}-{k}", ls.ext, f.name), li, fam: f.clone(), text: make_text(ls, &mut rng), model_edits: json!([]) });
      }
    }
  }
  // the cases enumerated by MC_C08: `x = [t1, .., tn];` in JavaScript
  let all = util::read_ndjson(vectors);
  let want = if thorough { 2500 } else { 220 };
  let stride = (all.len() / want).max(1);
  for (i, v) in all.iter().enumerate() {
    if (i + seed as usize) % stride != 0 || v["edits"].as_array().map(|a| a.is_empty()).unwrap_or(true) && i % 7 != 0 {
      continue;
    }
    let toks: Vec<&str> = v["toks"].as_array().unwrap().iter().map(|t| t.as_str().unwrap()).collect();
    let text = format!("x = [{}];\n", toks.join(", "));
    cases.push(Case { id: format!("c08-m{i}"), li: 0, fam: family_of_vector(v), text, model_edits: v["edits"].clone() });
  }
  let mut recs = cli::par_map(&cases, 8, |_, c| record(c, &scratch));
  // pattern + rewrite on the command line
  let runs: Vec<(usize, &str, &str)> = vec![
    (0, "let $X = $Y", "const $X = $Y"), (0, "foo($A)", "bar($A)"), (1, "let $X = $Y", "var $X = $Y"), (0, "let $X = $Y", ""),
    (3, "let $X = $Y", "let mut $X = $Y"), (3, "foo($A)", "bar($A)"), (6, "int $X = $Y", "long $X = $Y"), (5, "int $X = $Y", "long $X = $Y"),
    (2, "foo($A)", "bar($A)"), (4, "foo($A)", "bar($A)"),
  ];
  let mut run_cases = vec![];
  for (ri, (li, p, r)) in runs.iter().enumerate() {
    for k in 0..(if thorough { 12 } else { 3 }) {
      let ls = &LANGS[*li];
      let mut text = make_text(ls, &mut rng);
      if ls.ext == "rs" || ls.ext == "c" || ls.ext == "java" {
        // statements of these languages that the patterns above match, with and without trailing punctuation
        let decl = match ls.ext { "rs" => "let v = foo(1);\nlet w = 2;\n", _ => "int v = foo(1);\nint w = 2;\n" };
        text = format!("{}{}{}", ls.pre, decl, ls.post);
      }
      run_cases.push((format!("c08-run{ri}-{k}"), *li, *p, *r, text));
    }
  }
  // a pattern may leave trailing children of the matched node unmatched - named ones too (an else branch, a trailing
  // argument list): the edit ends where the pattern's match ends, in every front end
  let tails: Vec<(usize, &str, &str, &str)> = vec![
    (0, "if ($A) $B", "if (!!$A) $B", "if (a) b(); else c();\nif (d) e();\n"),
    (1, "if ($A) $B", "if (!!$A) $B", "if (a) { b(); } else if (c) { d(); } else { e(); }\n"),
    (6, "if ($A) $B", "if (!$A) $B", "void m() {\nif (a) b(); else c();\n}\n"),
    (5, "if ($A) $B", "if (!$A) $B", "class A { void m() {\nif (a) b(); else c();\n} }\n"),
    (2, "if $A: $B", "if not $A: $B", "if a:\n    b()\nelse:\n    c()\n"),
    (3, "if $A { $$$B }", "if !$A { $$$B }", "fn main() {\nif a { b(); } else { c(); }\n}\n"),
    (0, "try { $$$A }", "try { g(); $$$A }", "try { f(); } catch (e) { h(); } finally { k(); }\n"),
    // a rewrite on several lines, with and without variables, at an indented site: every front end shifts its
    // continuation lines to the site
    (0, "foo($A)", "bar(\n  1,\n  2\n)", "function f() {\n  if (x) {\n    foo(0)\n  }\n}\n"),
    (0, "foo($A)", "bar(\n  $A,\n  2\n)", "function f() {\n  if (x) {\n    foo(0)\n  }\n}\n"),
    (2, "foo($A)", "bar(\n  1,\n  2\n)", "def f():\n    if x:\n        foo(0)\n"),
    (3, "foo($A)", "bar(\n  1,\n  2\n)", "fn main() {\n    if x {\n        foo(0);\n    }\n}\n"),
  ];
  for (ti, (li, p, r, t)) in tails.iter().enumerate() {
    run_cases.push((format!("c08-tail{ti}"), *li, *p, *r, t.to_string()));
  }
  recs.extend(cli::par_map(&run_cases, 8, |_, (id, li, p, r, t)| run_record(id, *li, p, r, t, &scratch)));
  let mut skipped = 0;
  for r in &recs {
    if r.get("skip").is_some() {
      skipped += 1;
      eprintln!("skip {}: {}", r["id"], r["skip"]);
      continue;
    }
    w.put(r);
  }
  let _ = std::fs::remove_dir_all(&scratch);
  let _ = std::fs::remove_file(crate::lsp::hook_file());
  let n = w.finish();
  util::summary(json!({"records": n, "skipped": skipped, "families": fams.len()}));
}
