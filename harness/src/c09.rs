//! C09 recorder.
//!
//! kind "fe":   one rule set and one text shown to every front end - `sg scan` on a file (project
//!              configuration and `-r`), `--stdin`, the three JSON styles, `--format github`, the default
//!              (coloured) report, `sg test` verdicts, the language server's publishDiagnostics - next to
//!              what the library reports (CombinedScan over the enabled rules of the language, and each rule's
//!              own find_all without suppressions).
//! kind "hist": open/change/close histories (from the Lsp.tla model and random longer ones) sent to the
//!              real language server sequentially and as bursts; what it published, in order.
//! Judged by spec/trace/Trace_C09.tla.
use crate::cli::{self, json_lines, run_sgv};
use crate::lsp::Session;
use crate::project::Project;
use crate::util::{self, NdWriter, Rng};
use ast_grep_config::{from_yaml_string, CombinedScan, GlobalRules, RuleConfig, Severity};
use ast_grep_core::{Language, StrDoc};
use ast_grep_language::SupportLang;
use serde_json::{json, Value};

pub struct LangSpec {
  pub lang: &'static str,
  pub ext: &'static str,
  pub comment: &'static str,
  pub number_kind: &'static str,
  pub pre: &'static str,
  pub post: &'static str,
  pub semi: &'static str,
  pub other: &'static str, // a different language for the foreign rule
}

pub const LANGS: [LangSpec; 7] = [
  LangSpec { lang: "JavaScript", ext: "js", comment: "//", number_kind: "number", pre: "", post: "", semi: ";", other: "Python" },
  LangSpec { lang: "TypeScript", ext: "ts", comment: "//", number_kind: "number", pre: "", post: "", semi: ";", other: "Rust" },
  LangSpec { lang: "Python", ext: "py", comment: "#", number_kind: "integer", pre: "", post: "", semi: "", other: "JavaScript" },
  LangSpec { lang: "Rust", ext: "rs", comment: "//", number_kind: "integer_literal", pre: "fn main() {\n", post: "}\n", semi: ";", other: "Go" },
  LangSpec { lang: "Go", ext: "go", comment: "//", number_kind: "int_literal", pre: "package main\nfunc main() {\n", post: "}\n", semi: "", other: "Java" },
  LangSpec { lang: "Java", ext: "java", comment: "//", number_kind: "decimal_integer_literal", pre: "class A { void m() {\n", post: "} }\n", semi: ";", other: "C" },
  LangSpec { lang: "C", ext: "c", comment: "//", number_kind: "number_literal", pre: "void m() {\n", post: "}\n", semi: ";", other: "JavaScript" },
];

/// the rule documents of a rule set; `variant` rotates which optional features are present
pub fn rule_docs(ls: &LangSpec, variant: usize, with_fix: bool) -> Vec<Value> {
  let mut v = vec![
    json!({"id": "call-foo", "language": ls.lang, "rule": {"pattern": "foo($A)"}, "message": "foo called with $A", "severity": "error"}),
    json!({"id": "multi-bar", "language": ls.lang, "rule": {"pattern": "bar($$$ARGS)"}, "message": "bar takes $$$ARGS here", "severity": "warning"}),
    json!({"id": "hint-rule", "language": ls.lang, "rule": {"pattern": "qux($X)"}, "severity": "hint"}),
    json!({"id": "info-rule", "language": ls.lang, "rule": {"kind": ls.number_kind, "regex": "^42$"}, "message": "the answer", "severity": "info"}),
    json!({"id": "off-rule", "language": ls.lang, "rule": {"pattern": "baz($A)"}, "message": "off rule $A", "severity": "off"}),
    json!({"id": "foreign-rule", "language": ls.other, "rule": {"pattern": "foo($A)"}, "message": "foreign foo"}),
    json!({"id": "tmp-ident", "language": ls.lang, "rule": {"kind": "identifier", "regex": "^tmp"}, "message": "temporary name", "severity": "warning"}),
    // the message uses a variable produced by a transformation
    json!({"id": "shout", "language": ls.lang, "rule": {"pattern": "qux($Q)"}, "transform": {"LOUD": {"convert": {"source": "$Q", "toCase": "upperCase"}}},
           "message": "qux of $LOUD ($Q)", "severity": "info"}),
    // the message uses a variable bound outside the reported node: equal texts, different messages
    json!({"id": "zed-in", "language": ls.lang, "rule": {"pattern": "zed($Z)", "inside": {"pattern": "outer($NAME, $$$REST)", "stopBy": "end"}},
           "message": "zed($Z) inside $NAME", "severity": "warning"}),
    // what matches is decided outside `rule`: by `constraints`, and by a local utility
    json!({"id": "cons-rule", "language": ls.lang, "rule": {"pattern": "con($C)"}, "constraints": {"C": {"regex": "^ok"}},
           "message": "con with $C", "severity": "warning"}),
    json!({"id": "util-rule", "language": ls.lang, "rule": {"all": [{"pattern": "uti($U)"}, {"has": {"matches": "is-answer", "stopBy": "end"}}]},
           "utils": {"is-answer": {"kind": ls.number_kind, "regex": "^42$"}}, "message": "uti with the answer", "severity": "info"}),
  ];
  // a node whose text ENDS with a line break (a preprocessor line of C, a doc comment of Rust): where the finding ends is
  // the start of the next line, in every front end
  if ls.lang == "C" {
    v.push(json!({"id": "c-include", "language": "C", "rule": {"kind": "preproc_include"}, "message": "an include", "severity": "info"}));
  }
  if ls.lang == "Rust" {
    v.push(json!({"id": "rs-doc", "language": "Rust", "rule": {"kind": "line_comment", "regex": "^///"}, "message": "a doc comment", "severity": "info"}));
  }
  if variant % 2 == 1 {
    v[1]["note"] = json!("a note for bar");
  }
  if variant % 3 == 1 {
    v[0]["url"] = json!("https://example.com/call-foo");
    v[6]["severity"] = json!("error");
  }
  if variant % 4 == 2 {
    v[2]["message"] = json!("qux with $X and $MISSING");
  }
  if with_fix {
    v[0]["fix"] = json!("foo2($A)");
  }
  if variant % 4 == 3 {
    // a rule file with exactly one rule (the one most suppression comments of the texts name)
    v.truncate(1);
  } else if variant % 5 == 3 {
    v.rotate_left(2); // another rule (still of the document's language) comes first
  }
  v
}

/// a source text: statements with matches, suppression comments, wide characters, optional CRLF
pub fn make_text(ls: &LangSpec, rng: &mut Rng, astral: bool) -> String {
  let c = ls.comment;
  let s = ls.semi;
  let pool: Vec<String> = vec![
    format!("foo(1){s}"),
    format!("bar(a, \"é中\"){s}"),
    format!("bar(){s}"),
    format!("qux(tmpx){s}"),
    format!("foo(42){s}"),
    format!("baz(3){s}"),
    format!("other(tmp1, 42){s}"),
    format!("{c} ast-grep-ignore\nfoo(2){s}"),
    format!("foo(3){s} {c} ast-grep-ignore: call-foo"),
    format!("foo(4){s} {c} ast-grep-ignore: multi-bar"),
    format!("{c} ast-grep-ignore: call-foo, info-rule\nfoo(42){s}"),
    format!("{c} ast-grep-ignore\nnothing(0){s}"),
    format!("bar(\"é\", foo(5)){s}"),
    format!("foo(bar(6), foo(7)){s}"),
    format!("foo(\n  8,\n){s}"),
    format!("outer(a1, zed(1)){s}\nouter(b2, zed(1)){s}"),
    format!("outer(c3, 0, zed(1)){s}"),
    // findings inside findings of the same (fixable) rule
    format!("foo(foo(10)){s}"),
    format!("foo(1, foo(2, foo(3))){s}"),
    format!("con(no1){s}"),
    format!("con(ok2){s}\ncon(no3){s}"),
    format!("uti(41){s}"),
    format!("uti(42){s}"),
    if astral { format!("bar(\"😀\", foo(9)){s}") } else { format!("bar(\"中中\", foo(9)){s}") },
  ];
  let n = 2 + rng.below(6);
  let nl = if rng.chance(1, 4) { "\r\n" } else { "\n" };
  let mut body = String::new();
  for _ in 0..n {
    let piece: &String = rng.pick(&pool[..]);
    body.push_str(piece);
    body.push('\n');
  }
  // some texts start with blank lines: the tree's root node then starts after them, the document does not
  let lead = if rng.chance(1, 4) { "\n\n" } else { "" };
  let head = if ls.lang == "C" { "#include <stdio.h>\n" } else if ls.lang == "Rust" { "/// documented\n" } else { "" };
  let text = format!("{lead}{head}{}{}{}", ls.pre, body, ls.post);
  if nl == "\r\n" { text.replace('\n', "\r\n") } else { text }
}

fn sev_name(s: &Severity) -> &'static str {
  match s {
    Severity::Error => "error",
    Severity::Warning => "warning",
    Severity::Info => "info",
    Severity::Hint => "hint",
    Severity::Off => "off",
  }
}

/// positions of a byte offset: [line, column in characters, column in UTF-16 units]
pub fn pos_of(text: &str, off: usize) -> Value {
  let before = &text[..off.min(text.len())];
  let line = before.matches('\n').count();
  let ls = before.rfind('\n').map(|i| i + 1).unwrap_or(0);
  let seg = &before[ls..];
  json!([line, seg.chars().count(), seg.encode_utf16().count()])
}

pub fn yaml_of(docs: &[Value]) -> String {
  docs.iter().map(|d| serde_json::to_string(d).unwrap()).collect::<Vec<_>>().join("\n---\n")
}

/// library view: (ref) CombinedScan with the unused-suppression hint over the enabled rules of the language,
/// (raw) find_all of every rule of the language, suppressions not considered
fn library(docs: &[Value], lang: SupportLang, text: &str) -> (Vec<Value>, Vec<Value>, Vec<Value>) {
  let globals = GlobalRules::default();
  let cfgs: Vec<RuleConfig<SupportLang>> = from_yaml_string(&yaml_of(docs), &globals).expect("rules parse");
  let grep = lang.ast_grep(text);
  let finding = |rule: &RuleConfig<SupportLang>, m: &ast_grep_core::NodeMatch<StrDoc<SupportLang>>| {
    let r = m.range();
    json!({"rule": rule.id, "s": r.start, "e": r.end, "sp": pos_of(text, r.start), "ep": pos_of(text, r.end),
           "msg": rule.get_message(m), "sev": sev_name(&rule.severity)})
  };
  let mut raw = vec![];
  let mut meta = vec![];
  for c in &cfgs {
    meta.push(json!({"id": c.id, "lang": format!("{}", c.language), "sev": sev_name(&c.severity), "hasmsg": !c.message.is_empty(),
                     "note": c.note.clone().unwrap_or_default(), "hasnote": c.note.is_some(), "hasfix": c.matcher.fixer.is_some()}));
    if c.language != lang {
      continue;
    }
    for m in grep.root().find_all(&c.matcher) {
      raw.push(finding(c, &m));
    }
  }
  let enabled: Vec<&RuleConfig<SupportLang>> = cfgs.iter().filter(|c| c.language == lang && !matches!(c.severity, Severity::Off)).collect();
  let mut refs = vec![];
  if !enabled.is_empty() {
    let unused = CombinedScan::unused_config(Severity::Hint, lang);
    let mut scan = CombinedScan::new(enabled);
    scan.set_unused_suppression_rule(&unused);
    for (rule, ms) in scan.scan(&grep, false).matches {
      for m in ms {
        refs.push(finding(rule, &m));
      }
    }
  }
  (refs, raw, meta)
}

fn json_findings(vals: &[Value]) -> Value {
  json!(vals
    .iter()
    .map(|v| json!({"rule": v["ruleId"], "s": v["range"]["byteOffset"]["start"], "e": v["range"]["byteOffset"]["end"],
      "sp": [v["range"]["start"]["line"], v["range"]["start"]["column"]], "ep": [v["range"]["end"]["line"], v["range"]["end"]["column"]],
      "msg": v["message"], "sev": v["severity"]}))
    .collect::<Vec<_>>())
}

fn parse_json_any(s: &str) -> Vec<Value> {
  // pretty and compact print one array
  match serde_json::from_str::<Value>(s.trim()) {
    Ok(Value::Array(a)) => a,
    _ => vec![],
  }
}

fn github_findings(s: &str) -> Value {
  // ::error file=src/t.js,line=1,endLine=1,title=call-foo::message   (a message may span lines)
  let mut out: Vec<Value> = vec![];
  for line in s.lines() {
    let parsed = (|| {
      let rest = line.strip_prefix("::")?;
      let (level, rest) = rest.split_once(" file=")?;
      let (_file, rest) = rest.split_once(",line=")?;
      let (l, rest) = rest.split_once(",endLine=")?;
      let (el, rest) = rest.split_once(",title=")?;
      let (title, msg) = rest.split_once("::")?;
      Some(json!({"rule": title, "line": l.parse::<u64>().ok()?, "endLine": el.parse::<u64>().ok()?, "msg": msg, "level": level}))
    })();
    match parsed {
      Some(v) => out.push(v),
      None => {
        if let Some(last) = out.last_mut() {
          let m = format!("{}\n{}", last["msg"].as_str().unwrap_or(""), line);
          last["msg"] = json!(m);
        }
      }
    }
  }
  json!(out)
}

fn colored_findings(s: &str) -> Value {
  // error[call-foo]: message
  //   ┌─ src/t.js:1:1
  let lines: Vec<&str> = s.lines().collect();
  let mut out = vec![];
  for (i, line) in lines.iter().enumerate() {
    for level in ["error", "warning", "note", "help"] {
      if let Some(rest) = line.strip_prefix(&format!("{level}[")) {
        if let Some((id, msg)) = rest.split_once("]: ").or_else(|| rest.split_once("]:")) {
          // the location is on a following line that contains "┌─"; a finding with a fix is shown as a diff
          // instead: its first removed line ("<n>  │-...") is the line of the finding, the column is not shown (0)
          let (mut l, mut c) = (0u64, 0u64);
          for nxt in lines[i + 1..].iter() {
            if ["error[", "warning[", "note[", "help["].iter().any(|p| nxt.starts_with(p)) {
              break;
            }
            if let Some((_, r)) = nxt.split_once("┌─ ") {
              let parts: Vec<&str> = r.trim().rsplitn(3, ':').collect();
              if parts.len() == 3 {
                c = parts[0].parse().unwrap_or(0);
                l = parts[1].parse().unwrap_or(0);
              }
              break;
            }
            if let Some((before, after)) = nxt.split_once('│') {
              if after.starts_with('-') {
                if let Ok(n) = before.trim().parse::<u64>() {
                  l = n;
                  break;
                }
              }
            }
          }
          out.push(json!({"rule": id, "line": l, "col": c, "msg": msg, "level": level}));
        }
      }
    }
  }
  json!(out)
}

fn test_verdicts(s: &str) -> Value {
  // PASS call-foo  .     /   FAIL call-foo  N
  let mut out = serde_json::Map::new();
  for line in s.lines() {
    let line = strip_ansi(line);
    for tag in ["PASS ", "FAIL "] {
      if let Some(rest) = line.strip_prefix(tag) {
        let mut it = rest.split_whitespace();
        if let (Some(id), Some(marks)) = (it.next(), it.next()) {
          out.insert(id.to_string(), json!(marks));
        }
      }
    }
  }
  Value::Object(out)
}

fn strip_ansi(s: &str) -> String {
  let mut out = String::new();
  let mut it = s.chars().peekable();
  while let Some(c) = it.next() {
    if c == '\u{1b}' {
      for d in it.by_ref() {
        if d.is_ascii_alphabetic() {
          break;
        }
      }
    } else {
      out.push(c);
    }
  }
  out
}

pub fn lsp_findings(diags: &[Value]) -> Value {
  json!(diags
    .iter()
    .map(|d| json!({"rule": d["code"], "sp": [d["range"]["start"]["line"], d["range"]["start"]["character"]],
      "ep": [d["range"]["end"]["line"], d["range"]["end"]["character"]], "msg": d["message"], "sev": d["severity"]}))
    .collect::<Vec<_>>())
}

struct FeCase {
  id: String,
  li: usize,
  docs: Vec<Value>,
  text: String,
  astral: bool,
}

fn fe_record(case: &FeCase, scratch: &str, lsp: &Session, lsp_root: &str) -> Value {
  let ls = &LANGS[case.li];
  let lang = util::lang(ls.lang);
  let (refs, raw, meta) = library(&case.docs, lang, &case.text);
  let p = Project::new(&format!("{scratch}/{}", case.id));
  p.config(Some(&json!({"testConfigs": [{"testDir": "tests"}]})));
  p.write("rules/all.yml", yaml_of(&case.docs).as_bytes());
  let rel = format!("src/t.{}", ls.ext);
  p.write(&rel, case.text.as_bytes());
  for d in &case.docs {
    let id = d["id"].as_str().unwrap();
    p.write(&format!("tests/{id}-test.yml"), serde_json::to_string(&json!({"id": id, "valid": [case.text]})).unwrap().as_bytes());
  }
  let run = |args: &[&str], stdin: Option<&str>| run_sgv(args, &p.root, stdin, 30, &[]);
  let mut fe = serde_json::Map::new();
  let mut exits = serde_json::Map::new();
  let mut put = |name: &str, o: &cli::CliOut, v: Value| {
    fe.insert(name.to_string(), v);
    exits.insert(name.to_string(), json!({"code": o.code, "stderr": o.stderr.chars().take(200).collect::<String>()}));
  };
  let o = run(&["scan", "--json=stream", &rel], None);
  put("cfg-stream", &o, json_findings(&json_lines(&o.stdout)));
  let o = run(&["scan", "-r", "rules/all.yml", "--json=stream", &rel], None);
  put("r-stream", &o, json_findings(&json_lines(&o.stdout)));
  let o = run(&["scan", "-r", "rules/all.yml", "--json=pretty", &rel], None);
  put("r-pretty", &o, json_findings(&parse_json_any(&o.stdout)));
  let o = run(&["scan", "-r", "rules/all.yml", "--json=compact", &rel], None);
  put("r-compact", &o, json_findings(&parse_json_any(&o.stdout)));
  // a rule confined by `files` has nothing to say about a text without a path (--stdin): those front ends are left out
  let first_lang_ok = case.docs[0]["language"] == ls.lang && case.docs.iter().all(|d| d.get("files").is_none());
  if first_lang_ok {
    let o = run(&["scan", "-r", "rules/all.yml", "--stdin", "--json=stream"], Some(&case.text));
    put("stdin", &o, json_findings(&json_lines(&o.stdout)));
    let o = run(&["scan", "-r", "rules/all.yml", "--stdin", "--format", "github"], Some(&case.text));
    put("stdin-github", &o, github_findings(&o.stdout));
  }
  let o = run(&["scan", "--format", "github", &rel], None);
  put("github", &o, github_findings(&o.stdout));
  let o = run(&["scan", "--color", "never", &rel], None);
  put("colored", &o, colored_findings(&o.stdout));
  let o = run(&["test", "--skip-snapshot-tests"], None);
  put("test", &o, test_verdicts(&o.stdout));
  p.remove();
  // language server: same rules (loaded once per rule set by the caller), same text
  let lrel = format!("src/{}/t.{}", case.id, ls.ext);
  let _ = lsp_root;
  lsp.open(&lrel, ls.lang, 1, &case.text);
  let quiet = lsp.wait_handlers(&lrel, 1, 10000);
  let pubs = lsp.published(&lrel);
  let lspv = match pubs.last() {
    Some((_, _, d)) => lsp_findings(d),
    None => json!([]),
  };
  lsp.close(&lrel);
  lsp.wait_handlers(&lrel, 2, 10000);
  fe.insert("lsp".to_string(), lspv);
  exits.insert("lsp".to_string(), json!({"code": if quiet { 0 } else { 124 }, "npub": pubs.len()}));
  json!({"kind": "fe", "id": case.id, "lang": ls.lang, "first_lang_ok": first_lang_ok, "astral": case.astral, "rules": meta,
         "ref": refs, "raw": raw, "fe": fe, "exits": exits, "text": case.text})
}

// ------------------------------------------------------------------------------------------------
// histories

fn hist_text(i: usize) -> String {
  // text 0 is the text without any finding: the diagnostics published for it are the empty list
  if i == 0 {
    return "keep();\n".to_string();
  }
  format!("foo(t{i});\nkeep();\n")
}
fn text_of_diags(diags: &[Value]) -> i64 {
  // the finding's message names the text: "foo called with t<i>"
  if diags.is_empty() {
    return 0;
  }
  if diags.len() != 1 {
    return -(diags.len() as i64) - 1;
  }
  diags[0]["message"].as_str().and_then(|m| m.rsplit_once(" t")).and_then(|(_, n)| n.parse::<i64>().ok()).unwrap_or(-1)
}

/// run one history against a fresh server; mode: "seq" (wait after every notification),
/// "burst" (everything written at once, workspace answer delayed), "burst0" (no delay)
fn run_history(id: &str, sent: &[Value], outside: bool, mode: &str, allowed: &Value, threads: usize) -> Value {
  let docs = vec![json!({"id": "call-foo", "language": "JavaScript", "rule": {"pattern": "foo($A)"}, "message": "foo called with $A", "severity": "error"})];
  let base = format!("/var/tmp/agv-lspws-{}", std::process::id());
  let delay = match mode {
    "burst" => 40,
    "seq" => 0,
    _ => 0,
  };
  let s = Session::start(&yaml_of(&docs), &base, delay, threads);
  let rel = if outside { format!("{}-outside/h.js", s.base) } else { "h.js".to_string() };
  let mut msgs = vec![];
  for m in sent {
    let text = hist_text(m["text"].as_u64().unwrap() as usize);
    let ver = m["ver"].as_i64().unwrap();
    let uri = s.uri(&rel);
    let v = match m["kind"].as_str().unwrap() {
      "open" => json!({"jsonrpc": "2.0", "method": "textDocument/didOpen", "params": {"textDocument": {"uri": uri, "languageId": "javascript", "version": ver, "text": text}}}),
      "change" => json!({"jsonrpc": "2.0", "method": "textDocument/didChange", "params": {"textDocument": {"uri": uri, "version": ver}, "contentChanges": [{"text": text}]}}),
      _ => json!({"jsonrpc": "2.0", "method": "textDocument/didClose", "params": {"textDocument": {"uri": uri}}}),
    };
    msgs.push(v);
  }
  // completion is observed through the lsp_handler_done hook: one event per notification, whatever the load
  let mut quiet = true;
  if mode == "seq" {
    for (k, m) in msgs.into_iter().enumerate() {
      s.send_batch(vec![m]);
      quiet &= s.wait_handlers(&rel, k + 1, 8000);
    }
  } else {
    let n = msgs.len();
    s.send_batch(msgs);
    quiet &= s.wait_handlers(&rel, n, 8000);
  }
  // is the server still alive?  a request must be answered
  let alive = s.request("workspace/executeCommand", json!({"command": "no-such-command", "arguments": []}), 3000).is_some();
  let pubs: Vec<Value> = s.published(&rel).iter().map(|(_, v, d)| json!({"ver": v, "text": text_of_diags(d)})).collect();
  s.shutdown();
  json!({"kind": "hist", "id": id, "sent": sent, "outside": outside, "mode": mode, "pubs": pubs, "quiet": quiet, "alive": alive,
         "allowed": if allowed.is_array() { allowed.clone() } else { json!([]) }, "bounded": allowed.is_array(), "threads": threads})
}

/// two documents on ONE server: their notifications alternate; each document's diagnostics must be those of ITS
/// newest text (every document is judged by the same statement as a single one)
fn run_history_pair(id: &str, a: &(Vec<Value>, Value), b: &(Vec<Value>, Value), mode: &str, threads: usize) -> Vec<Value> {
  let docs = vec![json!({"id": "call-foo", "language": "JavaScript", "rule": {"pattern": "foo($A)"}, "message": "foo called with $A", "severity": "error"})];
  let base = format!("/var/tmp/agv-lspws-{}", std::process::id());
  let s = Session::start(&yaml_of(&docs), &base, if mode == "burst" { 40 } else { 0 }, threads);
  let rels = ["pa.js", "sub/pb.js"];
  let mk = |rel: &str, m: &Value| {
    let text = hist_text(m["text"].as_u64().unwrap() as usize);
    let ver = m["ver"].as_i64().unwrap();
    let uri = s.uri(rel);
    match m["kind"].as_str().unwrap() {
      "open" => json!({"jsonrpc": "2.0", "method": "textDocument/didOpen", "params": {"textDocument": {"uri": uri, "languageId": "javascript", "version": ver, "text": text}}}),
      "change" => json!({"jsonrpc": "2.0", "method": "textDocument/didChange", "params": {"textDocument": {"uri": uri, "version": ver}, "contentChanges": [{"text": text}]}}),
      _ => json!({"jsonrpc": "2.0", "method": "textDocument/didClose", "params": {"textDocument": {"uri": uri}}}),
    }
  };
  // alternate: a1 b1 a2 b2 ...
  let mut msgs: Vec<(usize, Value)> = vec![];
  for k in 0..a.0.len().max(b.0.len()) {
    if k < a.0.len() { msgs.push((0, mk(rels[0], &a.0[k]))); }
    if k < b.0.len() { msgs.push((1, mk(rels[1], &b.0[k]))); }
  }
  let mut quiet = true;
  if mode == "seq" {
    let mut done = [0usize, 0usize];
    for (d, m) in msgs {
      s.send_batch(vec![m]);
      done[d] += 1;
      quiet &= s.wait_handlers(rels[d], done[d], 8000);
    }
  } else {
    s.send_batch(msgs.into_iter().map(|x| x.1).collect());
    quiet &= s.wait_handlers(rels[0], a.0.len(), 8000);
    quiet &= s.wait_handlers(rels[1], b.0.len(), 8000);
  }
  let alive = s.request("workspace/executeCommand", json!({"command": "no-such-command", "arguments": []}), 3000).is_some();
  let mut out = vec![];
  for (d, (sent, allowed)) in [a, b].iter().enumerate() {
    let pubs: Vec<Value> = s.published(rels[d]).iter().map(|(_, v, x)| json!({"ver": v, "text": text_of_diags(x)})).collect();
    out.push(json!({"kind": "hist", "id": format!("{id}/{}", ["a", "b"][d]), "sent": sent, "outside": false, "mode": mode, "pubs": pubs, "quiet": quiet, "alive": alive,
      "allowed": if allowed.is_array() { (*allowed).clone() } else { json!([]) }, "bounded": allowed.is_array(), "threads": threads, "paired": true}));
  }
  s.shutdown();
  out
}

fn random_history(rng: &mut Rng, len: usize) -> Vec<Value> {
  let mut sent = vec![];
  let mut open = false;
  let mut used: Vec<i64> = vec![];
  let mut top = 0i64;
  for i in 0..len {
    let kind = if !open { "open" } else if rng.chance(1, 7) { "close" } else { "change" };
    let ver = match kind {
      "open" => {
        used.clear();
        top = 1 + rng.below(3) as i64;
        used.push(top);
        top
      }
      "change" => {
        // mostly increasing, sometimes a stale version arriving late
        let mut v = top + 1 + rng.below(2) as i64;
        if rng.chance(1, 4) {
          let cand = 1 + rng.below((top + 2) as usize) as i64;
          if !used.contains(&cand) {
            v = cand;
          }
        }
        used.push(v);
        top = top.max(v);
        v
      }
      _ => 1,
    };
    open = kind != "close";
    // one text in four is the clean one (a document that is re-opened or changed to a text without findings must have its
    // old diagnostics replaced by the empty list)
    let text = if kind != "close" && rng.chance(1, 4) { 0 } else { i + 1 };
    sent.push(json!({"kind": kind, "ver": ver, "text": text}));
  }
  sent
}

pub fn drive(vectors: &str, seed: u64, out: &str, thorough: bool) {
  let mut w = NdWriter::new(out);
  let mut rng = Rng::new(seed ^ 0xc09);
  let scratch = format!("/var/tmp/agv-c09-{}", std::process::id());
  let _ = std::fs::create_dir_all(&scratch);
  // ---- front ends
  let per_lang = if thorough { 40 } else { 6 };
  let mut n_fe = 0;
  for (li, ls) in LANGS.iter().enumerate() {
    for variant in 0..(if thorough { 8 } else { 4 }) {
      let variant = variant + (seed as usize % 5);
      let mut docs = rule_docs(ls, variant, variant % 2 == 0);
      // every third rule set: the first rule is confined to `src/**` - a glob relative to the project directory, which
      // holds the text in the command line's project (src/t.*) and in the language server's (src/<case>/t.*) alike
      // two rule sets in four carry more rules that match nothing: with the others that makes more rule-test files than
      // `sg test` has worker threads (at most 12), and every one of them still gets its verdict
      if variant % 4 >= 2 {
        // (14 and 9 more: with the 11 others that is 25 and 20 test files - neither a multiple of the 12 worker threads)
        for j in 0..(if variant % 4 == 2 { 14 } else { 9 }) {
          docs.push(json!({"id": format!("filler-{j}"), "language": ls.lang, "rule": {"pattern": format!("filler_{j}_never($A)")}, "message": "never", "severity": "warning"}));
        }
      }
      let globbed = variant % 3 == 1;
      if globbed {
        docs[0]["files"] = json!(["src/**"]);
      }
      let lsp_root = format!("{scratch}/lsp");
      let sess = Session::start(&yaml_of(&docs), &lsp_root, 0, 2);
      let cases: Vec<FeCase> = (0..per_lang / 3 + 1)
        .map(|k| {
          let astral = k % 3 == 2;
          // the first text of every rule set holds a finding inside a finding of the same rule (with a fix in half of the sets)
          let mut text = make_text(ls, &mut rng, astral);
          if k == 0 {
            let cut = text.len() - ls.post.len();
            if text.is_char_boundary(cut) && text.ends_with(ls.post) {
              text.insert_str(cut, &format!("foo(0, foo(12)){}\n", ls.semi));
            }
          }
          FeCase { id: format!("fe-{}-{variant}-{k}", ls.ext), li, docs: docs.clone(), text, astral }
        })
        .collect();
      // the CLI runs are the slow part; the LSP exchange is sequential per session
      for c in &cases {
        w.put(&fe_record(c, &scratch, &sess, &lsp_root));
        n_fe += 1;
      }
      sess.shutdown();
    }
  }
  // ---- histories from the model: (sent, outside) with the set of publish sequences the model allows
  let all = util::read_ndjson(vectors);
  let mut groups: std::collections::BTreeMap<String, (Value, bool, Vec<Value>)> = Default::default();
  for v in &all {
    let key = format!("{}|{}", v["sent"], v["outside"]);
    let e = groups.entry(key).or_insert_with(|| (v["sent"].clone(), v["outside"] == true, vec![]));
    if !e.2.contains(&v["pubs"]) {
      e.2.push(v["pubs"].clone());
    }
  }
  let keys: Vec<&String> = groups.keys().collect();
  let want = if thorough { 700 } else { 70 };
  let stride = (keys.len() / want).max(1);
  let mut jobs: Vec<(String, Vec<Value>, bool, &str, Value, usize)> = vec![];
  for (i, k) in keys.iter().enumerate() {
    let (sent, outside, allowed) = &groups[*k];
    // outside documents are a quarter of the sample
    let h = (i / 2 + seed as usize) % stride.max(1);
    if h != 0 || (*outside && (i / 2 / stride.max(1)) % 4 != 0) {
      continue;
    }
    let sent = sent.as_array().cloned().unwrap_or_default();
    if sent.is_empty() {
      continue;
    }
    for mode in ["seq", "burst", "burst0"] {
      jobs.push((format!("h{i}-{mode}"), sent.clone(), *outside, mode, json!(allowed), if i % 2 == 0 { 1 } else { 3 }));
    }
  }
  let n_model = jobs.len();
  // ---- longer random histories (beyond the model's bound: judged at the property level only)
  for k in 0..(if thorough { 300 } else { 24 }) {
    let len = 4 + rng.below(9);
    let sent = random_history(&mut rng, len);
    let mode = ["burst", "burst0", "seq"][k % 3];
    jobs.push((format!("r{k}-{mode}"), sent, false, mode, json!("unbounded"), 1 + k % 3));
  }
  let recs = cli::par_map(&jobs, 8, |_, (id, sent, outside, mode, allowed, threads)| run_history(id, sent, *outside, mode, allowed, *threads));
  for r in &recs {
    w.put(r);
  }
  // ---- two documents on one server: pairs of (inside) histories of the sample above
  let inside: Vec<&(String, Vec<Value>, bool, &str, Value, usize)> = jobs.iter().filter(|j| !j.2 && j.3 == "seq" || j.0.starts_with('r')).collect();
  let mut pairs = vec![];
  for k in (0..inside.len().saturating_sub(1)).step_by(2) {
    if inside[k].2 || inside[k + 1].2 {
      continue;
    }
    let mode = ["burst0", "seq", "burst"][(k / 2) % 3];
    pairs.push((format!("pair{k}-{mode}"), (inside[k].1.clone(), inside[k].4.clone()), (inside[k + 1].1.clone(), inside[k + 1].4.clone()), mode, 1 + (k / 2) % 3));
  }
  let n_pairs = pairs.len();
  let precs = cli::par_map(&pairs, 8, |_, (id, a, b, mode, threads)| run_history_pair(id, a, b, mode, *threads));
  for rs in &precs {
    for r in rs {
      w.put(r);
    }
  }
  let _ = std::fs::remove_dir_all(&scratch);
  let _ = std::fs::remove_file(crate::lsp::hook_file());
  let n = w.finish();
  util::summary(json!({"records": n, "fe": n_fe, "hist_model": n_model, "hist_random": jobs.len() - n_model, "hist_pairs_two_documents": n_pairs, "histories_in_model": keys.len()}));
}
