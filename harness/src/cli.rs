//! helpers to run `sgv` (the CLI rebuilt from /repo) in isolated children under a timeout
use serde_json::Value;
use std::io::Write;
use std::process::{Command, Stdio};

pub struct CliOut {
  pub code: i32, // 124 = hang (timeout), -1 = killed by signal
  pub stdout: String,
  pub stderr: String,
}

pub fn sgv_path() -> String {
  let me = std::env::current_exe().unwrap();
  me.parent().unwrap().join("sgv").to_string_lossy().to_string()
}

pub fn run_sgv(args: &[&str], cwd: &str, stdin: Option<&str>, timeout_s: u32, env: &[(&str, &str)]) -> CliOut {
  let mut cmd = Command::new("timeout");
  cmd.arg("-k").arg("2").arg(timeout_s.to_string()).arg(sgv_path());
  cmd.args(args).current_dir(cwd).stdout(Stdio::piped()).stderr(Stdio::piped());
  cmd.env("NO_COLOR", "1");
  for (k, v) in env {
    cmd.env(k, v);
  }
  cmd.stdin(if stdin.is_some() { Stdio::piped() } else { Stdio::null() });
  let mut child = cmd.spawn().expect("spawn sgv");
  if let Some(s) = stdin {
    let mut si = child.stdin.take().unwrap();
    let _ = si.write_all(s.as_bytes());
  }
  let out = child.wait_with_output().expect("wait sgv");
  CliOut {
    code: out.status.code().unwrap_or(-1),
    stdout: String::from_utf8_lossy(&out.stdout).to_string(),
    stderr: String::from_utf8_lossy(&out.stderr).to_string(),
  }
}

/// like run_sgv, but nobody reads the child's stdout for the first `delay_ms`: the printing side of the CLI
/// stalls on a full pipe while the producing side keeps going
pub fn run_sgv_slow_reader(args: &[&str], cwd: &str, timeout_s: u32, env: &[(&str, &str)], delay_ms: u64) -> CliOut {
  use std::io::Read;
  let mut cmd = Command::new("timeout");
  cmd.arg("-k").arg("2").arg(timeout_s.to_string()).arg(sgv_path());
  cmd.args(args).current_dir(cwd).stdout(Stdio::piped()).stderr(Stdio::piped()).stdin(Stdio::null());
  cmd.env("NO_COLOR", "1");
  for (k, v) in env {
    cmd.env(k, v);
  }
  let mut child = cmd.spawn().expect("spawn sgv");
  let mut so = child.stdout.take().unwrap();
  let mut se = child.stderr.take().unwrap();
  let t_out = std::thread::spawn(move || {
    std::thread::sleep(std::time::Duration::from_millis(delay_ms));
    let mut b = vec![];
    let _ = so.read_to_end(&mut b);
    b
  });
  let t_err = std::thread::spawn(move || {
    let mut b = vec![];
    let _ = se.read_to_end(&mut b);
    b
  });
  let status = child.wait().expect("wait sgv");
  let (o, e) = (t_out.join().unwrap_or_default(), t_err.join().unwrap_or_default());
  CliOut { code: status.code().unwrap_or(-1), stdout: String::from_utf8_lossy(&o).to_string(), stderr: String::from_utf8_lossy(&e).to_string() }
}

/// parse --json=stream output into JSON values (one per line)
pub fn json_lines(s: &str) -> Vec<Value> {
  s.lines().filter(|l| !l.trim().is_empty()).filter_map(|l| serde_json::from_str(l).ok()).collect()
}

pub fn byte_ranges(vals: &[Value]) -> Vec<(usize, usize)> {
  vals
    .iter()
    .map(|v| {
      (
        v["range"]["byteOffset"]["start"].as_u64().unwrap_or(0) as usize,
        v["range"]["byteOffset"]["end"].as_u64().unwrap_or(0) as usize,
      )
    })
    .collect()
}

/// run closures over items on `n` threads, preserving order
pub fn par_map<T: Sync, R: Send>(items: &[T], n: usize, f: impl Fn(usize, &T) -> R + Sync) -> Vec<R> {
  let next = std::sync::atomic::AtomicUsize::new(0);
  let results: std::sync::Mutex<Vec<(usize, R)>> = std::sync::Mutex::new(vec![]);
  std::thread::scope(|s| {
    for _ in 0..n {
      s.spawn(|| loop {
        let i = next.fetch_add(1, std::sync::atomic::Ordering::SeqCst);
        if i >= items.len() {
          break;
        }
        let r = f(i, &items[i]);
        results.lock().unwrap().push((i, r));
      });
    }
  });
  let mut v = results.into_inner().unwrap();
  v.sort_by_key(|(i, _)| *i);
  v.into_iter().map(|(_, r)| r).collect()
}
