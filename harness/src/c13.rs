//! C13 recorder: one project (rules with inter-dependent utilities, transformations, constraints, rewriters,
//! global utility files, tests) written with permuted map keys / rule file names and scanned by N fresh
//! `sgv` processes per permutation; `sgv test -U` then `sgv test`; topo_order hook events.
use crate::cli::{self, json_lines, run_sgv};
use crate::project::Project;
use crate::util::{self, NdWriter, Rng};
use serde_json::{json, Value};

/// JSON object text with the given key order (JSON is YAML)
fn obj(items: &[(&str, String)]) -> String {
  format!("{{{}}}", items.iter().map(|(k, v)| format!("{}: {}", serde_json::to_string(k).unwrap(), v)).collect::<Vec<_>>().join(", "))
}
fn permute<T: Clone>(v: &[T], rng: &mut Rng) -> Vec<T> {
  let mut v = v.to_vec();
  for i in (1..v.len()).rev() {
    let j = rng.below(i + 1);
    v.swap(i, j);
  }
  v
}

fn rule_r1(rng: &mut Rng, identity: bool) -> String {
  let p = |v: Vec<(&'static str, String)>, rng: &mut Rng| if identity { v } else { permute(&v, rng) };
  let utils = p(vec![
    ("uA", r#"{"any": [{"matches": "uB"}, {"kind": "number"}]}"#.to_string()),
    ("uB", r#"{"any": [{"matches": "uC"}, {"kind": "string"}]}"#.to_string()),
    ("uC", r#"{"kind": "call_expression"}"#.to_string()),
    ("uD", r#"{"all": [{"matches": "uA"}, {"matches": "uC"}]}"#.to_string()),
    // rule objects with several keys: the dependencies hide in different keys of one object
    ("uE", r#"{"all": [{"regex": "^foo"}], "any": [{"matches": "uC"}, {"matches": "uB"}]}"#.to_string()),
    ("uF", r#"{"matches": "uC", "not": {"matches": "uG"}}"#.to_string()),
    ("uG", r#"{"kind": "number", "nthChild": {"position": 1, "ofRule": {"matches": "uH"}}}"#.to_string()),
    ("uH", r#"{"any": [{"kind": "number"}, {"kind": "string"}]}"#.to_string()),
  ], rng);
  let cons = p(vec![
    ("A", r#"{"regex": "^a"}"#.to_string()),
    ("B", r#"{"any": [{"pattern": "$C"}, {"kind": "identifier"}]}"#.to_string()),
    // a constraint on a variable that only another constraint's pattern captures (a chained constraint)
    // (checked since fix 15dc688: it rejects the call whose second argument is an array)
    ("C", r#"{"not": {"kind": "array"}}"#.to_string()),
  ], rng);
  let trans = p(vec![
    ("X", r#"{"substring": {"source": "$Y", "startChar": 1}}"#.to_string()),
    ("Y", r#"{"replace": {"source": "$Z", "replace": "A", "by": "b"}}"#.to_string()),
    ("Z", r#"{"convert": {"source": "$A", "toCase": "upperCase"}}"#.to_string()),
    ("W", r#"{"rewrite": {"source": "$B", "rewriters": ["rw3", "rw1", "rw2"], "joinBy": "+"}}"#.to_string()),
  ], rng);
  let rews = p(vec![
    ("rw1", r#"{"id": "rw1", "rule": {"pattern": "x"}, "fix": "X1"}"#.to_string()),
    ("rw2", r#"{"id": "rw2", "rule": {"kind": "number"}, "fix": "N"}"#.to_string()),
    // a rewriter that applies another rewriter: the reference points forward or backward in the list, as the order falls
    ("rw3", r#"{"id": "rw3", "rule": {"pattern": "[$$$E]"}, "transform": {"R": {"rewrite": {"source": "$$$E", "rewriters": ["rw2", "rw1"]}}}, "fix": "<$R>"}"#.to_string()),
  ], rng);
  let top = p(vec![
    ("id", "\"r1\"".to_string()),
    ("language", "\"JavaScript\"".to_string()),
    ("severity", "\"warning\"".to_string()),
    ("rule", r#"{"all": [{"pattern": "foo($A, $B)"}, {"matches": "uD"}, {"matches": "uE"}, {"matches": "uF"}]}"#.to_string()),
    ("utils", obj(&utils)),
    ("constraints", obj(&cons)),
    ("transform", obj(&trans)),
    ("rewriters", format!("[{}]", rews.iter().map(|r| r.1.clone()).collect::<Vec<_>>().join(", "))),
    ("message", "\"m $X|$Y|$Z|$W|$C\"".to_string()),
    ("fix", "\"bar($X, $W)\"".to_string()),
  ], rng);
  obj(&top)
}

const SRC1: &str = "foo(abc, x + 1);\nfoo(aXa, [x, 2, x]);\nfoo(b, 1);\nglob(1);\n";
const SRC2: &str = "let z = foo(a1, x);\nbaz(z);\nlegacy(api, FetchAll, \"users\");\n";

fn write_project(p: &Project, rng: &mut Rng, identity: bool) -> Vec<String> {
  p.config(Some(&json!({"utilDirs": ["utils"], "testConfigs": [{"testDir": "tests"}],
    "languageGlobs": {"javascript": ["*.x"], "typescript": ["*.x"], "tsx": ["*.x"], "css": ["*.x"]}})));
  // rule files: names decide the file order
  let names = if identity { vec!["a.yml", "b.yml", "c.yml", "d.yml"] } else { permute(&["a.yml", "b.yml", "c.yml", "d.yml"], rng) };
  // a second fixable rule that matches the very nodes r1 matches: which of the two fixes `-U` applies must not
  // depend on the order in which the rule files are read
  let r5 = r#"{"id": "r5", "language": "JavaScript", "severity": "warning", "message": "other", "rule": {"pattern": "foo($A, $B)"}, "fix": "other($B)"}"#;
  p.write(&format!("rules/{}", names[3]), r5.as_bytes());
  let r2 = r#"{"id": "r2", "language": "JavaScript", "severity": "error", "message": "g", "rule": {"all": [{"pattern": "$F(1)"}, {"matches": "gA"}]}, "fix": "one($F)"}"#;
  let r3 = r#"{"id": "r3", "language": "JavaScript", "severity": "hint", "message": "baz $A", "rule": {"pattern": "baz($A)"}}"#;
  let r1 = rule_r1(rng, identity);
  // a rule whose kinds come only through a utility that has both `all` and `any`
  let u4 = if identity { vec![0, 1, 2] } else { permute(&[0, 1, 2], rng) };
  let u4_items = [
    ("kE", r#"{"all": [{"regex": "^(foo|glob)"}], "any": [{"matches": "kC"}, {"matches": "kB"}]}"#.to_string()),
    ("kC", r#"{"kind": "call_expression"}"#.to_string()),
    ("kB", r#"{"any": [{"matches": "kC"}, {"kind": "string"}]}"#.to_string()),
  ];
  let u4_obj = obj(&u4.iter().map(|i| u4_items[*i].clone()).collect::<Vec<_>>());
  let r4 = format!(r#"{{"id": "r4", "language": "JavaScript", "severity": "warning", "message": "k", "rule": {{"matches": "kE"}}, "utils": {u4_obj}}}"#);
  p.write("rules/r4.yml", r4.as_bytes());
  // the object form of `fix` with several independent transformations: every variable of the template is a key of
  // `transform`, looked up in whatever order the map hands them out
  let t6 = if identity { vec![0, 1, 2, 3] } else { permute(&[0, 1, 2, 3], rng) };
  let t6_items = [
    ("OBJ", r#"{"convert": {"source": "$P", "toCase": "upperCase"}}"#.to_string()),
    ("FN", r#"{"convert": {"source": "$Q", "toCase": "lowerCase"}}"#.to_string()),
    ("ARG", r#"{"substring": {"source": "$R", "startChar": 1, "endChar": -1}}"#.to_string()),
    ("TAIL", r#"{"replace": {"source": "$R", "replace": "s", "by": "z"}}"#.to_string()),
  ];
  let t6_obj = obj(&t6.iter().map(|i| t6_items[*i].clone()).collect::<Vec<_>>());
  let r6 = format!(r#"{{"id": "r6", "language": "JavaScript", "severity": "warning", "message": "use $OBJ.$FN($ARG) $TAIL", "rule": {{"pattern": "legacy($P, $Q, $R)"}}, "transform": {t6_obj}, "fix": {{"template": "$OBJ.$FN($ARG)/$TAIL", "expandEnd": {{"regex": ";"}}}}}}"#);
  p.write("rules/r6.yml", r6.as_bytes());
  p.write(&format!("rules/{}", names[0]), r1.as_bytes());
  p.write(&format!("rules/{}", names[1]), r2.as_bytes());
  p.write(&format!("rules/{}", names[2]), r3.as_bytes());
  // global utilities that depend on each other
  let unames = if identity { vec!["g1.yml", "g2.yml"] } else { permute(&["g1.yml", "g2.yml"], rng) };
  p.write(&format!("utils/{}", unames[0]), br#"{"id": "gA", "language": "JavaScript", "rule": {"any": [{"matches": "gB"}, {"kind": "number"}]}}"#);
  p.write(&format!("utils/{}", unames[1]), br#"{"id": "gB", "language": "JavaScript", "rule": {"kind": "call_expression"}}"#);
  // a local utility that names another one inside a relational rule carrying more keys (`has: {field, regex, matches}`):
  // whichever of the two is built first, the reference finds its referent
  let u8o = if identity { vec![0, 1] } else { permute(&[0, 1], rng) };
  let u8_items = [
    ("vA", r#"{"kind": "call_expression", "has": {"field": "function", "regex": "^(glob|baz)", "matches": "vB"}}"#.to_string()),
    ("vB", r#"{"kind": "identifier"}"#.to_string()),
  ];
  let u8_obj = obj(&u8o.iter().map(|i| u8_items[*i].clone()).collect::<Vec<_>>());
  let r8 = format!(r#"{{"id": "r8", "language": "JavaScript", "severity": "info", "message": "callee", "rule": {{"matches": "vA"}}, "utils": {u8_obj}}}"#);
  p.write("rules/r8.yml", r8.as_bytes());
  // a global utility that reaches another one only through one of its LOCAL utilities, and a rule whose kinds come from
  // it alone: the order in which the global utilities are registered must not show
  p.write("utils/g3.yml", br#"{"id": "gC", "language": "JavaScript", "rule": {"matches": "loc"}, "utils": {"loc": {"any": [{"matches": "gB"}, {"kind": "string"}]}}}"#);
  p.write("rules/r7.yml", br#"{"id": "r7", "language": "JavaScript", "severity": "info", "message": "via gC", "rule": {"matches": "gC", "regex": "^(glob|baz)"}}"#);
  // a file claimed by the language globs of two languages, and one rule per language
  p.write("src/both.x", b"foo(a9, x);\n");
  p.write("rules/js-x.yml", br#"{"id": "only-js", "language": "JavaScript", "severity": "info", "message": "js", "rule": {"pattern": "foo($A, x)"}}"#);
  p.write("rules/ts-x.yml", br#"{"id": "only-ts", "language": "TypeScript", "severity": "info", "message": "ts", "rule": {"pattern": "foo($A, x)"}}"#);
  // several suppression comments that silence nothing: `scan -U` removes every one of them, whatever order the map of
  // unused suppressions hands them out in
  p.write("src/three.js", b"// ast-grep-ignore: r3\nkeep(1);\nkeep(2); // ast-grep-ignore\n// ast-grep-ignore: r2\nkeep(3);\nbaz(4);\nkeep(5); // ast-grep-ignore: r3\n// ast-grep-ignore\nkeep(6);\n");
  p.write("src/one.js", SRC1.as_bytes());
  p.write("src/two.js", SRC2.as_bytes());
  p.write("tests/r1-test.yml", br#"{"id": "r1", "valid": ["foo(b, 1)", "foo(aXa, [x, 2, x])"], "invalid": ["foo(abc, x + 1)", "foo(aXa, x)"]}"#);
  p.write("tests/r2-test.yml", br#"{"id": "r2", "valid": ["glob(2)"], "invalid": ["glob(1)"]}"#);
  names.iter().map(|s| s.to_string()).collect()
}

fn canon(stdout: &str) -> Vec<String> {
  let mut v: Vec<String> = json_lines(stdout)
    .iter()
    .map(|r| {
      format!("{}|{}|{}-{}|{}|{}|{}", r["ruleId"].as_str().unwrap_or(""), r["file"].as_str().unwrap_or(""),
        r["range"]["byteOffset"]["start"], r["range"]["byteOffset"]["end"], r["message"].as_str().unwrap_or(""),
        r["replacement"].as_str().unwrap_or("<none>"), r["severity"].as_str().unwrap_or(""))
    })
    .collect();
  v.sort();
  v
}

pub fn drive(seed: u64, out: &str, thorough: bool) {
  let mut rng = Rng::new(seed ^ 0xC13);
  let n_perms = if thorough { 16 } else { 5 };
  let n_procs = if thorough { 24 } else { 6 };
  let scratch = format!("/var/tmp/agv-c13-{}", std::process::id());
  let mut jobs = vec![];
  for perm in 0..n_perms {
    jobs.push((perm, rng.next()));
  }
  let recs = cli::par_map(&jobs, 6, |_, (perm, pseed)| {
    let mut prng = Rng::new(*pseed);
    let p = Project::new(&format!("{scratch}/p{perm}"));
    let names = write_project(&p, &mut prng, *perm == 0);
    let mut runs = vec![];
    for k in 0..n_procs {
      let trace = format!("{scratch}/t{perm}_{k}.ndjson");
      let _ = std::fs::remove_file(&trace);
      let o = run_sgv(&["scan", "--json=stream"], &p.root, None, 60, &[("AST_GREP_VERIF_TRACE", trace.as_str())]);
      let topo: Vec<Value> = if std::path::Path::new(&trace).exists() { util::read_ndjson(&trace).into_iter().filter(|e| e["ev"] == "topo_order").collect() } else { vec![] };
      let _ = std::fs::remove_file(&trace);
      runs.push(json!({"k": k, "exit": o.code, "out": canon(&o.stdout), "topo": topo}));
    }
    // snapshots: update, then verify; the snapshot files must not depend on the process
    let mut snaps = vec![];
    for _ in 0..2 {
      let _ = std::fs::remove_dir_all(format!("{}/tests/__snapshots__", p.root));
      let up = run_sgv(&["test", "-U"], &p.root, None, 60, &[]);
      let again = run_sgv(&["test"], &p.root, None, 60, &[]);
      let s1 = String::from_utf8_lossy(&p.read("tests/__snapshots__/r1-snapshot.yml")).to_string();
      let s2 = String::from_utf8_lossy(&p.read("tests/__snapshots__/r2-snapshot.yml")).to_string();
      snaps.push(json!({"update_exit": up.code, "verify_exit": again.code, "r1": s1, "r2": s2}));
    }
    // the fixes that `scan -U` applies (several rules fix the same nodes)
    let up = run_sgv(&["scan", "-U"], &p.root, None, 60, &[]);
    let updated = json!({"exit": up.code, "one": String::from_utf8_lossy(&p.read("src/one.js")).to_string(),
                         "two": String::from_utf8_lossy(&p.read("src/two.js")).to_string(),
                         "three": String::from_utf8_lossy(&p.read("src/three.js")).to_string()});
    p.remove();
    json!({"id": format!("perm{perm}"), "perm": perm, "rule_files": names, "runs": runs, "snaps": snaps, "updated": updated,
      "graphs": {"utils": {"uA": ["uB"], "uB": ["uC"], "uC": [], "uD": ["uA", "uC"], "uE": ["uC", "uB"], "uF": ["uC", "uG"], "uG": ["uH"], "uH": []},
                 "utils2": {"kE": ["kC", "kB"], "kC": [], "kB": ["kC"]},
                 "transform": {"X": ["Y"], "Y": ["Z"], "Z": ["A"], "W": ["B"]},
                 "globals": {"gA": ["gB"], "gB": []}}})
  });
  let _ = std::fs::remove_dir_all(&scratch);
  let mut w = NdWriter::new(out);
  let mut orders = std::collections::BTreeSet::new();
  for r in &recs {
    for run in r["runs"].as_array().unwrap() {
      for t in run["topo"].as_array().unwrap() {
        orders.insert(t["iter"].to_string());
      }
    }
    w.put(r);
  }
  let n = w.finish();
  util::summary(json!({"records": n, "permutations": n_perms, "processes_per_permutation": n_procs, "distinct_iteration_orders_observed": orders.len()}));
}
