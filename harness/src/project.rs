//! materialise small ast-grep projects on disk (sgconfig.yml, rule files, sources) for CLI-driven checks
use serde_json::Value;
use std::path::Path;

pub struct Project {
  pub root: String,
}

impl Project {
  pub fn new(root: &str) -> Self {
    let _ = std::fs::remove_dir_all(root);
    std::fs::create_dir_all(root).unwrap();
    Project { root: root.to_string() }
  }
  pub fn write(&self, rel: &str, content: &[u8]) {
    let p = Path::new(&self.root).join(rel);
    if let Some(d) = p.parent() {
      std::fs::create_dir_all(d).unwrap();
    }
    std::fs::write(p, content).unwrap();
  }
  /// sgconfig.yml with ruleDirs [rules] (+ extra top-level keys as JSON object)
  pub fn config(&self, extra: Option<&Value>) {
    let mut cfg = serde_json::json!({"ruleDirs": ["rules"]});
    if let Some(Value::Object(m)) = extra {
      for (k, v) in m {
        cfg[k] = v.clone();
      }
    }
    self.write("sgconfig.yml", serde_json::to_string(&cfg).unwrap().as_bytes());
  }
  /// a rule file; the rule is given as JSON (which is YAML)
  pub fn rule(&self, file: &str, rule: &Value) {
    self.write(&format!("rules/{file}"), serde_json::to_string(rule).unwrap().as_bytes());
  }
  pub fn read(&self, rel: &str) -> Vec<u8> {
    std::fs::read(Path::new(&self.root).join(rel)).unwrap_or_default()
  }
  pub fn remove(self) {
    let _ = std::fs::remove_dir_all(&self.root);
  }
}
