//! agverif: conformance harness binding the TLA+ specification in /verif/spec to the real ast-grep code.
pub mod proj;
pub mod util;
pub mod c19;
pub mod c20;
pub mod mrec;
pub mod c03;
pub mod rules;
pub mod cli;
pub mod c01;
pub mod fix;
pub mod c10;
pub mod project;
pub mod c14;
pub mod c15;
pub mod c16;
pub mod c17;
pub mod c18;
