//! C10 recorder: histories of edits applied through AstGrep::edit; after every step the document text
//! and a DFS dump (kind id, byte range) next to a fresh parse of the same text, plus the hook events
//! (accept_edit / tree_edit / reparse) of that step.  Judged by spec/trace/Trace_C10.tla.
use crate::c19::char_widths;
use crate::util::{self, NdWriter, Rng};
use ast_grep_core::source::Edit;
use ast_grep_core::{AstGrep, Language, StrDoc};
use ast_grep_language::SupportLang;
use serde_json::{json, Value};
use std::io::{Read, Seek, SeekFrom};

type G = AstGrep<StrDoc<SupportLang>>;

fn dump(g: &G) -> (Vec<Value>, bool) {
  let mut out = vec![];
  let mut err = false;
  fn rec(n: tree_sitter::Node, out: &mut Vec<Value>, err: &mut bool) {
    if n.is_error() || n.is_missing() {
      *err = true;
    }
    out.push(json!([n.kind_id(), n.start_byte(), n.end_byte()]));
    let mut c = n.walk();
    if c.goto_first_child() {
      loop {
        rec(c.node(), out, err);
        if !c.goto_next_sibling() {
          break;
        }
      }
    }
  }
  rec(g.root().get_ts_node(), &mut out, &mut err);
  (out, err)
}

fn bytes(s: &[u8]) -> Value {
  json!(s.iter().map(|b| *b as u32).collect::<Vec<_>>())
}

fn char_boundaries(s: &str) -> Vec<usize> {
  s.char_indices().map(|(i, _)| i).chain(std::iter::once(s.len())).collect()
}

/// one concrete edit of an abstract shape on the current text
fn concrete_edit(src: &str, shape: &Value, rng: &mut Rng, layout: bool) -> (usize, usize, String) {
  let bounds = char_boundaries(src);
  let line_starts: Vec<usize> = std::iter::once(0).chain(src.match_indices('\n').map(|(i, _)| i + 1)).filter(|&i| i <= src.len()).collect();
  let lines: Vec<&str> = src.split_inclusive('\n').collect();
  // layout-sensitive carriers get white-space insertions most of the time
  let kind = if layout && rng.chance(2, 3) { 6 } else { rng.below(12) };
  if kind >= 10 {
    // what is deleted ENDS with a character of several bytes (and the text goes on after it): a word whose last
    // letter is such a character is renamed or removed, or a run of 1-3 characters ending in one is cut out
    let cs: Vec<(usize, char)> = src.char_indices().collect();
    let mut words: Vec<(usize, usize)> = vec![];
    let mut i = 0;
    while i < cs.len() {
      if cs[i].1.is_alphanumeric() || cs[i].1 == '_' {
        let st = i;
        while i < cs.len() && (cs[i].1.is_alphanumeric() || cs[i].1 == '_') {
          i += 1;
        }
        if cs[i - 1].1.len_utf8() > 1 && i < cs.len() {
          words.push((cs[st].0, cs[i].0));
        }
      } else {
        i += 1;
      }
    }
    if !words.is_empty() && rng.chance(3, 4) {
      let (st, en) = *rng.pick(&words);
      let rep = *rng.pick(&["shop", "x", "qé", "v2"]);
      return (st, en - st, rep.to_string());
    }
    let ends: Vec<usize> = (1..cs.len()).filter(|&k| cs[k - 1].1.len_utf8() > 1).collect();
    if !ends.is_empty() {
      let k = *rng.pick(&ends);
      let back = 1 + rng.below(3).min(k - 1);
      let (st, en) = (cs[k - back].0, cs[k].0);
      let rep = *rng.pick(&["", "z", "é"]);
      return (st, en - st, rep.to_string());
    }
  }
  // whole-line operations and token renames keep most results error-free
  if kind < 3 && lines.len() >= 2 {
    let from = rng.below(lines.len());
    let at = *rng.pick(&line_starts);
    let mut l = lines[from].to_string();
    if !l.ends_with('\n') {
      l.push('\n');
    }
    return (at, 0, l);
  }
  if kind < 5 && lines.len() >= 3 {
    let k = rng.below(lines.len());
    return (line_starts[k], lines[k].len(), String::new());
  }
  if kind < 7 {
    // rename an identifier-like token
    let b = src.as_bytes();
    let idents: Vec<(usize, usize)> = {
      let mut v = vec![];
      let mut i = 0;
      while i < b.len() {
        if b[i].is_ascii_alphabetic() {
          let s = i;
          while i < b.len() && (b[i].is_ascii_alphanumeric() || b[i] == b'_') {
            i += 1;
          }
          v.push((s, i));
        } else {
          i += 1;
        }
      }
      v
    };
    if !idents.is_empty() {
      let (s, e) = *rng.pick(&idents);
      let name = *rng.pick(&["x", "renamed_é", "v2", "a"]);
      return (s, e - s, name.to_string());
    }
  }
  if kind == 6 {
    // white space inserted right after white space: harmless in most places, but layout matters after a line comment,
    // after `return`, and wherever indentation is syntax
    let spots: Vec<usize> = bounds.iter().copied().filter(|&b| b > 0 && b <= src.len() && src.as_bytes()[b - 1].is_ascii_whitespace()).collect();
    if !spots.is_empty() {
      let at = *rng.pick(&spots[..]);
      let ws = *rng.pick(&["  ", "\n", "\n  ", " ", "\t", "    "]);
      return (at, 0, ws.to_string());
    }
  }
  if kind == 7 && bounds.len() > 8 {
    // replace a short window W by W M W (or, when the text already has W M W, by W): what is deleted and what is
    // inserted share a head and a tail that overlap
    let i = rng.below(bounds.len() - 4);
    let l = 1 + rng.below(3);
    let (ws, we) = (bounds[i], bounds[(i + l).min(bounds.len() - 1)]);
    let w = &src[ws..we];
    if !w.is_empty() && !w.contains('\n') {
      let m = *rng.pick(&[", ", " + ", "", " b, c, "]);
      let grown = format!("{w}{m}{w}");
      if src[ws..].starts_with(&grown) && rng.chance(1, 2) {
        return (ws, grown.len(), w.to_string());
      }
      return (ws, w.len(), if rng.chance(1, 3) { format!("{grown}{m}{w}") } else { grown });
    }
  }
  if kind < 9 {
    // in-place replacement of the same length that changes what the text means: the edit moves nothing, but
    // the old tree must still be told (identifier <-> number, operator, keyword swaps)
    let b = src.as_bytes();
    let mut toks: Vec<(usize, usize, String)> = vec![];
    let mut i = 0;
    while i < b.len() {
      let c = b[i];
      if c.is_ascii_alphabetic() || c == b'_' {
        let st = i;
        while i < b.len() && (b[i].is_ascii_alphanumeric() || b[i] == b'_') {
          i += 1;
        }
        let w = &src[st..i];
        let rep = match w {
          "var" => "let".to_string(),
          "let" => "var".to_string(),
          "true" => "null".to_string(),
          "null" => "true".to_string(),
          _ => "7".repeat(w.len()),
        };
        toks.push((st, i, rep));
      } else if c.is_ascii_digit() {
        let st = i;
        while i < b.len() && b[i].is_ascii_digit() {
          i += 1;
        }
        toks.push((st, i, "k".repeat(i - st)));
      } else {
        if c == b'+' || c == b'-' {
          toks.push((i, i + 1, "*".to_string()));
        } else if c == b'*' {
          toks.push((i, i + 1, "+".to_string()));
        } else if c == b',' {
          toks.push((i, i + 1, ";".to_string()));
        }
        i += 1;
      }
    }
    if !toks.is_empty() {
      let (st, en, rep) = rng.pick(&toks[..]).clone();
      return (st, en - st, rep);
    }
  }
  let pos = if shape["atLineStart"] == true {
    *rng.pick(&line_starts)
  } else if shape["atEnd"] == true {
    src.len()
  } else {
    *rng.pick(&bounds)
  };
  let pos_idx = bounds.iter().position(|&b| b == pos).unwrap_or(0);
  let want_del = shape["del"].as_u64().unwrap_or(0) as usize;
  let del_chars = if shape["delNewline"] == true { 3 + rng.below(20) } else { want_del.min(2) };
  let end = bounds[(pos_idx + del_chars).min(bounds.len() - 1)];
  let ins = if shape["insNewline"] == true {
    rng.pick(&["\n", "\nfoo(1);\n", ";\n"]).to_string()
  } else if shape["ins"].as_u64().unwrap_or(0) == 0 {
    String::new()
  } else {
    rng.pick(&["x", "é", "🦀", " y ", "(1)"]).to_string()
  };
  (pos, end - pos, ins)
}

pub fn drive(vectors: Option<&str>, corpus: &str, seed: u64, out: &str, thorough: bool) {
  std::panic::set_hook(Box::new(|_| {}));
  let trace_path = format!("/var/tmp/agv-c10-{}.trace", std::process::id());
  let _ = std::fs::remove_file(&trace_path);
  std::env::set_var("AST_GREP_VERIF_TRACE", &trace_path);
  let mut rng = Rng::new(seed ^ 0xC10);
  let shapes: Vec<Value> = match vectors {
    Some(v) => {
      let mut all = util::read_ndjson(v);
      all.sort_by_key(|x| x.to_string());
      all.dedup();
      all
    }
    None => vec![json!({"atLineStart": false, "atEnd": false, "del": 1, "delNewline": false, "ins": 1, "insNewline": false})],
  };
  let mut sources: Vec<(SupportLang, String, String)> = vec![
    (SupportLang::JavaScript, "carrier1".into(), "let a = 1;\nfoo(a, b);\nlet é = [a, b];\n".into()),
    (SupportLang::JavaScript, "carrier2".into(), "function f(x) {\n  return x + 1;\n}\nf(2);\n".into()),
    (SupportLang::Python, "carrier3".into(), "def f(x):\n    return x + 1\n\nprint(f(2))\n".into()),
    (SupportLang::Python, "carrier5".into(), "if ready:\n  start()\nreport()\nfor x in y:\n    a = 1\n    b = 2\nc = 3\n".into()),
    (SupportLang::JavaScript, "carrier6".into(), "let n = 1; // then reset()\nfunction f() {\n  return x + 1;\n}\n".into()),
    (SupportLang::Rust, "carrier4".into(), "fn main() {\n    let s = \"é🦀\";\n    println!(\"{}\", s);\n}\n".into()),
    // words whose last letter takes several bytes, followed by more text
    (SupportLang::JavaScript, "carrier7".into(), "let café = 1;\nconsole.log(café, \"naïve é\", total);\n// commenté ici\nlet π = café + 1;\n".into()),
    (SupportLang::Python, "carrier8".into(), "π = 3\nnaïveté = π * 2\nprint(π, naïveté)  # commenté\n".into()),
    // a grammar whose scanner reads the COLUMN of a token (layout blocks opened in the middle of a line): an edit that moves
    // the rest of a line to another column without changing its bytes must still invalidate what follows on that line
    (SupportLang::Haskell, "carrier9".into(), "f = foo\n  bar   xx (do p\n               q)\n".into()),
    (SupportLang::Haskell, "carrier10".into(), "g x = case x of\n  1 -> a    (do b\n              c)\n  _ -> d\n".into()),
    (SupportLang::Haskell, "carrier11".into(), "f =\n  do a\n        b\n".into()),
  ];
  for (l, path, text) in util::corpus(corpus) {
    if path.contains("/c.") || (thorough && text.len() < 2500) {
      sources.push((l, path, text));
    }
  }
  let per_source_base = if thorough { 40 } else { 6 };
  let hist_len = if thorough { 3 } else { 2 };
  let mut w = NdWriter::new(out);
  let mut offset = 0u64;
  let (mut n_ok, mut n_err) = (0, 0);
  let mut langs = std::collections::BTreeSet::new();
  for (l, path, text) in &sources {
    // layout-sensitive carriers: every white-space insertion after a white-space character is tried as a first step
    let layout_src = path == "carrier5" || path == "carrier6";
    let mut planned: Vec<(usize, usize, String)> = vec![];
    if layout_src {
      for b in char_boundaries(text) {
        if b > 0 && b <= text.len() && text.as_bytes()[b - 1].is_ascii_whitespace() {
          for ws in ["  ", "\n", "\n  ", " ", "    "] {
            planned.push((b, 0, ws.to_string()));
          }
        }
      }
    }
    if path == "carrier9" || path == "carrier10" || path == "carrier11" {
      // lines joined: a line break (with some of the blanks behind it) removed, so that the removed range ends exactly at the
      // start of a line or inside its indentation
      let b0 = text.as_bytes();
      for at in 0..b0.len() {
        if b0[at] == b'\n' && at + 1 < b0.len() {
          planned.push((at, 1, String::new()));
          planned.push((at, 1, " ".to_string()));
          if b0[at + 1] == b' ' {
            planned.push((at, 2, String::new()));
          }
        }
      }
      // every run of blanks inside a line: k of them replaced by a line break and k blanks (and the plain insertions)
      let b = text.as_bytes();
      for at in 1..b.len() {
        if b[at - 1] == b' ' && b[at] == b' ' {
          for k in 1..=4usize {
            if at + k <= b.len() && b[at..at + k].iter().all(|c| *c == b' ') {
              planned.push((at, k, format!("\n{}", " ".repeat(k))));
            }
          }
          planned.push((at, 0, "\n   ".to_string()));
        }
      }
    }
    if path == "carrier7" || path == "carrier8" {
      // every word ending in a character of several bytes is renamed, as a first step
      let cs: Vec<(usize, char)> = text.char_indices().collect();
      let mut i = 0;
      while i < cs.len() {
        if cs[i].1.is_alphanumeric() {
          let st = i;
          while i < cs.len() && cs[i].1.is_alphanumeric() {
            i += 1;
          }
          if cs[i - 1].1.len_utf8() > 1 && i < cs.len() {
            planned.push((cs[st].0, cs[i].0 - cs[st].0, "shop".to_string()));
          }
        } else {
          i += 1;
        }
      }
    }
    let per_source = per_source_base + planned.len();
    for h in 0..per_source {
      let mut g = l.ast_grep(text);
      for step in 0..hist_len {
        let shape = rng.pick(&shapes).clone();
        let before = g.source().to_string();
        let (pos, del, ins) = if step == 0 && h < planned.len() { planned[h].clone() } else { concrete_edit(&before, &shape, &mut rng, layout_src) };
        let edit = Edit::<String> { position: pos, deleted_length: del, inserted_text: ins.as_bytes().to_vec() };
        let r = std::panic::catch_unwind(std::panic::AssertUnwindSafe(|| g.edit(edit).is_ok()));
        // hook events of this step
        let mut events = vec![];
        if let Ok(mut f) = std::fs::File::open(&trace_path) {
          let _ = f.seek(SeekFrom::Start(offset));
          let mut s = String::new();
          let _ = f.read_to_string(&mut s);
          offset += s.len() as u64;
          for line in s.lines() {
            if let Ok(v) = serde_json::from_str::<Value>(line) {
              events.push(v);
            }
          }
        }
        let Ok(true) = r else {
          w.put(&json!({"id": format!("{path}#h{h}s{step}"), "lang": util::lang_name(*l), "panic": true,
            "before": bytes(before.as_bytes()), "cw": char_widths(&before), "edit": {"pos": pos, "del": del, "ins": bytes(ins.as_bytes())},
            "after": [], "inc": [], "fresh": [], "fresh_error": true, "inc_error": false, "events": events, "text": before.chars().take(200).collect::<String>()}));
          break;
        };
        let after = g.source().to_string();
        let (inc, inc_err) = dump(&g);
        let fresh_g = l.ast_grep(&after);
        let (fresh, fresh_err) = dump(&fresh_g);
        if fresh_err {
          n_err += 1;
        } else {
          n_ok += 1;
        }
        langs.insert(util::lang_name(*l));
        w.put(&json!({"id": format!("{path}#h{h}s{step}"), "lang": util::lang_name(*l), "panic": false,
          "before": bytes(before.as_bytes()), "cw": char_widths(&before), "cwAfter": char_widths(&after),
          "edit": {"pos": pos, "del": del, "ins": bytes(ins.as_bytes())},
          "after": bytes(after.as_bytes()), "inc": inc, "fresh": fresh, "fresh_error": fresh_err, "inc_error": inc_err, "events": events,
          "text": before.chars().take(200).collect::<String>(), "ins_text": ins}));
      }
    }
  }
  let _ = std::fs::remove_file(&trace_path);
  let n = w.finish();
  util::summary(json!({"records": n, "error_free_results": n_ok, "results_with_syntax_errors": n_err, "languages": langs, "shapes": shapes.len()}));
}
