// Inventory module: café 中 edition
import Foundation

let tax = 0.2

enum Status {
    case empty
    case low(Int)
    case full(count: Int)
}

/// A single stock entry. Héllo 🦀
struct Item {
    let name: String
    var quantity: Int
    let price: Double

    var total: Double {
        return Double(quantity) * price
    }

    mutating func restock(_ n: Int = 1) {
        if n <= 0 {
            return
        }
        quantity += n
    }

    var status: Status {
        switch quantity {
        case 0:
            return .empty
        case let q where q > 10:
            return .full(count: q)
        default:
            return .low(quantity)
        }
    }
}

class FrenchDescriber {
    func describe(_ item: Item) -> String {
        switch item.status {
        case .empty:
            return item.name + ": vide"
        case .full(let count):
            return "\(item.name): plein (\(count))"
        case .low:
            return String(format: "%@ x%d = %.2f", item.name, item.quantity, item.total)
        }
    }
}

func sum(_ items: [Item], tax: Double) -> Double {
    var total = 0.0
    for item in items {
        total += item.total
    }
    return (total * (1 + tax) * 100).rounded() / 100
}

let banner = "héllo 🦀"; var shown = 0
var items = [
    Item(name: "crème", quantity: 3, price: 2.5),
    // comment between elements
    Item(name: "茶 中", quantity: 12, price: 0.75),
    Item(name: "crab 🦀", quantity: 1, price: /* price */ 19.99),
]
let codes: [String: Int] = ["fr": 33, "cn": 86]
let describer = FrenchDescriber()

items.sort { $0.total > $1.total }
items[0].restock(2); items[0].restock()

for (index, item) in items.enumerated() {
    print(index + 1, describer.describe(item)); shown += 1
}
let weights = [1, 2, 3, 5, 8]
var k = 0
while k < weights.count {
    if weights[k] % 2 != 0 {
        shown += weights[k] << 1
    }
    k += 1
}
let code = (codes["cn"] ?? 0) + (codes["fr"] ?? 0)
print("\(banner) total=\(sum(items, tax: tax)) shown=\(max(0, min(99, shown))) code=\(code)") // trailing comment
