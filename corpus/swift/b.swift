/* Result pipeline — style B: generics, extensions, closures, optionals, guard, defer, error handling; 2-space indent */
import Foundation

let labels = ["é", "中", "🦀"]

enum PipelineError: Error {
  case invalid(name: String)
  case failed(code: Int, reason: String)
}

protocol Stage {
  associatedtype Value
  var name: String { get }
  func run(_ input: Value) throws -> Value
}

struct MapStage<T>: Stage {
  let name: String
  let transform: (T) throws -> T

  func run(_ input: T) throws -> T {
    defer { print("done \(name)") }
    return try transform(input)
  }
}

final class Counter {
  private(set) var count = 0
  static let limit = 100

  func add(_ n: Int) -> Counter {
    count = min(count + n, Counter.limit)
    return self
  }
}

extension String {
  func shout(times: Int = 1) -> String {
    return self.uppercased() + String(repeating: "!", count: times)
  }

  var isWord: Bool {
    return !isEmpty && allSatisfy { $0.isLetter }
  }
}

func validate(_ name: String?) throws -> String {
  guard let name = name, !name.isEmpty else {
    throw PipelineError.invalid(name: "vide é")
  }
  guard name.isWord else {
    throw PipelineError.failed(code: 22, reason: "nom invalide 中: \(name)")
  }
  return name
}

func runAll<S: Stage>(_ stages: [S], seed: S.Value) -> Result<S.Value, Error> {
  var current = seed
  do {
    for stage in stages {
      current = try stage.run(current)
    }
    return .success(current)
  } catch {
    return .failure(error)
  }
}

func demo() -> Int {
  let stages = [
    MapStage<Int>(name: "double é", transform: { $0 * 2 }),
    MapStage<Int>(name: "décalage 中") { x in x + 3 },
  ]
  let counter = Counter(); var total = 0
  if case .success(let value) = runAll(stages, seed: 4) {
    total = counter.add(value).add(2).count
  }
  let words = ["crème", "茶", "crab 🦀", nil].compactMap { $0 }.filter { $0.count > 1 }.map { $0.shout(times: 2) }
  let lookup = Dictionary(uniqueKeysWithValues: words.map { ($0, $0.count ^ 0x0F) })
  let checked = try? validate(words.first) // trailing comment
  for n in stride(from: 10, to: 1, by: -3) where n % 2 == 0 {
    total += n
  }
  repeat { total -= 1 } while total > 50
  let tuple = (name: checked ?? labels[abs(total) % labels.count], score: lookup.values.max() ?? 0)
  return total + tuple.score + (tuple.name.isWord ? 1 : 0)
}
