// crlf file: café 中
let tag = "crab 🦀"

func add(_ a: Int, _ b: Int) -> Int {
    return a + b
}

var total = 0
for i in 0..<4 {
    total = add(total, i * 2)
}
if total > 5 {
    print(tag, total, [1, 2, 3])
}