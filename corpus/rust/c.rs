// crlf file: café 中
const TAG: &str = "crab 🦀";

fn add(a: i32, b: i32) -> i32 {
    a + b
}

fn main() {
    let mut total = 0;
    for i in 0..4 {
        total = add(total, i * 2);
    }
    if total > 5 {
        println!("{} {} {:?}", TAG, total, [1, 2, 3]);
    }
}