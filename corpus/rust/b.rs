/* Expression evaluator — style B: traits, generics, lifetimes, closures, macros, iterators, Result/Option */
#![allow(dead_code)]

use std::{collections::BTreeMap, error::Error, fmt::Debug, rc::Rc};

static LABELS: [&str; 3] = ["é", "中", "🦀"];

macro_rules! square {
    ($x:expr) => {
        $x * $x
    };
}

#[derive(Debug, Clone)]
enum Expr {
    Num(f64),
    Var(String),
    Add(Box<Expr>, Box<Expr>),
    Mul(Box<Expr>, Box<Expr>),
    Neg(Rc<Expr>),
}

#[derive(Debug)]
struct EvalError<'a> {
    name: &'a str,
    code: u8,
}

trait Pretty {
    fn pretty(&self) -> String;
}

impl Pretty for Expr {
    fn pretty(&self) -> String {
        use Expr::*;
        match self {
            Num(n) => n.to_string(),
            Var(v) => v.clone(),
            Add(a, b) => format!("({} + {})", a.pretty(), b.pretty()),
            Mul(a, b) => format!("{} * {}", a.pretty(), b.pretty()),
            Neg(e) => format!("-{}", e.pretty()),
        }
    }
}

fn eval<'a>(env: &BTreeMap<&'a str, f64>, expr: &'a Expr) -> Result<f64, EvalError<'a>> {
    Ok(match expr {
        Expr::Num(n) => *n,
        Expr::Var(v) => *env.get(v.as_str()).ok_or(EvalError { name: v, code: 2 })?,
        Expr::Add(a, b) => eval(env, a)? + eval(env, b)?,
        Expr::Mul(a, b) => eval(env, a)? * eval(env, b)?,
        Expr::Neg(e) => -eval(env, e)?,
    })
}

fn largest<T: PartialOrd + Copy, I>(items: I) -> Option<T>
where
    I: IntoIterator<Item = T>,
{
    items.into_iter().fold(None, |best, x| match best {
        Some(b) if b >= x => Some(b),
        _ => Some(x),
    })
}

pub fn run() -> Result<i64, Box<dyn Error>> {
    let label = "中 résumé"; let env: BTreeMap<_, _> = [("x", 2.0), ("y中", 3.5)].into();
    let exprs = vec![
        Expr::Add(Box::new(Expr::Num(1.0)), Box::new(Expr::Var("x".into()))),
        Expr::Mul(Box::new(Expr::Var("y中".into())), Box::new(Expr::Neg(Rc::new(Expr::Num(2.0))))),
        Expr::Var("z".to_owned()),
    ];
    let values: Vec<f64> = exprs.iter().filter_map(|e| eval(&env, e).ok()).collect();
    if let Some(max) = largest(values.iter().copied()) {
        println!("{label}: max={max:.1} {}", exprs[0].pretty()); // trailing comment
    } else if values.is_empty() {
        return Err("aucune valeur é".into());
    }
    let mut n = (0..3).fold(square!(3), |acc: i64, _| acc * 2 + 1) as u8 as i64;
    'outer: loop {
        for i in (1..=4).rev().step_by(2) {
            n -= i ^ 0x1;
            if n < 40 { break 'outer; }
        }
    }
    let tag = LABELS.iter().rev().nth(0).map_or("?", |s| s);
    Ok(n + tag.chars().count() as i64 + i64::from(b'\n') + "raw\u{e9}".len() as i64 + r#"q"q"#.len() as i64)
}
