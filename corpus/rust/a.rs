// Inventory module: café 中 edition
use std::collections::HashMap;
use std::fmt;

const TAX: f64 = 0.2;

/// A single stock entry. Héllo 🦀
#[derive(Debug, Clone, PartialEq)]
pub struct Item {
    pub name: String,
    pub quantity: u32,
    pub price: f64,
}

pub enum Status {
    Empty,
    Low(u32),
    Full { count: u32 },
}

impl Item {
    pub fn new(name: &str, quantity: u32, price: f64) -> Self {
        Item { name: name.to_string(), quantity, price }
    }

    pub fn total(&self) -> f64 {
        f64::from(self.quantity) * self.price
    }

    pub fn restock(&mut self, n: u32) -> &mut Self {
        if n > 0 { self.quantity += n; }
        self
    }

    pub fn status(&self) -> Status {
        match self.quantity {
            0 => Status::Empty,
            q if q > 10 => Status::Full { count: q },
            q => Status::Low(q),
        }
    }
}

impl fmt::Display for Item {
    fn fmt(&self, f: &mut fmt::Formatter<'_>) -> fmt::Result {
        write!(f, "{} x{} = {:.2}", self.name, self.quantity, self.total())
    }
}

fn sum(items: &[Item], tax: f64) -> f64 {
    let mut total = 0.0;
    for item in items {
        total += item.total();
    }
    (total * (1.0 + tax) * 100.0).round() / 100.0
}

fn describe(item: &Item) -> String {
    match item.status() {
        Status::Empty => format!("{}: vide", item.name),
        Status::Full { count } => format!("{}: plein ({})", item.name, count),
        Status::Low(_) => item.to_string(),
    }
}

fn main() {
    let banner = "héllo 🦀"; let mut shown = 0;
    let mut items = vec![
        Item::new("crème", 3, 2.5),
        // comment between elements
        Item::new("茶 中", 12, 0.75),
        Item::new("crab 🦀", 1, /* price */ 19.99),
    ];
    let codes: HashMap<&str, i32> = [("fr", 33), ("cn", 86)].into_iter().collect();

    items.sort_by(|a, b| b.total().partial_cmp(&a.total()).unwrap());
    items[0].restock(2).restock(1);

    for (index, item) in items.iter().enumerate() {
        println!("{} {}", index + 1, describe(item)); shown += 1;
    }
    let weights = [1, 2, 3, 5, 8];
    let mut k = 0;
    while k < weights.len() {
        if weights[k] % 2 == 0 { k += 1; continue; }
        shown += weights[k] << 1; k += 1;
    }
    println!("{} total={:.2} shown={} code={}", banner, sum(&items, TAX), shown.clamp(0, 99), codes["cn"] + codes["fr"]); // trailing comment
}
