fn main() {
    let a = r"";
    let b = f(r#""#, 1);
    let c = g("", b"");
}
