# crlf file: café 中
TAG = "crab 🦀"

def add(a, b)
  a + b
end

total = 0
4.times do |i|
  total = add(total, i * 2)
end
if total > 5
  puts "#{TAG} #{total}"
end
list = [1, 2, 3]