# frozen_string_literal: true
# Inventory module: café 中 edition
require "json"

module Shop
  TAX = 0.2

  class Item
    attr_reader :name, :price
    attr_accessor :quantity

    def initialize(name, quantity, price)
      @name = name
      @quantity = quantity
      @price = price
    end

    def total
      quantity * price
    end

    def restock(n = 1)
      return self if n <= 0
      @quantity += n
      self
    end

    def to_s
      format("%s x%d = %.2f", name, quantity, total)
    end
  end

  class Inventory
    include Enumerable

    def initialize(items = [])
      @items = items
    end

    def each(&block)
      @items.each(&block)
    end

    def total(tax = TAX)
      sum = 0.0
      each { |item| sum += item.total }
      (sum * (1 + tax)).round(2)
    end

    def describe(item)
      if item.quantity.zero?
        "#{item.name}: vide"
      elsif item.quantity > 10
        "#{item.name}: plein (#{item.quantity})"
      else
        item.to_s
      end
    end
  end
end

=begin
A block comment
spanning two lines: héllo 🦀
=end
banner = "héllo 🦀"; shown = 0
items = [
  Shop::Item.new("crème", 3, 2.5),
  # comment between elements
  Shop::Item.new("茶 中", 12, 0.75),
  Shop::Item.new("crab 🦀", 1, 19.99),
]
codes = { "fr" => 33, cn: 86, nested: { list: [1, 2, [3, 4]], flag: true, }, }

inventory = Shop::Inventory.new(items.sort_by { |i| -i.total })
inventory.first.restock(2).restock

inventory.each_with_index do |item, index|
  puts "#{index + 1} #{inventory.describe(item)}"; shown += 1
end

weights = [1, 2, 3, 5, 8]
k = 0
while k < weights.size
  shown += weights[k] << 1 unless weights[k].even?
  k += 1
end

puts format("%s total=%.2f shown=%d code=%d", banner, inventory.total, shown.clamp(0, 99), codes[:cn] + codes["fr"]) # trailing comment
puts JSON.generate({ banner: banner, names: inventory.map(&:name) })
