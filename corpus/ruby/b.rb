# Event bus — style B: blocks, procs, case/when, rescue, heredocs, symbols, ranges; 4-space indent
require 'logger'

LABELS = %w[é 中 🦀].freeze
RE_WORD = /\A[a-zé]+\d*\z/i

class BusError < StandardError
    attr_reader :code

    def initialize(message = "erreur é", code: 1)
        super(message)
        @code = code
    end
end

module Describable
    def label
        "#{self.class.name.downcase} 中 #{object_id % 100}"
    end
end

class Bus
    include Describable
    Handler = Struct.new(:callable, :once, :priority)

    @@instances = 0

    class << self
        def shared
            @shared ||= new
        end
    end

    def initialize(logger: Logger.new($stderr))
        @handlers = Hash.new { |hash, key| hash[key] = [] }
        @logger = logger
        @@instances += 1
    end

    def subscribe(topic, once: false, priority: 0, &block)
        raise ArgumentError, "bloc requis é" unless block_given?
        @handlers[topic] << Handler.new(block, once, priority)
        @handlers[topic].sort_by! { |h| -h.priority }
        self
    end

    def publish(topic, *args, **opts)
        results = []
        @handlers[topic].each do |handler|
            begin
                results << handler.callable.call(*args, **opts)
            rescue BusError, ArgumentError => e
                @logger.warn("échec 🦀: #{e.message}")
                next
            ensure
                @handlers[topic].delete(handler) if handler.once
            end
        end
        results.compact
    end
end

def classify(value)
    case value
    when nil then "rien"
    when Integer, Float
        value.negative? ? "négatif é" : "nombre #{value}"
    when RE_WORD then "mot 中 #{value.length}"
    when 1..5, Array
        "petit"
    else
        LABELS.last # default arm
    end
end

bus = Bus.shared; double = ->(x) { x * 2 }; square = proc { |x| x**2 }
bus.subscribe(:greet, priority: 2) { |name, n: 1| "héllo #{name} x#{square.call(n)}" }
   .subscribe(:greet, once: true) { |name, **| name.length > 3 ? name.upcase : nil }

replies = bus.publish(:greet, "crème", n: 3)
stats = replies.each_with_object({}) { |r, acc| acc[r.to_sym] = double.(r.length) % 7 }
text = <<~EOS
    résumé 中: #{replies.size} réponses
    score: #{stats.values.reduce(1, :*)}
EOS
count = 10
count -= 3 until count < 5
(1..3).step(2) { |i| count += i ^ 1 }
for w in %i[a b] do count += w.length end
puts text, classify(count), classify("mot2"), bus.label, stats.key?(:x) && !stats.empty? ? "x" : "y"
