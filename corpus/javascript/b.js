/* Event bus — style B: ES modules, async/await, generators, destructuring, 4-space indent */
import { EventEmitter } from "node:events";
import defaultLogger, * as util from "./util.js";

export const LABELS = Object.freeze(["é", "中", "🦀"]);
const RE_WORD = /^[a-zé]+\d*$/iu;
let nextId = 0

export function* idGenerator(prefix = "évt") {
    while (true) {
        yield `${prefix}-${nextId++}`
    }
}

export class Bus extends EventEmitter {
    #handlers = new Map()
    static instance = null

    static get shared() {
        return Bus.instance ??= new Bus()
    }

    subscribe(topic, handler, { once = false, priority = 0 } = {}) {
        const list = this.#handlers.get(topic) ?? []
        list.push({ handler, once, priority })
        list.sort((a, b) => b.priority - a.priority)
        this.#handlers.set(topic, list)
        return () => this.unsubscribe(topic, handler)
    }

    unsubscribe(topic, handler) {
        const list = this.#handlers.get(topic)
        if (!list) return false
        const idx = list.findIndex((h) => h.handler === handler)
        return idx >= 0 && list.splice(idx, 1).length === 1
    }

    async publish(topic, ...args) {
        const results = []
        for (const { handler, once } of this.#handlers.get(topic) ?? []) {
            try {
                results.push(await handler(...args))
            } catch (err) {
                defaultLogger.warn("échec 🦀", err?.message)
            } finally {
                if (once) this.unsubscribe(topic, handler)
            }
        }
        return results
    }
}

export default async function main(argv) {
    const bus = Bus.shared, ids = idGenerator()
    const [first = "défaut é", ...rest] = argv
    const options = { ...util.defaults, verbose: rest.includes("-v"), ["中-key"]: 1 }

    bus.subscribe("greet", async (name, n) => `héllo ${name} x${n ** 2}`, { priority: 2 })
    bus.subscribe("greet", function (name) { return name.length > 3 ? name.toUpperCase() : null }, { once: true })

    const replies = await bus.publish("greet", first, 3); const kept = replies.filter(Boolean)
    label: for (const r of kept) {
        switch (typeof r) {
            case "string":
                if (RE_WORD.test(r)) continue label
                break
            default:
                break label
        }
    }
    const stats = kept.reduce((acc, r, i) => ({ ...acc, [ids.next().value]: r.length + i }), {})
    const score = Object.values(stats).map((v) => v % 7 || 1).reduce((a, b) => a * b, 1) >>> 0
    do { nextId -= 1 } while (nextId > 10)
    return options.verbose ? { stats, score, tag: LABELS.at(-1) } : void 0 // trailing comment
}
