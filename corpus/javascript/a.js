// Inventory module: café 中 edition
"use strict";

const fs = require("fs");
const path = require("path");

const TAX = 0.2;
const banner = "héllo 🦀"; let shown = 0;

class Item {
  constructor(name, quantity, price) {
    this.name = name;
    this.quantity = quantity;
    this.price = price;
  }

  get total() {
    return this.quantity * this.price;
  }

  restock(n = 1) {
    if (n <= 0) return this;
    this.quantity += n;
    return this;
  }

  toString() {
    return `${this.name} x${this.quantity} = ${this.total.toFixed(2)}`;
  }
}

const items = [
  new Item("crème", 3, 2.5),
  // comment between elements
  new Item("茶 中", 12, 0.75),
  new Item("crab 🦀", 1, 19.99),
];

const codes = {
  fr: 33,
  "cn": 86,
  nested: { list: [1, 2, [3, 4]], flag: true, },
};

function sum(list, tax) {
  let total = 0;
  for (const it of list) {
    total += it.total;
  }
  return Math.round(total * (1 + tax) * 100) / 100;
}

function describe(item) {
  if (item.quantity === 0) {
    return item.name + ": vide";
  } else if (item.quantity > 10) {
    return item.name + ": plein (" + item.quantity + ")";
  }
  return String(item);
}

function clamp(value, lo, hi) {
  return value < lo ? lo : value > hi ? hi : value;
}

items.sort((a, b) => b.total - a.total);
items[0].restock(2).restock();

for (let i = 0; i < items.length; i++) {
  console.log(i + 1, describe(items[i])); shown++;
}

const weights = [1, 2, 3, 5, 8];
let k = 0;
while (k < weights.length) {
  if (weights[k] % 2 === 0) { k++; continue; }
  shown += weights[k] << 1; k += 1;
}

const out = path.join(__dirname, "out", /* file name */ "résumé-中.txt");
fs.writeFile(out, JSON.stringify({ banner, total: sum(items, TAX) }, null, 2), (err) => {
  if (err) throw err;
  console.log("%s shown=%d code=%d", banner, clamp(shown, 0, 99), codes.cn + codes["fr"]); // trailing comment
});

module.exports = { Item, sum, describe };
