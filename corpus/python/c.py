# crlf file: café 中
TAG = "crab 🦀"


def add(a, b):
    return a + b


total = 0
for i in range(4):
    total = add(total, i * 2)
if total > 5:
    print(TAG, total, [1, 2, 3])
else:
    pass