"""Async task runner — style B: decorators, generators, context managers, comprehensions, match."""
from __future__ import annotations

import asyncio
import contextlib
import functools
import re
from typing import Any, Callable, Iterator

LABELS = ("é", "中", "🦀")
RE_WORD = re.compile(r"^[a-zé]+\d*$", re.IGNORECASE | re.UNICODE)


class TaskError(Exception):
    def __init__(self, message: str, *, code: int = 1) -> None:
        super().__init__(message)
        self.code = code


def retry(times: int = 3, exceptions: tuple = (TaskError,)) -> Callable:
    def decorator(fn):
        @functools.wraps(fn)
        async def wrapper(*args, **kwargs):
            for attempt in range(1, times + 1):
                try:
                    return await fn(*args, **kwargs)
                except exceptions as exc:
                    if attempt == times:
                        raise TaskError(f"échec après {times} essais 🦀", code=exc.code) from exc
                    await asyncio.sleep(0.01 * 2 ** attempt)
        return wrapper
    return decorator


def chunks(seq: list, size: int) -> Iterator[list]:
    for start in range(0, len(seq), size):
        yield seq[start:start + size]


@contextlib.contextmanager
def section(title: str):
    print(f"--- {title} ---")
    try:
        yield title.upper()
    finally:
        print("--- fin é ---")


@retry(times=2)
async def fetch(name: str, delay: float = 0.0) -> dict[str, Any]:
    await asyncio.sleep(delay)
    if not RE_WORD.match(name):
        raise TaskError("nom invalide 中: " + name, code=22)
    return {"name": name, "size": len(name) ** 2, "tags": {*name[:2]}}


def classify(value: object) -> str:
    match value:
        case None:
            return "rien"
        case int(n) if n < 0:
            return "négatif é"
        case str() as s:
            return f"chaîne 中 {len(s)}"
        case [first, *rest]:
            return f"liste {first!r} +{len(rest)}"
        case {"name": name, **others}:
            return name + str(len(others))
        case _:
            return LABELS[-1]  # default arm


async def main(names: list[str]) -> int:
    label = "中 tâches"; done = 0
    with section(label) as heading, contextlib.suppress(KeyError):
        for batch in chunks(names, 2):
            results = await asyncio.gather(*(fetch(n) for n in batch), return_exceptions=True)
            done += sum(1 for r in results if not isinstance(r, Exception))
            sizes = {r["name"]: r["size"] for r in results if isinstance(r, dict)}
            print(heading, sizes, [classify(r) for r in results])
    squares = [x * y for x in range(3) for y in (1, 2) if x != y]
    total = functools.reduce(lambda a, b: a ^ b, squares, 0) if squares else -1
    assert total >= 0, "total négatif"
    return done + (total if (n := len(names)) > 2 else n)


if __name__ == "__main__":
    raise SystemExit(asyncio.run(main(["crème", "thé2", "bad name", "crab"])))
