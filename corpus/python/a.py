# Inventory module: café 中 edition
"""Tracks items and computes totals. Héllo 🦀"""
import json
import os.path
from dataclasses import dataclass, field
from typing import Dict, List, Optional

TAX = 0.2
banner = "héllo 🦀"; shown = 0


@dataclass
class Item:
    name: str
    quantity: int
    price: float
    tags: List[str] = field(default_factory=list)

    @property
    def total(self) -> float:
        return self.quantity * self.price

    def restock(self, n: int = 1) -> "Item":
        if n <= 0:
            return self
        self.quantity += n
        return self

    def __str__(self) -> str:
        return f"{self.name} x{self.quantity} = {self.total:.2f}"


items = [
    Item("crème", 3, 2.5),
    # comment between elements
    Item("茶 中", 12, 0.75, tags=["thé", "中"]),
    Item("crab 🦀", 1, 19.99),
]

codes: Dict[str, object] = {
    "fr": 33,
    "cn": 86,
    "nested": {"list": [1, 2, [3, 4]], "flag": True, "none": None},
}


def total(entries: List[Item], tax: float) -> float:
    result = 0.0
    for entry in entries:
        result += entry.total
    return round(result * (1 + tax), 2)


def describe(item: Item) -> str:
    if item.quantity == 0:
        return item.name + ": vide"
    elif item.quantity > 10:
        return "%s: plein (%d)" % (item.name, item.quantity)
    else:
        return str(item)


def clamp(value: int, lo: int, hi: int) -> int:
    return max(lo, min(hi, value))


def find(name: str) -> Optional[Item]:
    matches = [it for it in items if it.name == name and it.quantity > 0]
    return matches[0] if matches else None


items.sort(key=lambda it: it.total, reverse=True)
items[0].restock(2).restock()

for index, item in enumerate(items, start=1):
    print(index, describe(item)); shown += 1

weights = (1, 2, 3, 5, 8)
k = 0
while k < len(weights):
    if weights[k] % 2 == 0:
        k += 1
        continue
    shown += weights[k] << 1; k += 1

path = os.path.join("out", "résumé-中.json")
payload = json.dumps({"banner": banner, "total": total(items, TAX)}, indent=2, ensure_ascii=False)
print("%s shown=%d code=%d %s" % (banner, clamp(shown, 0, 99), codes["cn"] + codes["fr"], path), len(payload))  # trailing comment
