package tiny

// crlf file: café 中
object Tiny {
  val tag = "crab 🦀"

  def add(a: Int, b: Int): Int = a + b

  def main(args: Array[String]): Unit = {
    var total = 0
    for (i <- 0 until 4) {
      total = add(total, i * 2)
    }
    if (total > 5) {
      println(tag + total)
    }
  }
}