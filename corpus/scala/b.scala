/* Expression evaluator — style B: type classes, implicits, for-comprehensions, Either/Option, partial functions */
package infra.eval

import scala.util.{Failure, Success, Try}

sealed abstract class Expr
object Expr {
    final case class Num(value: Double) extends Expr
    final case class Var(name: String) extends Expr
    final case class Add(left: Expr, right: Expr) extends Expr
    final case class Mul(left: Expr, right: Expr) extends Expr
    final case class Neg(inner: Expr) extends Expr
}

trait Pretty[A] {
    def pretty(a: A): String
}

object Pretty {
    import Expr._

    implicit val exprPretty: Pretty[Expr] = new Pretty[Expr] {
        def pretty(e: Expr): String = e match {
            case Num(n) => n.toString
            case Var(v) => v
            case Add(a, b) => "(" + pretty(a) + " + " + pretty(b) + ")"
            case Mul(a, b) => pretty(a) + " * " + pretty(b)
            case Neg(x) => "-" + pretty(x)
        }
    }

    implicit val boolPretty: Pretty[Boolean] = (b: Boolean) => if (b) "vrai é" else "faux 中"

    implicit class PrettyOps[A](private val a: A) extends AnyVal {
        def show(implicit p: Pretty[A]): String = p.pretty(a)
    }
}

object Evaluator {
    import Expr._
    import Pretty._

    type Env = Map[String, Double]
    val Labels: Vector[String] = Vector("é", "中", "🦀")

    def eval(env: Env)(expr: Expr): Either[String, Double] = expr match {
        case Num(n) => Right(n)
        case Var(v) => env.get(v).toRight(s"variable inconnue é: $v")
        case Add(a, b) =>
            for {
                x <- eval(env)(a)
                y <- eval(env)(b)
            } yield x + y
        case Mul(a, b) => eval(env)(a).flatMap(x => eval(env)(b).map(_ * x))
        case Neg(e) => eval(env)(e).map(-_)
    }

    def safeDiv(a: Double, b: Double): Option[Double] = if (b == 0) None else Some(a / b)

    val halve: PartialFunction[Int, Int] = { case n if n % 2 == 0 => n / 2 }

    def sumAll[T](xs: T*)(implicit num: Numeric[T]): T = xs.foldLeft(num.zero)(num.plus)

    def run(): Int = {
        val label = "中 résumé"; val env: Env = Map("x" -> 2.0, "y中" -> 3.5)
        val exprs = List(Add(Num(1), Var("x")), Mul(Var("y中"), Neg(Num(2))), Var("z"))
        exprs.foreach { e =>
            eval(env)(e) match {
                case Left(err) => println("erreur 🦀: " + err)
                case Right(v) => println(s"${e.show} = $v") // trailing comment
            }
        }
        val ratios = List((1.0, 2.0), (3.0, 0.0), (9.0, 3.0)).flatMap { case (a, b) => safeDiv(a, b) }
        val parsed = Try("12é".toInt) match {
            case Success(n) => n
            case Failure(_: NumberFormatException) => -1
            case Failure(other) => throw other
        }
        val halves = (1 to 10).collect(halve).filter(_ > 1).toList
        val (small, big) = halves.partition(_ < 3)
        var i = 0
        do { i += 2 } while (i < big.size)
        lazy val total = sumAll(small: _*) + 6L.toInt + parsed
        println(s"$label ${true.show} ${ratios.max} ${Labels.last}")
        if (total > 5 && ratios.nonEmpty) total ^ 0x0F else try { i / 0 } catch { case _: ArithmeticException => i } finally { i = 0 }
    }
}
