// Inventory module: café 中 edition
package shop.inventory

import scala.collection.mutable
import scala.math.{max, min}

object Config {
  val Tax: Double = 0.2
  val Labels: List[String] = List("é", "中", "🦀")
}

sealed trait Status
case object Empty extends Status
case class Low(count: Int) extends Status
case class Full(count: Int) extends Status

/** A single stock entry. Héllo 🦀 */
case class Item(name: String, var quantity: Int, price: Double) {
  def total: Double = quantity * price

  def restock(n: Int = 1): Item = {
    if (n > 0) {
      quantity += n
    }
    this
  }

  def status: Status = quantity match {
    case 0 => Empty
    case q if q > 10 => Full(q)
    case q => Low(q)
  }

  override def toString: String = f"$name x$quantity = $total%.2f"
}

class Inventory(val items: mutable.Buffer[Item]) {
  def total(tax: Double = Config.Tax): Double = {
    var sum = 0.0
    for (item <- items) {
      sum += item.total
    }
    math.round(sum * (1 + tax) * 100) / 100.0
  }

  def describe(item: Item): String = item.status match {
    case Empty => item.name + ": vide"
    case Full(count) => s"${item.name}: plein ($count)"
    case Low(_) => item.toString
  }
}

object Main {
  def clamp(value: Int, lo: Int, hi: Int): Int = max(lo, min(hi, value))

  def main(args: Array[String]): Unit = {
    val banner = "héllo 🦀"; var shown = 0
    val inventory = new Inventory(mutable.Buffer(
      Item("crème", 3, 2.5),
      // comment between elements
      Item("茶 中", 12, 0.75),
      Item("crab 🦀", 1, /* price */ 19.99)
    ))
    val codes = Map("fr" -> 33, "cn" -> 86)

    val sorted = inventory.items.sortBy(i => -i.total)
    sorted.head.restock(2).restock()

    for ((item, index) <- sorted.zipWithIndex) {
      println(s"${index + 1} ${inventory.describe(item)}"); shown += 1
    }
    val weights = Array(1, 2, 3, 5, 8)
    var k = 0
    while (k < weights.length) {
      if (weights(k) % 2 != 0) {
        shown += weights(k) << 1
      }
      k += 1
    }
    val code = codes("cn") + codes.getOrElse("fr", 0)
    println(s"$banner total=${inventory.total()} shown=${clamp(shown, 0, 99)} code=$code") // trailing comment
  }
}
