module Tiny where

-- crlf file: café 中
add :: Int -> Int -> Int
add a b = a + b

tag :: String
tag = "crab 🦀"

main :: IO ()
main = do
  let total = foldr add 0 (map (* 2) [0 .. 3])
  if total > 5
    then putStrLn (tag ++ show total)
    else return ()