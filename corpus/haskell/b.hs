{-# LANGUAGE LambdaCase #-}
-- Expression evaluator — style B: type classes, Maybe/Either, let/in, operators
module Eval where

import Control.Monad (forM_, when, unless)
import Data.Maybe (fromMaybe, mapMaybe)

data Expr
    = Num Double
    | Var String
    | Add Expr Expr
    | Mul Expr Expr
    | Neg Expr
    deriving (Eq, Show)

newtype Env = Env [(String, Double)]

class Pretty a where
    pretty :: a -> String
    prettyList :: [a] -> String
    prettyList xs = unwords (map pretty xs)

instance Pretty Expr where
    pretty (Num n) = show n
    pretty (Var v) = v
    pretty (Add a b) = "(" ++ pretty a ++ " + " ++ pretty b ++ ")"
    pretty (Mul a b) = pretty a ++ " * " ++ pretty b
    pretty (Neg e) = "-" ++ pretty e

instance Pretty Bool where
    pretty True = "vrai é"
    pretty False = "faux 中"

infixl 6 |+|
(|+|) :: Expr -> Expr -> Expr
a |+| b = Add a b

lookupVar :: Env -> String -> Either String Double
lookupVar (Env bs) name =
    maybe (Left ("variable inconnue é: " ++ name)) Right (lookup name bs)

eval :: Env -> Expr -> Either String Double
eval _ (Num n) = Right n
eval env (Var v) = lookupVar env v
eval env (Add a b) = (+) <$> eval env a <*> eval env b
eval env (Mul a b) = do
    x <- eval env a
    y <- eval env b
    return (x * y)
eval env (Neg e) = negate <$> eval env e

simplify :: Expr -> Expr
simplify = \case
    Add (Num 0) e -> simplify e
    Mul (Num 1) e -> simplify e
    Mul (Num 0) _ -> Num 0
    Neg (Neg e) -> simplify e
    other -> other

safeDiv :: Double -> Double -> Maybe Double
safeDiv _ 0 = Nothing
safeDiv a b = Just (a / b)

labels :: [(Int, String)]
labels = zip [1 ..] ["é", "中", "🦀", "plain"]

run :: IO ()
run = do
    let env = Env [("x", 2.0), ("y中", 3.5)]; exprs = [Num 1 |+| Var "x", Mul (Var "y中") (Neg (Num 2)), Var "z"]
    forM_ exprs $ \e -> do
        let shown = pretty (simplify e)
        case eval env e of
            Left err -> putStrLn ("erreur 🦀: " ++ err)
            Right v -> putStrLn (shown ++ " = " ++ show v) -- trailing comment
    let ratios = mapMaybe (uncurry safeDiv) [(1, 2), (3, 0), (9, 3)]
        best = let m = maximum ratios in if m > 1 then m else fromMaybe 0 (safeDiv m 2)
    when (best > 2 && length ratios == 2) $ putStrLn (prettyList [True, False])
    unless (null labels) $ print (filter (odd . fst) labels, best `max` 1.5)
