-- Inventory module: café 中 edition
module Inventory
  ( Item (..)
  , total
  , describe
  , main
  ) where

import Data.List (sortBy, foldl')
import Data.Ord (comparing)
import qualified Data.Map as Map

{- A block comment
   spanning two lines: héllo 🦀 -}
data Item = Item
  { itemName :: String
  , quantity :: Int
  , price :: Double
  } deriving (Show, Eq)

data Status = Empty | Low Int | Full
  deriving (Show)

type Codes = Map.Map String Int

seed :: [Item]
seed =
  [ Item "crème" 3 2.5
  , Item "茶 中" 12 0.75 -- comment between elements
  , Item { itemName = "crab 🦀", quantity = 1, price = 19.99 }
  ]

total :: Double -> [Item] -> Double
total tax items = (1 + tax) * foldl' step 0 items
  where
    step acc it = acc + fromIntegral (quantity it) * price it

status :: Item -> Status
status it
  | q == 0 = Empty
  | q > 10 = Full
  | otherwise = Low q
  where
    q = quantity it

describe :: Item -> String
describe it = case status it of
  Empty -> itemName it ++ ": vide"
  Full -> itemName it ++ ": plein (" ++ show (quantity it) ++ ")"
  Low n -> itemName it ++ " x" ++ show n

restock :: String -> Int -> [Item] -> [Item]
restock name n = map bump
  where
    bump it =
      if itemName it == name
        then it { quantity = quantity it + n }
        else it

codes :: Codes
codes = Map.fromList [("fr", 33), ("cn", 86)]

clamp :: Int -> Int -> Int -> Int
clamp lo hi v = max lo (min hi v)

main :: IO ()
main = do
  let banner = "héllo 🦀"; items = restock "crème" 2 seed
      sorted = sortBy (comparing price) items
  mapM_ (putStrLn . describe) sorted
  let t = total 0.2 items -- trailing comment
      code = Map.findWithDefault 0 "cn" codes + clamp 0 50 (length items * 7)
  putStrLn (banner ++ " total=" ++ show t ++ " code=" ++ show code)
  print [x * y | x <- [1 .. 3], y <- [2, 4], x /= y]
  print (zipWith3 (\a b c -> a + b * c) [1, 2] [3, 4] [5, 6 :: Int])
