/* Typed event bus — style B: generics, mapped/conditional types, overloads, decorators, namespaces; 4-space indent */
export const LABELS = ["é", "中", "🦀"] as const
export type Label = (typeof LABELS)[number]

type Events = {
    greet: [name: string, times?: number]
    close: []
    error: [err: Error, code: number]
}

type Handler<A extends unknown[]> = (...args: A) => void | Promise<void>
type Nullable<T> = { [K in keyof T]?: T[K] | null }
type ElementOf<T> = T extends readonly (infer U)[] ? U : never
type Keys = keyof Events & string

declare function log(target: unknown, key: string, desc: PropertyDescriptor): void

abstract class Base<E extends Record<string, unknown[]>> {
    protected handlers = new Map<keyof E, Set<Handler<any>>>()
    abstract get size(): number

    on<K extends keyof E>(event: K, handler: Handler<E[K]>): () => boolean {
        const set = this.handlers.get(event) ?? new Set()
        set.add(handler)
        this.handlers.set(event, set)
        return () => set.delete(handler)
    }
}

export class Bus extends Base<Events> {
    private static instance?: Bus
    #closed = false

    static get shared(): Bus {
        return (Bus.instance ??= new Bus())
    }

    get size(): number {
        let n = 0
        this.handlers.forEach((set) => { n += set.size })
        return n
    }

    @log
    async emit<K extends Keys>(event: K, ...args: Events[K]): Promise<number> {
        if (this.#closed) throw new Error("bus fermé é")
        let called = 0
        for (const handler of this.handlers.get(event) ?? []) {
            try {
                await handler(...args); called++
            } catch (err: unknown) {
                const message = err instanceof Error ? err.message : String(err)
                console.warn("échec 🦀", message)
            } finally {
                if (event === "close") this.#closed = true
            }
        }
        return called
    }
}

export function parse(input: string): number
export function parse(input: string[], radix: number): number[]
export function parse(input: string | string[], radix = 10): number | number[] {
    return Array.isArray(input) ? input.map((s) => parseInt(s, radix)) : parseInt(input, radix)
}

namespace Util {
    export const isLabel = (value: unknown): value is Label => LABELS.includes(value as Label)
    export function assertNever(x: never): never { throw new Error(`inattendu 中: ${x}`) }
}

export default async function main(argv: string[]): Promise<Nullable<{ tag: ElementOf<typeof LABELS>; score: number }>> {
    const bus = Bus.shared, [first = "défaut é", ...rest] = argv
    const off = bus.on("greet", (name, times = 1) => { console.log(`héllo ${name} x${times ** 2}`) })
    bus.on("error", async (err, code) => void console.error(err.name, code! >>> 0))

    const called = await bus.emit("greet", first, rest.length); off()
    const numbers = parse(["ff", "10", "中"], 16).filter((n) => !Number.isNaN(n))
    const tuple: [string, number, boolean?] = [first, numbers.reduce((a, b) => a + b, 0)]
    let score = <number>tuple[1] % 7 || 1
    do { score += called } while (score < 5)
    const tag = Util.isLabel(first) ? first : LABELS[score % LABELS.length]
    return rest.includes("-v") ? { tag, score } : { tag: null, score: bus.size satisfies number } // trailing comment
}
