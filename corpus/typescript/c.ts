// crlf file: café 中
const tag: string = "crab 🦀";

function add(a: number, b: number): number {
  return a + b;
}

let total = 0;
for (let i = 0; i < 4; i++) {
  total = add(total, i * 2);
}
if (total > 5) {
  console.log(tag, total, [1, 2, 3]);
}
export { add };