// Inventory module: café 中 edition
import { readFileSync } from "fs";
import * as path from "path";

const TAX = 0.2;
const banner: string = "héllo 🦀"; let shown = 0;

export enum Status {
  Empty,
  Low,
  Full,
}

export class Item {
  constructor(
    public readonly name: string,
    public quantity: number,
    public readonly price: number,
  ) {}

  total(): number {
    return this.quantity * this.price;
  }

  restock(n: number = 1): this {
    if (n <= 0) return this;
    this.quantity += n;
    return this;
  }

  get status(): Status {
    if (this.quantity === 0) {
      return Status.Empty;
    } else if (this.quantity > 10) {
      return Status.Full;
    }
    return Status.Low;
  }

  toString(): string {
    return `${this.name} x${this.quantity} = ${this.total().toFixed(2)}`;
  }
}

const items: Item[] = [
  new Item("crème", 3, 2.5),
  // comment between elements
  new Item("茶 中", 12, 0.75),
  new Item("crab 🦀", 1, /* price */ 19.99),
];

const codes: Record<string, number> = { fr: 33, "cn": 86, };
const nested = { list: [1, 2, [3, 4]], flag: true, none: null as string | null };

function sum(list: readonly Item[], tax: number): number {
  let total = 0;
  for (const it of list) {
    total += it.total();
  }
  return Math.round(total * (1 + tax) * 100) / 100;
}

function describe(item: Item): string {
  switch (item.status) {
    case Status.Empty:
      return item.name + ": vide";
    case Status.Full:
      return `${item.name}: plein (${item.quantity})`;
    default:
      return String(item);
  }
}

items.sort((a, b) => b.total() - a.total());
items[0].restock(2).restock();

for (let i = 0; i < items.length; i++) {
  console.log(i + 1, describe(items[i])); shown++;
}
const weights: number[] = [1, 2, 3, 5, 8];
let k = 0;
while (k < weights.length) {
  if (weights[k] % 2 === 0) { k++; continue; }
  shown += weights[k] << 1; k += 1;
}
const file = path.join(__dirname, "out", "résumé-中.txt");
console.log("%s total=%d shown=%d code=%d", banner, sum(items, TAX), Math.min(shown, 99), codes.cn + codes["fr"], file, nested.flag); // trailing comment
export { sum, describe, readFileSync as read };
