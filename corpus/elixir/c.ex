# crlf file: café 中
defmodule Tiny do
  @tag "crab 🦀"

  def add(a, b), do: a + b

  def run(list) do
    total = Enum.reduce(list, 0, fn x, acc -> add(acc, x * 2) end)

    if total > 5 do
      IO.puts("#{@tag} #{total}")
    else
      :ok
    end
  end
end