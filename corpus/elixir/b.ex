# GenServer counter — style B: behaviours, protocols, with/try, sigils
defprotocol Describable do
  @doc "Returns a short label"
  def label(value)
end

defimpl Describable, for: Integer do
  def label(n), do: "entier é #{n}"
end

defimpl Describable, for: BitString do
  def label(s), do: "chaîne 中 " <> s
end

defmodule Counter.Server do
  use GenServer

  @type state :: %{count: non_neg_integer(), history: [integer()]}
  @words ~w(alpha bravo charlie)a
  @pattern ~r/^[a-zé]+\d*$/u

  # Client API

  def start_link(opts \\ []) do
    GenServer.start_link(__MODULE__, Keyword.get(opts, :initial, 0), name: __MODULE__)
  end

  def increment(by \\ 1), do: GenServer.cast(__MODULE__, {:increment, by})
  def value, do: GenServer.call(__MODULE__, :value)

  # Server callbacks

  @impl true
  def init(initial) do
    {:ok, %{count: initial, history: []}}
  end

  @impl true
  def handle_cast({:increment, by}, %{count: c, history: h} = state) do
    {:noreply, %{state | count: c + by, history: [by | h]}}
  end

  @impl true
  def handle_call(:value, _from, state), do: {:reply, state.count, state}

  def parse(input) do
    with {:ok, trimmed} <- trim(input),
         true <- Regex.match?(@pattern, trimmed),
         {n, ""} <- Integer.parse(String.replace(trimmed, ~r/\D/, "") <> "0") do
      {:ok, div(n, 10)}
    else
      false -> {:error, "format invalide é"}
      :error -> {:error, :nan}
      other -> {:error, other}
    end
  end

  defp trim(nil), do: {:error, :nil_input}
  defp trim(s) when is_binary(s), do: {:ok, String.trim(s)}

  def safe_div(a, b) do
    try do
      {:ok, a / b}
    rescue
      ArithmeticError -> {:error, "division par zéro 🦀"}
    after
      :ok
    end
  end

  def summarize(list) do
    {evens, odds} = Enum.split_with(list, &(rem(&1, 2) == 0))
    squares = for x <- evens, y <- [1, 2], x * y > 2, into: %{}, do: {x, x * x * y}
    label = "中 résumé"; total = Enum.reduce(odds, 0, &+/2)

    unless Enum.empty?(squares) do
      IO.inspect(squares, label: label)
    end

    <<head::binary-size(2), _rest::binary>> = "ok-🦀"
    [head, total, Describable.label(total), @words |> hd() |> Atom.to_string()]
  end
end
