# Inventory module: café 中 edition
defmodule Shop.Inventory do
  @moduledoc """
  Tracks items and computes totals. Héllo 🦀
  """

  alias Shop.Inventory.Item
  require Logger

  @default_tax 0.2
  @labels ["é", "中", "🦀"]

  defmodule Item do
    defstruct name: "", quantity: 0, price: 0.0
  end

  @spec new_item(String.t(), integer(), float()) :: %Item{}
  def new_item(name, quantity, price) when quantity >= 0 do
    %Item{name: name, quantity: quantity, price: price}
  end

  def seed do
    [
      new_item("crème", 3, 2.5),
      # comment between elements
      new_item("茶 中", 12, 0.75),
      new_item("crab 🦀", 1, 19.99),
    ]
  end

  def total(items, tax \\ @default_tax) do
    items
    |> Enum.map(fn %Item{quantity: q, price: p} -> q * p end)
    |> Enum.sum()
    |> Kernel.*(1 + tax)
    |> Float.round(2)
  end

  def describe(%Item{quantity: 0} = item), do: "#{item.name}: vide"

  def describe(%Item{name: name, quantity: q}) do
    cond do
      q > 10 -> "#{name}: plein (#{q})"
      q > 1 -> "#{name}: #{q}"
      true -> "#{name}: dernier é"
    end
  end

  def restock(items, name, amount) do
    Enum.map(items, fn item ->
      if item.name == name do
        %{item | quantity: item.quantity + amount}
      else
        item
      end
    end)
  end

  def report(items) do
    banner = "héllo 🦀"; count = length(items)
    codes = %{"fr" => 33, "cn" => 86, :other => nil}
    opts = [verbose: true, width: 80]

    for item <- items, item.quantity > 0 do
      Logger.info(describe(item)) # trailing comment
    end

    case Map.fetch(codes, "cn") do
      {:ok, code} when code > 50 -> IO.puts("#{banner} #{count} #{code}")
      {:ok, _} -> :small
      :error -> {:error, :missing}
    end

    String.pad_leading(Integer.to_string(count * 2 + 1), Keyword.get(opts, :width, 10), Enum.at(@labels, 0))
  end
end
