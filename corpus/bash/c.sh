#!/bin/sh
# crlf file 🦀
NAME="café"
greet() {
  echo "hello $1"
}
for i in 1 2 3; do
  greet "$NAME $i"
done
if [ -n "$NAME" ]; then
  echo "中 ok"
fi
echo done