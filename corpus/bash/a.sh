#!/usr/bin/env bash
# Deployment helper script: café edition
set -euo pipefail

GREETING="héllo 中文 🦀"; readonly GREETING
NAMES=("álpha" "bravo" "charlie 🦀")
declare -A PORTS=([web]=8080 [db]=5432 [cache]=6379)
COUNT=0

log() {
  local level="$1"; shift
  printf '%s [%s] %s\n' "$(date +%H:%M:%S)" "$level" "$*" >&2
}

die() { log "ERROR" "$@"; exit 1; }

usage() {
  cat <<EOF
Usage: $0 [-v] [-n name] target
  -v   verbose (détaillé)
  -n   name of the deploy
EOF
}

check_port() {
  local name="$1" port="$2"
  if [[ "$port" -gt 1024 && "$port" -lt 65536 ]]; then
    log "INFO" "port $name=$port ok"
    return 0
  elif [ "$port" -eq 0 ]; then
    log "WARN" "port $name is zero"
  else
    log "WARN" "port $name=$port is privileged"
    return 1
  fi
}

verbose=0
while getopts "vn:h" opt; do
  case "$opt" in
    v) verbose=1 ;;
    n) name="$OPTARG" ;;
    h | \?)
      usage
      exit 2
      ;;
  esac
done
shift $((OPTIND - 1))

for n in "${NAMES[@]}"; do
  COUNT=$((COUNT + 1)) # trailing comment 中
  echo "name #$COUNT: ${n^^}"
done

for key in "${!PORTS[@]}"; do
  check_port "$key" "${PORTS[$key]}" || log "WARN" "check failed for $key"
done

i=0
while [ "$i" -lt 3 ]; do
  echo "tick $i"; i=$((i + 1))
done

files=$(ls -1 /tmp 2>/dev/null | grep -c "log" || true)
if [ "$verbose" -eq 1 ] && [ -n "${name:-}" ]; then
  log "INFO" "deploy '${name}' with $files log files; greeting=$GREETING"
fi

result=$(printf '%s\n' "${NAMES[@]}" | sort -r | head -n 2 | tr '\n' ',')
echo "top: ${result%,}" > /dev/null
[[ "$GREETING" == *"中文"* ]] && echo "has chinese"
exit 0
