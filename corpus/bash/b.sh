#!/bin/sh
# Backup rotation — style B uses POSIX-ish constructs and pipelines
: "${BACKUP_DIR:=/var/backups}"
"é中-tool" --version 2>/dev/null || true
LABEL='sauvegardé 🦀'; MAX_KEEP=7; export LABEL MAX_KEEP

function cleanup {
    rm -rf "$TMPDIR_WORK"
    echo "cleaned up"
}
trap cleanup EXIT INT TERM

TMPDIR_WORK=$(mktemp -d)
today=`date +%Y-%m-%d`

rotate() (
    cd "$1" || exit 1
    ls -1t | tail -n +$((MAX_KEEP + 1)) | while read -r old; do
        rm -f -- "$old"
    done
)

archive() {
    src="$1"
    dest="$2"
    tar -czf "$dest/backup-$today.tar.gz" \
        --exclude='*.tmp' \
        --exclude='cache' \
        "$src" 2>>"$TMPDIR_WORK/errors.log"
}

until [ -d "$BACKUP_DIR" ]; do
    mkdir -p "$BACKUP_DIR" && break
    sleep 1
done

if archive "/etc" "$BACKUP_DIR"; then
    echo "archive ok: $LABEL"
else
    echo "archive failed" >&2
fi

{
    echo "report for $today"
    echo "label: $LABEL"
    wc -l < "$TMPDIR_WORK/errors.log"
} > "$TMPDIR_WORK/report.txt"

for f in "$BACKUP_DIR"/*.tar.gz; do
    [ -e "$f" ] || continue
    size=$(du -k "$f" | cut -f1)
    if [ "$size" -gt 1000000 ]; then echo "big: $f"; fi
done

case "$today" in
    *-01-01) echo "bonne année 中" ;;
    *-12-25 | *-12-24) echo "holiday" ;;
    *) : ;;
esac

rotate "$BACKUP_DIR" &
wait
n=0; for x in 1 2 3; do n=$((n + x * 2)); done; echo "$n"
test -s "$TMPDIR_WORK/report.txt" && cat "$TMPDIR_WORK/report.txt" | sed -e 's/^/> /' -e 's/é/e/g'
