cat <<EOT
EOT
f "" '' $''
g <<-X
X
echo ${a:-}
