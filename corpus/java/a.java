// Order processing: café 中 edition
package shop.orders;

import java.util.ArrayList;
import java.util.HashMap;
import java.util.List;
import java.util.Map;

/**
 * A simple order with line items. Héllo 🦀
 */
public class Order {
    public enum State { PENDING, PAID, SHIPPED, }

    public static class LineItem {
        final String name;
        final int quantity;
        final double unitPrice;

        LineItem(String name, int quantity, double unitPrice) {
            this.name = name;
            this.quantity = quantity;
            this.unitPrice = unitPrice;
        }

        double price() { return quantity * unitPrice; }

        @Override
        public String toString() {
            return String.format("%s x%d = %.2f", name, quantity, price());
        }
    }

    private static final double TAX = 0.2;
    private final List<LineItem> items = new ArrayList<>();
    private State state = State.PENDING;

    public void add(String name, int quantity, double unitPrice) {
        if (quantity <= 0) {
            throw new IllegalArgumentException("quantité invalide é: " + quantity);
        }
        items.add(new LineItem(name, quantity, unitPrice));
    }

    public double total() {
        double sum = 0.0;
        for (LineItem item : items) {
            sum += item.price();
        }
        return Math.round(sum * (1 + TAX) * 100.0) / 100.0;
    }

    public static void main(String[] args) {
        String banner = "héllo 🦀"; int shown = 0;
        Order order = new Order();
        order.add("crème brûlée", 2, 6.50);
        order.add("茶 中", 10, /* unit price */ 0.75);
        order.add("crab 🦀", 1, 19.99); // trailing comment

        Map<String, Integer> codes = new HashMap<>();
        codes.put("fr", 33); codes.put("cn", 86);
        int[] weights = {
            1, 2, 3,
            // comment between elements
            5, 8,
        };

        for (LineItem item : order.items) {
            System.out.println(item); shown++;
        }
        for (int i = 0; i < weights.length; i++) {
            if (weights[i] % 2 == 0) {
                continue;
            } else if (weights[i] > 4) {
                break;
            }
            shown += weights[i] << 1;
        }
        switch (order.state) {
            case PENDING:
                System.out.println("en attente é");
                break;
            default:
                System.out.println("autre");
        }
        System.out.printf("%s total=%.2f shown=%d code=%d%n", banner, order.total(), Math.min(Math.max(shown, 0), 99), codes.get("cn") + codes.get("fr"));
    }
}
