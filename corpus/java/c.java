package tiny;

// crlf file: café 中
public class Tiny {
    static int add(int a, int b) {
        return a + b;
    }

    public static void main(String[] args) {
        String tag = "crab 🦀";
        int total = 0;
        for (int i = 0; i < 4; i++) {
            total = add(total, i * 2);
        }
        if (total > 5) {
            System.out.println(tag + total);
        }
    }
}