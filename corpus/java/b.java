/* Generic repository — style B: interfaces, generics, lambdas, streams, records; 2-space indent */
package infra.repo;

import java.io.IOException;
import java.util.*;
import java.util.function.Function;
import java.util.function.Predicate;
import java.util.stream.Collectors;

interface Identified<K extends Comparable<K>> {
  K id();

  default String label() { return "id é " + id(); }
}

record User(Integer id, String name, int age) implements Identified<Integer> {
  User {
    if (age < 0) throw new IllegalArgumentException("âge négatif é");
  }
}

@FunctionalInterface
interface Visitor<T, R> {
  R visit(T value) throws IOException;
}

abstract class Repository<K extends Comparable<K>, V extends Identified<K>> {
  protected final Map<K, V> store = new TreeMap<>();
  private static final String[] LABELS = { "é", "中", "🦀" };

  public synchronized V save(V value) {
    store.put(value.id(), value);
    return value;
  }

  public Optional<V> find(K key) { return Optional.ofNullable(store.get(key)); }

  public <R> List<R> query(Predicate<? super V> filter, Function<? super V, ? extends R> mapper) {
    return store.values().stream()
        .filter(filter)
        .map(mapper)
        .collect(Collectors.toList());
  }

  abstract String describe(V value);

  static String labelAt(int i) { return LABELS[Math.floorMod(i, LABELS.length)]; }
}

final class UserRepository extends Repository<Integer, User> {
  @Override
  String describe(User u) {
    return u.age() >= 18 ? u.name() + " (adulte 中)" : u.name() + " (mineur)";
  }

  <R> R accept(User u, Visitor<User, R> visitor) {
    try {
      return visitor.visit(u);
    } catch (IOException | RuntimeException e) {
      System.err.println("échec 🦀: " + e.getMessage());
      return null;
    } finally {
      store.remove(-1);
    }
  }

  static int demo() {
    UserRepository repo = new UserRepository();
    repo.save(new User(1, "Zoé", 31)); repo.save(new User(2, "小明 中", 12));
    repo.save(new User(3, "Ferris 🦀", 8));
    List<String> names = repo.query(u -> u.age() < 18, User::name);
    var total = repo.query(u -> true, User::age).stream().mapToInt(Integer::intValue).sum(); // trailing comment
    String first = repo.find(1).map(repo::describe).orElse("?");
    Object o = names.size() > 1 ? (Object) first : Integer.valueOf(total);
    if (o instanceof String s && !s.isEmpty()) {
      total += s.length() ^ 0x0F;
    }
    int i = 0;
    do { total -= i; i += 2; } while (i < 6);
    char c = labelAt(total).charAt(0);
    long big = 1_000_000L * (c & 0xFF) >>> 3;
    return repo.accept(new User(4, "tmp", 0), u -> (int) (big % 7) + u.id());
  }
}
