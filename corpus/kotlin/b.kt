/* Result pipeline — style B: sealed classes, generics, extension functions, lambdas; 2-space indent */
package infra.pipeline

import java.io.IOException

sealed class Outcome<out T> {
  data class Ok<T>(val value: T) : Outcome<T>()
  data class Err(val message: String, val cause: Throwable? = null) : Outcome<Nothing>()
  object Pending : Outcome<Nothing>()
}

typealias Handler<T> = (T) -> Outcome<T>

object Labels {
  val all = listOf("é", "中", "🦀")
  fun at(i: Int): String = all[Math.floorMod(i, all.size)]
}

abstract class Stage<T>(val name: String) {
  abstract fun run(input: T): Outcome<T>

  open fun describe(): String = "étape $name"
}

class MapStage<T>(name: String, private val f: (T) -> T) : Stage<T>(name) {
  override fun run(input: T): Outcome<T> {
    return try {
      Outcome.Ok(f(input))
    } catch (e: IOException) {
      Outcome.Err("échec 🦀: ${e.message}", e)
    } finally {
      println("done $name")
    }
  }
}

fun <T> Outcome<T>.getOrElse(fallback: T): T = when (this) {
  is Outcome.Ok -> value
  is Outcome.Err -> fallback
  Outcome.Pending -> fallback
}

fun String.shout(times: Int = 1): String = this.uppercase() + "!".repeat(times)

fun <T> runAll(stages: List<Stage<T>>, seed: T): Outcome<T> {
  var current: Outcome<T> = Outcome.Ok(seed)
  for (stage in stages) {
    val value = when (val c = current) {
      is Outcome.Ok -> c.value
      else -> return c
    }
    current = stage.run(value)
  }
  return current
}

class Counter {
  var count = 0
    private set

  companion object {
    const val LIMIT = 100
    fun create(): Counter = Counter()
  }

  operator fun plusAssign(n: Int) { count = (count + n).coerceAtMost(LIMIT) }
}

fun demo(): Int {
  val stages = listOf(
    MapStage<Int>("double é") { it * 2 },
    MapStage<Int>("décalage 中") { x -> x + 3 },
  )
  val result = runAll(stages, 4).getOrElse(-1); val counter = Counter.create()
  counter += result
  val words = arrayOf("crème", "茶", "crab 🦀").filter { it.length > 1 }.map { it.shout(2) }
  val lookup = words.associateWith { w -> w.length xor 0x0F }
  val nullable: String? = if (result > 10) Labels.at(result) else null
  val len = nullable?.length ?: 0 // trailing comment
  var i = 0
  do { i += 2 } while (i < len + 4)
  for (n in 10 downTo 1 step 3) counter += n
  return counter.count + (lookup.values.maxOrNull() ?: 0) - i
}
