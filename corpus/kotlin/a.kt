// Inventory module: café 中 edition
package shop.inventory

import kotlin.math.max
import kotlin.math.min

const val TAX = 0.2

enum class Status { EMPTY, LOW, FULL }

data class Item(val name: String, var quantity: Int, val price: Double) {
    val total: Double
        get() = quantity * price

    fun restock(n: Int = 1): Item {
        if (n <= 0) return this
        quantity += n
        return this
    }
}

interface Describer {
    fun describe(item: Item): String
}

class FrenchDescriber : Describer {
    override fun describe(item: Item): String {
        return when (status(item)) {
            Status.EMPTY -> item.name + ": vide"
            Status.FULL -> "${item.name}: plein (${item.quantity})"
            else -> "${item.name} x${item.quantity}"
        }
    }
}

fun status(item: Item): Status {
    if (item.quantity == 0) {
        return Status.EMPTY
    } else if (item.quantity > 10) {
        return Status.FULL
    }
    return Status.LOW
}

fun sum(items: List<Item>, tax: Double): Double {
    var total = 0.0
    for (it in items) {
        total += it.total
    }
    return Math.round(total * (1 + tax) * 100) / 100.0
}

fun clamp(value: Int, lo: Int, hi: Int): Int = max(lo, min(hi, value))

fun main(args: Array<String>) {
    val banner = "héllo 🦀"; var shown = 0
    val items = mutableListOf(
        Item("crème", 3, 2.5),
        // comment between elements
        Item("茶 中", 12, 0.75),
        Item("crab 🦀", 1, /* price */ 19.99)
    )
    val codes = mapOf("fr" to 33, "cn" to 86)
    val describer = FrenchDescriber()

    items.sortByDescending { it.total }
    items[0].restock(2).restock()

    for ((index, item) in items.withIndex()) {
        println("${index + 1} ${describer.describe(item)}"); shown++
    }
    val weights = intArrayOf(1, 2, 3, 5, 8)
    var k = 0
    while (k < weights.size) {
        if (weights[k] % 2 == 0) { k++; continue }
        shown += weights[k] shl 1; k += 1
    }
    val code = (codes["cn"] ?: 0) + (codes["fr"] ?: 0)
    println("$banner total=${sum(items, TAX)} shown=${clamp(shown, 0, 99)} code=$code") // trailing comment
}
