package tiny

// crlf file: café 中
fun add(a: Int, b: Int): Int {
    return a + b
}

fun main() {
    val tag = "crab 🦀"
    var total = 0
    for (i in 0 until 4) {
        total = add(total, i * 2)
    }
    if (total > 5) {
        println(tag + total)
    }
}