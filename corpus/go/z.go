package main

var a = ``
var b = f(``, 1)
var c = g("", `x`)
