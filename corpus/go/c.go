package main

import "fmt"

// crlf file: café 中
func add(a, b int) int {
	return a + b
}

func main() {
	tag := "crab 🦀"
	total := 0
	for i := 0; i < 4; i++ {
		total = add(total, i*2)
	}
	if total > 5 {
		fmt.Println(tag, total)
	}
}