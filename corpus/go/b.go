/* Package pipeline — style B: generics, goroutines, channels, select, defer */
package pipeline

import (
	"context"
	"fmt"
	"sync"
	"time"
)

type Number interface {
	~int | ~int64 | ~float64
}

type Color int

const (
	Red Color = iota
	Green
	Blue
)

var names = [...]string{Red: "rouge é", Green: "绿 中", Blue: "blue 🦀"}

func (c Color) String() string { return names[c] }

func Map[T, U any](xs []T, f func(T) U) []U {
	out := make([]U, 0, len(xs))
	for _, x := range xs {
		out = append(out, f(x))
	}
	return out
}

func SumAll[T Number](xs ...T) (total T) {
	for i := range xs {
		total += xs[i]
	}
	return
}

func worker(ctx context.Context, id int, jobs <-chan int, results chan<- string, wg *sync.WaitGroup) {
	defer wg.Done()
	for {
		select {
		case j, ok := <-jobs:
			if !ok {
				return
			}
			results <- fmt.Sprintf("中 worker %d: %d", id, j*j)
		case <-ctx.Done():
			return
		case <-time.After(50 * time.Millisecond):
			continue
		}
	}
}

func Run(n int) (out []string, err error) {
	defer func() {
		if r := recover(); r != nil {
			err = fmt.Errorf("panique é: %v", r)
		}
	}()
	ctx, cancel := context.WithTimeout(context.Background(), time.Second)
	defer cancel()

	jobs, results := make(chan int, n), make(chan string, n)
	var wg sync.WaitGroup
	for id := 1; id <= 3; id++ {
		wg.Add(1)
		go worker(ctx, id, jobs, results, &wg)
	}
	for i := 0; i < n; i++ {
		jobs <- i
	}
	close(jobs); wg.Wait(); close(results)

	for r := range results {
		out = append(out, r)
	}
	doubled := Map([]int{1, 2, 3}, func(v int) float64 { return float64(v) * 2.5 })
	var any interface{} = SumAll(doubled...)
	if f, ok := any.(float64); ok && f > 10 {
		out = append(out, Blue.String()) // trailing comment
	}
	return out, nil
}
