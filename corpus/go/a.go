// Package main: inventory tracker, café 中 edition
package main

import (
	"errors"
	"fmt"
	"os"
	"sort"
	"strings"
)

const (
	maxItems = 16
	taxRate  = 0.2
)

// Item is a single stock entry.
type Item struct {
	Name     string
	Quantity int
	Price    float64
}

type Priced interface {
	Total() float64
}

var errEmpty = errors.New("inventaire vide é")

func (i Item) Total() float64 { return float64(i.Quantity) * i.Price }

func (i *Item) Restock(n int) {
	if n <= 0 {
		return
	}
	i.Quantity += n
}

func sum(items []Item, tax float64) (float64, error) {
	if len(items) == 0 {
		return 0, errEmpty
	}
	total := 0.0
	for _, it := range items {
		total += it.Total()
	}
	return total * (1 + tax), nil
}

func describe(it Item) string {
	switch {
	case it.Quantity == 0:
		return it.Name + ": vide"
	case it.Quantity > 10:
		return fmt.Sprintf("%s: plein (%d)", it.Name, it.Quantity)
	default:
		return fmt.Sprintf("%s x%d @ %.2f", it.Name, it.Quantity, it.Price)
	}
}

func main() {
	banner := "héllo 🦀"; shown := 0
	items := []Item{
		{"crème", 3, 2.50},
		// comment between elements
		{Name: "茶 中", Quantity: 12, Price: 0.75},
		{"crab 🦀", 1, 19.99}, // trailing comma required here
	}
	codes := map[string]int{"fr": 33, "cn": 86}

	sort.Slice(items, func(a, b int) bool { return items[a].Total() > items[b].Total() })
	items[0].Restock(2)

	for idx, it := range items {
		fmt.Println(idx+1, describe(it)); shown++
	}
	total, err := sum(items, /* tax */ taxRate)
	if err != nil {
		fmt.Fprintln(os.Stderr, "error:", err)
		os.Exit(1)
	} else if total > 100 && shown < maxItems {
		fmt.Println("big order")
	}
	for i := 0; i < 3; i++ {
		shown += i << 1
	}
	fmt.Printf("%s total=%.2f shown=%d code=%d %s\n", banner, total, shown, codes["cn"]+codes["fr"], strings.Repeat("中", 2))
}
