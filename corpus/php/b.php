<?php
/* Template helpers — style B: interfaces, traits, closures, match, heredoc, alt syntax; 2-space indent */
namespace App\View;

interface Renderable
{
  public function render(array $context = []): string;
}

trait Escapes
{
  protected function e(?string $value): string
  {
    return htmlspecialchars($value ?? '', ENT_QUOTES | ENT_HTML5, 'UTF-8');
  }
}

enum Level: string
{
  case Info = 'info';
  case Warn = 'avertissement é';
  case Error = 'erreur 🦀';
}

abstract class Widget implements Renderable
{
  use Escapes;

  public const LABELS = ['é', '中', '🦀'];

  abstract protected function body(array $context): string;

  public function render(array $context = []): string
  {
    $title = $context['title'] ?? 'sans titre é';
    $body = $this->body($context);
    return <<<HTML
      <section class="widget">
        <h2>{$this->e($title)}</h2>
        {$body}
      </section>
      HTML;
  }
}

final class ListWidget extends Widget
{
  protected function body(array $context): string
  {
    $rows = array_map(
      fn(string $item, int $i): string => sprintf('<li data-i="%d">%s</li>', $i, $this->e($item)),
      $context['items'] ?? [],
      array_keys($context['items'] ?? []),
    );
    return '<ul>' . implode("\n", $rows) . '</ul>';
  }
}

function classify(mixed $value): string
{
  return match (true) {
    is_null($value) => 'rien',
    is_int($value) && $value < 0 => 'négatif é',
    is_string($value) => "chaîne 中 " . mb_strlen($value),
    $value instanceof Level => $value->value,
    default => Widget::LABELS[2], // default arm
  };
}

$label = "中 liste"; $widget = new ListWidget(); $count = 0;
try {
  $html = $widget->render(['title' => $label, 'items' => ['crème', '茶', 'crab 🦀']]);
  $count += substr_count($html, '<li') ** 2;
} catch (\Throwable $e) {
  error_log('échec: ' . $e->getMessage());
} finally {
  $count ??= 0;
}
[$first, , $third] = Widget::LABELS;
$i = 0;
while ($i < 3): $count += $i ^ 1; $i++; endwhile;
do { $count--; } while ($count > 20);
if ($count % 2 == 0):
  echo classify($count), $first . $third;
else:
  echo classify(Level::Error);
endif;
