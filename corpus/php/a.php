<?php
// Order processing: café 中 edition
declare(strict_types=1);

namespace Shop\Orders;

use InvalidArgumentException;

const TAX = 0.2;

/**
 * A single line item. Héllo 🦀
 */
class LineItem
{
    public function __construct(
        public string $name,
        public int $quantity,
        public float $unitPrice,
    ) {
    }

    public function price(): float
    {
        return $this->quantity * $this->unitPrice;
    }

    public function __toString(): string
    {
        return sprintf("%s x%d = %.2f", $this->name, $this->quantity, $this->price());
    }
}

class Order
{
    /** @var LineItem[] */
    private array $items = [];
    protected static int $created = 0;

    public function add(string $name, int $quantity, float $unitPrice): self
    {
        if ($quantity <= 0) {
            throw new InvalidArgumentException("quantité invalide é: {$quantity}");
        }
        $this->items[] = new LineItem($name, $quantity, $unitPrice);
        self::$created++;
        return $this;
    }

    public function total(float $tax = TAX): float
    {
        $sum = 0.0;
        foreach ($this->items as $item) {
            $sum += $item->price();
        }
        return round($sum * (1 + $tax), 2);
    }

    public function items(): array
    {
        return $this->items;
    }
}

$banner = "héllo 🦀"; $shown = 0;
$order = new Order();
$order->add("crème brûlée", 2, 6.50)
      ->add("茶 中", 10, /* unit price */ 0.75)
      ->add('crab 🦀', 1, 19.99); // trailing comment

$codes = [
    'fr' => 33,
    // comment between elements
    'cn' => 86,
    'nested' => ['list' => [1, 2, [3, 4]], 'flag' => true],
];

foreach ($order->items() as $index => $item) {
    echo ($index + 1) . ". " . $item . PHP_EOL; $shown++;
}
for ($i = 0; $i < 5; $i++) {
    if ($i % 2 === 0) {
        continue;
    } elseif ($i > 3) {
        break;
    }
    $shown += $i << 1;
}
printf("%s total=%.2f shown=%d code=%d\n", $banner, $order->total(), max(0, min(99, $shown)), $codes['cn'] + $codes["fr"]);
