<?php
// crlf file: café 中
function add(int $a, int $b): int
{
    return $a + $b;
}

$tag = "crab 🦀";
$total = 0;
for ($i = 0; $i < 4; $i++) {
    $total = add($total, $i * 2);
}
if ($total > 5) {
    echo $tag . $total, PHP_EOL;
}
$list = [1, 2, 3];