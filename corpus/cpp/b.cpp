/* Matrix utilities — style B: templates, operators, enum class */
#include <array>
#include <cstdint>
#include <optional>
#include <stdexcept>
#include <string>
#include <tuple>
#include <utility>

enum class Color : std::uint8_t { Red, Green, Blue, };

struct Vec2 {
  double x{0}, y{0};
  Vec2 operator+(const Vec2 &o) const { return {x + o.x, y + o.y}; }
  Vec2 &operator*=(double k) { x *= k; y *= k; return *this; }
  bool operator==(const Vec2 &o) const noexcept { return x == o.x && y == o.y; }
};

template <typename T, std::size_t N>
class Matrix {
public:
  using Row = std::array<T, N>;

  Matrix() : data_{} {}

  T &at(std::size_t r, std::size_t c) {
    if (r >= N || c >= N) {
      throw std::out_of_range("index hors limites é");
    }
    return data_[r][c];
  }

  static Matrix identity() {
    Matrix m;
    for (std::size_t i = 0; i < N; ++i) m.data_[i][i] = T{1};
    return m;
  }

  template <typename F>
  void each(F &&fn) const {
    for (const auto &row : data_)
      for (const auto &cell : row) fn(cell);
  }

private:
  std::array<Row, N> data_;
};

static const char *color_name(Color c) {
  switch (c) {
  case Color::Red: return "rouge é";
  case Color::Green: return "绿 中";
  case Color::Blue: return "blue 🦀";
  }
  return "?";
}

std::optional<std::pair<int, std::string>> find_label(int key) {
  static const std::tuple<int, const char *> table[] = {
    {1, "un é"}, {2, "deux 中"}, /* gap */ {5, "cinq"},
  };
  for (const auto &[k, v] : table) {
    if (k == key) return std::make_pair(k, std::string(v));
  }
  return std::nullopt;
}

int compute() {
  auto m = Matrix<int, 3>::identity();
  m.at(0, 2) = 7; m.at(1, 0) = -4;
  int sum = 0;
  m.each([&sum](int v) { sum += v; });
  Vec2 a{1.0, 2.0}, b{0.5, -2.0};
  Vec2 c = a + b; c *= 2.0; // trailing comment
  try {
    m.at(3, 3) = 1;
  } catch (const std::out_of_range &e) {
    sum -= static_cast<int>(std::string(e.what()).size() % 3);
  }
  if (auto hit = find_label(sum % 6); hit.has_value()) {
    sum += hit->first;
  }
  return c == Vec2{3.0, 0.0} ? sum : (color_name(Color::Blue)[0] != 'b');
}
