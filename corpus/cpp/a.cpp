// Shapes registry: café 中 edition
#include <algorithm>
#include <iostream>
#include <map>
#include <memory>
#include <string>
#include <vector>

namespace geometry {

constexpr double kPi = 3.14159265358979;

class Shape {
public:
    explicit Shape(std::string name) : name_(std::move(name)) {}
    virtual ~Shape() = default;
    virtual double area() const = 0;
    const std::string &name() const { return name_; }

protected:
    std::string name_;
};

class Circle final : public Shape {
public:
    Circle(std::string name, double r) : Shape(std::move(name)), radius_(r) {}
    double area() const override { return kPi * radius_ * radius_; }

private:
    double radius_;
};

class Rect : public Shape {
public:
    Rect(std::string name, double w, double h)
        : Shape(std::move(name)), w_(w), h_(h) {}
    double area() const override { return w_ * h_; }

private:
    double w_, h_;
};

template <typename T>
T clamp(T value, T lo, T hi) {
    return value < lo ? lo : (value > hi ? hi : value);
}

} // namespace geometry

int main() {
    using namespace geometry;
    const std::string banner = "héllo 🦀"; int count = 0;
    std::vector<std::unique_ptr<Shape>> shapes;
    shapes.push_back(std::make_unique<Circle>("cercle é", 1.5));
    shapes.push_back(std::make_unique<Rect>("方 中", 2.0, /* height */ 3.0));
    shapes.push_back(std::make_unique<Rect>("crab 🦀", 4.0, 0.5));

    std::map<std::string, int> tally{
        {"small", 0},
        // comment between elements
        {"large", 0},
    };

    std::sort(shapes.begin(), shapes.end(),
              [](const auto &a, const auto &b) { return a->area() < b->area(); });

    for (const auto &s : shapes) {
        double a = s->area();
        if (a < 3.0) {
            tally["small"]++;
        } else {
            tally["large"] += 1;
        }
        std::cout << s->name() << ": " << clamp(a, 0.0, 100.0) << '\n'; ++count; // trailing
    }
    auto total = [&shapes](double init) {
        for (auto &s : shapes) init += s->area();
        return init;
    }(0.0);
    std::cout << banner << " total=" << total << " n=" << count << std::endl;
    return tally["small"] + tally["large"] == count ? 0 : 1;
}
