#include <iostream>
#include <string>
#include <vector>

// crlf file: café 中
struct Point {
    int x, y;
    int sum() const { return x + y; }
};

int main() {
    std::vector<Point> pts{{1, 2}, {3, 4}};
    std::string tag = "crab 🦀";
    int total = 0;
    for (const auto &p : pts) {
        total += p.sum();
    }
    if (total > 3) std::cout << tag << total << "\n";
    return 0;
}