const char *a = R"()";
auto b = f(R"()", 1);
auto c = g(R"x()x", R"(q)");
std::string s = "";
