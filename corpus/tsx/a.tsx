// Inventory view: café 中 edition
import React, { useEffect, useMemo, useState } from "react";
import type { ReactNode } from "react";

const TAX = 0.2;
const banner = "héllo 🦀"; let renders = 0;

interface Item {
  id: number;
  name: string;
  quantity: number;
  price: number;
  tags?: string[];
}

type Status = "empty" | "low" | "full";

interface RowProps {
  item: Item;
  selected: boolean;
  onSelect: (id: number) => void;
  children?: ReactNode;
}

const seed: Item[] = [
  { id: 1, name: "crème", quantity: 3, price: 2.5 },
  // comment between elements
  { id: 2, name: "茶 中", quantity: 12, price: 0.75, tags: ["thé", "中"] },
  { id: 3, name: "crab 🦀", quantity: 1, price: /* price */ 19.99, },
];

function status(item: Item): Status {
  if (item.quantity === 0) {
    return "empty";
  } else if (item.quantity > 10) {
    return "full";
  }
  return "low";
}

function total(items: Item[], tax: number): number {
  let sum = 0;
  for (const item of items) {
    sum += item.quantity * item.price;
  }
  return Math.round(sum * (1 + tax) * 100) / 100;
}

function Row({ item, selected, onSelect, children }: RowProps) {
  const label = `${item.name} x${item.quantity}`;
  return (
    <li
      className={selected ? "row selected" : "row"}
      data-status={status(item)}
      onClick={() => onSelect(item.id)}
    >
      <span title="nom é">{label}</span> <em>{(item.quantity * item.price).toFixed(2)}</em>
      {item.tags && item.tags.length > 0 ? <small>{item.tags.join(", ")}</small> : null}
      {children}
    </li>
  );
}

export default function Inventory({ title = "Inventaire 中" }: { title?: string }) {
  const [items, setItems] = useState<Item[]>(seed);
  const [selected, setSelected] = useState<number | null>(null);
  const sum = useMemo(() => total(items, TAX), [items]);

  useEffect(() => {
    renders += 1; document.title = `${banner} (${renders})`;
  }, [items, selected]);

  const restock = (id: number, n = 1) =>
    setItems((prev) => prev.map((it) => (it.id === id ? { ...it, quantity: it.quantity + n } : it)));

  return (
    <section id="inventory">
      {/* header comment */}
      <h1>{title} — {banner}</h1>
      <ul>
        {items.map((item) => (
          <Row key={item.id} item={item} selected={item.id === selected} onSelect={setSelected}>
            <button type="button" disabled={item.quantity > 10} onClick={() => restock(item.id, 2)}>+2 é</button>
          </Row>
        ))}
      </ul>
      <p>Total: <strong>{sum}</strong> {sum > 20 && <span>grosse commande 🦀</span>}</p>
    </section>
  ); // trailing comment
}
