// crlf file: café 中
import React from "react";

interface Props {
  name: string;
  count?: number;
}

export function Badge({ name, count = 0 }: Props) {
  const tag = "crab 🦀";
  const total = count * 2 + 1;
  return (
    <span className="badge" title={tag}>
      {name}: {total > 5 ? <b>{total}</b> : total}
    </span>
  );
}