/* Form widgets — style B: generics, class components, context, reducers, fragments; 4-space indent */
import * as React from "react";

export const LABELS = ["é", "中", "🦀"] as const;
type Label = (typeof LABELS)[number];

enum Level { Info = "info", Warn = "avertissement é", Error = "erreur 🦀" }

type Action =
    | { type: "set"; field: string; value: string }
    | { type: "reset" }
    | { type: "error"; level: Level; message?: string };

interface FormState {
    values: Record<string, string>;
    errors: Array<{ level: Level; message: string }>;
}

const ThemeContext = React.createContext<{ accent: string; label: Label }>({ accent: "#e4572e", label: "中" });

function reducer(state: FormState, action: Action): FormState {
    switch (action.type) {
        case "set":
            return { ...state, values: { ...state.values, [action.field]: action.value } };
        case "error":
            return { ...state, errors: [...state.errors, { level: action.level, message: action.message ?? "inconnu é" }] };
        case "reset":
        default:
            return { values: {}, errors: [] };
    }
}

function Select<T extends string | number>(props: { options: readonly T[]; value: T; onChange(value: T): void }) {
    const { options, value, onChange } = props;
    return (
        <select value={String(value)} onChange={(e) => onChange(options[e.target.selectedIndex] as T)}>
            {options.map((opt, i) => <option key={i} value={String(opt)}>{opt}</option>)}
        </select>
    );
}

class ErrorBoundary extends React.Component<React.PropsWithChildren<{ fallback: React.ReactNode }>, { failed: boolean }> {
    state = { failed: false };

    static getDerivedStateFromError(): { failed: boolean } {
        return { failed: true };
    }

    render() {
        return this.state.failed ? this.props.fallback : this.props.children;
    }
}

const Field: React.FC<{ name: string; label: string; dispatch: React.Dispatch<Action> }> = ({ name, label, dispatch }) => {
    const theme = React.useContext(ThemeContext);
    const ref = React.useRef<HTMLInputElement>(null);
    return (
        <>
            <label htmlFor={name} style={{ color: theme.accent, fontWeight: 600 }}>{label} {theme.label}</label>
            <input id={name} ref={ref} placeholder="saisir é…" onChange={(e) => dispatch({ type: "set", field: name, value: e.target.value })} />
        </>
    );
};

export function Form(): JSX.Element {
    const [state, dispatch] = React.useReducer(reducer, { values: {}, errors: [] });
    const [choice, setChoice] = React.useState<Label>("é"); const count = Object.keys(state.values).length;
    const submit = async (ev: React.FormEvent<HTMLFormElement>) => {
        ev.preventDefault();
        if (count < 2 || !state.values["nom"]?.trim()) {
            dispatch({ type: "error", level: Level.Warn, message: `champs manquants 中: ${2 - count}` }); return;
        }
        await fetch("/api/submit", { method: "POST", body: JSON.stringify(state.values) });
    };
    return (
        <ErrorBoundary fallback={<p className="error">Oups 🦀</p>}>
            <ThemeContext.Provider value={{ accent: "#369", label: choice }}>
                <form onSubmit={submit} data-count={count}>
                    <Field name="nom" label="Nom" dispatch={dispatch} />
                    <Field name="ville" label="Ville" dispatch={dispatch} />
                    <Select<Label> options={LABELS} value={choice} onChange={setChoice} />
                    {state.errors.map((err, i) => <p key={i} className={`msg ${err.level}`}>{err.message}</p>)}
                    <button type="submit">Envoyer &rarr;</button> {/* trailing comment */}
                </form>
            </ThemeContext.Provider>
        </ErrorBoundary>
    );
}
