/* Inventory tracker: café 中 edition */
#include <stdio.h>
#include <stdlib.h>
#include <string.h>

#define MAX_ITEMS 16
#define SQUARE(x) ((x) * (x))

typedef struct Item {
    const char *name;
    int quantity;
    double price;
} Item;

enum Status { STATUS_OK = 0, STATUS_EMPTY, STATUS_FULL, };

static const char *GREETING = "héllo 🦀"; static int counter = 0;

static Item items[MAX_ITEMS] = {
    {"crème", 3, 2.50},
    /* comment between elements */
    {"茶 中", 12, 0.75},
    {"crab 🦀", 1, 19.99}, // trailing comma is legal
};

static double total_value(const Item *list, size_t n) {
    double sum = 0.0;
    for (size_t i = 0; i < n; i++) {
        if (list[i].name == NULL) {
            continue;
        }
        sum += list[i].quantity * list[i].price;
    }
    return sum;
}

static int clamp(int value, int lo, int hi) {
    return value < lo ? lo : (value > hi ? hi : value);
}

enum Status describe(const Item *it, char *buf, size_t len) {
    if (!it || it->quantity <= 0) {
        snprintf(buf, len, "%s", "vide");
        return STATUS_EMPTY;
    } else if (it->quantity > 10) {
        snprintf(buf, len, "%s x%d (plein)", it->name, it->quantity);
        return STATUS_FULL;
    }
    snprintf(buf, len, "%s x%d @ %.2f", it->name, clamp(it->quantity, 0, 10), it->price);
    return STATUS_OK;
}

int main(int argc, char **argv) {
    char buffer[128];
    int n = 3, mask = 0x0F;
    unsigned flags = (1u << 3) | (mask & 0x3);

    printf("%s: %d items, flags=%u\n", GREETING, n, flags); counter++; counter += 2;
    for (int i = 0; i < n; ++i) {
        switch (describe(&items[i], buffer, sizeof(buffer))) {
        case STATUS_OK:
            puts(buffer);
            break;
        case STATUS_FULL: /* fallthrough */
        case STATUS_EMPTY:
            fprintf(stderr, "note: %s\n", buffer);
            break;
        default:
            abort();
        }
    }
    printf("total = %.2f, sq = %d\n",
           total_value(items, (size_t)n),
           SQUARE(clamp(argc, 1, /* upper bound */ 4)));
    while (counter-- > 0) { n += counter % 2; }
    do { n--; } while (n > 0);
    (void)argv;
    return EXIT_SUCCESS;
}
