#include <stdio.h>

/* crlf file: café 中 */
static int add(int a, int b) {
    return a + b;
}

int main(void) {
    const char *s = "crab 🦀";
    int total = 0;
    for (int i = 0; i < 4; i++) {
        total = add(total, i * 2);
    }
    if (total > 5) {
        printf("%s %d\n", s, total);
    }
    return 0;
}