// Linked list and callbacks — style B (2-space indent)
#include <stdint.h>
#include <stdbool.h>
#include <stdlib.h>
#include <stdio.h>

#ifndef NDEBUG
#  define LOG(msg) fprintf(stderr, "[dbg] %s\n", (msg))
#else
#  define LOG(msg) ((void)0)
#endif

typedef int (*compare_fn)(const void *, const void *);
typedef union { int32_t i; float f; uint8_t bytes[4]; } Word;

struct node {
  struct node *next;
  int value;
  char label[16];
};

static const char *labels[] = { "é", "中", "🦀", "plain" };
static const int primes[] = {2, 3, 5, 7, 11, 13};

static struct node *push(struct node *head, int value, const char *label) {
  struct node *n = malloc(sizeof *n);
  if (n == NULL) goto fail;
  n->next = head; n->value = value;
  snprintf(n->label, sizeof n->label, "%s", label);
  return n;
fail:
  LOG("allocation échouée");
  return head;
}

static int by_value(const void *a, const void *b) {
  const int *x = a, *y = b;
  return (*x > *y) - (*x < *y);
}

static bool any(const int *xs, size_t n, bool (*pred)(int)) {
  for (size_t i = 0; i < n; i++)
    if (pred(xs[i])) return true;
  return false;
}

static bool is_even(int v) { return (v & 1) == 0; }

static void free_all(struct node *head) {
  while (head) {
    struct node *next = head->next;
    free(head);
    head = next;
  }
}

int run(void) {
  struct node *list = NULL;
  int sorted[6];
  Word w = { .i = 0x3f800000 };
  compare_fn cmp = by_value;

  for (size_t i = 0; i < sizeof primes / sizeof primes[0]; i++) {
    sorted[i] = primes[5 - i];
    list = push(list, primes[i] * 2 + 1, labels[i % 4]);
  }
  qsort(sorted, 6, sizeof(int), cmp);
  printf("中 first=%d even=%d f=%f\n", sorted[0], any(sorted, 6, is_even), w.f); // trailing
  for (struct node *p = list; p != NULL; p = p->next)
    printf("%s -> %d\n", p->label, p->value >> 1);
  free_all(list);
  return sorted[0] == 2 && !(w.bytes[3] ^ 0x3f) ? 0 : -1;
}
