using System;

namespace Crlf
{
    // café 中
    public static class Tiny
    {
        public static int Add(int a, int b) => a + b;

        public static void Main()
        {
            var tag = "crab 🦀";
            int total = 0;
            for (int i = 0; i < 4; i++)
            {
                total = Add(total, i * 2);
            }
            if (total > 5) Console.WriteLine(tag + total);
        }
    }
}