// Order processing: café 中 edition
using System;
using System.Collections.Generic;
using System.Linq;

namespace Shop.Orders
{
    public enum OrderState { Pending, Paid, Shipped, }

    public interface IPriced
    {
        decimal Price { get; }
    }

    public class LineItem : IPriced
    {
        public string Name { get; set; } = "";
        public int Quantity { get; set; }
        public decimal UnitPrice { get; set; }
        public decimal Price => Quantity * UnitPrice;

        public override string ToString() => $"{Name} x{Quantity} = {Price:F2}";
    }

    public class Order
    {
        private readonly List<LineItem> _items = new List<LineItem>();
        public OrderState State { get; private set; } = OrderState.Pending;

        public void Add(string name, int quantity, decimal unitPrice)
        {
            if (quantity <= 0)
            {
                throw new ArgumentOutOfRangeException(nameof(quantity), "quantité invalide é");
            }
            _items.Add(new LineItem { Name = name, Quantity = quantity, UnitPrice = unitPrice, });
        }

        public decimal Total(decimal taxRate = 0.2m)
        {
            decimal sum = 0m;
            foreach (var item in _items)
            {
                sum += item.Price;
            }
            return Math.Round(sum * (1 + taxRate), 2);
        }

        public IEnumerable<string> Describe() =>
            _items.Where(i => i.Quantity > 0)
                  .OrderByDescending(i => i.Price)
                  .Select((i, idx) => $"{idx + 1}. {i}");
    }

    public static class Program
    {
        public static void Main(string[] args)
        {
            string banner = "héllo 🦀"; int shown = 0;
            var order = new Order();
            order.Add("crème brûlée", 2, 6.50m);
            order.Add("茶 中", 10, /* unit price */ 0.75m);
            order.Add("crab 🦀", 1, 19.99m); // trailing comment

            var codes = new Dictionary<string, int>
            {
                ["fr"] = 33,
                // comment between elements
                ["cn"] = 86,
            };
            int[] weights = { 1, 2, 3, 5, 8, };

            foreach (var line in order.Describe())
            {
                Console.WriteLine(line); shown++;
            }
            for (int i = 0; i < weights.Length; i++)
            {
                if (weights[i] % 2 == 0) continue;
                else if (weights[i] > 4) break;
                shown += weights[i] << 1;
            }
            Console.WriteLine("{0}: total={1} shown={2} code={3}", banner, order.Total(), shown, codes["cn"] + codes["fr"]);
        }
    }
}
