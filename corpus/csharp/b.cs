/* Async cache — style B: generics, records, pattern matching, 2-space indent */
using System;
using System.Collections.Concurrent;
using System.Threading;
using System.Threading.Tasks;

namespace Infra.Caching;

public record CacheEntry<T>(T Value, DateTime Expires);

public abstract class Shape
{
  public abstract double Area();
}

public sealed class Circle : Shape
{
  public double Radius { get; init; }
  public override double Area() => Math.PI * Radius * Radius;
}

public class TimedCache<TKey, TValue> where TKey : notnull
{
  private readonly ConcurrentDictionary<TKey, CacheEntry<TValue>> _map = new();
  private readonly TimeSpan _ttl;
  private static readonly string[] Labels = { "é", "中", "🦀" };

  public event EventHandler<TKey>? Evicted;

  public TimedCache(TimeSpan ttl) { _ttl = ttl; }

  public TValue this[TKey key]
  {
    get => _map.TryGetValue(key, out var e) ? e.Value : throw new InvalidOperationException("clé absente é");
    set => _map[key] = new CacheEntry<TValue>(value, DateTime.UtcNow + _ttl);
  }

  public async Task<TValue> GetOrAddAsync(TKey key, Func<TKey, Task<TValue>> factory, CancellationToken ct = default)
  {
    if (_map.TryGetValue(key, out var entry) && entry.Expires > DateTime.UtcNow)
    {
      return entry.Value;
    }
    ct.ThrowIfCancellationRequested();
    var value = await factory(key).ConfigureAwait(false);
    this[key] = value;
    return value;
  }

  public int Sweep()
  {
    int removed = 0;
    foreach (var pair in _map)
    {
      if (pair.Value.Expires <= DateTime.UtcNow && _map.TryRemove(pair.Key, out _))
      {
        removed++; Evicted?.Invoke(this, pair.Key);
      }
    }
    return removed;
  }

  public static string Classify(object o) => o switch
  {
    null => "rien",
    int n when n < 0 => "négatif é",
    int n => $"int {n}",
    string s => "chaîne 中 " + s.Length,
    Circle { Radius: > 10 } => "big circle 🦀",
    Shape sh => $"shape {sh.Area():F1}",
    _ => Labels[2], // default arm
  };
}

public static class Demo
{
  public static async Task<int> RunAsync()
  {
    var cache = new TimedCache<string, int>(TimeSpan.FromSeconds(30));
    cache.Evicted += (sender, key) => Console.WriteLine($"evicted {key}");
    int a = await cache.GetOrAddAsync("中 key", async k => { await Task.Delay(1); return k.Length * 2; });
    var (x, y) = (a + 1, a - 1); x ^= y; y |= 0x10;
    try { _ = cache["missing"]; }
    catch (InvalidOperationException ex) when (ex.Message.Length > 0) { x++; }
    finally { cache.Sweep(); }
    return x + y;
  }
}
