local a = [[]]
local b = f([[]], 1)
local c = g([==[]==], "")
print("", [[x]])
