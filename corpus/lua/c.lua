-- crlf file: café 中
local tag = "crab 🦀"

local function add(a, b)
  return a + b
end

local total = 0
for i = 0, 3 do
  total = add(total, i * 2)
end
if total > 5 then
  print(tag, total, { 1, 2, 3 })
end
return { add = add }