--[==[
  Event queue — style B: closures, varargs, coroutines, metatables, goto; 4-space indent
  é 中 🦀
]==]
local unpack = table.unpack or unpack
local LABELS = { "é", "中", "🦀" }

local Queue = {}
local mt = {
    __index = Queue,
    __len = function(q) return q.last - q.first + 1 end,
    __tostring = function(q) return "Queue(" .. #q .. ")" end,
    __concat = function(a, b)
        local out = Queue.create()
        for _, src in ipairs({ a, b }) do
            for v in src:iter() do out:push(v) end
        end
        return out
    end,
}

function Queue.create(...)
    local q = setmetatable({ first = 1, last = 0, items = {} }, mt)
    for _, v in ipairs({ ... }) do q:push(v) end
    return q
end

function Queue:push(value)
    self.last = self.last + 1
    self.items[self.last] = value
end

function Queue:pop()
    if self.first > self.last then return nil, "file vide é" end
    local value = self.items[self.first]
    self.items[self.first] = nil
    self.first = self.first + 1
    return value
end

function Queue:iter()
    local i = self.first - 1
    return function()
        i = i + 1
        if i <= self.last then return self.items[i] end
    end
end

local function counter(step)
    local n = 0
    return function(times)
        n = n + step * (times or 1)
        return n
    end
end

local producer = coroutine.create(function(limit)
    for i = 1, limit do
        coroutine.yield(i, LABELS[(i - 1) % #LABELS + 1])
    end
    return "terminé 中"
end)

local function sum(...)
    local total = 0
    for i = 1, select("#", ...) do
        total = total + (select(i, ...))
    end
    return total
end

local q = Queue.create("crème", "茶"); local tick = counter(2)
while true do
    local ok, index, label = coroutine.resume(producer, 4)
    if not ok or coroutine.status(producer) == "dead" then break end
    q:push(label .. index); tick()
end

local joined = q .. Queue.create("crab 🦀")
for i = 10, 1, -3 do
    if i % 2 == 0 then goto continue end
    tick(i)
    ::continue::
end

local text = [[long string
with 中 inside]]
local value, err = Queue.create():pop()
print(tostring(joined), #joined, tick(0), sum(unpack({ 1, 2, 3 })), value or err, #text > 5 and "long" or "short") -- trailing
print(("%5.1f|%s"):format(0x10 / 3, ("x"):rep(3, "-")), 2 ^ 10, 7 // 2, not nil)
