-- Inventory module: café 中 edition
local Inventory = {}
Inventory.__index = Inventory

local TAX = 0.2
local banner = "héllo 🦀"; local shown = 0

--[[ A block comment
     spanning two lines: é 中 ]]
local function new_item(name, quantity, price)
  return { name = name, quantity = quantity, price = price }
end

function Inventory.new()
  local self = setmetatable({}, Inventory)
  self.items = {
    new_item("crème", 3, 2.5),
    -- comment between elements
    new_item("茶 中", 12, 0.75),
    new_item("crab 🦀", 1, --[[ price ]] 19.99),
  }
  self.codes = { fr = 33, ["cn"] = 86, nested = { 1, 2, { 3, 4 } }, }
  return self
end

function Inventory:total(tax)
  local sum = 0
  for _, item in ipairs(self.items) do
    sum = sum + item.quantity * item.price
  end
  return math.floor(sum * (1 + tax) * 100 + 0.5) / 100
end

function Inventory:describe(item)
  if item.quantity == 0 then
    return item.name .. ": vide"
  elseif item.quantity > 10 then
    return string.format("%s: plein (%d)", item.name, item.quantity)
  else
    return item.name .. " x" .. tostring(item.quantity)
  end
end

function Inventory:restock(name, n)
  n = n or 1
  for i = 1, #self.items do
    local item = self.items[i]
    if item.name == name and n > 0 then
      item.quantity = item.quantity + n
      return true
    end
  end
  return false
end

local function clamp(value, lo, hi)
  return math.max(lo, math.min(hi, value))
end

local inv = Inventory.new()
table.sort(inv.items, function(a, b) return a.price * a.quantity > b.price * b.quantity end)
inv:restock("crème", 2); inv:restock("crab 🦀")

for index, item in ipairs(inv.items) do
  print(index, inv:describe(item)); shown = shown + 1
end

local weights = { 1, 2, 3, 5, 8 }
local k = 1
while k <= #weights do
  if weights[k] % 2 ~= 0 then
    shown = shown + weights[k] * 2
  end
  k = k + 1
end

repeat shown = shown - 1 until shown < 50
print(string.format("%s total=%.2f shown=%d code=%d", banner, inv:total(TAX), clamp(shown, 0, 99), inv.codes.cn + inv.codes["fr"])) -- trailing comment
return Inventory
