"""C14 - suppression comments silence exactly the findings they name, nothing else."""
import json
import vlib
LEVEL = "model_checking"


def run(ctx):
    th = ctx.thorough
    r, summ, rec, n, bad = vlib.pipeline(
        ctx, ("mc/MC_C14.tla", "mc/MC_C14_thorough.cfg" if th else "mc/MC_C14_quick.cfg"),
        ["drive", "c14", "--tier", ctx.tier], ("trace/Trace_C14.tla", "trace/Trace_C14.cfg"),
        slim=lambda c: {k: c.get(k) for k in ("id", "front", "src", "findings", "unused")},
        facts=lambda c, reason: {"reason": reason, "front": c["front"]},
        what=lambda c, reason: "%s [%s] %r: %s" % (c["id"], c["front"], c["src"], reason),
        vec_filter=(None if th else (lambda v: v)), sharded=12 if th else 0)
    recs = vlib.read_ndjson(rec) if n < 40000 else []
    nontriv = set()
    for x in recs:
        comments = sum(1 for ln in x["layout"] if ln["kind"] == "comment" or ln["trail"] != ["-"])
        fires = sum(len(s) for ln in x["layout"] for s in ln["stmts"])
        if comments >= 1 and fires >= 1:
            nontriv.add(x["src"])
    ctx.cov["distinct_nontrivial"] = len(nontriv) if recs else r.distinct // 2
    ctx.cov["rule"] = ("evaluation = one layout scanned by one front end (CombinedScan::scan with separate_fix false/true, or "
                       "sg scan --json in a materialised project); distinct = distinct source texts; non-trivial = at least "
                       "one ignore comment and at least one firing rule")
    ctx.cov["exhaustive"] = True
    if recs:
        ctx.cov["samples"] = [{k: x.get(k) for k in ("front", "src", "findings", "unused")} for x in (recs[len(recs) // 3], recs[-1])]
    ctx.assumptions += ["single-line statements at program level; rule ids r1/r2 (+ an unknown id r9) and the bare form",
                        "JavaScript carrier: comments are `// ...` line comments"]


replay = vlib.std_replay(run)
