"""Interactive rewrite sessions (`sg run -r .. -i`) driven through a pseudo terminal and judged by
spec/Interactive.tla (Trace_Interactive.tla).  `--update-all` (C18) is the session in which everything is accepted
from the start; the interactive session is the general protocol around the same writer (rewrite_action).

The statement of C18 is about `-U` only, so a session the specification rejects is reported as an
EXTENSION-FINDING (printed, listed in the evidence) and never as a violation of a listed property."""
import itertools
import json
import os
import re
import shutil
import subprocess
import threading

import ptyrun
import vlib

ALPHABET = ["y", "n", "a", "q", "e", "enter", "x"]
BYTES = {"y": b"y", "n": b"n", "a": b"a", "q": b"q", "e": b"e", "enter": b"\r", "x": b"x"}

HTML = "<html><body>\n<script>\nfoo(1);\nfoo(foo(2));\n</script>\n<script lang=\"ts\">\nfoo(3);\n</script>\n<p>foo(text)</p></body></html>\n"
PROJECTS = [
    # (id, files, command without -i)
    ("js-nested", {"one.js": "\nfoo(1);\nfoo(foo(2)); foo(3);\nkeep(4);\nfoo(\"é\");\n"}, ["run", "-p", "foo($A)", "-r", "bar($A)"]),
    ("js-touching", {"min.js": "foo(1);foo(2);foo(3);\nkeep(4);foo(5);\n"}, ["run", "-p", "foo($A);", "-r", "bar($A);"]),
    ("html-two-docs", {"t.html": HTML}, ["run", "-p", "foo($A)", "-r", "bar($A)"]),
    ("two-files", {"a.js": "foo(1);\nfoo(2);\n", "sub/b.js": "keep(0);\nfoo(3);\n", "c.txt": "foo(9)\n"}, ["run", "-p", "foo($A)", "-r", "bar($A)"]),
]


def key_sequences(max_len, seed, cap):
    seqs = [()]
    for n in range(1, max_len + 1):
        seqs += list(itertools.product(ALPHABET, repeat=n))
    if len(seqs) > cap:
        keep = [s for s in seqs if len(s) <= 2]
        rest = [s for s in seqs if len(s) > 2]
        step = max(1, len(rest) // (cap - len(keep)))
        seqs = keep + rest[seed % step::step]
    return seqs


def bytes_of(b):
    return list(b)


def session(work, idx, proj, keys):
    pid, files, cmd = proj
    root = os.path.join(work, "s%d" % idx)
    shutil.rmtree(root, ignore_errors=True)
    for path, text in files.items():
        full = os.path.join(root, path)
        os.makedirs(os.path.dirname(full), exist_ok=True)
        with open(full, "wb") as f:
            f.write(text.encode("utf8"))
    js = subprocess.run(["timeout", "30", vlib.SGV] + cmd + ["--json=stream"], cwd=root, stdout=subprocess.PIPE,
                        stderr=subprocess.PIPE, text=True)
    announced = []
    for line in js.stdout.splitlines():
        try:
            v = json.loads(line)
        except Exception:
            continue
        if "replacementOffsets" in v:
            announced.append({"path": v["file"].lstrip("./") if v["file"].startswith("./") else v["file"], "lang": v["language"],
                              "pos": v["replacementOffsets"]["start"], "del": v["replacementOffsets"]["end"] - v["replacementOffsets"]["start"],
                              "ins": bytes_of(v["replacement"].encode("utf8"))})
    before = {p: open(os.path.join(root, p), "rb").read() for p in files}
    typed = b"".join(BYTES[k] for k in keys) + b"n" * 12
    code, screen = ptyrun.run([vlib.SGV] + cmd + ["-i"], typed, root, env={"EDITOR": "true"}, timeout=40)
    after = {p: open(os.path.join(root, p), "rb").read() for p in files}
    m = re.search(r"Applied (\d+) changes", screen)
    shutil.rmtree(root, ignore_errors=True)
    # payloads: one per (path, language) in the order of first announcement
    order = []
    for a in announced:
        if (a["path"], a["lang"]) not in order:
            order.append((a["path"], a["lang"]))
    payloads = [{"path": p, "lang": l, "diffs": [{"pos": a["pos"], "del": a["del"], "ins": a["ins"]} for a in announced if (a["path"], a["lang"]) == (p, l)]}
                for (p, l) in order]
    return {"id": "%s/%s" % (pid, "".join(k[0] if k != "enter" else "R" for k in keys) or "-"), "project": pid, "cmd": cmd + ["-i"],
            "keys": list(keys), "payloads": payloads,
            "files": [{"path": p, "before": bytes_of(before[p]), "after": bytes_of(after[p])} for p in sorted(files)],
            "exit": code, "applied": int(m.group(1)) if m else 0, "prompts": screen.count("Accept change?"),
            "panicked": "panicked at" in screen}


def run(ctx):
    th = ctx.thorough
    # the model: every reachable state of the bounded sessions satisfies the user-level statements; three variants rejected
    r = vlib.model_check(ctx, "mc/MC_Interactive.tla", "mc/MC_Interactive_thorough.cfg" if th else "mc/MC_Interactive_quick.cfg",
                         workers=6, timeout=3000, heap="8g", keep_vec=False)
    for name, inv in (("alone", "P1"), ("closed", "P3"), ("lastonly", "P1")):
        w = vlib.run_tlc(ctx, "mc/MC_Interactive.tla", "mc/MC_Interactive_witness_%s.cfg" % name, workers=2, timeout=600, keep_vec=False)
        if w.violated != inv:
            raise vlib.ToolError("MC_Interactive_witness_%s no longer violates %s - the model lost its teeth" % (name, inv))
    seqs = key_sequences(3 if th else 2, ctx.seed, 400 if th else 60)
    jobs = [(p, s) for p in PROJECTS for s in seqs]
    recs = [None] * len(jobs)
    sem = threading.Semaphore(8)

    def work(i):
        with sem:
            recs[i] = session(ctx.work + "/inter", i, jobs[i][0], jobs[i][1])
    ts = [threading.Thread(target=work, args=(i,)) for i in range(len(jobs))]
    for t in ts:
        t.start()
    for t in ts:
        t.join()
    path = ctx.path("interactive.ndjson")
    vlib.write_ndjson(path, recs)
    n, fails = vlib.validate_trace_sharded(ctx, "trace/Trace_Interactive.tla", "trace/Trace_Interactive.cfg", path, shards=4)
    findings = []
    for f in fails:
        case = recs[f["index"] - 1]
        findings.append({"id": case["id"], "cmd": case["cmd"], "keys": case["keys"], "reasons": f["reasons"], "exit": case["exit"], "applied": case["applied"]})
        print("EXTENSION-FINDING interactive session %s keys=%s: %s" % (case["id"], case["keys"], f["reasons"]), flush=True)
    ctx.cov["interactive_sessions"] = {"sessions": n, "rejected_by_the_specification": findings[:10], "projects": [p[0] for p in PROJECTS],
                                       "key_sequences": len(seqs), "model_states": r.distinct}
    return n, findings
