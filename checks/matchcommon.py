"""shared by C02 and C03: model + vectors + corpus records judged by Trace_Match.tla"""
import vlib


def run(ctx, prop):
    th = ctx.thorough
    args = ["drive", prop.lower(), "--corpus", vlib.CORPUS, "--seed", ctx.seed, "--tier", ctx.tier]
    if prop == "C03":
        r = vlib.model_check(ctx, "mc/MC_C03.tla", "mc/MC_C03_thorough.cfg" if th else "mc/MC_C03_quick.cfg",
                             workers=12, timeout=3000, heap="10g")
        vec = ctx.path("c03-vectors.ndjson")
        keep = r.vec if th else r.vec[:: max(1, len(r.vec) // 4000)]
        vlib.write_ndjson(vec, keep)
        args += ["--vectors", vec]
        ctx.cov["vectors_exported"] = len(r.vec)
        ctx.cov["vectors_replayed"] = len(keep)
        mine = ("illegal-match", "match-len", "rule-pattern-object-differs-from-the-pattern", "pattern-new-differs-from-try-new")
    else:
        r = vlib.model_check(ctx, "mc/MC_C02.tla", "mc/MC_C02_thorough.cfg" if th else "mc/MC_C02_quick.cfg",
                             workers=12, timeout=3000, heap="10g")
        vec = ctx.path("c02-vectors.ndjson")
        vlib.write_ndjson(vec, r.vec)
        # contextual patterns (context + selector): the search performed by the code selects the node the reference
        # names, on every small tree; the two variants a refactoring could slip into must be rejected by the model
        vlib.model_check(ctx, "mc/MC_Contextual.tla", "mc/MC_Contextual_thorough.cfg" if th else "mc/MC_Contextual.cfg",
                         workers=4, timeout=1200, heap="4g")
        for v in ("last", "shallowest"):
            w = vlib.run_tlc(ctx, "mc/MC_Contextual.tla", "mc/MC_Contextual_witness_%s.cfg" % v, workers=2, timeout=600, keep_vec=False)
            if w.violated != "SelectOK":
                raise vlib.ToolError("MC_Contextual_witness_%s: the variant is no longer rejected - the model lost its teeth" % v)
        args += ["--vectors2", vec]
        ctx.cov["vectors_exported"] = len(r.vec)
        mine = ("cut-not-matched", "pattern-text-altered", "pattern-new-differs-from-try-new")
    rec = ctx.path("match-records.ndjson")
    summ = vlib.agv_ok(ctx, args + ["--out", rec])
    n, fails = vlib.validate_trace(ctx, "trace/Trace_Match.tla", "trace/Trace_Match.cfg", rec, timeout=3000)
    discards = 0
    panics = []
    for t in ctx.cov["tlc_runs"][-1:]:
        pass
    bad_idx = set()
    for f in fails:
        case = None
        for reason in f["reasons"]:
            if reason[0] not in mine:
                continue
            if case is None:
                case = vlib.nth_line(rec, f["index"])
            slim = {k: case.get(k) for k in ("id", "lang", "pattern", "selector", "cand", "src", "mode", "holes", "tail", "cs", "gs")}
            slim["out"] = case["outs"][reason[1]]
            facts = {"reason": reason[0], "strictness": reason[1], "lang": case["lang"], "mode": case["mode"], "contextual": bool(case.get("ctx")),
                     "panic": case["outs"][reason[1]].get("panic", False)}
            if vlib.report_failure(ctx, facts, {"record": slim, "reason": reason, "seed": ctx.seed, "tier": ctx.tier},
                                   "%s pattern %r at %s: %s" % (case["id"], case["pattern"], reason[1], reason[0])):
                bad_idx.add(f["index"])
    recs = vlib.read_ndjson(rec)
    n_cut = sum(1 for x in recs if x.get("mode") == "cut")
    ctx.cov["cut_records"] = n_cut
    ctx.cov["contextual_cut_records"] = sum(1 for x in recs if x.get("ctx"))
    ctx.cov["cut_records_discarded_by_premise"] = ctx.cov.get("discarded", 0)
    if prop == "C02" and n_cut and ctx.cov.get("discarded", 0) > 0.5 * n_cut:
        raise vlib.ToolError("C02: more than half of the cut patterns were discarded by the premise (%d of %d): the judgement would be vacuous"
                             % (ctx.cov.get("discarded", 0), n_cut))
    shapes = set()
    nontrivial = 0
    matched = 0
    for x in recs:
        holes = sum(1 for p in x["PT"] if p["ty"] == "M")
        kids = len(x["T"][0]["ch"])
        for lv, o in x["outs"].items():
            if o["ok"]:
                matched += 1
            key = (x["lang"], lv, tuple((p["ty"], p["mv"]["ty"], len(p["ch"])) for p in x["PT"][:12]), kids, o["ok"])
            if key not in shapes:
                shapes.add(key)
                if holes >= 1 and kids >= 2:
                    nontrivial += 1
    ctx.cov["traces_validated_against_impl"] = n - len(bad_idx)
    ctx.cov["evaluations"] = 5 * n
    ctx.cov["matched_outcomes"] = matched
    ctx.cov["distinct_nontrivial"] = nontrivial
    ctx.cov["rule"] = ("evaluation = one real Pattern::match_node + get_match_len (record x strictness); distinct = "
                       "(language, strictness, pattern shape prefix, #candidate children, verdict) classes; non-trivial = "
                       "pattern with >= 1 hole and candidate with >= 2 children")
    ctx.cov["records"] = summ
    ctx.cov["languages_covered"] = summ.get("languages", [])
    ctx.cov["exhaustive"] = True
    ctx.cov["samples"] = [{k: recs[i].get(k) for k in ("id", "pattern", "cand", "mode", "holes", "tail")} | {"smart": recs[i]["outs"]["smart"]}
                          for i in (0, len(recs) // 2, len(recs) - 1)]
    ctx.assumptions += [
        "tree-sitter parse of pattern text and source is the reference tree (projection by raw tree-sitter API)",
        "model universe: sibling lists over 7 candidate / 13 goal symbols with one level of nesting",
        "a matcher panic under debug assertions counts as 'no match reported' (C11's concern unless the pattern was cut from the node)",
    ]
