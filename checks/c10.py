"""C10 - editing a parsed document is indistinguishable from parsing the edited text."""
import json
import vlib
LEVEL = "model_checking"


def run(ctx):
    th = ctx.thorough
    r = vlib.model_check(ctx, "mc/MC_C10.tla", "mc/MC_C10_thorough.cfg" if th else "mc/MC_C10_quick.cfg", workers=8,
                         timeout=3000, heap="8g")
    shapes = sorted(set(json.dumps(v, sort_keys=True) for v in r.vec))
    vec = ctx.path("c10-shapes.ndjson")
    vlib.write_ndjson(vec, [json.loads(s) for s in shapes])
    rec = ctx.path("c10-records.ndjson")
    summ = vlib.agv_ok(ctx, ["drive", "c10", "--vectors", vec, "--corpus", vlib.CORPUS, "--seed", ctx.seed, "--tier", ctx.tier,
                             "--out", rec], timeout=3000)
    if th:
        n, fails = vlib.validate_trace_sharded(ctx, "trace/Trace_C10.tla", "trace/Trace_C10.cfg", rec, shards=12, timeout=3000)
    else:
        n, fails = vlib.validate_trace(ctx, "trace/Trace_C10.tla", "trace/Trace_C10.cfg", rec, timeout=3000)
    bad = set()
    for f in fails:
        case = vlib.nth_line(rec, f["index"])
        for reason in f["reasons"]:
            facts = {"reason": reason, "lang": case["lang"]}
            if isinstance(reason, str) and reason.startswith("known:"):
                facts["scenario"] = reason[len("known:"):]
            slim = {"id": case["id"], "lang": case["lang"], "text": case["text"], "edit": {"pos": case["edit"]["pos"], "del": case["edit"]["del"],
                    "ins": case.get("ins_text")}, "before": bytes(case["before"]).decode("utf8", "replace")[:1500]}
            if vlib.report_failure(ctx, facts, {"record": slim, "reason": reason, "seed": ctx.seed, "tier": ctx.tier},
                                   "%s: %s after edit pos=%d del=%d ins=%r" % (case["id"], reason, case["edit"]["pos"], case["edit"]["del"], case.get("ins_text"))):
                bad.add(f["index"])
    recs = vlib.read_ndjson(rec)
    judged = [x for x in recs if not x["fresh_error"] and not x["panic"]]
    distinct = set((x["lang"], x["edit"]["pos"], x["edit"]["del"], x.get("ins_text"), len(x["before"])) for x in judged if x["edit"]["del"] or x.get("ins_text"))
    ctx.cov["traces_validated_against_impl"] = n - len(bad)
    ctx.cov["evaluations"] = n
    ctx.cov["distinct_nontrivial"] = len(distinct)
    ctx.cov["rule"] = ("evaluation = one AstGrep::edit step of a history (text + DFS dump vs a fresh parse + hook events); "
                       "non-trivial = the step changes the text and the resulting text parses without errors (the property's "
                       "premise); distinct by (language, position, deleted length, inserted text, text length)")
    ctx.cov["abstract_edit_shapes_from_model"] = len(shapes)
    ctx.cov["records"] = summ
    ctx.cov["languages_covered"] = summ.get("languages", [])
    ctx.cov["exhaustive"] = True
    ctx.cov["samples"] = [{"id": x["id"], "text": x["text"][:120], "edit": [x["edit"]["pos"], x["edit"]["del"], x.get("ins_text")],
                           "events": x["events"]} for x in judged[:2]]
    ctx.assumptions += [
        "the model's old tree is the set of maximal non-blank runs of the text (a stand-in for leaves): consistency of the "
        "old tree with the new text is what incremental parsing relies on",
        "tree-sitter's incremental parse of a consistent old tree equals a fresh parse (judged only for error-free results)",
    ]


def replay(ctx, path):
    case = json.load(open(path))
    print(json.dumps(case, indent=1)[:4000])
    ctx.seed = case["case"].get("seed", 0)
    ctx.tier = case["case"].get("tier", "quick")
    run(ctx)
    return 1 if ctx.violations else 0
