"""C19 - tree navigation and positions are mutually consistent on every tree."""
import vlib

LEVEL = "model_checking"


def run(ctx):
    th = ctx.thorough
    # 1. bounded model: the cursor machine of traversal.rs against PreOrder/PostOrder/LevelOrder,
    #    all tree shapes up to N nodes x every start node (+ the overlap-free visit used by C01/C06)
    cfg = "mc/MC_C19_thorough.cfg" if th else "mc/MC_C19_quick.cfg"
    r = vlib.model_check(ctx, "mc/MC_C19.tla", cfg, workers=8 if th else 6, timeout=1500, coverage=True)
    for act in ("VisitPre", "VisitPost", "VisitLevel"):
        if r.coverage.get(act, 0) == 0:
            raise vlib.ToolError("vacuous model: action %s never taken" % act)
    ctx.cov["tlc_action_coverage"] = {k: r.coverage[k] for k in ("VisitPre", "VisitPost", "VisitLevel")}
    vlib.model_check(ctx, "mc/MC_Positions.tla", "mc/MC_Positions_thorough.cfg" if th else "mc/MC_Positions_quick.cfg",
                     workers=6, timeout=900)
    vec = ctx.path("c19-vectors.ndjson")
    vlib.write_ndjson(vec, r.vec)
    # 2. direction A + B: the shapes TLC enumerated, rendered as JavaScript, and the 23-language corpus
    #    (with seeded syntax-error variants) are run through the real Node API and recorded
    rec = ctx.path("c19-records.ndjson")
    summ = vlib.agv_ok(ctx, ["drive", "c19", "--vectors", vec, "--corpus", vlib.CORPUS, "--seed", ctx.seed,
                             "--out", rec, "--tier", ctx.tier])
    # 3. TLC judges every record against Tree.tla / Positions.tla
    n, fails = vlib.validate_trace(ctx, "trace/Trace_C19.tla", "trace/Trace_C19.cfg", rec)
    bad = 0
    for f in fails:
        case = vlib.nth_line(rec, f["index"])
        slim = {k: case[k] for k in ("id", "lang", "file") if k in case}
        slim["src"] = case.get("src")
        for reason in f["reasons"]:
            # which observed node fails is recomputed from the record for the facts
            root_only = all_failing_obs_are_root(case, reason)
            facts = {"reason": reason, "node_is_root": root_only}
            if vlib.report_failure(ctx, facts, {"record": slim, "reason": reason, "seed": ctx.seed, "tier": ctx.tier},
                                   "%s: real %s differs from the specification" % (case["id"], reason)):
                bad += 1
    recs = vlib.read_ndjson(rec)
    n_obs = sum(len(x["obs"]) for x in recs)
    shapes = set()
    for x in recs:
        for o in x["obs"]:
            if o.get("trav"):
                shapes.add((x["lang"], len(o.get("pre", [])), len(o["kids"]), len(o["anc"])))
    ctx.cov["traces_validated_against_impl"] = n - len(set(f["index"] for f in fails))
    ctx.cov["evaluations"] = n_obs
    ctx.cov["distinct_nontrivial"] = len([s for s in shapes if s[1] >= 3])
    ctx.cov["rule"] = ("one evaluation = one observed node of one real tree (all public navigation/traversal/position "
                       "calls on it); distinct non-trivial = distinct (language, subtree size>=3, #children, depth) "
                       "classes among observed start nodes")
    ctx.cov["languages_covered"] = summ.get("languages", [])
    ctx.cov["records"] = n
    ctx.cov["from_vectors"] = summ.get("from_vectors")
    ctx.cov["exhaustive"] = True
    s = recs[0]
    ctx.cov["samples"] = [{"id": s["id"], "src": s.get("src"), "par": s.get("par"), "obs0": s["obs"][0]},
                          {"id": recs[-1]["id"], "nodes": len(recs[-1]["T"]), "obs1": recs[-1]["obs"][-1]}]
    ctx.assumptions += [
        "tree-sitter's raw child(i)/kind/range API (used for the projection) is the reference tree",
        "exhaustive part: all tree shapes up to the bound in the model; real grammars through the corpus",
    ]


def all_failing_obs_are_root(case, reason):
    """facts for known-finding matching: does the clause fail only for the parent-less root node?"""
    T = case["T"]
    key = {"next_all": "next", "prev_all": "prev"}.get(reason)
    if key is None:
        return False
    failing = []
    for o in case["obs"]:
        n = o["n"]
        p = T[n - 1]["p"]
        sibs = T[p - 1]["ch"] if p else [n]
        k = sibs.index(n)
        want = sibs[k + 1:] if key == "next" else list(reversed(sibs[:k]))
        if p and any(T[c - 1]["s"] == T[c - 1]["e"] for c in sibs):
            continue
        if o[key] != want:
            failing.append(n)
    return bool(failing) and all(T[n - 1]["p"] == 0 for n in failing)


def replay(ctx, path):
    import json
    case = json.load(open(path))
    print(json.dumps(case, indent=1)[:3000])
    ctx.seed = case["case"].get("seed", 0)
    ctx.tier = case["case"].get("tier", "quick")
    run(ctx)
    return 1 if ctx.violations else 0
