"""C08 - one rule, one fix: every front end proposes the same edit."""
import vlib
LEVEL = "model_checking"


def facts(c, reason):
    fe, what = (reason + ["", ""])[:2] if isinstance(reason, list) else ("", reason)
    return {"frontend": fe, "reason": what, "family": c.get("family")}


def run(ctx):
    th = ctx.thorough
    r, summ, rec, n, bad = vlib.pipeline(
        ctx, ("mc/MC_C08.tla", "mc/MC_C08_thorough.cfg" if th else "mc/MC_C08_quick.cfg"),
        ["drive", "c08", "--tier", ctx.tier, "--seed", ctx.seed], ("trace/Trace_C08.tla", "trace/Trace_C08.cfg"),
        slim=lambda c: {k: c.get(k) for k in ("id", "kind", "lang", "family", "text", "pattern", "rewrite", "exp", "matches", "fe", "exits")},
        facts=facts,
        what=lambda c, reason: "%s %s %s: %s" % (c["id"], c["lang"], c["family"], reason),
        mc_kw={"workers": 4, "timeout": 3000, "heap": "8g"})
    recs = vlib.read_ndjson(rec)
    ctx.cov["frontends"] = sorted(set(k for x in recs for k in x["fe"]))
    ctx.cov["families"] = sorted(set(x["family"] for x in recs))
    ctx.cov["languages"] = sorted(set(x["lang"] for x in recs))
    ctx.cov["records_with_expansion_effect"] = sum(
        1 for x in recs if any(e["pos"] != m["s"] or e["pos"] + e["del"] != m["e"] for e, m in zip(x["fe"]["lib_make_edit"], x["matches"])))
    ctx.cov["records_with_trimmed_match"] = sum(1 for x in recs if any(0 <= m["mlen"] < m["e"] - m["s"] for m in x["matches"]))
    ctx.cov["model_cases_replayed"] = sum(1 for x in recs if x["family"] == "model")
    ctx.cov["distinct_nontrivial"] = len(set((x["lang"], x["family"], x["text"], str(x["exp"]), x.get("pattern")) for x in recs if x["matches"]))
    ctx.cov["rule"] = ("evaluation = one (rule with fix, text) through scan --json, --update-all, sg test --update-all, three "
                       "library calls and three language-server routes (or, for kind=run, sg run --pattern --rewrite); "
                       "non-trivial = at least one match; distinct by (language, family, text, expansions)")
    ctx.cov["exhaustive"] = False
    ctx.cov["samples"] = [{"id": x["id"], "text": x["text"], "json": [[e["pos"], e["del"]] for e in x["fe"]["json"]]} for x in recs if x["matches"]][:3]
    if ctx.cov["records_with_expansion_effect"] == 0 or ctx.cov["records_with_trimmed_match"] == 0:
        raise vlib.ToolError("C08: no record exercised an expansion or a trimmed match - the comparison would be vacuous")
    ctx.assumptions += [
        "the replacement text itself is taken from the fixer (C07 decides it); C08 compares range and text across front ends",
        "front ends that apply several edits are compared edit by edit; which of two intersecting edits survives is C06/C18",
        "expansion rules used: a regex or kind rule with stopBy neighbor/end (no stopBy rule, no metavariables in expansions)",
        "trailing-punctuation trimming exists only for pattern matchers (sg run / library Pattern); rule matchers report no match length",
    ]


replay = vlib.std_replay(run)
