"""C17 - files are processed independently, whatever the thread count or schedule."""
import json
import os
import threading
import vlib
LEVEL = "model_checking"


def validate_run(ctx, path, k, results):
    sub = vlib.Ctx.__new__(vlib.Ctx)
    sub.__dict__.update(ctx.__dict__)
    sub.cov = {"tlc_runs": [], "drift": []}
    sub.work = ctx.path("w%d" % k)
    os.makedirs(sub.work, exist_ok=True)
    # runs over hundreds of files are judged on their outcome and on counting facts of their events only
    big = vlib.nth_line(path, 1).get("n_files", 0) > 100
    spec = "Trace_WorkerBig" if big else "Trace_Worker"
    r = vlib.run_tlc(sub, "trace/%s.tla" % spec, "trace/%s.cfg" % spec, workers=1, timeout=900, env={"TRACE": path},
                     dfs=True, heap="4g", keep_vec=False)
    verdict = None
    for t in r.tuples:
        v = vlib.parse_tla_tuple(t)
        if isinstance(v, list) and v and v[0] in ("ACCEPTED", "REJECTED"):
            verdict = v
    results[k] = (r, verdict)


def run(ctx):
    th = ctx.thorough
    m = vlib.model_check(ctx, "mc/MC_C17.tla", "mc/MC_C17_thorough.cfg" if th else "mc/MC_C17_quick.cfg", workers=8, timeout=3000,
                         coverage=True)
    for act in ("Take", "Fail", "Send", "FinishWith", "WalkDone", "Recv", "ConsumerDone"):
        if m.coverage.get(act, 0) == 0:
            raise vlib.ToolError("vacuous model: action %s never taken" % act)
    # the witness: with the tally's read-modify-write split over two steps the model must lose an update
    w = vlib.run_tlc(ctx, "mc/MC_C17.tla", "mc/MC_C17_witness.cfg", workers=4, timeout=600, keep_vec=False)
    if w.violated != "Tally":
        raise vlib.ToolError("MC_C17_witness: a split read-modify-write of the tally no longer violates Tally - the model lost its teeth")
    # unbounded: TLAPS proves, for ANY set of files, threads and outcomes, that the pipeline model hands out every file at
    # most once and, once the run is over, exactly once (spec/proofs/WorkerProofs.tla: inductive invariant HandedOut)
    vlib.run_tlapm(ctx, "proofs/WorkerProofs.tla")
    # ... and that, when the run is over, what was printed is exactly the set of items of the processable files
    # (proofs/WorkerUnion.tla: inductive invariant Sound /\ Complete, 175 obligations)
    vlib.run_tlapm(ctx, "proofs/WorkerUnion.tla", timeout=1500, threads=10)
    outdir = ctx.path("runs")
    summ = vlib.agv_ok(ctx, ["drive", "c17", "--seed", ctx.seed, "--tier", ctx.tier, "--out", outdir], timeout=3000)
    files = [os.path.join(ctx.work, f) if not f.startswith("/") else f for f in summ["files"]]
    results = [None] * len(files)
    sem = threading.Semaphore(8)

    def work(k):
        with sem:
            try:
                validate_run(ctx, files[k], k, results)
            except Exception as e:  # noqa
                results[k] = (None, ["ERROR", str(e)])

    ts = [threading.Thread(target=work, args=(k,)) for k in range(len(files))]
    for t in ts:
        t.start()
    for t in ts:
        t.join()
    accepted = 0
    bad = 0
    samples = []
    for k, (r, v) in enumerate(results):
        cfg = vlib.nth_line(files[k], 1)
        if v is None or v[0] == "ERROR":
            raise vlib.ToolError("trace validation of %s produced no verdict" % files[k])
        reasons = v[-1] if isinstance(v[-1], list) else []
        if v[0] == "ACCEPTED":
            accepted += 1
        else:
            ctx.cov["drift"].append({"id": v[1], "what": "hook trace rejected by Worker.tla after %s of %s events" % (v[2], v[3])})
        for reason in reasons:
            facts = {"reason": reason, "threads": cfg["threads_flag"]}
            events = vlib.read_ndjson(files[k])[1:]
            slim = {kk: cfg[kk] for kk in ("id", "threads_flag", "sched", "all_files", "faulty", "expected", "printed", "parsed", "scanned", "skipped", "exit")}
            slim["events_tail"] = events[-12:]
            if vlib.report_failure(ctx, facts, {"record": slim, "reason": reason, "seed": ctx.seed, "tier": ctx.tier},
                                   "%s (-j %s): %s" % (cfg["id"], cfg["threads_flag"], reason)):
                bad += 1
        if len(samples) < 2:
            samples.append({"id": cfg["id"], "threads": cfg["tids"], "files": cfg["n_files"], "faulty": cfg["faulty"], "events": cfg["n_events"],
                            "printed": len(cfg["printed"])})
    ctx.cov["traces_validated_against_impl"] = accepted
    ctx.cov["evaluations"] = len(files)
    ctx.cov["distinct_nontrivial"] = summ.get("runs_with_2plus_walker_threads", 0)
    ctx.cov["rule"] = ("evaluation = one `sgv run --json=stream -j N --inspect summary` over a generated tree with faulty files under a "
                       "seeded schedule perturbation, validated as a behaviour of Worker.tla; non-trivial = runs whose hook trace "
                       "shows at least two walker threads (each run has its own tree/thread-count/seed, so all are distinct)")
    ctx.cov["records"] = {k: summ[k] for k in ("runs", "trees", "events", "runs_with_2plus_walker_threads")}
    ctx.cov["tlc_action_coverage"] = {k: m.coverage.get(k) for k in ("Take", "Fail", "Send", "FinishWith", "WalkDone", "Recv", "ConsumerDone")}
    ctx.cov["samples"] = samples
    ctx.cov["exhaustive"] = False
    ctx.assumptions += ["faults: empty, non-UTF-8 and (thorough) oversized files; as root in this sandbox chmod 000 does not make a file "
                        "unreadable, so permission faults are not exercised",
                        "real schedules are sampled (seeded yields/sleeps at the hook points, -j 1..16); exhaustiveness is in the model"]


replay = vlib.std_replay(run)
