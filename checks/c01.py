"""C01 - search is complete: no index or prefilter ever drops or invents a match."""
import json
import vlib
from checks import rulescommon
LEVEL = "model_checking"


def run(ctx):
    # stage 1: kind dispatch, find_all / Visitor / CombinedScan, overlap-free visit (rule pipeline)
    rulescommon.run(ctx, "C01")
    cov1 = dict(ctx.cov)
    # stage 2: the CLI front ends and the literal prefilter
    th = ctx.thorough
    pf = vlib.model_check(ctx, "mc/MC_Prefilter.tla", "mc/MC_Prefilter.cfg", workers=2, timeout=600)
    near = vlib.model_check(ctx, "mc/MC_C03.tla", "mc/MC_C03_quick.cfg", workers=8, timeout=1800, heap="8g")
    v1 = ctx.path("pf-vectors.ndjson")
    v2 = ctx.path("near-vectors.ndjson")
    vlib.write_ndjson(v1, pf.vec)
    vlib.write_ndjson(v2, near.vec)
    rec = ctx.path("c01cli-records.ndjson")
    summ = vlib.agv_ok(ctx, ["drive", "c01cli", "--vectors", v1, "--vectors2", v2, "--corpus", vlib.CORPUS, "--seed", ctx.seed,
                             "--tier", ctx.tier, "--out", rec], timeout=3600)
    n, fails = vlib.validate_trace(ctx, "trace/Trace_C01cli.tla", "trace/Trace_C01cli.cfg", rec)
    bad = set()
    for f in fails:
        case = vlib.nth_line(rec, f["index"])
        for reason in f["reasons"]:
            facts = {"reason": reason, "strictness": case["s"], "mode": case.get("mode"), "lang": case["lang"],
                     "fixed_present": case["fixed_present"]}
            slim = {k: case.get(k) for k in ("id", "lang", "pattern", "s", "lib", "run_file", "run_stdin", "scan_file",
                                             "scan_stdin", "codes", "fixed", "fixed_present", "mode")}
            slim["src"] = case["src"][:400]
            if vlib.report_failure(ctx, facts, {"record": slim, "reason": reason, "seed": ctx.seed, "tier": ctx.tier},
                                   "%s pattern %r --strictness %s: %s differs from the library search" %
                                   (case["id"], case["pattern"][:80], case["s"], reason)):
                bad.add(f["index"])
    recs = vlib.read_ndjson(rec)
    nontriv = len(set((r["lang"], r["pattern"], r["s"]) for r in recs if r["lib"]))
    ctx.cov["traces_validated_against_impl"] = cov1["traces_validated_against_impl"] + n - len(bad)
    ctx.cov["evaluations"] = cov1["evaluations"] + summ.get("cli_runs", 0)
    ctx.cov["distinct_nontrivial"] = cov1["distinct_nontrivial"] + nontriv
    ctx.cov["rule"] = cov1["rule"] + (" | CLI stage: evaluation = one sgv child process (run/scan x file/stdin) per (pattern, "
                                      "source, strictness); non-trivial = cases where the library search finds at least one match")
    ctx.cov["cli_stage"] = summ
    ctx.cov["cli_cases_with_matches"] = nontriv
    ctx.cov["samples"] = cov1["samples"][:2] + [{k: recs[i].get(k) for k in ("id", "pattern", "s", "lib", "run_file", "fixed", "fixed_present")}
                                                 for i in (0, len(recs) // 2)]
    ctx.assumptions.append("CLI stage: single-document files (HTML with injected documents is C18's concern); sgv = the CLI "
                           "rebuilt from /repo's working tree, each invocation an isolated child under timeout")


def replay(ctx, path):
    case = json.load(open(path))
    print(json.dumps(case, indent=1)[:4000])
    ctx.seed = case["case"].get("seed", 0)
    ctx.tier = case["case"].get("tier", "quick")
    run(ctx)
    return 1 if ctx.violations else 0
