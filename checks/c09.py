"""C09 - every front end reports the same findings; the language server's last diagnostics are those of the newest text."""
import vlib
LEVEL = "model_checking"


def facts(c, reason):
    # reason = [front end, what]; "known:<scenario>" names a listed finding
    fe, what = (reason + ["", ""])[:2] if isinstance(reason, list) else ("", reason)
    f = {"frontend": fe, "reason": what}
    if isinstance(what, str) and what.startswith("known:"):
        f["scenario"] = what[len("known:"):]
    return f


def slim(c):
    if c.get("kind") == "hist":
        return {k: c.get(k) for k in ("id", "kind", "sent", "outside", "mode", "pubs", "alive", "quiet", "threads")}
    return {k: c.get(k) for k in ("id", "kind", "lang", "text", "rules", "ref", "fe", "exits", "astral")}


def run(ctx):
    th = ctx.thorough
    r, summ, rec, n, bad = vlib.pipeline(
        ctx, ("mc/MC_C09.tla", "mc/MC_C09_thorough.cfg" if th else "mc/MC_C09_quick.cfg"),
        ["drive", "c09", "--tier", ctx.tier, "--seed", ctx.seed], ("trace/Trace_C09.tla", "trace/Trace_C09.cfg"),
        slim=slim, facts=facts,
        what=lambda c, reason: "%s %s: %s" % (c["id"], c.get("lang") or c.get("mode"), reason),
        mc_kw={"workers": 4, "timeout": 3000, "heap": "8g"})
    # the unrepaired protocol must still be rejected by the model: the invariants are not vacuous
    w = vlib.run_tlc(ctx, "mc/MC_C09.tla", "mc/MC_C09_prefix.cfg", workers=4, timeout=600, keep_vec=False)
    if "NewestPublished" not in w.raw and "MapAgrees" not in w.raw and "NoDeadlock" not in w.raw:
        raise vlib.ToolError("MC_C09_prefix: the pre-repair protocol no longer violates any invariant - the model lost its teeth")
    # unbounded: TLAPS proves that with the repaired protocol the document entry is never kept locked across an await and
    # the server never wedges, for histories of any length and any number of concurrent handlers (proofs/LspProofs.tla)
    vlib.run_tlapm(ctx, "proofs/LspProofs.tla")
    from checks import testrunstage
    n_tr = testrunstage.run(ctx, "C09")
    ctx.cov["evaluations"] = n + n_tr
    recs = vlib.read_ndjson(rec)
    fe = [x for x in recs if x["kind"] == "fe"]
    hist = [x for x in recs if x["kind"] == "hist"]
    ctx.cov["frontend_cases"] = len(fe)
    ctx.cov["frontends_per_case"] = sorted(set(k for x in fe for k in x["fe"]))
    ctx.cov["languages"] = sorted(set(x["lang"] for x in fe))
    ctx.cov["histories"] = len(hist)
    ctx.cov["histories_bounded_by_model"] = sum(1 for x in hist if x["bounded"])
    ctx.cov["history_modes"] = sorted(set(x["mode"] for x in hist))
    ctx.cov["distinct_nontrivial"] = len(set((x["lang"], x["text"], str(x["rules"])) for x in fe if x["ref"])) + \
        len(set((str(x["sent"]), x["mode"], x["outside"]) for x in hist if len(x["sent"]) > 1))
    ctx.cov["rule"] = ("evaluation = one (rule set, text) pushed through 11 front-end routes of the real tool, or one notification "
                       "history sent to the real language server; non-trivial = text with at least one finding / history with "
                       "more than one notification; distinct by (language, text, rules) / (history, mode)")
    ctx.cov["exhaustive"] = False
    ctx.cov["samples"] = [{"id": x["id"], "sent": x["sent"], "mode": x["mode"], "pubs": x["pubs"]} for x in hist[:2]] + \
                         [{"id": x["id"], "text": x["text"], "lsp": x["fe"]["lsp"][:2]} for x in fe[:1]]
    ctx.assumptions += [
        "handlers are suspended only at `.await`s and started in arrival order (tower-lsp 0.20 Server::serve, buffer_unordered); "
        "Lsp.tla abstracts each handler to the code between two awaits",
        "the language server's message rendering (rule id for an empty message, note appended after a blank line) is taken as a "
        "rendering of the same message, not as a different one",
        "the unused-suppression pseudo rule is part of the rule set in project scans and the language server and not with -r/--stdin",
        "sg test verdicts are compared for rules of the text's language only (a rule of another language parses the text differently)",
        "histories use one document; texts have exactly one finding whose message names the text",
    ]


replay = vlib.std_replay(run)
