"""C03 - every reported pattern match is justified by the documented strictness rules."""
from checks import matchcommon
LEVEL = "model_checking"


def run(ctx):
    matchcommon.run(ctx, "C03")


def replay(ctx, path):
    import json
    case = json.load(open(path))
    print(json.dumps(case, indent=1)[:4000])
    ctx.seed = case["case"].get("seed", 0)
    ctx.tier = case["case"].get("tier", "quick")
    run(ctx)
    return 1 if ctx.violations else 0
