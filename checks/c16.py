"""C16 - everything the CLI prints about a match agrees with the bytes on disk."""
import vlib
LEVEL = "model_checking"


def run(ctx):
    th = ctx.thorough
    r = vlib.model_check(ctx, "mc/MC_C16.tla", "mc/MC_C16_thorough.cfg" if th else "mc/MC_C16_quick.cfg", workers=8, timeout=3000, heap="8g")
    vlib.model_check(ctx, "mc/MC_Positions.tla", "mc/MC_Positions_thorough.cfg" if th else "mc/MC_Positions_quick.cfg", workers=6, timeout=900)
    # which lines the plain report prints, in how many groups (Merger.tla; beyond the statement of C16)
    vlib.model_check(ctx, "mc/MC_Merger.tla", "mc/MC_Merger_thorough.cfg" if th else "mc/MC_Merger.cfg", workers=6, timeout=1800, keep_vec=False)
    # the machine exactly as the code has it (the end line does not move on a merge) prints shared lines twice: the
    # model must show that (a finding outside the listed properties, DESIGN 11.5)
    w = vlib.run_tlc(ctx, "mc/MC_Merger.tla", "mc/MC_Merger_witness.cfg", workers=2, timeout=600, keep_vec=False)
    if w.violated != "Same":
        raise vlib.ToolError("MC_Merger_witness: the merger as coded no longer violates the statement - update Merger.tla (asCode) and DESIGN 11.5")
    rec = ctx.path("c16-records.ndjson")
    summ = vlib.agv_ok(ctx, ["drive", "c16", "--corpus", vlib.CORPUS, "--seed", ctx.seed, "--tier", ctx.tier, "--out", rec], timeout=3000)
    # vacuity guards: the shapes added for particular clauses must really produce records
    if not summ.get("secondary_labels_judged"):
        raise vlib.ToolError("C16: no printed secondary label was judged - the relational-rule cases lost their matches")
    if not any(x["id"].startswith("custom-injection") and x.get("items") for x in vlib.read_ndjson(rec)):
        raise vlib.ToolError("C16: the custom language injection cases printed no record")
    n, fails = vlib.validate_trace(ctx, "trace/Trace_C16.tla", "trace/Trace_C16.cfg", rec, timeout=3000)
    bad = set()
    for f in fails:
        case = vlib.nth_line(rec, f["index"])
        for reason in f["reasons"]:
            facts = {"reason": "%s:%s" % (reason[0], reason[1]), "style": case["style"], "scan": case["scan"]}
            slim = {"id": case["id"], "args": case["args"], "before": case["before"], "after": case["after"], "exit": case["exit"],
                    "files": [{"path": f2["path"], "text": "".join(f2["chars"])[:600]} for f2 in case["files"]],
                    "items": [{"file": i["file"], "range": i["range"], "lines": "".join(i["lines"])[:300], "lead": i["lead"], "trail": i["trail"]} for i in case["items"][:6]],
                    "entries": case["entries"][:10], "raw": case.get("raw")}
            if vlib.report_failure(ctx, facts, {"record": slim, "reason": reason, "seed": ctx.seed, "tier": ctx.tier},
                                   "%s `sgv %s`: %s" % (case["id"], " ".join(case["args"])[:160], reason)):
                bad.add(f["index"])
    ext = [d for d in ctx.cov["drift"] if any(isinstance(w, str) and w.startswith("ext:") for w in (d.get("what") if isinstance(d.get("what"), list) else [d.get("what")]))]
    for d in ext[:10]:
        print("EXTENSION-FINDING plain report %s: %s" % (d.get("id"), d.get("what")), flush=True)
    ctx.cov["plain_report_lines_judged_by_Merger"] = sum(1 for x in vlib.read_ndjson(rec) if x["style"] == "plain" and not x["scan"] and not x.get("rewrite"))
    recs = vlib.read_ndjson(rec)
    nt = set()
    for x in recs:
        if x["items"] or x["entries"]:
            nt.add((x["style"], x["scan"], x["before"], x["after"], len(x["files"]), len(x["items"]) + len(x["entries"]), x["id"].split("#")[0][-40:]))
    ctx.cov["traces_validated_against_impl"] = n - len(bad)
    ctx.cov["evaluations"] = n
    ctx.cov["distinct_nontrivial"] = len(nt)
    ctx.cov["rule"] = ("evaluation = one sgv invocation (run/scan x JSON style or plain report x context flags x 1-4 files) with every "
                       "printed item judged; non-trivial = invocation that printed at least one item; distinct by (style, command, "
                       "context, #files, #items, source)")
    ctx.cov["records"] = summ
    ctx.cov["exhaustive"] = True
    ctx.cov["samples"] = [{"args": x["args"], "items": len(x["items"]), "entries": x["entries"][:3]} for x in recs[:3]]
    ctx.assumptions += ["files: multi-byte text, CRLF, a 1400-character line, match at file start/end, no trailing newline, "
                        "empty lines; corpus files through `sg run` with a literal leaf pattern",
                        "the harness supplies the table of character start offsets; TLC re-checks it against the character classes"]


replay = vlib.std_replay(run)
