"""C04 - meta-variable bindings are coherent and failed alternatives leave no trace"""
from checks import rulescommon
LEVEL = "model_checking"


def run(ctx):
    rulescommon.run(ctx, "C04")


def replay(ctx, path):
    import json
    case = json.load(open(path))
    print(json.dumps(case, indent=1)[:4000])
    ctx.seed = case["case"].get("seed", 0)
    ctx.tier = case["case"].get("tier", "quick")
    run(ctx)
    return 1 if ctx.violations else 0
