"""C04 - meta-variable bindings are coherent and failed alternatives leave no trace"""
from checks import rulescommon
LEVEL = "model_checking"


def run(ctx):
    rulescommon.run(ctx, "C04")
    # first clause of C04 on single patterns: a variable that occurs twice must stand for identical code.  Align.tla
    # LegalB = a legal alignment in which every occurrence of a captured variable is code identical (TreeEq) to the
    # binding the real match reported; candidates include sub-terms equal up to trailing optional children.
    import vlib
    # the same clause on the bounded model: occurrences of A at both levels, goal lists <= 3 x candidate lists <= 3
    vlib.model_check(ctx, "mc/MC_C03.tla", "mc/MC_C03_rep.cfg", workers=8, timeout=1800, heap="6g")
    rec = ctx.path("c04-repeated.ndjson")
    summ = vlib.agv_ok(ctx, ["drive", "c04rep", "--out", rec], timeout=1200)
    n, fails = vlib.validate_trace(ctx, "trace/Trace_Match.tla", "trace/Trace_Match.cfg", rec, timeout=1800)
    for f in fails:
        case = vlib.nth_line(rec, f["index"])
        for reason in f["reasons"]:
            if reason[0] not in ("same-variable-different-code", "rejected-candidate-left-bindings"):
                continue
            vlib.report_failure(ctx, {"reason": reason[0], "strictness": reason[1]},
                                {"record": {"id": case["id"], "pattern": case["pattern"], "cand": case["cand"], "outs": case["outs"]},
                                 "reason": reason, "seed": ctx.seed, "tier": ctx.tier},
                                "pattern %r on %r at %s: %s" % (case["pattern"], case["cand"], reason[1], reason[0]))
    ctx.cov["repeated_variable_pattern_records"] = n
    ctx.cov["evaluations"] = ctx.cov.get("evaluations", 0) + 5 * n


def replay(ctx, path):
    import json
    case = json.load(open(path))
    print(json.dumps(case, indent=1)[:4000])
    ctx.seed = case["case"].get("seed", 0)
    ctx.tier = case["case"].get("tier", "quick")
    run(ctx)
    return 1 if ctx.violations else 0
