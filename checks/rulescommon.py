"""shared by C01 / C04 / C05: rule universe -> MC_Rules (TLC) -> real code -> Trace_Rules (TLC).
The three properties read different clauses of the same judged records, so the expensive pipeline is
computed once per (harness binary, spec, tier, seed) and cached under /verif/work (not needed, only faster)."""
import hashlib
import json
import os
import shutil
import vlib

CACHE = os.path.join(vlib.ROOT, "work", "cache")


def _key(ctx):
    h = hashlib.sha256()
    h.update(open(vlib.AGV, "rb").read())
    for root in (os.path.join(vlib.SPEC), os.path.join(vlib.ROOT, "corpus")):
        for d, _, fs in sorted(os.walk(root)):
            for f in sorted(fs):
                h.update(f.encode())
                h.update(open(os.path.join(d, f), "rb").read())
    h.update(open(os.path.join(vlib.ROOT, "checks", "rulescommon.py"), "rb").read())
    h.update(("%s-%s" % (ctx.tier, ctx.seed)).encode())
    return h.hexdigest()[:24]


def pipeline(ctx):
    """returns dict(n, fails, universe_path, records_path, summ, mc) - possibly from the cache"""
    key = _key(ctx)
    cdir = os.path.join(CACHE, key)
    if os.path.exists(os.path.join(cdir, "done.json")):
        vlib.log("rule pipeline: using cached run", key)
        res = json.load(open(os.path.join(cdir, "done.json")))
        res["universe_path"] = os.path.join(cdir, "universe.json")
        res["records_path"] = os.path.join(cdir, "records.ndjson")
        ctx.cov["tlc_runs"] += res["tlc_runs"]
        ctx.cov["states"] += res["states"]
        ctx.cov["transitions"] += res["transitions"]
        ctx.cov["drift"] += res["drift"]
        ctx.cov["cached_pipeline"] = True
        return res
    th = ctx.thorough
    uni = ctx.path("universe.json")
    usum = vlib.agv_ok(ctx, ["universe", "--mode", "both", "--corpus", vlib.CORPUS, "--seed", ctx.seed, "--tier", ctx.tier,
                             "--out", uni])
    r = vlib.model_check(ctx, "mc/MC_Rules.tla", "mc/MC_Rules_thorough.cfg" if th else "mc/MC_Rules_quick.cfg",
                         workers=8, timeout=5400, heap="12g", env={"UNIVERSE": uni})
    vec = ctx.path("rule-vectors.ndjson")
    vlib.write_ndjson(vec, r.vec)
    rec = ctx.path("rule-records.ndjson")
    summ = vlib.agv_ok(ctx, ["drive", "rules", "--universe", uni, "--vectors", vec, "--out", rec], timeout=3600)
    n, fails = vlib.validate_trace_sharded(ctx, "trace/Trace_Rules.tla", "trace/Trace_Rules.cfg", rec, shards=8,
                                           timeout=5400, extra_env={"UNIVERSE": uni})
    # many rules scanned together (C01): the design (Combined.tla, with the variant it must reject) and the records
    vlib.model_check(ctx, "mc/MC_Combined.tla", "mc/MC_Combined.cfg", workers=8, timeout=1800, heap="6g")
    wit = vlib.run_tlc(ctx, "mc/MC_Combined.tla", "mc/MC_Combined_witness.cfg", workers=4, timeout=900, keep_vec=False)
    if wit.violated != "SameAsAlone":
        raise vlib.ToolError("MC_Combined_witness: 'one fix per node' no longer violates SameAsAlone - the model lost its teeth")
    n_sets, set_fails = vlib.validate_trace(ctx, "trace/Trace_Sets.tla", "trace/Trace_Sets.cfg", rec + ".sets", timeout=3000)
    if n_sets < 20:
        raise vlib.ToolError("only %d rule sets were scanned together" % n_sets)
    res = {"n": n, "fails": fails, "summ": summ, "usum": usum, "vectors": len(r.vec), "n_sets": n_sets, "set_fails": set_fails,
           "tlc_runs": ctx.cov["tlc_runs"], "states": ctx.cov["states"], "transitions": ctx.cov["transitions"],
           "drift": ctx.cov["drift"]}
    try:
        shutil.rmtree(CACHE, ignore_errors=True)      # keep at most one cached run
        os.makedirs(cdir)
        shutil.copy(uni, os.path.join(cdir, "universe.json"))
        shutil.copy(rec, os.path.join(cdir, "records.ndjson"))
        shutil.copy(rec + ".sets", os.path.join(cdir, "records.ndjson.sets"))
        json.dump(res, open(os.path.join(cdir, "done.json"), "w"))
    except OSError:
        pass
    res["universe_path"] = uni
    res["records_path"] = rec
    return res


def count_ops(rule, acc):
    acc[rule["op"]] = acc.get(rule["op"], 0) + 1
    for k in ("sub", "of", "stop"):
        if isinstance(rule.get(k), dict) and rule[k].get("op") not in (None, "none", "neighbor", "end"):
            count_ops(rule[k], acc)
    for s in rule.get("subs", []) or []:
        count_ops(s, acc)


def run(ctx, prop, extra=None):
    res = pipeline(ctx)
    recs_path = res["records_path"]
    bad = set()
    for f in res["fails"]:
        mine = [r for r in f["reasons"] if r[0] == prop]
        if not mine:
            continue
        case = vlib.nth_line(recs_path, f["index"])
        for reason in mine:
            facts = {"reason": reason[1], "lang": case["lang"]}
            if reason[1].startswith("known:"):
                facts["scenario"] = reason[1][6:]
            slim = {k: case.get(k) for k in ("id", "lang", "yaml", "utils", "src", "hits", "envs", "pk", "cfg", "u", "t")}
            if vlib.report_failure(ctx, facts, {"record": slim, "reason": reason, "seed": ctx.seed, "tier": ctx.tier},
                                   "rule %s on %r: %s" % (json.dumps(case["yaml"])[:200], case["src"][:60], reason[1])):
                bad.add(f["index"])
    if prop == "C04":
        lab = [d for d in res.get("drift", []) if any(str(w).startswith("labels") for w in (d.get("what") or []))]
        ctx.cov["secondary_labels"] = {"programs_whose_labels_differ_from_the_selected_nodes": len(lab),
                                       "model": "Labels.tla LabelsOf(P) = recorded labels on every match (else DRIFT 'labels...')"}
    if prop == "C01":
        for f in res.get("set_fails", []):
            case = vlib.nth_line(recs_path + ".sets", f["index"])
            for reason in f["reasons"]:
                vlib.report_failure(ctx, {"reason": reason[1], "lang": case["lang"]},
                                    {"record": case, "reason": reason, "seed": ctx.seed, "tier": ctx.tier},
                                    "rule set %s on %r: %s" % (case["id"], case["src"][:60], reason[1]))
        ctx.cov["rule_sets_scanned_together"] = res.get("n_sets", 0)
    # coverage numbers for this property
    ops = {}
    shapes = set()
    n_hits = 0
    n_rules = 0
    langs = set()
    samples = []
    with open(recs_path) as fh:
        for i, line in enumerate(fh):
            x = json.loads(line)
            n_rules += 1
            langs.add(x["lang"])
            acc = {}
            count_ops(x["rule"], acc)
            for k, v in acc.items():
                ops[k] = ops.get(k, 0) + v
            if x["hits"]:
                n_hits += 1
            if len(acc) >= 2 or sum(acc.values()) >= 2:
                shapes.add((x["lang"], x["t"], json.dumps(x["rule"], sort_keys=True)))
            if i % max(1, res["n"] // 3) == 0 and len(samples) < 4:
                samples.append({k: x.get(k) for k in ("lang", "yaml", "src", "hits", "pk")})
    ctx.cov["traces_validated_against_impl"] = res["n"] - len(bad)
    ctx.cov["evaluations"] = n_rules
    ctx.cov["rules_matching_somewhere"] = n_hits
    ctx.cov["distinct_nontrivial"] = len(shapes)
    ctx.cov["rule"] = ("evaluation = one TLC-enumerated rule program loaded by the real code and run on every node of one real "
                       "tree (plus find_all / Visitor / CombinedScan when it loads as a rule file); distinct = distinct "
                       "(language, tree, rule); non-trivial = rule with at least two operators")
    ctx.cov["operator_occurrences"] = ops
    ctx.cov["languages_covered"] = sorted(langs)
    ctx.cov["universe"] = res["usum"]
    ctx.cov["driver"] = res["summ"]
    ctx.cov["samples"] = samples
    ctx.cov["exhaustive"] = True
    ctx.assumptions += [
        "trees come from real tree-sitter parses (carrier programs + corpus subtrees that re-parse error-free, no zero-width nodes)",
        "regex atoms are anchored literal alternations, so a regex is a finite set of texts in the specification",
        "pattern atoms are judged through the oracle 'the pattern alone on this node' recorded from the real matcher (C05) "
        "and through the transcribed matcher of Match.tla, guarded by agreement with that oracle (C04)",
    ]
    return res
