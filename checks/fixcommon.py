"""shared by C06 / C07: Replace.tla / Indent.tla / Template.tla models, fix recorder, Trace_Fix.tla"""
import json
import vlib


def run(ctx, prop):
    th = ctx.thorough
    args = ["drive", prop.lower(), "--corpus", vlib.CORPUS, "--seed", ctx.seed, "--tier", ctx.tier]
    if prop == "C07":
        r = vlib.model_check(ctx, "mc/MC_C07.tla", "mc/MC_C07_thorough.cfg" if th else "mc/MC_C07_quick.cfg", workers=8, timeout=3000)
        vec = ctx.path("c07-vectors.ndjson")
        keep = r.vec if len(r.vec) <= 4000 else r.vec[:: len(r.vec) // 4000]
        vlib.write_ndjson(vec, keep)
        args += ["--vectors", vec]
        mine = None
    else:
        r = vlib.model_check(ctx, "mc/MC_C06.tla", "mc/MC_C06_thorough.cfg" if th else "mc/MC_C06_quick.cfg", workers=8, timeout=3000, heap="10g")
        vec = ctx.path("c06-vectors.ndjson")
        want = 1500 if th else 300
        keep = r.vec[:: max(1, len(r.vec) // want)]
        vlib.write_ndjson(vec, keep)
        args += ["--vectors2", vec]
    ctx.cov["vectors_exported"] = len(r.vec)
    ctx.cov["vectors_replayed"] = len(keep)
    rec = ctx.path("fix-records.ndjson")
    summ = vlib.agv_ok(ctx, args + ["--out", rec], timeout=3000)
    if prop == "C06":
        # vacuity guard: the rewriters added for particular clauses must really take part in rewrites
        seen = set()
        for x in vlib.read_ndjson(rec):
            if x.get("mode") == "rewrite":
                for c in x["cands"]:
                    for h in c["hits"]:
                        seen.add(h.get("by"))
        if not {"statement", "expanding-fix", "code"} <= seen:
            raise vlib.ToolError("C06: rewrite records without hits of every rewriter family (seen %s)" % sorted(map(str, seen)))
    n, fails = vlib.validate_trace(ctx, "trace/Trace_Fix.tla", "trace/Trace_Fix.cfg", rec, timeout=3000)
    bad = set()
    for f in fails:
        case = vlib.nth_line(rec, f["index"])
        for reason in f["reasons"]:
            facts = {"reason": reason, "lang": case.get("lang", "JavaScript"), "mode": case["mode"]}
            if isinstance(reason, str) and reason.startswith("known:"):
                facts["scenario"] = reason[6:]
            if case["mode"] == "rewrite":
                slim = {k: case.get(k) for k in ("id", "text", "order", "join", "cs", "ce", "cands")}
                slim["out"] = bytes(case["out"]).decode("utf8", "replace")
            elif case["mode"] == "tplx":
                slim = {"id": case["id"], "form": case["form"], "template": "".join(case["raw"]), "out": "".join(case["out"]),
                        "vals": {"".join(v["name"]): "".join(v["val"]) for v in case["vals"]}}
            elif case["mode"] == "selfx":
                slim = {"id": case["id"], "src": "".join(case["src"]), "matched": "".join(case["matched"]), "out": "".join(case["out"])}
            elif case["mode"] == "tpl":
                slim = {"id": case["id"], "lang": case["lang"], "pattern": case["pattern"], "template": "".join(case["raw"]),
                        "src": "".join(case["src"])[:1500], "site": case["site"], "bind": case["bind"], "out": "".join(case["out"])}
            else:
                slim = {k: case.get(k) for k in ("id", "lang", "rule", "text", "lib", "cli", "applied", "codes", "expanded")}
                slim["after"] = bytes(case["after"]).decode("utf8", "replace")[:400]
            if vlib.report_failure(ctx, facts, {"record": slim, "reason": reason, "seed": ctx.seed, "tier": ctx.tier},
                                   "%s: %s" % (case["id"], reason)):
                bad.add(f["index"])
    recs = vlib.read_ndjson(rec)
    if prop == "C07":
        nt = set()
        tx = [x for x in recs if x["mode"] == "tplx"]
        sx = [x for x in recs if x["mode"] == "selfx"]
        ctx.cov["self_rewrites_through_identity_transforms"] = len(sx)
        for x in sx:
            nt.add(("selfx", "".join(x["src"])))
        recs = [x for x in recs if x["mode"] not in ("tplx", "selfx")]
        ctx.cov["templates_with_transformed_variables"] = len(tx)
        for x in tx:
            nt.add(("tplx", x["form"], "".join(x["raw"]), "".join(x["out"])))
        for x in recs:
            multi = any("\n" in "".join(x["src"][b["lo"]:b["hi"]]) for b in x["bind"])
            if multi:
                nt.add((x["lang"], "".join(x["raw"]), "".join(x["src"])[max(0, x["site"] - 6):x["site"] + 40]))
        ctx.cov["distinct_nontrivial"] = len(nt)
        ctx.cov["rule"] = ("evaluation = one real generate_replacement (+ replace_by/edit) call; non-trivial = the template "
                           "inserts a captured multi-line snippet; distinct by (language, template, match site text)")
        s = recs[len(recs) // 2]
        ctx.cov["samples"] = [{"src": "".join(s["src"]), "template": "".join(s["raw"]), "out": "".join(s["out"])},
                              {"id": recs[-1]["id"], "template": "".join(recs[-1]["raw"]), "out": "".join(recs[-1]["out"])[:300]}]
    else:
        nt = set()
        rw = [x for x in recs if x["mode"] == "rewrite"]
        recs = [x for x in recs if x["mode"] != "rewrite"]
        ctx.cov["rewrite_records"] = len(rw)
        ctx.cov["rewrite_records_with_overlapping_candidates"] = sum(
            1 for x in rw if any(a["hits"] and b["hits"] and a["s"] <= b["s"] and b["e"] <= a["e"]
                                 for i, a in enumerate(x["cands"]) for b in x["cands"][i + 1:]))
        for x in rw:
            nt.add(("rewrite", x["text"], tuple(x["order"]), x["join"]))
        for x in recs:
            if len(x["lib"]) >= 1:
                nt.add((x["lang"], json.dumps(x["rule"].get("fix")), x["text"][:80], len(x["lib"]), len(x["cli"])))
        ctx.cov["distinct_nontrivial"] = len(nt)
        ctx.cov["rule"] = ("evaluation = one rule with fix on one source: Node::replace_all edits, sg scan --json edits, the file "
                           "after sg scan -U; non-trivial = at least one edit proposed; distinct by (language, fix, source, #edits)")
        s = recs[len(recs) // 2]
        ctx.cov["samples"] = [{"text": s["text"], "fix": s["rule"].get("fix"), "lib": [(e["pos"], e["del"]) for e in s["lib"]],
                               "cli": [(e["pos"], e["del"]) for e in s["cli"]], "after": bytes(s["after"]).decode("utf8", "replace")[:200]}]
    ctx.cov["traces_validated_against_impl"] = n - len(bad)
    ctx.cov["evaluations"] = n
    ctx.cov["records"] = summ
    ctx.cov["languages_covered"] = sorted(set(x.get("lang", "JavaScript") for x in recs))
    ctx.cov["exhaustive"] = True
    ctx.assumptions += [
        "texts are sequences of characters in the specification; the code works on UTF-8 bytes (the two coincide for the "
        "ASCII spaces/newlines the indentation arithmetic inspects)",
        "the indentation clause is judged for space-indented LF text with lines shorter than the 512-byte look-behind window",
    ]
