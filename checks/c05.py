"""C05 - rule objects mean what the rule reference says"""
from checks import rulescommon
LEVEL = "model_checking"


def run(ctx):
    rulescommon.run(ctx, "C05")


def replay(ctx, path):
    import json
    case = json.load(open(path))
    print(json.dumps(case, indent=1)[:4000])
    ctx.seed = case["case"].get("seed", 0)
    ctx.tier = case["case"].get("tier", "quick")
    run(ctx)
    return 1 if ctx.violations else 0
