"""C06 - rewrites touch only what was matched: edits are well-formed and local"""
from checks import fixcommon
LEVEL = "model_checking"


def run(ctx):
    fixcommon.run(ctx, "C06")


def replay(ctx, path):
    import json
    case = json.load(open(path))
    print(json.dumps(case, indent=1)[:4000])
    ctx.seed = case["case"].get("seed", 0)
    ctx.tier = case["case"].get("tier", "quick")
    run(ctx)
    return 1 if ctx.violations else 0
