"""C07 - fix templates substitute captured code verbatim and keep relative indentation"""
from checks import fixcommon
LEVEL = "model_checking"


def run(ctx):
    fixcommon.run(ctx, "C07")


def replay(ctx, path):
    import json
    case = json.load(open(path))
    print(json.dumps(case, indent=1)[:4000])
    ctx.seed = case["case"].get("seed", 0)
    ctx.tier = case["case"].get("tier", "quick")
    run(ctx)
    return 1 if ctx.violations else 0
