"""C20 - meta-variable syntax is uniform across languages; small notations are exact."""
import vlib

LEVEL = "model_checking"


def facts_of(case, reason):
    """facts about one failing (record, reason) for known-finding matching"""
    s = "".join(case["s"])
    f = {"kind": case["k"], "reason": reason[0] if isinstance(reason, list) else reason}
    if case["k"] == "mv" and isinstance(reason, list) and len(reason) > 1 and reason[1]:
        lang = reason[1]
        f["lang"] = lang
        for x in case["langs"]:
            if x["lang"] == lang:
                f["expando"] = x["e"]
    f["string"] = s
    if f["reason"].startswith("known:"):
        f["scenario"] = f["reason"][6:]
    return f


def run(ctx):
    th = ctx.thorough
    cfg = "mc/MC_C20_thorough.cfg" if th else "mc/MC_C20_quick.cfg"
    r = vlib.model_check(ctx, "mc/MC_C20.tla", cfg, workers=8, timeout=1500)
    vec = ctx.path("c20-vectors.ndjson")
    vlib.write_ndjson(vec, r.vec)
    rec = ctx.path("c20-records.ndjson")
    summ = vlib.agv_ok(ctx, ["drive", "c20", "--vectors", vec, "--out", rec])
    n, fails = vlib.validate_trace(ctx, "trace/Trace_C20.tla", "trace/Trace_C20.cfg", rec, timeout=2400)
    for f in fails:
        case = vlib.nth_line(rec, f["index"])
        for reason in f["reasons"]:
            facts = facts_of(case, reason)
            slim = {"k": case["k"], "s": case["s"]}
            if case["k"] == "mv" and facts.get("lang"):
                slim["lang_result"] = [x for x in case["langs"] if x["lang"] == facts["lang"]]
            elif case["k"] == "mv":
                slim["tpl"] = case["tpl"]
            elif case["k"] == "anb":
                slim.update({k: case[k] for k in ("accepted", "matched", "panic")})
            else:
                slim["outs"] = [o for o in case["outs"] if [o["st"], o["en"]] == reason[1:3]]
            vlib.report_failure(ctx, facts, {"vector": slim, "reason": reason},
                                "%s %r: %s" % (case["k"], facts["string"], reason))
    nlang = len(summ.get("languages", []))
    evals = summ.get("mv", 0) * (2 * nlang + 1) + summ.get("anb", 0) + summ.get("sub", 0) * 256
    ctx.cov["traces_validated_against_impl"] = n - len(set(f["index"] for f in fails))
    ctx.cov["evaluations"] = evals
    recs = vlib.read_ndjson(rec) if n < 6000 else []
    # non-trivial: strings containing the sigil (mv), formulas with n (anb), every text (sub)
    nt = 0
    for v in r.vec:
        if (v["k"] == "mv" and "$" in v["s"]) or (v["k"] == "anb" and ("n" in v["s"] or "N" in v["s"])) or v["k"] == "sub":
            nt += 1
    ctx.cov["distinct_nontrivial"] = nt
    ctx.cov["rule"] = ("cases = every string TLC enumerated up to the export bound (distinct by construction); "
                       "non-trivial = pattern/template strings containing the sigil, An+B strings containing n, "
                       "every substring text (x 256 start/end pairs); evaluations = real API calls "
                       "(extract_meta_var + Pattern::try_new per language, template, rule load+match, transform)")
    ctx.cov["languages_covered"] = summ.get("languages", [])
    ctx.cov["records"] = {k: summ.get(k) for k in ("mv", "anb", "sub")}
    ctx.cov["exhaustive"] = True
    ctx.cov["samples"] = [r.vec[i] for i in (0, len(r.vec) // 2, len(r.vec) - 1)] if r.vec else []
    if recs:
        x = [q for q in recs if q["k"] == "mv" and "".join(q["s"]) == "$$A"]
        if x:
            ctx.cov["samples"].append({"s": "$$A", "C": [l for l in x[0]["langs"] if l["lang"] == "C"][0], "tpl": x[0]["tpl"]})
    ctx.assumptions += [
        "alphabets: {$,A,B,a,1,_,z} for spellings/templates, {n,N,+,-,0..3,space} for An+B, {a,e-acute,crab} for substring",
        "the declarative notation (Spelling, TemplateP, AnBP, PySlice in Lexers.tla) is written from the documentation",
    ]


def replay(ctx, path):
    import json
    case = json.load(open(path))
    print(json.dumps(case, indent=1)[:3000])
    run(ctx)
    return 1 if ctx.violations else 0
