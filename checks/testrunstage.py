"""stage shared by C09 (verdict clause) and C13 (snapshot clause): TestRunner.tla model, every test file it exports run by
the real `sg test`, judged by Trace_TestRunner.tla; only reasons tagged with the calling property are alarms"""
import vlib


def run(ctx, prop):
    th = ctx.thorough
    m = vlib.model_check(ctx, "mc/MC_TestRunner.tla", "mc/MC_TestRunner_thorough.cfg" if th else "mc/MC_TestRunner_quick.cfg",
                         workers=4, timeout=1800)
    vec = ctx.path("testrun-vectors.ndjson")
    vlib.write_ndjson(vec, m.vec)
    rec = ctx.path("testrun-records.ndjson")
    vlib.agv_ok(ctx, ["drive", "testrun", "--vectors", vec, "--out", rec], timeout=3000)
    if th:
        n, fails = vlib.validate_trace_sharded(ctx, "trace/Trace_TestRunner.tla", "trace/Trace_TestRunner.cfg", rec, shards=8)
    else:
        n, fails = vlib.validate_trace(ctx, "trace/Trace_TestRunner.tla", "trace/Trace_TestRunner.cfg", rec)
    for f in fails:
        case = vlib.nth_line(rec, f["index"])
        for reason in f["reasons"]:
            if reason[0] != prop:
                continue
            vlib.report_failure(ctx, {"reason": reason[1], "frontend": "sg test"},
                                {"record": case, "reason": reason, "seed": ctx.seed, "tier": ctx.tier},
                                "sg test on %s (skip=%s update=%s): %s" % (case["cases"], case["skip"], case["update"], reason[1]))
    ctx.cov["sg_test_files_from_model"] = len(m.vec)
    ctx.cov["sg_test_runs"] = 4 * n
    ctx.cov["evaluations"] = ctx.cov.get("evaluations", 0) + n
    return n
