"""C15 - a rule runs on a file exactly when language, globs and severity say so."""
import vlib
LEVEL = "model_checking"


def run(ctx):
    th = ctx.thorough
    r, summ, rec, n, bad = vlib.pipeline(
        ctx, ("mc/MC_C15.tla", "mc/MC_C15_thorough.cfg" if th else "mc/MC_C15_quick.cfg"),
        ["drive", "c15", "--tier", ctx.tier, "--seed", ctx.seed], ("trace/Trace_C15.tla", "trace/Trace_C15.cfg"),
        slim=lambda c: {k: c.get(k) for k in ("id", "cfg", "args", "fired", "exit", "suppressed", "severities", "stderr")},
        facts=lambda c, reason: {"reason": reason[0] if isinstance(reason, list) else reason},
        what=lambda c, reason: "%s args=%s: %s" % (c["id"], " ".join(c["args"]), reason),
        mc_kw={"workers": 8, "timeout": 3000, "heap": "10g"}, sharded=4 if th else 0)
    recs = vlib.read_ndjson(rec)
    nt = set()
    for x in recs:
        c = x["cfg"]
        if any(r["files"] or r["ignores"] for r in c["rules"]) or c["dflt"] != "none" or c["byId"] or c["filter"] != ["*"]:
            nt.add(tuple(x["args"]) + tuple(sorted((r["id"], r["lang"], tuple(r["files"]), tuple(r["ignores"]), r["sev"]) for r in c["rules"])) + (c["lglob"],))
    ctx.cov["distinct_nontrivial"] = len(nt)
    ctx.cov["rule"] = ("evaluation = one materialised project scanned by `sgv scan --json` from its root (8 files, 2 rules); "
                       "non-trivial = configuration with a files/ignores glob or a CLI override or --filter; distinct by full configuration")
    ctx.cov["exhaustive"] = th
    ctx.cov["samples"] = [{"args": x["args"], "rules": x["cfg"]["rules"], "fired": x["fired"], "exit": x["exit"]} for x in recs[:2]]
    ctx.assumptions += ["glob semantics are a hand-written truth table for 6 globs x 8 paths (no `*` across `/`, no `./` prefixes)",
                        "the exit clause is judged on the severities printed with the findings (incl. unused-suppression)"]


    project_stage(ctx)
    walk_stage(ctx)


def project_stage(ctx):
    """Project.tla: where a scan is started, which configuration it finds and which text the globs see.  C15's slice
    (project directory, clean relative argument) is judged at property level; the rest is reported as an extension."""
    mc = vlib.model_check(ctx, "mc/MC_Project.tla", "mc/MC_Project.cfg", workers=2, timeout=600)
    wit = vlib.run_tlc(ctx, "mc/MC_Project.tla", "mc/MC_Project_witness.cfg", workers=2, timeout=600, keep_vec=False)
    if wit.violated != "AgreeEverywhere":
        raise vlib.ToolError("MC_Project_witness: AgreeEverywhere is no longer violated - the model lost the difference between "
                             "the path as typed and the path relative to the project")
    # for ANY layout: inside C15's slice the path as walked is the path relative to the project (TLAPS, 52 obligations)
    vlib.run_tlapm(ctx, "proofs/ProjectProofs.tla", timeout=900, threads=4)
    vec = ctx.path("project-vectors.ndjson")
    vlib.write_ndjson(vec, mc.vec)
    rec = ctx.path("project-records.ndjson")
    summ = vlib.agv_ok(ctx, ["drive", "project", "--vectors", vec, "--out", rec], timeout=1800)
    before = len(ctx.cov["drift"])
    n, fails = vlib.validate_trace(ctx, "trace/Trace_Project.tla", "trace/Trace_Project.cfg", rec)
    for f in fails:
        case = vlib.nth_line(rec, f["index"])
        for reason in f["reasons"]:
            vlib.report_failure(ctx, {"reason": reason, "stage": "project"}, {"record": case, "reason": reason, "seed": ctx.seed, "tier": ctx.tier},
                                "%s: `sgv %s` in %s: %s" % (case["id"], " ".join(case["typed"]), "/".join(case["cwd"]) or ".", reason))
    new = ctx.cov["drift"][before:]
    ext = [d for d in new if any(str(w).startswith("ext:") for w in (d.get("what") or []))]
    model = [d for d in new if any(not str(w).startswith("ext:") for w in (d.get("what") or []))]
    # keep the evidence readable: the extension finding is one entry, the model drift stays in full
    ctx.cov["drift"] = ctx.cov["drift"][:before] + model
    if ext:
        case = vlib.nth_line(rec, ext[0]["index"])
        print("EXTENSION-FINDING project paths (%d of %d runs, e.g. `sgv %s` in %s): `files` / `ignores` globs are matched against "
              "the path as typed, not against the path relative to the project directory" %
              (len(ext), n, " ".join(case["typed"]), "/".join(case["cwd"]) or "the project directory"), flush=True)
    ctx.cov["project_stage"] = {"runs": n, "runs_outside_c15_slice_where_reports_differ": len(ext), "driver": summ,
                                "model": "Project.tla ReportI = the real report in every run (else DRIFT project-paths-model)"}
    ctx.cov["traces_validated_against_impl"] += n - len(fails)
    ctx.cov["evaluations"] = ctx.cov.get("evaluations", 0) + n


def walk_stage(ctx):
    """Walk.tla: which files of a tree a run looks at (-l, --no-ignore, --globs, explicit files).  No listed property speaks
    about this layer; the stage keeps the model bound to the code (drift) and reports where the order of the walk's
    filters differs from the documented reading as an extension finding."""
    mc = vlib.model_check(ctx, "mc/MC_Walk.tla", "mc/MC_Walk.cfg", workers=2, timeout=600)
    wit = vlib.run_tlc(ctx, "mc/MC_Walk.tla", "mc/MC_Walk_witness.cfg", workers=2, timeout=600, keep_vec=False)
    if wit.violated != "AgreeEverywhere":
        raise vlib.ToolError("MC_Walk_witness: AgreeEverywhere is no longer violated - the model lost the order of the filters")
    vec = ctx.path("walk-vectors.ndjson")
    vlib.write_ndjson(vec, mc.vec)
    rec = ctx.path("walk-records.ndjson")
    summ = vlib.agv_ok(ctx, ["drive", "walk", "--vectors", vec, "--out", rec], timeout=1800)
    before = len(ctx.cov["drift"])
    n, _ = vlib.validate_trace(ctx, "trace/Trace_Walk.tla", "trace/Trace_Walk.cfg", rec)
    new = ctx.cov["drift"][before:]
    ext = [d for d in new if any(str(w).startswith("ext:") for w in (d.get("what") or []))]
    model = [d for d in new if any(not str(w).startswith("ext:") for w in (d.get("what") or []))]
    ctx.cov["drift"] = ctx.cov["drift"][:before] + model
    if ext:
        case = vlib.nth_line(rec, ext[0]["index"])
        print("EXTENSION-FINDING files walked (%d of %d runs, e.g. `sgv %s` reports %s): a selected language (-l) or an "
              "allow-listing glob answers before the hidden-file and ignore-file filters are asked" %
              (len(ext), n, " ".join(case["typed"]), case["files"]), flush=True)
    ctx.cov["walk_stage"] = {"runs": n, "runs_where_walked_files_differ_from_the_documented_filters": len(ext), "driver": summ,
                             "model": "Walk.tla ScannedI = the files reported in every run (else DRIFT walk-model)"}
    ctx.cov["evaluations"] = ctx.cov.get("evaluations", 0) + n


replay = vlib.std_replay(run)
