"""C15 - a rule runs on a file exactly when language, globs and severity say so."""
import vlib
LEVEL = "model_checking"


def run(ctx):
    th = ctx.thorough
    r, summ, rec, n, bad = vlib.pipeline(
        ctx, ("mc/MC_C15.tla", "mc/MC_C15_thorough.cfg" if th else "mc/MC_C15_quick.cfg"),
        ["drive", "c15", "--tier", ctx.tier, "--seed", ctx.seed], ("trace/Trace_C15.tla", "trace/Trace_C15.cfg"),
        slim=lambda c: {k: c.get(k) for k in ("id", "cfg", "args", "fired", "exit", "suppressed", "severities", "stderr")},
        facts=lambda c, reason: {"reason": reason[0] if isinstance(reason, list) else reason},
        what=lambda c, reason: "%s args=%s: %s" % (c["id"], " ".join(c["args"]), reason),
        mc_kw={"workers": 8, "timeout": 3000, "heap": "10g"}, sharded=4 if th else 0)
    recs = vlib.read_ndjson(rec)
    nt = set()
    for x in recs:
        c = x["cfg"]
        if any(r["files"] or r["ignores"] for r in c["rules"]) or c["dflt"] != "none" or c["byId"] or c["filter"] != ["*"]:
            nt.add(tuple(x["args"]) + tuple(sorted((r["id"], r["lang"], tuple(r["files"]), tuple(r["ignores"]), r["sev"]) for r in c["rules"])) + (c["lglob"],))
    ctx.cov["distinct_nontrivial"] = len(nt)
    ctx.cov["rule"] = ("evaluation = one materialised project scanned by `sgv scan --json` from its root (8 files, 2 rules); "
                       "non-trivial = configuration with a files/ignores glob or a CLI override or --filter; distinct by full configuration")
    ctx.cov["exhaustive"] = th
    ctx.cov["samples"] = [{"args": x["args"], "rules": x["cfg"]["rules"], "fired": x["fired"], "exit": x["exit"]} for x in recs[:2]]
    ctx.assumptions += ["glob semantics are a hand-written truth table for 6 globs x 8 paths (no `*` across `/`, no `./` prefixes)",
                        "the exit clause is judged on the severities printed with the findings (incl. unused-suppression)"]


replay = vlib.std_replay(run)
