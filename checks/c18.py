"""C18 - `--update-all` writes exactly the announced edits and nothing else."""
import vlib
LEVEL = "model_checking"


def run(ctx):
    th = ctx.thorough
    r, summ, rec, n, bad = vlib.pipeline(
        ctx, ("mc/MC_C18.tla", "mc/MC_C18_thorough.cfg" if th else "mc/MC_C18_quick.cfg"),
        ["drive", "c18", "--tier", ctx.tier, "--seed", ctx.seed], ("trace/Trace_C18.tla", "trace/Trace_C18.cfg"),
        slim=lambda c: {"id": c["id"], "cmd": c["cmd"], "announced": [{k: a[k] for k in ("path", "lang", "pos", "del")} for a in c["announced"]],
                        "applied": c["applied"], "codes": c["codes"], "writes": c["writes"],
                        "files": [{"path": f["path"], "before": bytes(f["before"]).decode("utf8", "replace")[:600],
                                   "after": bytes(f["after"]).decode("utf8", "replace")[:600]} for f in c["files"]]},
        facts=lambda c, reason: {"reason": reason[0] if isinstance(reason, list) else reason},
        what=lambda c, reason: "%s `sgv %s`: %s" % (c["id"], " ".join(c["cmd"]), reason),
        mc_kw={"workers": 8, "timeout": 3000, "heap": "8g"})
    # stage 2: the interactive session around the same writer (Interactive.tla); outside the statement of C18, so a
    # rejected session is an EXTENSION-FINDING, never a violation
    from checks import interactivestage
    interactivestage.run(ctx)
    recs = vlib.read_ndjson(rec)
    nt = set()
    for x in recs:
        per = {}
        for a in x["announced"]:
            per.setdefault(a["path"], set()).add(a["lang"])
        if any(len(v) >= 1 for v in per.values()) and len(x["announced"]) >= 2:
            nt.add((x["id"].split("#")[0], tuple(sorted((p, len(l)) for p, l in per.items())), len(x["announced"])))
    # vacuity guard: every document language of the projects must really receive edits (a css rule that never matched went
    # unnoticed once)
    langs = {}
    for x in recs:
        for a in x["announced"]:
            langs[a["lang"]] = langs.get(a["lang"], 0) + 1
    missing = [l for l in ("JavaScript", "TypeScript", "Css", "Html") if not langs.get(l)]
    if missing:
        raise vlib.ToolError("C18: no edit was announced in documents of %s - the projects lost their coverage" % missing)
    ctx.cov["announced_edits_per_document_language"] = langs
    ctx.cov["distinct_nontrivial"] = len(nt)
    ctx.cov["rule"] = ("evaluation = one `-U` invocation on a materialised project (each project twice) with its --json twin; "
                       "non-trivial = at least two announced edits; distinct by (project, documents per file, #edits)")
    ctx.cov["exhaustive"] = th
    ctx.cov["samples"] = [{"cmd": x["cmd"], "announced": [(a["path"], a["lang"], a["pos"], a["del"]) for a in x["announced"]],
                           "applied": x["applied"], "writes": len(x["writes"])} for x in recs[:3]]
    ctx.assumptions += ["announced edits = the --json=stream output of the same command without -U, run immediately before",
                        "projects: JS files with nested (overlapping) matches, HTML with js + ts scripts and css, several rules "
                        "fixing one file, CRLF and multi-byte text, files without matches, non-source files"]


replay = vlib.std_replay(run)
