"""C13 - results do not depend on map order, hash seeds, repetition or file order."""
import vlib
LEVEL = "model_checking"


def run(ctx):
    th = ctx.thorough
    m = vlib.model_check(ctx, "mc/MC_C13.tla", "mc/MC_C13_thorough.cfg" if th else "mc/MC_C13_quick.cfg", workers=8, timeout=3000,
                         heap="10g", coverage=True)
    rec = ctx.path("c13-records.ndjson")
    summ = vlib.agv_ok(ctx, ["drive", "c13", "--seed", ctx.seed, "--tier", ctx.tier, "--out", rec], timeout=3000)
    n, fails = vlib.validate_trace(ctx, "trace/Trace_C13.tla", "trace/Trace_C13.cfg", rec, timeout=3000)
    bad = set()
    recs = vlib.read_ndjson(rec)
    ref = recs[0]["runs"][0]["out"]
    for f in fails:
        case = recs[f["index"] - 1]
        for reason in f["reasons"]:
            facts = {"reason": reason[0]}
            differing = [r for r in case["runs"] if r["out"] != ref][:2]
            slim = {"id": case["id"], "rule_files": case["rule_files"], "reference": ref,
                    "differing_runs": [{"k": r["k"], "out": r["out"], "iteration_orders": [t["iter"] for t in r["topo"]]} for r in differing],
                    "snaps": case["snaps"][:1]}
            if vlib.report_failure(ctx, facts, {"record": slim, "reason": reason, "seed": ctx.seed, "tier": ctx.tier},
                                   "%s (rule files %s): %s" % (case["id"], case["rule_files"], reason)):
                bad.add(f["index"])
    from checks import testrunstage
    n_tr = testrunstage.run(ctx, "C13")
    runs = sum(len(r["runs"]) for r in recs) + 4 * n_tr
    ctx.cov["traces_validated_against_impl"] = runs if not bad else runs - sum(len(recs[i - 1]["runs"]) for i in bad)
    ctx.cov["evaluations"] = runs + 4 * len(recs)
    ctx.cov["distinct_nontrivial"] = summ.get("distinct_iteration_orders_observed", 0)
    ctx.cov["rule"] = ("evaluation = one fresh sgv process (scan, or test -U / test) on one permutation of the project; "
                       "distinct non-trivial = distinct HashMap iteration orders actually observed by the topo_order hook "
                       "(utils, transform, global utilities)")
    ctx.cov["records"] = summ
    ctx.cov["hash_orders_observed"] = summ.get("distinct_iteration_orders_observed")
    ctx.cov["exhaustive"] = False
    ctx.cov["samples"] = [{"id": recs[-1]["id"], "rule_files": recs[-1]["rule_files"], "out": recs[-1]["runs"][0]["out"][:3],
                           "topo": recs[-1]["runs"][0]["topo"][:3]}]
    ctx.assumptions += ["one project family (4 inter-dependent utilities, 4 transformations incl. a rewrite with 2 rewriters, 2 constraints, "
                        "2 global utilities, overlapping languageGlobs, 2 test files); permutations of keys/file names are sampled",
                        "output order is canonicalised by sorting; only content must agree"]


replay = vlib.std_replay(run)
