"""C12 - accepted rules are self-consistent: variables, references and rewriters resolve."""
import vlib
LEVEL = "model_checking"


def run(ctx):
    r, summ, rec, n, bad = vlib.pipeline(
        ctx, ("mc/MC_C12.tla", "mc/MC_C12.cfg"), ["drive", "c12"], ("trace/Trace_C12.tla", "trace/Trace_C12.cfg"),
        slim=lambda c: {"id": c["id"], "variants": {k: c["v"][k] for k in "mucftr"}, "acceptP": c["v"]["acceptP"], "yaml": c["yaml"],
                        "res": c["res"], "expected": c["expected"]},
        facts=lambda c, reason: {"reason": reason, "u": c["v"]["u"], "t": c["v"]["t"], "f": c["v"]["f"]},
        what=lambda c, reason: "%s %s: %s" % (c["id"], {k: c["v"][k] for k in "mucftr"}, reason),
        mc_kw={"workers": 8, "timeout": 3000, "heap": "8g"}, sharded=4)
    accepted = summ.get("accepted", 0)
    ctx.cov["distinct_nontrivial"] = n - r.vec.count(None) - sum(1 for v in r.vec if all(v[k].endswith("0") for k in "ucftr") and v["m"] == "m1")
    ctx.cov["accepted_documents"] = accepted
    ctx.cov["rule"] = ("evaluation = one rule document (main rule x utils x constraints x transform x fix x rewriters variant) loaded "
                       "by from_yaml_string and, when accepted, applied to `foo(abc)`; every document is distinct; non-trivial = "
                       "at least one part differs from the plain base document")
    ctx.cov["exhaustive"] = True
    ctx.cov["samples"] = [v for v in r.vec[:: max(1, len(r.vec) // 3)]][:3]
    ctx.assumptions += ["documents are assembled from the variant tables of MC_C12 (5 x 9 x 4 x 8 x 7 x 3 parts), i.e. all "
                        "combinations, not only single perturbations",
                        "documents whose loading may recurse (nthChild.ofRule) are loaded in a child process"]


replay = vlib.std_replay(run)
