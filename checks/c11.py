"""C11 - no YAML makes ast-grep crash: bad config is an error, good config never panics."""
import vlib
LEVEL = "exploration"


def run(ctx):
    th = ctx.thorough
    # project configurations (sgconfig.yml) from their own value classes
    cm = vlib.model_check(ctx, "mc/MC_C11cfg.tla", "mc/MC_C11cfg.cfg", workers=2, timeout=600)
    cvec = ctx.path("cfg-vectors.ndjson")
    vlib.write_ndjson(cvec, cm.vec)
    ctx.cov["project_configurations_in_model"] = len(cm.vec)
    r, summ, rec, n, bad = vlib.pipeline(
        ctx, ("mc/MC_C11.tla", "mc/MC_C11_thorough.cfg"), ["drive", "c11", "--seed", ctx.seed, "--tier", ctx.tier, "--vectors2", cvec],
        ("trace/Trace_C11.tla", "trace/Trace_C11.cfg"),
        slim=lambda c: {"id": c["id"], "doc": c["doc"], "text": c["text"], "runs": [x for x in c["runs"] if x["outcome"] not in ("ok", "error")]},
        facts=lambda c, reason: {"reason": reason[0], "mode": reason[1], "scenario": reason[0][6:] if reason[0].startswith("known:") else None},
        what=lambda c, reason: "%s as %s: %s (%s)" % (c["id"], reason[1], reason[0], {k: v for k, v in c["doc"].items() if v not in ("absent", "valid", "default", "present", "js", "none", "n/a", True)}),
        mc_kw={"workers": 4, "timeout": 1200}, drive_timeout=6000)
    # ---- stage 2: the text-dependent part of an accepted rule, enumerated from a model of its own.
    # StringCase.tla transcribes the word splitting of `convert` (a byte-offset state machine); MC_StringCase checks that
    # it never cuts inside a character, loses no letter and equals the documented splitting, and exports every string;
    # the recorder pushes each through the real transformation: a panic is a C11 violation, any other difference is
    # drift of the transcription.
    sc = vlib.model_check(ctx, "mc/MC_StringCase.tla", "mc/MC_StringCase_thorough.cfg" if th else "mc/MC_StringCase_quick.cfg",
                          workers=4, timeout=1800)
    scvec = ctx.path("strcase-vectors.ndjson")
    vlib.write_ndjson(scvec, sc.vec)
    screc = ctx.path("strcase-records.ndjson")
    scsumm = vlib.agv_ok(ctx, ["drive", "strcase", "--vectors", scvec, "--out", screc], timeout=1800)
    ndrift = len(ctx.cov["drift"])
    if th:
        scn, scfails = vlib.validate_trace_sharded(ctx, "trace/Trace_StringCase.tla", "trace/Trace_StringCase.cfg", screc, shards=8)
    else:
        scn, scfails = vlib.validate_trace(ctx, "trace/Trace_StringCase.tla", "trace/Trace_StringCase.cfg", screc)
    for f in scfails:
        case = vlib.nth_line(screc, f["index"])
        for reason in f["reasons"]:
            vlib.report_failure(ctx, {"reason": reason, "mode": "convert"},
                                {"record": {"id": case["id"], "text": case["text"], "caseChange": case["cc"]}, "reason": reason,
                                 "seed": ctx.seed, "tier": ctx.tier},
                                "convert snakeCase on %r: %s" % (case["text"], reason))
    ctx.cov["convert_strings_from_model"] = len(sc.vec)
    ctx.cov["convert_evaluations"] = scn
    ctx.cov["convert_model_states"] = sc.distinct
    ctx.cov["convert_drift_reports"] = len(ctx.cov["drift"]) - ndrift
    recs = vlib.read_ndjson(rec)
    nt = set()
    for x in recs:
        if x["mutation"]:
            nt.add(x["text"][:200])
        else:
            dev = tuple(sorted((k, v) for k, v in x["doc"].items() if v not in ("absent", "default", "present", "js", "none") and not (k == "pattern" and v == "valid")))
            if dev:
                nt.add(dev)
    ctx.cov["evaluations"] = summ.get("child_runs", n) + scn
    ctx.cov["distinct_nontrivial"] = len(nt)
    ctx.cov["rule"] = ("case = one document of the generator model (field -> value class, at most 2 deviations from the default "
                       "document; all single deviations always, pairs by seeded stride in the quick tier) or a seeded byte mutation of "
                       "one; evaluation = one isolated sgv child (rule file scan, rule file -U, inline rules + stdin, project scan, "
                       "project test, as sgconfig.yml); non-trivial = document with at least one non-default class, or a mutation")
    ctx.cov["outcomes"] = summ.get("outcomes")
    ctx.cov["documents"] = summ.get("documents")
    ctx.cov["documents_in_model"] = summ.get("generated_documents_in_model")
    ctx.cov["byte_mutations"] = sum(1 for x in recs if x["mutation"])
    ctx.cov["states"] = r.distinct
    ctx.cov["samples"] = [{"id": x["id"], "doc": {k: v for k, v in x["doc"].items() if v not in ("absent", "default", "present", "js", "none")},
                           "outcomes": [(y["mode"], y["outcome"], y["code"]) for y in x["runs"]]} for x in recs[1:4]]
    ctx.assumptions += ["the harness and the CLI are built with the dev profile (debug assertions and overflow checks on), which is "
                        "stricter than a release build",
                        "the 'every byte string' clause is only sampled by the seeded byte-mutation stage (plain fuzzing, not "
                        "attributed to the specification)",
                        "scanning runs over three fixed texts (one with syntax errors); a hang = no exit within 15 s"]


replay = vlib.std_replay(run)
