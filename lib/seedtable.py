#!/usr/bin/env python3
"""regenerates the table of seeded changes in DESIGN.md (between the seeded-table markers) from seeded/*/"""
import glob
import json
import os
import re
ROOT = os.path.dirname(os.path.dirname(os.path.abspath(__file__)))
rows = []
for d in sorted(glob.glob(os.path.join(ROOT, "seeded", "*"))):
    name = os.path.basename(d)
    meta = {}
    try:
        meta = json.load(open(os.path.join(d, "meta.json")))
    except Exception:
        pass
    checks = open(os.path.join(d, "checks.txt")).read().strip().splitlines() if os.path.exists(os.path.join(d, "checks.txt")) else []
    summary = (meta.get("summary") or "").replace("\n", " ").replace("|", "/")
    if len(summary) > 260:
        summary = summary[:257] + "..."
    first = []
    later = []
    for c in checks:
        m = re.match(r"(C\d\d) (\w+) violations_reported(=|>=|>)(\d+)(.*)", c)
        if not m:
            continue
        pid, tier, op, n, rest = m.groups()
        caught = not (op == "=" and n == "0")
        note = rest.strip()
        if "after " in note:
            later.append("%s caught %s" % (pid, note))
        elif "MISSED" in note:
            first.append("%s **missed** %s" % (pid, note.replace("[first run: MISSED - ", "(").replace("]", ")")))
        else:
            first.append("%s %s" % (pid, "caught" if caught else "not triggered"))
    rows.append("| `%s` | %s | %s | %s |" % (name, summary, "; ".join(first), "; ".join(later) or "-"))
n_first = sum(1 for r in rows if "**missed**" not in r.split("|")[3] and "caught" in r.split("|")[3])
n_other = sum(1 for r in rows if "**missed**" in r.split("|")[3] and "caught" in r.split("|")[3].replace("**missed**", ""))
summary = ("%d changes kept (rounds of 20 in which every later round was told what the earlier ones had done and asked for a different "
           "mechanism). On the first run, before anything was strengthened, %d were caught by the check of their own property, "
           "%d more were missed by it but caught by the check of another property, and the rest were missed; every miss was a gap "
           "in the *inputs* a generator produced (no pattern with an ERROR root, no file starting with white space, no "
           "same-length edit, no rule object with two keys, ...), never in a specification, and each was closed by widening the "
           "generator or the bounded model, after which the change is caught (last column). One change (C04, round 2) stopped "
           "being a breaking change when the defect it relied on was repaired.\n\n" % (len(rows), n_first, n_other))
table = summary + "| seeded change | what it does | quick checks, first run | after strengthening |\n|---|---|---|---|\n" + "\n".join(rows)
p = os.path.join(ROOT, "DESIGN.md")
s = open(p).read()
if "SEEDED_TABLE_PLACEHOLDER" in s:
    s = s.replace("SEEDED_TABLE_PLACEHOLDER", "<!-- seeded-table-begin -->\n<!-- seeded-table-end -->")
s = re.sub(r"<!-- seeded-table-begin -->.*?<!-- seeded-table-end -->", lambda m: "<!-- seeded-table-begin -->\n" + table + "\n<!-- seeded-table-end -->", s, flags=re.S)
open(p, "w").write(s)
print(len(rows), "seeded changes")
