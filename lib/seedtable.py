#!/usr/bin/env python3
"""regenerates the table of seeded changes in DESIGN.md (between the seeded-table markers) from seeded/*/"""
import glob
import json
import os
import re
ROOT = os.path.dirname(os.path.dirname(os.path.abspath(__file__)))
rows = []
for d in sorted(glob.glob(os.path.join(ROOT, "seeded", "*"))):
    name = os.path.basename(d)
    meta = {}
    try:
        meta = json.load(open(os.path.join(d, "meta.json")))
    except Exception:
        pass
    checks = open(os.path.join(d, "checks.txt")).read().strip().splitlines() if os.path.exists(os.path.join(d, "checks.txt")) else []
    summary = (meta.get("summary") or "").replace("\n", " ").replace("|", "/")
    if len(summary) > 260:
        summary = summary[:257] + "..."
    first = []
    later = []
    for c in checks:
        m = re.match(r"(C\d\d) (\w+) violations_reported(=|>=|>)(\d+)(.*)", c)
        if not m:
            continue
        pid, tier, op, n, rest = m.groups()
        caught = not (op == "=" and n == "0")
        note = rest.strip()
        if "after " in note:
            later.append("%s caught %s" % (pid, note))
        elif "MISSED" in note:
            first.append("%s **missed** %s" % (pid, note.replace("[first run: MISSED - ", "(").replace("]", ")")))
        else:
            first.append("%s %s" % (pid, "caught" if caught else "not triggered"))
    rows.append("| `%s` | %s | %s | %s |" % (name, summary, "; ".join(first), "; ".join(later) or "-"))
table = "| seeded change | what it does | quick checks, first run | after strengthening |\n|---|---|---|---|\n" + "\n".join(rows)
p = os.path.join(ROOT, "DESIGN.md")
s = open(p).read()
if "SEEDED_TABLE_PLACEHOLDER" in s:
    s = s.replace("SEEDED_TABLE_PLACEHOLDER", "<!-- seeded-table-begin -->\n<!-- seeded-table-end -->")
s = re.sub(r"<!-- seeded-table-begin -->.*?<!-- seeded-table-end -->", lambda m: "<!-- seeded-table-begin -->\n" + table + "\n<!-- seeded-table-end -->", s, flags=re.S)
open(p, "w").write(s)
print(len(rows), "seeded changes")
