#!/bin/bash
# (kept from the build sessions; paths under /var/tmp are scratch: evrepo = side worktree of /repo, ve = copy of /verif)
# waits until no seed evaluation is running for 20 s, then runs the arguments as a queue
while true; do
  if ! pgrep -f "lib/seedeval2" > /dev/null; then
    sleep 20
    pgrep -f "lib/seedeval2" > /dev/null || break
  fi
  sleep 10
done
exec /var/tmp/evq.sh "$@"
