#!/bin/bash
# (kept from the build sessions; paths under /var/tmp are scratch: evrepo = side worktree of /repo, ve = copy of /verif)
# usage: evq.sh "<name> <wt> <checks>" ...   sequential seed evaluations
cd /verif
for spec in "$@"; do
  set -- $spec
  name=$1; wt=$2; shift 2
  bash lib/seedeval2.sh $name $wt "$*" > /var/tmp/ev-$wt.log 2>&1
done
