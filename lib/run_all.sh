#!/bin/bash
# usage: run_all.sh <tier> [ids...]   - runs the checks one after the other, one log per property
tier=${1:-quick}; shift
ids=${@:-C01 C02 C03 C04 C05 C06 C07 C08 C09 C10 C11 C12 C13 C14 C15 C16 C17 C18 C19 C20}
mkdir -p "$(dirname "$(readlink -f "$0")")/../work/logs"
cd "$(dirname "$(readlink -f "$0")")/.."
for id in $ids; do
  t0=$(date +%s)
  ./check $id --tier $tier > work/logs/$id.$tier.log 2>&1
  rc=$?
  echo "$id $tier exit=$rc $(( $(date +%s) - t0 ))s $(grep -c '^VIOLATION' work/logs/$id.$tier.log) violations $(grep -c '^KNOWN-FINDING' work/logs/$id.$tier.log) known"
done
