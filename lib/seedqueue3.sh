#!/bin/bash
# second lane: usage evq3.sh "<name> <wt> <checks>" ...
cd /verif
for spec in "$@"; do
  set -- $spec
  name=$1; wt=$2; shift 2
  bash /var/tmp/seedeval3.sh $name $wt "$*" > /var/tmp/ev3-$wt.log 2>&1
done
