#!/bin/bash
# (kept from the build sessions; paths under /var/tmp are scratch: evrepo = side worktree of /repo, ve = copy of /verif)
# re-evaluate an already kept seed: usage reeval.sh <seed-name> "<checks>"
name=$1; checks=$2
dst=/verif/seeded/$name
EV=/var/tmp/evrepo; VE=/var/tmp/ve
cd $EV
[ -n "$(git status --porcelain --untracked-files=no)" ] && { echo "EVREPO DIRTY"; exit 2; }
git apply $dst/patch.diff || exit 2
trap 'git -C /var/tmp/evrepo checkout -- . ; echo restored' EXIT
rsync -a --delete --exclude harness/target --exclude work --exclude .git --exclude replays /verif/ $VE/
sed -i "s#\"/repo/crates#\"$EV/crates#g" $VE/harness/Cargo.toml
cd $VE
for c in $checks; do
  out=$(timeout 3600 ./check $c --tier quick 2>&1 | grep -E "^VIOLATION|^KNOWN-FINDING|^\[check\]|TOOL-ERROR" | head -12)
  echo "$out" | cut -c1-260
done
