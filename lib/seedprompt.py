#!/usr/bin/env python3
"""prints the prompt given to a seeding sub-agent for property <id> (only the property text and its own worktree)"""
import sys
pid = sys.argv[1]
extra = sys.argv[2] if len(sys.argv) > 2 else ""
print(f"""You are helping to evaluate how well a regression-detection suite catches subtle bugs. Your working directory is /tmp/wt-{pid}, a scratch git worktree of the Rust project ast-grep (structural code search/lint/rewrite CLI + library + language server). A warm cargo target dir is at /tmp/wt-{pid}/target (always build with CARGO_TARGET_DIR=/tmp/wt-{pid}/target and --offline; there is no network). Stay strictly inside /tmp/wt-{pid}: do NOT read or touch /repo, /verif or any other directory.

The semantic property under study is described in /tmp/prop-{pid}.json (read that one file; it gives the statement, the quantifier, why unit tests cannot settle it, and code anchors; line numbers in the anchors may have shifted slightly).

Your task: make ONE small, realistic source change (the kind of regression a developer could plausibly introduce during a refactor or an optimisation: an off-by-one, a dropped or inverted condition, a wrong branch order, a shortcut that is only valid for some inputs, a wrapper that forgets to forward something, ...) that BREAKS this property for some specific inputs, while
 (1) the workspace still compiles,
 (2) the existing test suite, unedited, still passes:  cd /tmp/wt-{pid} && CARGO_TARGET_DIR=/tmp/wt-{pid}/target cargo test --workspace --offline   (do not edit tests, test fixtures, snapshots or any #[cfg(test)] module),
 (3) the breakage needs something specific to manifest (a particular input shape, option, configuration, order, thread count or schedule) rather than breaking every use; it must not be detectable by simply running the tool on a trivial input.
Do not add new files to the source tree other than your SEED directory; do not touch code guarded by cfg(ast_grep_verif) (you may change the ordinary code around it). {extra}

Then produce a demonstration that the property is violated by the modified code and NOT by the original code: a shell script (using the built binary /tmp/wt-{pid}/target/debug/ast-grep, ALWAYS wrapped in `timeout 20` because the CLI can hang if a worker thread panics) or a tiny Rust program/test kept OUTSIDE the source tree under /tmp/wt-{pid}/SEED/ (a small cargo project with path dependencies on /tmp/wt-{pid}/crates/*, its own [workspace] table, built with --offline and CARGO_TARGET_DIR=/tmp/wt-{pid}/target; copy /tmp/wt-{pid}/Cargo.lock next to its Cargo.toml first). Run it against the modified build and against the original build (to get the original, save your patch, run `git apply -R` on it, rebuild, run, then `git apply` it again and rebuild; do NOT use `git stash`: the stash is shared between worktrees), and record both outputs.

Deliverables (all in /tmp/wt-{pid}/SEED/):
 - patch.diff : output of `git -C /tmp/wt-{pid} diff -- crates` (source changes only),
 - demo.sh (or demo.md with exact commands) plus demo_output_modified.txt and demo_output_original.txt,
 - meta.json : {{"property": "{pid}", "summary": "...", "files": [...], "trigger": "what specific input/option/order is needed", "expected": "...", "actual": "...", "tests_pass": true}}.
Do not commit anything. Leave your modification applied in the worktree. When finished, run `rm -rf /tmp/wt-{pid}/target` to free disk space. Your final message should state the change in two sentences, the trigger, and whether the full test suite passed (with the pass/fail counts you observed).""")
