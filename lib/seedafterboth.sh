#!/bin/bash
# usage: after_both.sh "<first evals, ;-separated specs>" "<re-evals, ;-separated specs>"  - waits until the evaluation worktree
# is idle, runs the first evaluations (seedeval2) one after the other, then the re-evaluations
FIRST="$1"; SECOND="$2"
while true; do
  if ! pgrep -f "lib/seedeval2" > /dev/null && ! pgrep -f "/var/tmp/evq.sh" > /dev/null && ! pgrep -f "/var/tmp/reeval.sh" > /dev/null; then
    sleep 15
    pgrep -f "lib/seedeval2" > /dev/null || pgrep -f "/var/tmp/evq.sh" > /dev/null || pgrep -f "/var/tmp/reeval.sh" > /dev/null || break
  fi
  sleep 10
done
cd /verif
IFS=';' read -ra A <<< "$FIRST"
for spec in "${A[@]}"; do
  [ -z "$spec" ] && continue
  set -- $spec; name=$1; wt=$2; shift 2
  bash lib/seedeval2.sh $name $wt "$*" > /var/tmp/ev-$wt.log 2>&1
done
IFS=';' read -ra B <<< "$SECOND"
for spec in "${B[@]}"; do
  [ -z "$spec" ] && continue
  set -- $spec; name=$1; shift
  echo "=== $name"
  /var/tmp/reeval.sh $name "$*" 2>&1 | tail -6
done
