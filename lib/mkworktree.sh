#!/bin/bash
# usage: mkworktree.sh <id>   -> /tmp/wt-<id>, a detached worktree of /repo HEAD with a warm target dir
set -e
id=$1
git -C /repo worktree add --detach /tmp/${PREFIX:-wt}-$id HEAD >/dev/null 2>&1
mkdir -p /tmp/${PREFIX:-wt}-$id/SEED
cp -r /repo/target /tmp/${PREFIX:-wt}-$id/target
echo /tmp/${PREFIX:-wt}-$id
