#!/usr/bin/env python3
"""prints the 'extra' paragraph for lib/seedprompt.py: what earlier seeded changes for <id> did (one line each)"""
import glob, json, sys
pid = sys.argv[1]
out = []
for d in sorted(glob.glob("/verif/seeded/%s-*" % pid)):
    try:
        m = json.load(open(d + "/meta.json"))
    except Exception:
        continue
    s = m.get("summary", "")
    out.append("(%d) %s [files: %s]" % (len(out) + 1, s[:260].replace("\n", " "), ", ".join(m.get("files", []))[:120]))
if out:
    print("Earlier rounds already produced the following changes for this property; yours must use a DIFFERENT mechanism, "
          "preferably in a different function or file, and a different kind of triggering input: " + " ".join(out))
