#!/bin/bash
# waits until no seed evaluation queue is running, then re-evaluates: args "<seed-name> <checks...>" ...
while true; do
  if ! pgrep -f "lib/seedeval2" > /dev/null && ! pgrep -f "/var/tmp/evq.sh" > /dev/null; then
    sleep 15
    pgrep -f "lib/seedeval2" > /dev/null || pgrep -f "/var/tmp/evq.sh" > /dev/null || break
  fi
  sleep 10
done
for spec in "$@"; do
  set -- $spec
  name=$1; shift
  echo "=== $name"
  /var/tmp/reeval.sh $name "$*" 2>&1 | tail -6
done
