#!/usr/bin/env python3
"""Regenerates /verif/MANIFEST.json from the table below (single source of truth for the interface)."""
import json
import os

ROOT = os.path.dirname(os.path.dirname(os.path.abspath(__file__)))
sys_path = os.path.join(ROOT, "checks")

# id -> (category, technique, text, note, design_ref)
CLAIMS = {
    "C19": ("model_checking",
            "TLA+ cursor/traversal machine model-checked by TLC (all tree shapes to a bound) + trace validation of the "
            "real Node API on TLC-enumerated shapes and a 23-language corpus",
            "Traversal.tla transcribes Pre/Post/Level and the scoped cursor; TLC checks it against the declarative "
            "PreOrder/PostOrder/LevelOrder on every tree shape up to the bound and every start node; Positions.tla "
            "checks the byte scans against declarative line/char column. The real code is bound by recording its public "
            "navigation/traversal/position results on TLC's shapes (rendered as JavaScript) and on real trees of all 23 "
            "grammars (incl. seeded syntax errors, CRLF, multi-byte text); TLC (Trace_C19) judges every record.",
            "trusted: tree-sitter's raw child/kind/range API used for the projection; bounded shapes in the model; "
            "finite corpus for real grammars",
            "DESIGN.md section 3 C19"),
    "C20": ("model_checking",
            "TLA+ character machines (Lexers.tla) model-checked against the declarative notation on all strings to a "
            "bound; the TLC-enumerated table replayed through the real code in all 23 languages and judged by TLC",
            "Lexers.tla transcribes extract_meta_var, pre_process_pattern, the template scanner, parse_an_b/is_matched and "
            "substring next to declarative definitions (Spelling, TemplateP, AnBP/SelectP, PySlice); TLC checks machine = "
            "notation for every string up to the bound. Every exported string is then evaluated by the real code "
            "(extract_meta_var o pre_process_pattern and Pattern::try_new in 23 languages, TemplateFix scan + replacement, "
            "nthChild rules on a 12-element list, substring transforms for 256 start/end pairs) and Trace_C20 compares "
            "each outcome with the declarative notation (alarm) and the transcription (drift).",
            "bounded string length and alphabets; serde_yaml, regex and tree-sitter parsing of the tiny host programs are trusted",
            "DESIGN.md section 3 C20"),
    "C02": ("model_checking",
            "transcribed matcher (Match.tla) model-checked by TLC on all cut patterns of bounded sibling lists; "
            "TLC-generated cuts and textual cuts in a 23-language corpus replayed in the real matcher and judged by TLC",
            "MC_C02 enumerates every candidate sibling list (bounded), every set of named children turned into distinct "
            "holes and every trailing run turned into $$$W, at 5 strictness levels, and checks that the transcription of "
            "match_tree matches with exact bindings. The same cuts (rendered as JavaScript) and holes cut textually in "
            "error-free nodes of all 23 corpus languages are run through the real Pattern::match_node; Trace_Match "
            "checks the premise (pattern has the shape of the code) and the exact bindings, and compares the "
            "transcription's prediction with the real verdict and environment (drift). Contextual patterns (context + "
            "selector): Contextual.tla states which node the selector denotes, MC_Contextual checks the search the code "
            "performs against it on all trees up to the bound (two wrong variants must be rejected), and cuts left inside "
            "the text of an enclosing node are run through Pattern::contextual in all 23 languages and judged against the "
            "recorder's own parse.",
            "tree-sitter parses are the reference; bounded lists/one nesting level in the model; finite corpus",
            "DESIGN.md section 3 C02"),
    "C03": ("model_checking",
            "declarative legal-alignment relation (Align.tla) vs transcribed matcher (Match.tla) model-checked by TLC on "
            "the near-miss space; real match outcomes (TLC-generated pairs + corpus near misses) re-judged by the relation in TLC",
            "Align.tla defines, from the documented strictness table, when an alignment of pattern and node is legal "
            "(backtracking search, no iterators). MC_C03 checks Match => Legal for every goal list x candidate list in "
            "the bounds x 5 levels. The pairs (and patterns cut at one corpus site run against other nodes of the same "
            "kind, 23 languages) are executed by the real matcher; every reported match must be Legal on the real "
            "projected tables and every reported match length must end on a descendant boundary inside the node.",
            "tree-sitter parses are the reference; Legal is deliberately looser than the algorithm where the "
            "documentation is silent (issue-1688 empty child list, optional anonymous tokens after an ellipsis)",
            "DESIGN.md section 3 C03"),
    "C04": ("model_checking",
            "TLA+ transcription of the environment threading of every rule operator (Rule.tla Eval) model-checked "
            "against a copy-per-attempt semantics (EvalClean) over TLC-enumerated rule programs; the same programs run "
            "in the real code and verdict + exposed bindings judged by TLC",
            "Rule.tla threads the MetaVarEnv through pattern/all/any/not/relations/nthChild.ofRule/matches exactly as the "
            "code does (Cow copies, commit points) and, in mode 'clean', gives every attempt that can fail a private copy. "
            "MC_Rules checks impl = clean for every rule program of RuleGen (depth <= 3, variables shared across "
            "operators) on trees whose sibling orders are permuted. Every program is then loaded by the real code "
            "(DeserializeEnv + RuleConfig) and run on every node; Trace_Rules requires verdict and exposed single/multi "
            "bindings to equal the clean semantics (guarded by agreement of the pattern atoms with the matcher oracle) "
            "and reports disagreement with the transcription as drift.",
            "trees are real tree-sitter parses; rules with nthChild.ofRule that binds variables are outside the judgement "
            "(the statement is silent on which sibling's bindings are exposed); bounded rule depth",
            "DESIGN.md section 3 C04"),
    "C05": ("model_checking",
            "reference semantics Sem (Rule.tla) vs transcribed evaluation Eval model-checked over TLC-enumerated rule "
            "programs x real trees; real per-node verdicts of the same programs (23 languages) judged against Sem by TLC",
            "Sem is a plain boolean semantics of all/any/not, inside/has/precedes/follows with stopBy neighbor/end/rule "
            "(inclusive) and field, kind, regex (finite text sets), range, nthChild (An+B, reverse, ofRule) and matches, "
            "written from the rule reference. MC_Rules checks Eval = Sem on every node for every variable-disjoint rule "
            "program of RuleGen; the same programs are compiled from YAML by the real code and run on every node of "
            "carrier trees and of corpus subtrees in all languages; Trace_Rules compares each verdict with Sem. Pattern "
            "atoms are read from an oracle (the pattern alone on the node), so the judgement concerns the combinators.",
            "restricted, as the property is, to trees without zero-width nodes and to field names on which tree-sitter's "
            "cursor and child_by_field_name agree and that label at most one child",
            "DESIGN.md section 3 C05"),
    "C01": ("model_checking",
            "TLA+ models of potential_kinds (Rule.tla PK), the overlap-free visit (Traversal.tla) and the literal "
            "prefilter (Prefilter.tla) model-checked by TLC; TLC-enumerated rule programs and patterns replayed through "
            "find_all / Visitor / CombinedScan / sg run / sg scan and judged by TLC",
            "Stage 1 (shared rule pipeline): for every TLC-enumerated rule program on every real tree, every matched "
            "node's kind must lie in the real potential-kind set (bare Rule and RuleCore), find_all, the reentrant "
            "Visitor and CombinedScan must equal per-node matching in document order, and the overlap-free visit must "
            "yield exactly the outermost matches; MC_Rules proves KindSound for the transcribed PK, MC_C19 proves the "
            "overlap-free visit for all tree shapes x match sets. Stage 2: MC_Prefilter proves the prefilter never hides "
            "a match at the levels where it applies; its vectors (class members with optional modifiers), near-miss "
            "sibling lists and patterns cut from 20+ corpus languages are run at 5 strictness levels through sg run "
            "(file, --stdin) and sg scan (file, --stdin) and Trace_C01cli requires all to equal the library search.",
            "single-document files only in the CLI stage; kinds beyond the sampled universes are seen only through "
            "the corpus; every CLI run is an isolated child under timeout",
            "DESIGN.md section 3 C01"),
    "C06": ("model_checking",
            "TLA+ edit algebra (Replace.tla: Splice, overlap filter, rewriter splice) model-checked by TLC over token "
            "lists with 1/2/4-byte tokens x matched sets x expansions; real edits of Node::replace_all, sg scan --json and "
            "the file after -U judged by TLC",
            "MC_C06 checks that the edits replace_all proposes for every token list, matched subset, expandStart/expandEnd "
            "reach and replacement length are in bounds, ordered and disjoint and that substituting them preserves every "
            "other byte. A sample of those scenarios (rendered as JavaScript with multi-byte identifiers, CRLF variants), "
            "hand-picked shapes (nested matches, trimmed trailing punctuation, syntax errors) and patterns cut from corpus "
            "files are run through the real code; Trace_Fix checks each library edit against the projected tree (bounds, "
            "character boundaries via Positions.tla, start at the node / at a sibling when expanded, end on a descendant "
            "boundary, UTF-8), order/disjointness, and that the file after --update-all equals Splice(original, "
            "FilterOverlap(announced edits)) with the announced count.",
            "the `rewrite` transformation clause is exercised only through rules of the corpus scenarios (no dedicated "
            "rewriter generator yet); tree-sitter node boundaries are trusted to be character boundaries of the projection",
            "DESIGN.md section 3 C06"),
    "C07": ("model_checking",
            "transcribed de-indent/re-indent arithmetic (Indent.tla) model-checked against a line-level statement "
            "(Template.tla) over indent vectors; TLC's layouts and multi-line corpus captures replayed through "
            "generate_replacement and judged by TLC",
            "Indent.tla transcribes get_indent_at_offset (with the look-behind window), extract_with_deindent, indent_lines, "
            "remove_indent, the slot indents of the scanned template and the outer re-indent by the match site; "
            "Template.tla states C07 on lines (verbatim substitution, unbound = empty, continuation line indent = own - "
            "first + slot + site). MC_C07 checks transcription = statement and self-rewrite = identity for every site "
            "indent x own-line/same-line capture x continuation-line indents x 6 template shapes. The same layouts "
            "(rendered as JavaScript) and multi-line named nodes cut from corpus files in ~20 languages are run through the "
            "real Replacer; Trace_Fix compares the generated text with the statement (alarm) and the transcription (drift).",
            "judged for space-indented LF text and lines shorter than the 512-byte window, captures without blank or "
            "under-indented continuation lines (the property's own restriction)",
            "DESIGN.md section 3 C07"),
    "C10": ("model_checking",
            "TLA+ model of do_edit (DocEdit.tla: accept_edit, tree.edit, reparse over texts with multi-byte characters) "
            "model-checked by TLC; edit histories replayed through AstGrep::edit and judged by TLC against a fresh parse, "
            "hook trace validated against the model",
            "DocEdit.tla keeps the text, the old tree's token ranges, the pending InputEdit and how often it was applied; "
            "TLC checks for every text up to the bound and every edit that the old tree handed to the parser is consistent "
            "with the new text, that the InputEdit's points are the (row, byte column) of its offsets and that it is "
            "applied exactly once (the configuration MC_C10_prefix shows the pre-fix double application breaks this). "
            "The abstract edit shapes reached by the model drive concrete histories (whole-line insert/delete, token "
            "renames with multi-byte text, random boundary edits) on carrier programs and corpus files of all 23 "
            "languages through AstGrep::edit; Trace_C10 requires text = spliced text and, for results that parse without "
            "errors, DFS dump = dump of a fresh parse; the accept_edit/tree_edit/reparse hook events are checked against "
            "DocEdit (drift).",
            "tree-sitter's incremental parser is trusted to equal a fresh parse when given a consistent old tree; "
            "histories of length 2-3",
            "DESIGN.md section 3 C10"),
    "C14": ("model_checking",
            "line-keyed suppression table (Suppress.tla, I level) model-checked by TLC against the statement of C14 "
            "(P level) over all small files; every layout rendered and scanned by CombinedScan::scan and sg scan, judged by TLC",
            "Suppress.tla models a file as lines (1-2 statements firing subsets of two rules, optional trailing ignore "
            "comment, own-line ignore comments, every id list incl. bare and unknown ids). P: suppressed iff a comment on "
            "the previous line (own line) or at the end of the same line names the rule or nothing; unused iff it "
            "silenced nothing. I: the table built in document order and consulted by start line. MC_C14 checks I = P for "
            "every file up to the bound (MULTI = FALSE reproduces the pre-fix overwrite). Every layout is rendered as "
            "JavaScript and scanned by CombinedScan::scan (separate_fix false and true) and, for a stride, by sg scan "
            "--json in a materialised project; Trace_C14 compares reported findings and unused-suppression reports with P.",
            "single-line statements at program level in the JavaScript carrier",
            "DESIGN.md section 3 C14"),
    "C15": ("model_checking",
            "decision table rule x file (Dispatch.tla: statement vs RuleCollection/RuleOverwrite/walker transcription) "
            "model-checked by TLC over project configurations; configurations materialised on disk and run by sg scan, judged by TLC",
            "Dispatch.tla fixes 8 paths, their languages (incl. a languageGlobs-only extension) and a hand-written glob "
            "truth table; P says a rule applies iff language, files, not ignores, --filter selection and effective "
            "severity (by-id override, else bare override, else own) != off; I transcribes process_configs, "
            "RuleCollection (off dropped, tenured/contingent, ignores before files) and the walker's language types. "
            "MC_C15 checks I = P for every configuration (2 rules x language x files x ignores x severity x 30 override "
            "sets x languageGlobs). A stride of the configurations is materialised as a project and scanned by sgv scan "
            "--json from the project root; Trace_C15 compares the rule ids per file, the printed severities and the exit "
            "status (1 iff a printed finding has severity error; command-level failures such as --filter selecting "
            "nothing must print nothing and not exit 0/1).",
            "globs outside the table and `*` vs `/` subtleties of globset are not covered; bare flag + same flag with "
            "id is not generated (the property is silent)",
            "DESIGN.md section 3 C15"),
    "C16": ("model_checking",
            "TLA+ models of display_context, position arithmetic and the JSON printer machine (JsonOut.tla, Positions.tla) "
            "model-checked by TLC; real CLI output (3 JSON styles, context flags, plain report) judged item by item by TLC "
            "against the file bytes",
            "MC_C16 checks, for every text up to the bound over newline/1/2/4-byte characters, every range and context, "
            "that the byte loops of display_context yield exactly the covering lines plus context, and that the "
            "before/process/after printer machine emits well-formed output for every buffer sequence (with empty "
            "buffers) in all styles; MC_Positions checks the column/point scans. sgv run/scan is then executed on files "
            "with multi-byte text, CRLF, a 1400-character line, matches at file start/end and no trailing newline, with "
            "-A/-B/-C 0..2, --json=pretty|stream|compact over 1-4 files (some without matches), and with --color never "
            "--heading never; Trace_C16 re-derives text, line/character column, lines, charCount, meta-variable ranges and "
            "replacementOffsets from the file's character table, requires the output to parse in its style, and checks "
            "every path:line:text entry against that line.",
            "serde_json's serializer is trusted for the inside of one item; the harness-provided offset table is re-verified by TLC",
            "DESIGN.md section 3 C16"),
    "C17": ("model_checking",
            "TLA+ model of the walker-threads / channel / consumer pipeline (Worker.tla) model-checked by TLC incl. liveness; "
            "hook traces of real `sg run -j N` executions under seeded schedule perturbation validated as behaviours of the "
            "model, outcomes judged by TLC",
            "Worker.tla has one action per hook point (Take, Fail, Send, Finish, WalkDone, Recv, ConsumerDone); TLC checks "
            "for 2-3 threads x 4 files (one faulty, results of 0/1/2 items) in every interleaving: each file handed out "
            "exactly once, printed items = union of the files' items without duplicates and in per-file order, skipped = "
            "faulty files, and termination under weak fairness. The real CLI is run with -j 1..16 on generated trees "
            "(nested directories, empty / non-UTF-8 / oversized files) with AST_GREP_VERIF_SCHED perturbing the "
            "interleaving; Trace_Worker replays every hook trace into Worker.tla (IsEvent + action, invariants on every "
            "state) and requires the printed JSON records to equal, as a bag, the union of per-file runs, the output to "
            "parse, --inspect summary to report scanned = all files and skipped = faulty files, and the exit status to follow the "
            "tally. One tree is a project whose languageGlobs tell files of one extension apart (a file's language must not "
            "depend on its neighbours). proofs/WorkerProofs.tla: TLAPS proves for ANY number of files and threads that "
            "the model hands out every file at most once and, when the run is over, exactly once; proofs/WorkerUnion.tla: "
            "that what has been printed when the run is over is exactly the set of items of the processable files.",
            "ignore::WalkParallel is trusted to hand out each file once; schedules are sampled, not enumerated; no "
            "permission faults (root sandbox); a panic inside a walker thread is C11's concern",
            "DESIGN.md section 3 C17"),
    "C18": ("model_checking",
            "TLA+ model of --update-all with one payload per document of a file (UpdateAll.tla) model-checked by TLC; "
            "projects rendered from TLC's payload sequences run with --json then -U (twice) and disk contents judged by TLC",
            "UpdateAll.tla processes payloads (overlap cursor, splice, write, commit count); MC_C18 checks for every "
            "1-2 document payload sequence over an 8-byte file with 0-2 possibly nested edits per document that the "
            "file ends as the original with all accepted edits applied and that the applied count is exact "
            "(MC_C18_witness.cfg, MergeDocs = FALSE, reproduces the pre-fix lost update). TLC's payload sequences are "
            "rendered as projects (JS with nested matches; HTML with js + ts scripts; several rules on one file; CRLF; "
            "files without matches) and run with --json=stream and then -U, twice; Trace_C18 requires every file to "
            "equal FinalP(before, announced edits) - byte-identical when nothing was announced -, 'Applied N' to equal "
            "the number of accepted edits and exit status 0; the write hook events are compared with the model's one "
            "write per document (drift). Stage 2 (outside the statement, reported as EXTENSION-FINDING only): Interactive.tla "
            "models the interactive session of which -U is the accept-everything case (keys y/n/a/q/e/Enter/other); "
            "MC_Interactive checks its user-level invariants for every key sequence up to the bound and rejects two wrong "
            "variants; real `run -r .. -i` sessions typed into a pseudo terminal are judged by Trace_Interactive.",
            "the --json twin run is assumed to announce what -U would propose (same command, same tree)",
            "DESIGN.md section 3 C18"),
    "C12": ("model_checking",
            "declarative Accept(doc) vs transcription of the loader's checks (Config.tla) model-checked by TLC over all "
            "combinations of document parts; every document loaded (and applied) by the real code and judged by TLC",
            "Config.tla describes a rule document by what it defines, uses and refers to (edges typed same-node / "
            "nthChild.ofRule / relational). Accept = references and rewriters resolve, no same-node utility cycle, no "
            "transformation cycle, constraint keys / transform sources / fix variables defined, rule has kinds; "
            "AcceptImpl transcribes the code's checks in order. MC_C12 checks AcceptImpl = Accept and that every fix "
            "variable of an accepted document is substituted, for all 30240 combinations of 5 main rules x 9 utility "
            "sets x 4 constraints x 8 transforms x 7 fixes x 3 rewriter sets. Each document is rendered to YAML and "
            "loaded by from_yaml_string (in a child process when loading may recurse); accepted ones are applied to a "
            "probe source; Trace_C12 requires accepted iff Accept, no panic/crash, and the replacement text to contain "
            "the captured / transformed value of every fix variable.",
            "the variant tables are the quantifier: other ways of breaking a document are not generated",
            "DESIGN.md section 3 C12"),
    "C13": ("model_checking",
            "TLA+ model of TopologicalSort with a nondeterministic map iteration order (TopoSort.tla) model-checked by TLC "
            "over all dependency graphs x all iteration orders; real project run in fresh processes under key/file "
            "permutations, outputs and topo_order hook events judged by TLC",
            "TopoSort.tla leaves the HashMap's iteration order open (any permutation) and transcribes the DFS with its "
            "seen/completed marks; TLC checks for every dependency graph on 3-4 keys and every order: a cycle is reported "
            "iff one exists, the result is a topological order of all keys, and a value computed along it is independent "
            "of the iteration order. A project with inter-dependent utilities, transformations (substring/replace/convert/"
            "rewrite+joinBy), constraints, rewriters, global utility files, overlapping languageGlobs and tests is written "
            "with permuted keys and rule-file names and scanned by 6-24 fresh sgv processes per permutation; Trace_C13 "
            "requires identical canonicalised findings/messages/fixes/exit status everywhere, sg test -U followed by sg test "
            "to pass with byte-identical snapshots, the files written by scan -U (two rules fix the same nodes) to be identical, "
            "and every observed topo_order event to be a topological permutation. The snapshot clause is also decided on "
            "TestRunner.tla: every rule test file of <=3/4 cases (valid/invalid x match x snapshot absent/same/stale) is run by "
            "the real sg test with -U, plain, -U, plain; after -U no snapshot may be reported wrong and a second -U must leave "
            "the snapshot file byte-identical.",
            "hash orders are sampled by launching processes (the evidence reports how many distinct orders were observed); "
            "one project family",
            "DESIGN.md section 3 C13"),
    "C08": ("model_checking",
            "TLA+ model of the replaced range (FixEdit.tla: the three range computations of the code, StopBy over siblings) "
            "enumerated by TLC over array layouts x expansion rules (MC_C08); every case and a corpus of rule families "
            "replayed through scan --json, -U, sg test snapshots, the library calls and the language server's quick-fix / "
            "fix-all / applyAllFixes; Trace_C08 recomputes the required edit from the real tree's siblings and compares",
            "FixEdit.tla states the edit of a match as a function of the matched node, the matcher's match length, the "
            "siblings on both sides with the verdict of the expansion rule on each, and the stopBy mode; MC_C08 checks "
            "well-formedness facts of that function (an expansion never shrinks the node, stays in bounds, no expansion = "
            "node) for all arrays of <=3 (quick) / <=4 (thorough) elements x 25 expansion combinations and shows that the "
            "two other range computations present in the code (default trait body, node range) differ exactly when "
            "something expands. Each exported case is built as real JavaScript and pushed through 9 front-end routes; ten "
            "hand-written rule families (string/object fix, trimming patterns, expandStart/End, stopBy end) run in 7 "
            "languages with CRLF/multi-byte/astral texts; `sg run -p -r` covers trailing-punctuation trimming. The trace "
            "spec rebuilds the required edit from the recorded siblings of the real tree, so a front end taking another "
            "route to its range is reported, and a DRIFT line is printed when the model's sibling layout and the real tree "
            "disagree.",
            "expansion rules are regex/kind rules without metavariables and without stopBy-rule; which of two intersecting "
            "edits an applying front end keeps is left to C06/C18",
            "DESIGN.md section 3 C08"),
    "C09": ("model_checking",
            "TLC model of the language server's concurrent notification handlers (Lsp.tla: one action per stretch of code "
            "between two awaits) checked exhaustively within bounds; histories exported by the model and random longer ones "
            "replayed into the real tower-lsp service in-process and its publish sequences validated against the model and "
            "the property (Trace_C09); front-end clause: one rule set and text pushed through 11 routes of the real tool "
            "and compared by FrontEnds.tla",
            "History clause: Lsp.tla models did_open/did_change/did_close as tower-lsp runs them (handlers started in "
            "arrival order, interleaving only at awaits, at most MaxConc in flight, a synchronous wait on a held DashMap "
            "guard stops the server). TLC checks NewestPublished, NoDeadlock, NothingOutside and MapAgrees for every "
            "history of <=4 (quick) / <=5 (thorough) notifications with versions in any order, and a second configuration "
            "must still find the pre-repair protocol violating them. For every history the model also exports the publish "
            "sequences it can produce; the recorder sends the same histories (sequentially, as one burst, as a burst with a "
            "delayed workspace answer, 1 and 3 runtime threads) to the real LspService and Trace_C09 checks what was "
            "published against the property and against the model's set. Findings clause: per language (7) and rule-set "
            "variant the same text goes through scan on a file (project and -r), --stdin, three JSON styles, --format "
            "github (file and stdin), the coloured report, sg test and the language server; FrontEnds.tla states what each "
            "must show of the library's findings (ids, byte ranges, line/column in the unit of the front end, substituted "
            "messages, levels). A third stage, TestRunner.tla (status of every case of a rule test file as a function of valid/invalid, "
            "match, snapshot state and flags), is enumerated by TLC for all files of <=3 (quick) / <=4 (thorough) cases and every "
            "file is run by the real `sg test` four times (flags, plain, -U, plain): the valid/invalid verdicts and the exit status "
            "are judged here, the snapshot clauses under C13.",
            "the model is bounded (one document, <=5 notifications, <=4 concurrent handlers); real schedules are sampled "
            "(3 modes x 2 thread counts), not enumerated; texts come from a statement pool per language",
            "DESIGN.md section 3 C09"),
    "C11": ("exploration",
            "TLA+ generator model of rule documents (RuleDocGen.tla: fields x value classes, pairwise deviations) enumerated "
            "by TLC; every generated document offered to the real CLI in six roles in isolated children under timeout",
            "The property is about the absence of crashes of the real process, so nothing can 'hold' in a model: the "
            "specification contributes the input space. RuleDocGen.tla lists 16 fields with 4-12 value classes each "
            "(wrong types, empty strings, lone/multi-byte sigils, extreme numbers, invalid regexes and globs, unknown "
            "kinds/fields/languages, duplicate ids, self/mutual/relational/ofRule cycles, YAML anchors, tabs, 3000-deep "
            "nesting, valid convert/substring/replace transformations ...); TLC enumerates every document with at most two non-default classes. Each is rendered "
            "to YAML and run as rule file (scan over 3 texts, and -U), as inline rules with --stdin, inside a project "
            "(ruleDirs + utilDirs + sg test) and as sgconfig.yml, each in its own sgv child under a 15 s timeout; panic "
            "(101 / 'panicked at'), fatal signal and hang are violations, judged by Trace_C11. A seeded byte-mutation "
            "stage (truncate, insert junk, duplicate, strip quotes) follows and is reported separately. Stage 2 covers the part "
            "of an accepted rule that works on the captured text character by character: StringCase.tla transcribes the "
            "word-splitting machine of `convert` (byte offsets, four states), MC_StringCase proves on all strings of <=5/6 "
            "characters over seven character classes that it never cuts inside a character, loses no letter and equals the "
            "documented splitting, and every exported string goes through the real transformation (a panic is a violation, any "
            "other difference is reported as drift of the transcription).",
            "dev-profile build (debug assertions + overflow checks); 'every byte string' is only sampled; four fixed "
            "source texts",
            "DESIGN.md section 3 C11"),
}

NOT_YET = "check not built yet in this round (construction order in DESIGN.md section 9); not claimed until it runs"


def main():
    props = [json.loads(l)["id"] for l in open(os.path.join(ROOT, "properties.jsonl"))]
    checks = []
    na = []
    for p in props:
        if p in CLAIMS and os.path.exists(os.path.join(ROOT, "checks", p.lower() + ".py")):
            cat, tech, text, note, ref = CLAIMS[p]
            checks.append({
                "property_id": p,
                "quick_cmd": "./check %s --tier quick" % p,
                "thorough_cmd": "./check %s --tier thorough" % p,
                "evidence_file": "/verif/evidence/%s.json" % p,
                "replay_cmd_template": "./check %s --replay {path}" % p,
                "engine": "tlc+agv",
                "level_claimed": {"category": cat, "text": text, "design_ref": ref},
                "level_note": note,
                "technique": tech,
            })
        else:
            na.append({"property_id": p, "reason": NA.get(p, NOT_YET)})
    hooks_file = os.path.join(ROOT, "hooks.json")
    hooks = json.load(open(hooks_file)) if os.path.exists(hooks_file) else {"source_commits": []}
    m = {
        "version": 1,
        "setup_cmd": "cd /verif/harness && cp -n /repo/Cargo.lock Cargo.lock; CARGO_NET_OFFLINE=true cargo build --offline --bins",
        "hooks": {
            "guard": "--cfg ast_grep_verif",
            "enable": "harness/.cargo/config.toml sets rustflags = [\"--cfg\", \"ast_grep_verif\", \"--check-cfg\", "
                      "\"cfg(ast_grep_verif)\"]; every check rebuilds /verif/harness (path deps on /repo/crates/*) first",
            "baseline_off_cmd": "cd /repo && cargo test --workspace --no-fail-fast --offline",
            "source_commits": hooks.get("source_commits", []),
            "add_only": True,
        },
        "engines": [
            {"name": "tlc", "path": "/verif/spec", "serves_properties": [c["property_id"] for c in checks],
             "kind_free_text": "explicit TLA+ specification (spec/*.tla), bounded models spec/mc, trace specs spec/trace, checked with TLC 1.8"},
            {"name": "agv", "path": "/verif/harness", "serves_properties": [c["property_id"] for c in checks],
             "kind_free_text": "Rust conformance harness: realises TLC-generated cases in the real code and records real executions for TLC to judge; sgv = CLI rebuilt from /repo with hooks"},
        ],
        "checks": checks,
        "notes": "Driver: ./check <id> [--tier quick|thorough] [--replay path]. Known findings: /verif/known_findings.json. "
                 "Seeded breaking changes used to measure the checks: /verif/seeded/.",
        "not_applicable": na,
    }
    with open(os.path.join(ROOT, "MANIFEST.json"), "w") as f:
        json.dump(m, f, indent=1)
    print("claimed:", [c["property_id"] for c in checks])


NA = {}

if __name__ == "__main__":
    main()
