"""run a command on a pseudo terminal and type keys into it once its first prompt is on the screen.
Used to drive `sg run -i` (crossterm reads keys from the terminal in raw mode)."""
import os
import pty
import re
import select
import time

ANSI = re.compile(r"\x1b\[[0-9;?]*[a-zA-Z]|\x1b[()][A-Za-z0-9]|\x1b[=>]")


def run(argv, keys, cwd, env=None, timeout=30, wait_for=b"[e]"):
    """returns (exit status or 124 on timeout, screen text without escape sequences)"""
    pid, fd = pty.fork()
    if pid == 0:
        import termios
        # a carriage return typed before the program switches to raw mode must stay a carriage return
        a = termios.tcgetattr(0)
        a[0] &= ~termios.ICRNL
        termios.tcsetattr(0, termios.TCSANOW, a)
        os.chdir(cwd)
        e = dict(os.environ)
        e.update(env or {})
        os.execvpe(argv[0], argv, e)
    out = b""
    sent = False
    t0 = time.time()
    status = None
    while True:
        r, _, _ = select.select([fd], [], [], 0.1)
        if r:
            try:
                d = os.read(fd, 65536)
            except OSError:
                d = b""
            if d:
                out += d
                if not sent and wait_for in out:
                    os.write(fd, keys)
                    sent = True
        wp, st = os.waitpid(pid, os.WNOHANG)
        if wp:
            status = st
            try:
                while True:
                    r, _, _ = select.select([fd], [], [], 0.05)
                    if not r:
                        break
                    d = os.read(fd, 65536)
                    if not d:
                        break
                    out += d
            except OSError:
                pass
            break
        if time.time() - t0 > timeout:
            os.kill(pid, 9)
            os.waitpid(pid, 0)
            os.close(fd)
            return 124, ANSI.sub("", out.decode("utf8", "replace"))
    os.close(fd)
    return os.waitstatus_to_exitcode(status), ANSI.sub("", out.decode("utf8", "replace"))
