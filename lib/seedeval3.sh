#!/bin/bash
# usage: seedeval2.sh <seed-name> <worktree-id> "<checks to run, e.g. C05 C04>" [tier]
# Like seedeval.sh, but leaves /repo alone (a thorough run may be using it): the change is applied to a second
# worktree of /repo at /var/tmp/evrepo and the checks run from a copy of /verif's working tree at /var/tmp/ve whose
# harness depends on /var/tmp/evrepo instead of /repo.  Results go to /verif/seeded/<seed-name>/ as usual.
name=$1; wt=$2; checks=$3; tier=${4:-quick}
src=/tmp/${WTPREFIX:-wt}-$wt/SEED
dst=/verif/seeded/$name
EV=/var/tmp/dbgrepo; VE=/var/tmp/vd
if [ ! -d $EV ]; then
  git -C /repo worktree add --detach $EV HEAD >/dev/null 2>&1 || { echo "cannot create $EV"; exit 2; }
  cp -r /repo/target $EV/target
fi
mkdir -p $dst
cp $src/patch.diff $dst/patch.diff
(cd $src && find . -type f -size -300k -not -path "*/target/*" -not -name "*.log" | while read f; do mkdir -p "$dst/$(dirname "$f")"; cp "$f" "$dst/$f"; done)
grep -rlI "/tmp/${WTPREFIX:-wt}-$wt" $dst | while read f; do sed -i "s#/tmp/${WTPREFIX:-wt}-$wt/target#$EV/target#g; s#/tmp/${WTPREFIX:-wt}-$wt/SEED#$dst#g; s#/tmp/${WTPREFIX:-wt}-$wt#$EV#g" "$f"; done
cd $EV
if [ -n "$(git status --porcelain --untracked-files=no)" ]; then echo "EVREPO DIRTY - abort"; exit 2; fi
if ! git apply --check $dst/patch.diff 2>/dev/null; then echo "patch does not apply"; exit 2; fi
git apply $dst/patch.diff
trap 'git -C /var/tmp/dbgrepo checkout -- . ; echo restored' EXIT
echo "== build + tests"
cargo build --offline -p ast-grep 2>&1 | grep -E "^error" -A5
[ -n "$SKIPTESTS" ] || cargo test --workspace --no-fail-fast --offline 2>&1 | grep -E "^test result|FAILED|panicked" | awk '/test result/ {p+=$4; f+=$6} /FAILED|panicked/ {print} END {print "tests passed",p,"failed",f}' | tee $dst/tests.txt
if [ -f $dst/demo.sh ]; then
  echo "== demo on patched build"
  (cd $dst && timeout 300 bash ./demo.sh > demo_rerun_modified.txt 2>&1; echo "demo exit $?" >> demo_rerun_modified.txt)
  tail -5 $dst/demo_rerun_modified.txt
fi
# the demonstrations are kept in the form that runs against /repo
grep -rlI "$EV" $dst | while read f; do sed -i "s#$EV#/repo#g" "$f"; done
mkdir -p $VE
[ -d $VE/harness/target ] || { mkdir -p $VE/harness; cp -r /verif/harness/target $VE/harness/target; }
rsync -a --delete --exclude harness/target --exclude work --exclude .git --exclude replays /verif/ $VE/
sed -i "s#\"/repo/crates#\"$EV/crates#g" $VE/harness/Cargo.toml
cd $VE
: > $dst/checks.txt
for c in $checks; do
  echo "== ./check $c --tier $tier"
  out=$(timeout 3600 ./check $c --tier $tier 2>&1 | grep -E "^VIOLATION|^KNOWN-FINDING|^\[check\]|TOOL-ERROR" | head -12)
  echo "$out" | cut -c1-300
  nv=$(echo "$out" | grep -c "^VIOLATION")
  echo "$c $tier violations_reported=$nv $(echo "$out" | grep -E '^\[check\] C.. ' | tail -1)" >> $dst/checks.txt
done
