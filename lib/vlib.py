"""Shared driver machinery for /verif/check: build the harness from /repo's working tree, run TLC on the
bounded models and on trace specifications, collect vectors / failures, filter known findings, write evidence.

Exit-code discipline: 0 = property held on everything explored (known findings are printed, not alarms);
1 = VIOLATION line printed with a replay file; 2 = a tool of ours failed (build error, TLC parse error, timeout).
A panic / abort / hang of the code under test is data and is decided by the property, never a tool error.
"""
import fcntl
import hashlib
import json
import os
import re
import shutil
import subprocess
import sys
import time

ROOT = os.path.dirname(os.path.dirname(os.path.abspath(__file__)))
SPEC = os.path.join(ROOT, "spec")
HARNESS = os.path.join(ROOT, "harness")
CORPUS = os.path.join(ROOT, "corpus")
EVID = os.path.join(ROOT, "evidence")
REPLAYS = os.path.join(ROOT, "replays")
AGV = os.path.join(HARNESS, "target", "debug", "agv")
SGV = os.path.join(HARNESS, "target", "debug", "sgv")
KNOWN = os.path.join(ROOT, "known_findings.json")


class ToolError(Exception):
    pass


def log(*a):
    print("[check]", *a, file=sys.stderr, flush=True)


class Ctx:
    """one run of one check"""

    def __init__(self, prop, tier, seed, level):
        self.prop = prop
        self.tier = tier
        self.seed = seed
        self.level = level
        self.t0 = time.time()
        self.work = "/var/tmp/agverif-%d-%s" % (os.getpid(), prop)
        shutil.rmtree(self.work, ignore_errors=True)
        os.makedirs(self.work)
        self.cov = {
            "states": 0, "transitions": 0, "traces_validated_against_impl": 0, "evaluations": 0,
            "distinct_nontrivial": 0, "rule": "", "samples": [], "exhaustive": False, "tlc_runs": [],
            "drift": [], "known_findings_hit": [], "unrepresentable": 0,
        }
        self.assumptions = []
        self.violations = []      # (what, replay_path)
        self.known_hits = []

    # ------------------------------------------------------------------ misc
    def path(self, name):
        return os.path.join(self.work, name)

    def cleanup(self):
        shutil.rmtree(self.work, ignore_errors=True)

    @property
    def thorough(self):
        return self.tier == "thorough"


# ---------------------------------------------------------------------------- build
def build_harness():
    """cargo build of /verif/harness: path deps => /repo's current working tree, hooks on."""
    os.makedirs(os.path.join(HARNESS, "target"), exist_ok=True)
    lock = open(os.path.join(HARNESS, "target", ".verif-build.lock"), "w")
    fcntl.flock(lock, fcntl.LOCK_EX)
    try:
        lockfile = os.path.join(HARNESS, "Cargo.lock")
        if not os.path.exists(lockfile):
            shutil.copy("/repo/Cargo.lock", lockfile)
        env = dict(os.environ, CARGO_NET_OFFLINE="true")
        t = time.time()
        p = subprocess.run(["cargo", "build", "--offline", "--bins"], cwd=HARNESS, env=env,
                           stdout=subprocess.PIPE, stderr=subprocess.STDOUT, text=True)
        if p.returncode != 0:
            sys.stderr.write(p.stdout[-6000:])
            raise ToolError("harness build failed (does /repo still compile?)")
        log("harness built in %.1fs" % (time.time() - t))
    finally:
        fcntl.flock(lock, fcntl.LOCK_UN)
        lock.close()


# ---------------------------------------------------------------------------- TLC
class TlcResult:
    def __init__(self):
        self.ok = False
        self.generated = 0
        self.distinct = 0
        self.depth = 0
        self.vec = []          # parsed JSON of <<"VEC", "...">> lines
        self.tuples = []       # other printed tuples, raw text lines starting with <<
        self.violated = None   # invariant name
        self.error = None
        self.raw = ""
        self.wall = 0.0
        self.timed_out = False
        self.coverage = {}


def _logical_lines(fi):
    """TLC pretty-prints long values over several lines; re-join a printed tuple into one line"""
    buf = None
    depth = 0
    for raw in fi:
        line = raw.rstrip("\n")
        if buf is None:
            if line.startswith("<<") and not line.startswith('<<"VEC"'):
                d = _depth(line)
                if d > 0:
                    buf, depth = line, d
                    continue
            yield line
        else:
            buf += " " + line.strip()
            depth += _depth(line)
            if depth <= 0:
                yield buf
                buf = None
    if buf is not None:
        yield buf


def _depth(line):
    # brackets inside string literals are rare in our prints (texts are 1-char sequences); count outside quotes
    d = 0
    inq = False
    prev = ""
    for ch in line:
        if ch == '"' and prev != "\\":
            inq = not inq
        elif not inq:
            if ch in "<{[(":
                d += 1 if ch != "<" else 0.5
            elif ch in ">}])":
                d -= 1 if ch != ">" else 0.5
        prev = ch
    return d


_TLA_STR = re.compile(r'^<<"VEC", (".*")>>$')


def run_tlc(ctx, module, cfg, workers=4, timeout=900, env=None, simulate=None, depth=None,
            coverage=False, heap="6g", dfs=False, keep_vec=True, extra=None):
    """module/cfg are paths relative to /verif/spec. Returns TlcResult."""
    res = TlcResult()
    md = ctx.path("md-%s-%d" % (os.path.basename(cfg), len(ctx.cov["tlc_runs"])))
    opts = "-Xss1g -Xmx%s -DTLA-Library=%s:%s:%s" % (heap, SPEC, os.path.join(SPEC, "mc"), os.path.join(SPEC, "trace"))
    if dfs:
        opts += " -Dtlc2.tool.queue.IStateQueue=StateDeque"
    e = dict(os.environ, JAVA_TOOL_OPTIONS=opts)
    if env:
        e.update(env)
    cmd = ["timeout", str(timeout), "tlc", "-workers", str(workers), "-metadir", md, "-cleanup",
           "-noGenerateSpecTE", "-config", os.path.join(SPEC, cfg)]
    if coverage:
        cmd += ["-coverage", "1"]
    if simulate:
        cmd += ["-simulate", simulate]
    if depth:
        cmd += ["-depth", str(depth)]
    if extra:
        cmd += extra
    cmd.append(os.path.join(SPEC, module))
    t = time.time()
    out_path = ctx.path("tlc-%d.out" % len(ctx.cov["tlc_runs"]))
    with open(out_path, "w") as fo:
        p = subprocess.run(cmd, cwd=ctx.work, env=e, stdout=fo, stderr=subprocess.STDOUT)
    res.wall = time.time() - t
    res.timed_out = p.returncode == 124
    tail = []
    with open(out_path, errors="replace") as fi:
        for line in _logical_lines(fi):
            if line.startswith('<<"VEC", '):
                if keep_vec:
                    m = _TLA_STR.match(line)
                    if m:
                        try:
                            res.vec.append(json.loads(json.loads(m.group(1))))
                        except Exception:
                            pass
                continue
            if line.startswith("<<"):
                res.tuples.append(line)
                continue
            tail.append(line)
            if len(tail) > 400:
                tail = tail[-200:]
            m = re.match(r"(\d+) states generated, (\d+) distinct states found", line)
            if m:
                res.generated, res.distinct = int(m.group(1)), int(m.group(2))
            m = re.match(r"The depth of the complete state graph search is (\d+)", line)
            if m:
                res.depth = int(m.group(1))
            m = re.match(r"Error: Invariant (\S+) is violated", line)
            if m:
                res.violated = m.group(1)
            if line.startswith("Error:") and res.error is None and not res.violated:
                res.error = line
            m = re.match(r"^<(\w+) line \d+, col \d+ to line \d+, col \d+ of module (\w+)(?: \([\d ]+\))?>: (\d+):(\d+)", line)
            if m:
                res.coverage[m.group(1)] = res.coverage.get(m.group(1), 0) + int(m.group(4))
    res.raw = "\n".join(tail[-120:])
    res.ok = (p.returncode == 0) and res.violated is None and res.error is None
    shutil.rmtree(md, ignore_errors=True)
    ctx.cov["tlc_runs"].append({
        "module": module, "cfg": cfg, "generated": res.generated, "distinct": res.distinct,
        "depth": res.depth, "wall_s": round(res.wall, 1), "ok": res.ok, "violated": res.violated,
        "timed_out": res.timed_out, "simulate": simulate,
    })
    if res.timed_out:
        log("TLC timed out on", cfg)
    return res


def model_check(ctx, module, cfg, **kw):
    """Run a bounded model; its result feeds states/transitions. A failing model (invariant violated, parse
    error, timeout of an exhaustive config) is a tool-level problem of OUR model on the unchanged tree, so it is
    raised as ToolError: model-level counterexamples are resolved while building (see DESIGN section 2.9)."""
    r = run_tlc(ctx, module, cfg, **kw)
    ctx.cov["states"] += r.distinct
    ctx.cov["transitions"] += r.generated
    if not r.ok:
        sys.stderr.write(r.raw + "\n")
        raise ToolError("model %s/%s did not pass: violated=%s error=%s timeout=%s" %
                        (module, cfg, r.violated, r.error, r.timed_out))
    return r


def run_tlapm(ctx, module, timeout=900, threads=8):
    """TLAPS proof check of spec/<module> (unbounded statements about a model). Returns the number of proved
    obligations; anything else than 'All N obligations proved' is a failure of OUR proof (ToolError)."""
    cache = ctx.path("tlaps-cache-%d" % len(ctx.cov["tlc_runs"]))
    t = time.time()
    p = subprocess.run(["timeout", str(timeout), "tlapm", "--threads", str(threads), "-I", SPEC, "-I", os.path.join(SPEC, "mc"),
                        "--cache-dir", cache, os.path.join(SPEC, module)], cwd=ctx.work, stdout=subprocess.PIPE,
                       stderr=subprocess.STDOUT, text=True)
    shutil.rmtree(cache, ignore_errors=True)
    m = re.search(r"All (\d+) obligations? proved", p.stdout)
    ctx.cov.setdefault("tlaps", []).append({"module": module, "obligations_proved": int(m.group(1)) if m else 0,
                                            "wall_s": round(time.time() - t, 1), "ok": bool(m)})
    if not m:
        sys.stderr.write(p.stdout[-3000:] + "\n")
        raise ToolError("TLAPS did not prove %s (exit %d)" % (module, p.returncode))
    return int(m.group(1))


def parse_tla_tuple(line):
    """best-effort conversion of a printed TLA+ tuple/set/record value to Python (via JSON-ish rewriting)"""
    s = line
    s = s.replace("<<", "[").replace(">>", "]")
    s = re.sub(r"\{", "[", s)
    s = re.sub(r"\}", "]", s)
    s = s.replace("TRUE", "true").replace("FALSE", "false")
    try:
        return json.loads(s)
    except Exception:
        return line


def validate_trace_sharded(ctx, module, cfg, trace_path, shards=6, timeout=1800, heap="4g", extra_env=None):
    """Like validate_trace, but splits the records over `shards` TLC processes run in parallel.
    Returned failure indices refer to lines of the original file."""
    import threading
    lines = open(trace_path).read().split("\n")
    lines = [x for x in lines if x.strip()]
    shards = max(1, min(shards, len(lines) // 200 + 1))
    if shards == 1:
        return validate_trace(ctx, module, cfg, trace_path, timeout=timeout, heap=heap, extra_env=extra_env)
    parts = []
    for k in range(shards):
        idx = list(range(k, len(lines), shards))
        path = trace_path + ".shard%d" % k
        with open(path, "w") as f:
            for i in idx:
                f.write(lines[i] + "\n")
        parts.append((path, idx))
    results = [None] * shards
    errors = []

    def work(k):
        try:
            sub = Ctx.__new__(Ctx)
            sub.__dict__.update(ctx.__dict__)
            sub.cov = {"tlc_runs": [], "drift": []}
            sub.work = ctx.path("shard%d" % k)
            os.makedirs(sub.work, exist_ok=True)
            n, fails = validate_trace(sub, module, cfg, parts[k][0], timeout=timeout, heap=heap, extra_env=extra_env)
            results[k] = (n, fails, sub.cov)
        except Exception as e:  # noqa
            errors.append(e)

    ts = [threading.Thread(target=work, args=(k,)) for k in range(shards)]
    for t in ts:
        t.start()
    for t in ts:
        t.join()
    if errors:
        raise errors[0]
    total = 0
    fails = []
    for k in range(shards):
        n, fs, cov = results[k]
        total += n
        for f in fs:
            f["index"] = parts[k][1][f["index"] - 1] + 1
            fails.append(f)
        for d in cov["drift"]:
            d["index"] = parts[k][1][d["index"] - 1] + 1
            ctx.cov["drift"].append(d)
        ctx.cov["tlc_runs"] += cov["tlc_runs"]
        ctx.cov["discarded"] = ctx.cov.get("discarded", 0) + cov.get("discarded", 0)
    fails.sort(key=lambda f: f["index"])
    return total, fails


def validate_trace(ctx, module, cfg, trace_path, timeout=1200, heap="8g", extra_env=None):
    """Direction B: TLC validates an ndjson file of records. Returns (n_records, failures)
    failures = list of dict(index, id, reasons) from <<"PFAIL", l, id, reasons>> lines;
    drift lines <<"DRIFT", l, id, what>> are stored in ctx.cov['drift']."""
    env = {"TRACE": trace_path}
    if extra_env:
        env.update(extra_env)
    r = run_tlc(ctx, module, cfg, workers=1, timeout=timeout, env=env, dfs=True, heap=heap, keep_vec=False)
    result = None
    fails = []
    for t in r.tuples:
        v = parse_tla_tuple(t)
        if not isinstance(v, list) or not v:
            continue
        if v[0] == "RESULT":
            result = v
        elif v[0] == "PFAIL":
            fails.append({"index": v[1], "id": v[2], "reasons": v[3] if len(v) > 3 else []})
        elif v[0] == "DRIFT":
            ctx.cov["drift"].append({"index": v[1], "id": v[2], "what": v[3] if len(v) > 3 else ""})
        elif v[0] == "DISCARD":
            ctx.cov["discarded"] = ctx.cov.get("discarded", 0) + 1
    if result is None or not r.ok:
        sys.stderr.write(r.raw + "\n")
        raise ToolError("trace validation %s did not consume the whole trace (timeout=%s error=%s)" %
                        (module, r.timed_out, r.error))
    n = result[1]
    return n, fails


# ---------------------------------------------------------------------------- harness
def agv(ctx, args, timeout=1800, env=None):
    """run the harness; returns (returncode, summary dict, stdout)"""
    e = dict(os.environ)
    if env:
        e.update(env)
    p = subprocess.run(["timeout", str(timeout), AGV] + [str(a) for a in args], cwd=ctx.work, env=e,
                       stdout=subprocess.PIPE, stderr=subprocess.PIPE, text=True, errors="replace")
    summ = {}
    for line in p.stdout.splitlines():
        if line.startswith("SUMMARY "):
            summ = json.loads(line[8:])
    return p.returncode, summ, p.stdout, p.stderr


def agv_ok(ctx, args, **kw):
    rc, summ, out, err = agv(ctx, args, **kw)
    if rc != 0:
        sys.stderr.write(err[-4000:])
        raise ToolError("agv %s exited %d" % (" ".join(map(str, args[:3])), rc))
    return summ


def read_ndjson(path):
    out = []
    with open(path) as f:
        for line in f:
            line = line.strip()
            if line:
                out.append(json.loads(line))
    return out


def write_ndjson(path, items):
    with open(path, "w") as f:
        for it in items:
            f.write(json.dumps(it, separators=(",", ":")) + "\n")


def nth_line(path, idx):
    """1-based"""
    with open(path) as f:
        for i, line in enumerate(f, 1):
            if i == idx:
                return json.loads(line)
    return None


# ---------------------------------------------------------------------------- findings
def load_known(prop):
    if not os.path.exists(KNOWN):
        return []
    with open(KNOWN) as f:
        data = json.load(f)
    return [k for k in data if k.get("property") == prop and k.get("status") == "known"]


def match_known(known, facts):
    """facts: dict describing a failing case. A known finding matches when every key of its `scenario`
    equals (or, for list values, contains) the fact of the same name."""
    for k in known:
        sc = k.get("scenario", {})
        ok = True
        for key, want in sc.items():
            have = facts.get(key)
            if isinstance(want, list):
                if have not in want:
                    ok = False
            elif isinstance(want, dict) and "contains" in want:
                if not (isinstance(have, (list, str)) and want["contains"] in have):
                    ok = False
            elif have != want:
                ok = False
            if not ok:
                break
        if ok:
            return k
    return None


def report_failure(ctx, facts, case, what):
    """A property-level failure of the real code. Either a listed known finding or a VIOLATION."""
    known = load_known(ctx.prop)
    k = match_known(known, facts)
    if k is not None:
        key = k["id"]
        if key not in ctx.known_hits:
            ctx.known_hits.append(key)
            print("KNOWN-FINDING: property=%s %s" % (ctx.prop, k["what"]), flush=True)
        ctx.cov["known_findings_hit"].append({"id": key, "facts": facts})
        return False
    os.makedirs(REPLAYS, exist_ok=True)
    h = hashlib.sha1(json.dumps(case, sort_keys=True).encode()).hexdigest()[:12]
    path = os.path.join(REPLAYS, "%s-%s.json" % (ctx.prop, h))
    with open(path, "w") as f:
        json.dump({"property": ctx.prop, "what": what, "facts": facts, "case": case,
                   "cmd": "./check %s --replay %s" % (ctx.prop, path)}, f, indent=1)
    if len(ctx.violations) < 20:
        print("VIOLATION property=%s replay=%s" % (ctx.prop, path), flush=True)
        log("  ", what)
    ctx.violations.append((what, path))
    return True


# ---------------------------------------------------------------------------- evidence
def write_evidence(ctx):
    os.makedirs(EVID, exist_ok=True)
    cov = ctx.cov
    cov["known_findings_hit"] = cov["known_findings_hit"][:20]
    cov["drift"] = cov["drift"][:20]
    cov["samples"] = cov["samples"][:5]
    if not cov["samples"]:
        cov["samples"] = ["(no sample recorded)"]
    ev = {
        "property_id": ctx.prop,
        "tier": ctx.tier,
        "seed": ctx.seed,
        "level": ctx.level,
        "coverage": cov,
        "assumptions": ctx.assumptions,
        "wall_s": round(time.time() - ctx.t0, 1),
        "violations": len(ctx.violations),
    }
    with open(os.path.join(EVID, "%s.json" % ctx.prop), "w") as f:
        json.dump(ev, f, indent=1)


def short(v, n=600):
    s = json.dumps(v, separators=(",", ":"))
    return s if len(s) <= n else s[:n] + "..."


# ---------------------------------------------------------------------------- generic pipeline
def pipeline(ctx, mc, drive, trace, slim, facts=None, what=None, vec_filter=None, mc_kw=None, drive_timeout=3000,
             trace_env=None, sharded=0):
    """model (mc = (module, cfg)) -> vectors -> harness (drive = ['drive', prop, ...]; '--vectors', '--out' appended)
    -> trace validation (trace = (module, cfg)) -> failure reporting.  Returns (model result, summary, record path, n, bad)."""
    r = model_check(ctx, mc[0], mc[1], **(mc_kw or {"workers": 8, "timeout": 3000, "heap": "8g"}))
    vecs = vec_filter(r.vec) if vec_filter else r.vec
    vec = ctx.path("vectors.ndjson")
    write_ndjson(vec, vecs)
    ctx.cov["vectors_exported"] = len(r.vec)
    ctx.cov["vectors_replayed"] = len(vecs)
    rec = ctx.path("records.ndjson")
    summ = agv_ok(ctx, list(drive) + ["--vectors", vec, "--out", rec], timeout=drive_timeout)
    if sharded:
        n, fails = validate_trace_sharded(ctx, trace[0], trace[1], rec, shards=sharded, extra_env=trace_env)
    else:
        n, fails = validate_trace(ctx, trace[0], trace[1], rec, timeout=3000, extra_env=trace_env)
    bad = set()
    for f in fails:
        case = nth_line(rec, f["index"])
        for reason in f["reasons"]:
            fa = facts(case, reason) if facts else {"reason": reason if isinstance(reason, str) else reason[0]}
            w = what(case, reason) if what else "%s: %s" % (case.get("id"), reason)
            if report_failure(ctx, fa, {"record": slim(case), "reason": reason, "seed": ctx.seed, "tier": ctx.tier}, w):
                bad.add(f["index"])
    ctx.cov["traces_validated_against_impl"] = n - len(bad)
    ctx.cov["evaluations"] = n
    ctx.cov["records"] = summ
    return r, summ, rec, n, bad


def std_replay(run):
    def replay(ctx, path):
        case = json.load(open(path))
        print(json.dumps(case, indent=1)[:4000])
        ctx.seed = case["case"].get("seed", 0)
        ctx.tier = case["case"].get("tier", "quick")
        run(ctx)
        return 1 if ctx.violations else 0
    return replay
