#!/bin/bash
# usage: seedeval.sh <seed-name> <worktree-id> "<checks to run, e.g. C05 C04>" [tier]
# Verifies a seeded change produced in /tmp/wt-<worktree-id>/SEED and measures the checks against it:
#   copies the deliverables to /verif/seeded/<seed-name>/, applies patch.diff to /repo, builds, runs the full test
#   suite, runs the demonstration against the patched /repo build, runs the named checks, and always restores /repo.
name=$1; wt=$2; checks=$3; tier=${4:-quick}
src=/tmp/${WTPREFIX:-wt}-$wt/SEED
dst=/verif/seeded/$name
mkdir -p $dst
cp $src/patch.diff $dst/patch.diff
(cd $src && find . -type f -size -300k -not -path "*/target/*" -not -name "*.log" | while read f; do mkdir -p "$dst/$(dirname "$f")"; cp "$f" "$dst/$f"; done)
# the demonstration must run from /repo's build
grep -rlI "/tmp/${WTPREFIX:-wt}-$wt" $dst | while read f; do sed -i "s#/tmp/${WTPREFIX:-wt}-$wt/target#/repo/target#g; s#/tmp/${WTPREFIX:-wt}-$wt/SEED#$dst#g; s#/tmp/${WTPREFIX:-wt}-$wt#/repo#g" "$f"; done
cd /repo
if [ -n "$(git status --porcelain)" ]; then echo "REPO DIRTY - abort"; exit 2; fi
if ! git apply --check $dst/patch.diff 2>/dev/null; then echo "patch does not apply"; exit 2; fi
git apply $dst/patch.diff
trap 'git -C /repo checkout -- . ; echo restored' EXIT
echo "== build + tests"
cargo build --offline -p ast-grep 2>&1 | grep -E "^error" -A5
cargo test --workspace --no-fail-fast --offline 2>&1 | grep -E "^test result|FAILED|panicked" | awk '/test result/ {p+=$4; f+=$6} /FAILED|panicked/ {print} END {print "tests passed",p,"failed",f}' | tee $dst/tests.txt
if [ -f $dst/demo.sh ]; then
  echo "== demo on patched /repo build"
  (cd $dst && timeout 300 bash ./demo.sh > demo_rerun_modified.txt 2>&1; echo "demo exit $?" >> demo_rerun_modified.txt)
  tail -5 $dst/demo_rerun_modified.txt
fi
cd /verif
: > $dst/checks.txt
for c in $checks; do
  echo "== ./check $c --tier $tier"
  out=$(timeout 3600 ./check $c --tier $tier 2>&1 | grep -E "^VIOLATION|^KNOWN-FINDING|^\[check\]|TOOL-ERROR" | head -12)
  echo "$out" | cut -c1-300
  nv=$(echo "$out" | grep -c "^VIOLATION")
  echo "$c $tier violations_reported=$nv $(echo "$out" | grep -E '^\[check\] C.. ' | tail -1)" >> $dst/checks.txt
done
rm -f /verif/replays/*.json
git -C /verif checkout -- evidence 2>/dev/null
