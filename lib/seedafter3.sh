#!/bin/bash
# lane 2: waits until it is idle, then runs first evaluations: args as for evq3.sh
while true; do
  if ! pgrep -f "/var/tmp/seedeval3.sh" > /dev/null && ! pgrep -f "/var/tmp/evq3.sh" > /dev/null && ! pgrep -f "/var/tmp/reeval2.sh" > /dev/null; then
    sleep 12
    pgrep -f "/var/tmp/seedeval3.sh" > /dev/null || pgrep -f "/var/tmp/evq3.sh" > /dev/null || pgrep -f "/var/tmp/reeval2.sh" > /dev/null || break
  fi
  sleep 10
done
exec /var/tmp/evq3.sh "$@"
