------------------------------- MODULE Align -------------------------------
(***************************************************************************)
(* P level for C03 and C02.                                                *)
(*                                                                         *)
(* Legal(PT, g, T, c, s): there is an alignment of pattern node g with     *)
(* candidate node c that obeys the documented strictness rules.  It is a   *)
(* relation written from the documentation (strictness table, ellipsis     *)
(* semantics), decided by exhaustive search over alignments; it knows      *)
(* nothing about iterators, look-ahead or environments.                    *)
(*                                                                         *)
(* CutOK: what C02 demands of a pattern cut from code.                     *)
(***************************************************************************)
EXTENDS Match

\* which unmatched nodes a strictness level tolerates
SkipCandIn(n, s) ==                      \* inside the aligned region
    CASE s = "cst" -> FALSE
      [] s \in {"smart", "ast"} -> ~n.nm
      [] OTHER -> ~n.nm \/ n.cm
SkipCandTail(n, s) ==                    \* after the last aligned sibling
    CASE s \in {"cst", "ast"} -> FALSE
      [] s = "smart" -> TRUE
      [] OTHER -> ~n.nm \/ n.cm
SkipGoalP(p, s) ==
    CASE s = "cst" -> FALSE
      [] s = "smart" -> IsEllipsis(p)
      [] OTHER -> IsEllipsis(p) \/ (p.ty = "M" /\ ~p.mv.named) \/ (p.ty = "T" /\ ~p.nm)

\* an anonymous pattern token that follows an ellipsis (possibly through other anonymous tokens) is
\* optional at every level: `foo($$$,)` is how one writes "anything, optional trailing comma"
RECURSIVE AfterEllipsis(_, _, _)
AfterEllipsis(PT, gs, i) ==
    /\ i > 1 /\ IsTrivialGoal(PT[gs[i]])
    /\ (IsEllipsis(PT[gs[i-1]]) \/ AfterEllipsis(PT, gs, i - 1))

RECURSIVE Legal(_, _, _, _, _)
RECURSIVE Aligns(_, _, _, _, _, _, _)

\* goals gs[i..] can be aligned with candidates cs[j..]
Aligns(PT, T, s, gs, cs, i, j) ==
    IF i > Len(gs) THEN
        \A k \in j..Len(cs) : SkipCandIn(T[cs[k]], s) \/ SkipCandTail(T[cs[k]], s)
    ELSE IF IsEllipsis(PT[gs[i]]) THEN
        \E m \in j..(Len(cs) + 1) : Aligns(PT, T, s, gs, cs, i + 1, m)      \* absorbs cs[j..m-1]
    ELSE
        \/ (SkipGoalP(PT[gs[i]], s) \/ AfterEllipsis(PT, gs, i)) /\ Aligns(PT, T, s, gs, cs, i + 1, j)
        \/ j <= Len(cs) /\ SkipCandIn(T[cs[j]], s) /\ Aligns(PT, T, s, gs, cs, i, j + 1)
        \/ j <= Len(cs) /\ Legal(PT, T, s, gs[i], cs[j]) /\ Aligns(PT, T, s, gs, cs, i + 1, j + 1)

Legal(PT, T, s, g, c) ==
    LET p == PT[g] n == T[c] IN
    CASE p.ty = "M" -> (p.mv.ty \in {"capture", "dropped"} /\ p.mv.named) => n.nm
      [] p.ty = "T" -> KindsMatch(p.kid, n.kid) /\ (~p.nm \/ s = "signature" \/ TextAgrees(p, n))
      [] OTHER ->
           /\ KindsMatch(p.kid, n.kid)
           /\ n.ch # <<>>
           /\ (p.ch = <<>> \/ Aligns(PT, T, s, p.ch, n.ch, 1, 1))   \* p.ch = <<>>: all children MISSING (issue 1688)

\* ---- C04, first clause, for one pattern ------------------------------------
\* "all occurrences of the same meta-variable are bound to structurally identical code": two candidate subtrees are
\* identical code when they have the same kinds, the same number of children at every level and the same leaf texts
RECURSIVE TreeEq(_, _, _)
TreeEq(T, a, b) ==
    \/ a = b
    \/ /\ T[a].kid = T[b].kid /\ Len(T[a].ch) = Len(T[b].ch)
       /\ (T[a].ch = <<>> => T[a].t = T[b].t)
       /\ \A k \in 1..Len(T[a].ch) : TreeEq(T, T[a].ch[k], T[b].ch[k])
\* LegalB: a legal alignment in which every occurrence of a captured variable named in `bind` (the bindings the match
\* reported: bind.single = name :> node, bind.multi = name :> sequence of nodes) stands for code identical to that
\* binding; for `$$$A` the run an occurrence absorbs and the binding agree on their named nodes, one by one
\* (separators aside)
MultiOK(p, T, nodes, bind) ==
    (p.mv.ty = "multicap" /\ p.mv.name \in DOMAIN bind.multi) =>
        LET a == NamedOf(T, nodes)  b == NamedOf(T, bind.multi[p.mv.name]) IN
        Len(a) = Len(b) /\ \A k \in 1..Len(a) : TreeEq(T, a[k], b[k])
RECURSIVE LegalB(_, _, _, _, _, _)
RECURSIVE AlignsB(_, _, _, _, _, _, _, _)
AlignsB(PT, T, s, gs, cs, i, j, bind) ==
    IF i > Len(gs) THEN
        \A k \in j..Len(cs) : SkipCandIn(T[cs[k]], s) \/ SkipCandTail(T[cs[k]], s)
    ELSE IF IsEllipsis(PT[gs[i]]) THEN
        \E m \in j..(Len(cs) + 1) : /\ MultiOK(PT[gs[i]], T, SubSeq(cs, j, m - 1), bind)
                                    /\ AlignsB(PT, T, s, gs, cs, i + 1, m, bind)
    ELSE
        \/ (SkipGoalP(PT[gs[i]], s) \/ AfterEllipsis(PT, gs, i)) /\ AlignsB(PT, T, s, gs, cs, i + 1, j, bind)
        \/ j <= Len(cs) /\ SkipCandIn(T[cs[j]], s) /\ AlignsB(PT, T, s, gs, cs, i, j + 1, bind)
        \/ j <= Len(cs) /\ LegalB(PT, T, s, gs[i], cs[j], bind) /\ AlignsB(PT, T, s, gs, cs, i + 1, j + 1, bind)
LegalB(PT, T, s, g, c, bind) ==
    LET p == PT[g] n == T[c] IN
    CASE p.ty = "M" -> /\ ((p.mv.ty \in {"capture", "dropped"} /\ p.mv.named) => n.nm)
                       /\ ((p.mv.ty = "capture" /\ p.mv.name \in DOMAIN bind.single) => TreeEq(T, c, bind.single[p.mv.name]))
      [] p.ty = "T" -> KindsMatch(p.kid, n.kid) /\ (~p.nm \/ s = "signature" \/ TextAgrees(p, n))
      [] OTHER ->
           /\ KindsMatch(p.kid, n.kid)
           /\ n.ch # <<>>
           /\ (p.ch = <<>> \/ AlignsB(PT, T, s, p.ch, n.ch, 1, 1, bind))

\* ---- C03, second clause: the reported match length -----------------------
\* end offset lies in the node and on the end of one of its descendants (never splits a child)
EndOK(T, c, end) ==
    /\ T[c].s <= end /\ end <= T[c].e
    /\ \E d \in DescSelf(T, c) : T[d].e = end

\* ---- C02 ------------------------------------------------------------------
\* the pattern (table PT, root 1) has the shape of the subtree at c with `holes` abstracted:
\* holes: set of [pid, id] = pattern node pid stands for candidate node id; tail: [pid, ids] or none
RECURSIVE SameShape(_, _, _, _, _, _)
SameShape(PT, T, g, c, holes, tail) ==
    LET p == PT[g] n == T[c] IN
    IF \E h \in holes : h.pid = g THEN \E h \in holes : h.pid = g /\ h.id = c
    ELSE IF p.ty = "M" THEN FALSE
    ELSE IF p.ty = "T" THEN n.ch = <<>> /\ p.kid = n.kid /\ p.nm = n.nm /\ (p.nm => p.t = n.t)
    ELSE /\ p.kid = n.kid
         /\ IF tail.pid # 0 /\ \E k \in 1..Len(p.ch) : p.ch[k] = tail.pid
            THEN LET k == CHOOSE k \in 1..Len(p.ch) : p.ch[k] = tail.pid
                     r == Len(tail.ids) IN
                 \* children before the run, the run itself, children after it (closing tokens)
                 /\ Len(n.ch) = Len(p.ch) - 1 + r
                 /\ tail.ids = SubSeq(n.ch, k, k + r - 1)
                 /\ \A m \in 1..(k - 1) : SameShape(PT, T, p.ch[m], n.ch[m], holes, tail)
                 /\ \A m \in (k + 1)..Len(p.ch) : SameShape(PT, T, p.ch[m], n.ch[m + r - 1], holes, tail)
            ELSE /\ Len(p.ch) = Len(n.ch)
                 /\ \A m \in 1..Len(p.ch) : SameShape(PT, T, p.ch[m], n.ch[m], holes, tail)

\* the same relation without the leaf texts: the pattern has the structure of the code it was cut from
RECURSIVE SameKinds(_, _, _, _, _, _)
SameKinds(PT, T, g, c, holes, tail) ==
    LET p == PT[g] n == T[c] IN
    IF \E h \in holes : h.pid = g THEN \E h \in holes : h.pid = g /\ h.id = c
    ELSE IF p.ty = "M" THEN FALSE
    ELSE IF p.ty = "T" THEN n.ch = <<>> /\ p.kid = n.kid /\ p.nm = n.nm
    ELSE /\ p.kid = n.kid
         /\ IF tail.pid # 0 /\ \E k \in 1..Len(p.ch) : p.ch[k] = tail.pid
            THEN LET k == CHOOSE k \in 1..Len(p.ch) : p.ch[k] = tail.pid
                     r == Len(tail.ids) IN
                 /\ Len(n.ch) = Len(p.ch) - 1 + r
                 /\ tail.ids = SubSeq(n.ch, k, k + r - 1)
                 /\ \A m \in 1..(k - 1) : SameKinds(PT, T, p.ch[m], n.ch[m], holes, tail)
                 /\ \A m \in (k + 1)..Len(p.ch) : SameKinds(PT, T, p.ch[m], n.ch[m + r - 1], holes, tail)
            ELSE /\ Len(p.ch) = Len(n.ch)
                 /\ \A m \in 1..Len(p.ch) : SameKinds(PT, T, p.ch[m], n.ch[m], holes, tail)

\* outcome `out` = [ok, single |-> name :> id, multi |-> name :> ids]
CutOK(PT, T, holes, tail, out) ==
    /\ out.ok
    /\ \A h \in holes : PT[h.pid].mv.name \in DOMAIN out.single /\ out.single[PT[h.pid].mv.name] = h.id
    /\ tail.pid # 0 =>
         /\ PT[tail.pid].mv.name \in DOMAIN out.multi
         /\ NamedOf(T, out.multi[PT[tail.pid].mv.name]) = NamedOf(T, tail.ids)
=============================================================================
