------------------------------- MODULE Labels -------------------------------
(***************************************************************************)
(* Secondary labels (crates/config/src/rule/mod.rs match_and_add_label,    *)
(* crates/core/src/meta_var.rs add_label / get_labels; printed as `labels`  *)
(* by --json, underlined by the coloured scan report, stored in `sg test`   *)
(* snapshots).                                                              *)
(*                                                                          *)
(* Every relational rule (inside / has / precedes / follows) that takes     *)
(* part in a successful evaluation appends one node to the list             *)
(* "secondary" of the environment, after the labels of its own sub-rule:    *)
(*                                                                          *)
(*   LabelsOf("P", ..)    the node the relational rule SELECTED - the        *)
(*                        candidate (ancestor, descendant, sibling) that    *)
(*                        satisfied the sub-rule.  This is what the code    *)
(*                        records since fix 7f25c3d.                        *)
(*   LabelsOf("pre", ..)  what the code recorded before: the node the       *)
(*                        sub-rule RETURNED (RetOfPre).  all / any / not /  *)
(*                        atoms return the node they were asked about, but  *)
(*                        a relational rule and `matches` returned what     *)
(*                        their own sub-rule returned, so a relational rule *)
(*                        whose sub-rule is directly a relational rule (or  *)
(*                        a utility that is one) labelled the innermost     *)
(*                        node once more instead of its own candidate - and *)
(*                        a REWRITER with such a rule replaced that other   *)
(*                        node instead of the node its rule matched (C06).  *)
(*                                                                          *)
(* Attempts that fail leave no label (they run on a copy: All / Any / Not / *)
(* RuleCore), so the labels of a match are a function of the winning        *)
(* candidates alone - the same discipline as C04 demands of variables.      *)
(* The order of candidates is the order of Rule!Eval.                       *)
(***************************************************************************)
EXTENDS Rule

RECURSIVE HasWalkOrder(_, _, _, _)
\* Has with a stop rule: children in order; each one first, then (unless it satisfies the stop rule) its subtree
HasWalkOrder(U, T, stop, kids) ==
    IF kids = <<>> THEN <<>>
    ELSE LET c == kids[1] IN
         <<c>> \o (IF StopHit("clean", U, T, stop, c) THEN <<>> ELSE HasWalkOrder(U, T, stop, T[c].ch))
               \o HasWalkOrder(U, T, stop, Tail(kids))

\* the candidates of a relational rule on node n, in the order they are tried
CandsOf(U, T, r, n) ==
    CASE r.op = "inside" ->
           LET cand == LimitBy("clean", U, T, r.stop, ParentChain(T, n))
               ok(k) == r.field = "" \/ FieldChild(T, cand[k], r.field) = (IF k = 1 THEN n ELSE cand[k-1])
               idx == SelectSeq([k \in 1..Len(cand) |-> k], ok) IN
           [i \in 1..Len(idx) |-> cand[idx[i]]]
      [] r.op = "precedes" -> LimitBy("clean", U, T, r.stop, NextAll(T, n))
      [] r.op = "follows"  -> LimitBy("clean", U, T, r.stop, PrevAll(T, n))
      [] r.op = "has" ->
           IF r.field = "" THEN
               CASE r.stop.op = "neighbor" -> T[n].ch
                 [] r.stop.op = "end" -> Tail(PreOrder(T, n))
                 [] OTHER -> HasWalkOrder(U, T, r.stop, T[n].ch)
           ELSE LET fc == FieldChild(T, n, r.field) IN
               IF fc = 0 THEN <<>>
               ELSE CASE r.stop.op = "neighbor" -> <<fc>>
                      [] r.stop.op = "end" -> PreOrder(T, fc)
                      [] OTHER -> <<fc>> \o (IF StopHit("clean", U, T, r.stop, fc) THEN <<>> ELSE HasWalkOrder(U, T, r.stop, T[fc].ch))
      [] OTHER -> <<>>

\* the candidate that wins: the first one that satisfies the sub-rule (0: none)
Winner(U, T, r, n, env) ==
    LET cs == CandsOf(U, T, r, n)
        ks == { k \in 1..Len(cs) : Eval("clean", U, T, r.sub, cs[k], env).ok } IN
    IF ks = {} THEN 0 ELSE cs[CHOOSE k \in ks : \A j \in ks : k <= j]

RECURSIVE RetOfPre(_, _, _, _, _)
\* the node a successful match_node_with_env returned before fix 7f25c3d (since then: always n)
RetOfPre(U, T, r, n, env) ==
    CASE r.op \in Relations -> RetOfPre(U, T, r.sub, Winner(U, T, r, n, env), env)
      [] r.op = "matches" -> RetOfPre(U, T, U.utils[r.id], n, env)
      [] r.op = "cons" -> RetOfPre(U, T, r.sub, n, env)
      [] OTHER -> n

RECURSIVE LabelsOf(_, _, _, _, _, _)
RECURSIVE AllLabels(_, _, _, _, _, _, _)
\* defined for evaluations that succeed (Eval("clean", U, T, r, n, env).ok)
LabelsOf(lv, U, T, r, n, env) ==
    CASE r.op \in Relations ->
           LET c == Winner(U, T, r, n, env) IN
           IF c = 0 THEN <<>>
           ELSE LabelsOf(lv, U, T, r.sub, c, env) \o << IF lv = "P" THEN c ELSE RetOfPre(U, T, r.sub, c, env) >>
      [] r.op = "all" -> AllLabels(lv, U, T, r.subs, 1, n, env)
      [] r.op = "any" ->
           LET ks == { k \in 1..Len(r.subs) : Eval("clean", U, T, r.subs[k], n, env).ok } IN
           IF ks = {} THEN <<>> ELSE LabelsOf(lv, U, T, r.subs[CHOOSE k \in ks : \A j \in ks : k <= j], n, env)
      [] r.op = "matches" -> LabelsOf(lv, U, T, U.utils[r.id], n, env)
      [] r.op = "nth" -> IF r.of.op = "none" THEN <<>> ELSE LabelsOf(lv, U, T, r.of, n, env)
      [] r.op = "cons" ->
           LET m == Eval("clean", U, T, r.sub, n, env) IN
           LabelsOf(lv, U, T, r.sub, n, env)
           \o (IF m.ok /\ r.var \in DOMAIN m.env.single THEN LabelsOf(lv, U, T, r.crule, m.env.single[r.var], m.env) ELSE <<>>)
      [] OTHER -> <<>>                  \* atoms; `not` evaluates on a scratch environment

AllLabels(lv, U, T, subs, i, n, env) ==
    IF i > Len(subs) THEN <<>>
    ELSE LabelsOf(lv, U, T, subs[i], n, env)
         \o AllLabels(lv, U, T, subs, i + 1, n, Eval("clean", U, T, subs[i], n, env).env)

\* does the rule hand on another node than the one it was asked about, in the code before the fix
RECURSIVE ForwardsNode(_, _)
ForwardsNode(U, r) == CASE r.op \in Relations -> TRUE
                         [] r.op = "matches" -> ForwardsNode(U, U.utils[r.id])
                         [] r.op = "cons" -> ForwardsNode(U, r.sub)
                         [] OTHER -> FALSE
=============================================================================
