------------------------------ MODULE RuleGen ------------------------------
(***************************************************************************)
(* The bounded space of rule programs over the atoms of a universe         *)
(* (kinds, patterns, regex text sets, nthChild formulas, field names), and *)
(* the predicates that delimit what the properties speak about.            *)
(***************************************************************************)
EXTENDS Rule

None == [op |-> "none"]
Neighbor == [op |-> "neighbor"]
EndStop == [op |-> "end"]

Cap(seq, n) == SubSeq(seq, 1, IF Len(seq) < n THEN Len(seq) ELSE n)

KindAtoms(U, n) == { [op |-> "kind", kid |-> U.kinds[i].kid] : i \in 1..(IF Len(U.kinds) < n THEN Len(U.kinds) ELSE n) }
PatAtoms(U, n)  == { [op |-> "pattern", pidx |-> i] : i \in 1..(IF Len(U.patterns) < n THEN Len(U.patterns) ELSE n) }
RegexAtoms(U)   == { [op |-> "regex", texts |-> U.regex[i].texts] : i \in 1..Len(U.regex) }
NthAtoms(U, full) ==
    { [op |-> "nth", a |-> 0, b |-> 1, rev |-> FALSE, of |-> None],
      [op |-> "nth", a |-> 2, b |-> 0, rev |-> TRUE, of |-> None] }
    \cup (IF ~full THEN {}
          ELSE { [op |-> "nth", a |-> -1, b |-> 2, rev |-> FALSE, of |-> None],
                 [op |-> "nth", a |-> 2, b |-> 1, rev |-> FALSE, of |-> None] })
    \cup { [op |-> "nth", a |-> 0, b |-> 1, rev |-> rv, of |-> k] : rv \in BOOLEAN, k \in KindAtoms(U, 1) }
    \cup (IF ~full THEN {} ELSE { [op |-> "nth", a |-> 0, b |-> 2, rev |-> FALSE, of |-> k] : k \in PatAtoms(U, 1) })
    \* an ofRule that anonymous siblings (brackets, commas) satisfy as well: only named siblings are counted
    \cup { [op |-> "nth", a |-> 0, b |-> 2, rev |-> rv, of |-> [op |-> "not", sub |-> k]] : rv \in BOOLEAN, k \in KindAtoms(U, 1) }
    \cup (IF ~full THEN {} ELSE { [op |-> "nth", a |-> 2, b |-> 1, rev |-> FALSE, of |-> [op |-> "not", sub |-> k]] : k \in RegexAtoms(U) })

\* `range` atoms: the positions of a few nodes of every tree of the universe (line, column in characters); on the
\* other trees the same positions select other nodes or none
RangeAtoms(U) ==
    UNION { LET T == U.trees[i].T
                ns == { n \in 1..Len(T) : n \in {2, 3, 5, Len(T) - 1, Len(T)} } IN
            { [op |-> "range", sl |-> T[n].sl, sc |-> T[n].scc, el |-> T[n].el, ec |-> T[n].ecc] : n \in ns }
          : i \in 1..Len(U.trees) }

Atoms(U, full) ==
    KindAtoms(U, IF full THEN 5 ELSE 2) \cup PatAtoms(U, IF full THEN 5 ELSE 2) \cup RegexAtoms(U) \cup NthAtoms(U, full)
    \cup (IF full THEN RangeAtoms(U) ELSE {})

Stops(U, full) == {Neighbor, EndStop} \cup KindAtoms(U, IF full THEN 2 ELSE 1) \cup PatAtoms(U, 1)
FieldsOf(U, o) == IF o \in {"inside", "has"} THEN {""} \cup ToSet(Cap(U.fields, 2)) ELSE {""}

Rels(U, S, full) ==
    { [op |-> o, sub |-> s, stop |-> st, field |-> f] :
        o \in Relations, s \in S, st \in Stops(U, full), f \in {""} \cup ToSet(Cap(U.fields, 2)) }
    \ { r \in [op : {"precedes", "follows"}, sub : S, stop : Stops(U, full), field : ToSet(Cap(U.fields, 2))] : TRUE }

Comps(S) ==
    { [op |-> "not", sub |-> s] : s \in S }
    \cup { [op |-> c, subs |-> <<x, y>>] : c \in {"all", "any"}, x \in S, y \in S }

\* depth <= 2 everything; depth 3 over a representative subset
RulesOf(U, full) ==
    LET A  == Atoms(U, full)
        R2 == Rels(U, A, full)
        C2 == Comps(A)
        k1 == KindAtoms(U, 1)
        p1 == PatAtoms(U, 2)
        S3 == { [op |-> "not", sub |-> x] : x \in p1 \cup k1 }
              \cup { [op |-> c, subs |-> <<x, y>>] : c \in {"all", "any"}, x \in k1, y \in p1 }
        R3 == Rels(U, S3, FALSE)
        r1 == { r \in R2 : r.stop.op = "end" /\ r.field = "" /\ r.sub \in p1 \cup k1 }
        C3 == Comps(r1 \cup p1)
        \* conjunctions of composites: written as ONE rule object with the keys all + any (+ not) side by side by the
        \* recorder's second spelling (harness/src/rules.rs rule_yaml_obj); a rule object means the conjunction of its keys
        ra == RegexAtoms(U)
        C4 == IF ~full THEN {} ELSE
              { [op |-> "all", subs |-> << [op |-> "all", subs |-> <<k, x>>], [op |-> "any", subs |-> <<a, b>>] >>] :
                    k \in k1, x \in ra \cup p1, a \in KindAtoms(U, 2) \cup ra, b \in ra }
              \cup { [op |-> "all", subs |-> << k, [op |-> "any", subs |-> <<a, b>>], [op |-> "not", sub |-> x] >>] :
                    k \in KindAtoms(U, 2), a \in ra, b \in p1, x \in ra }
        \* a pattern next to a negated rule that uses the SAME variables: the negated rule is evaluated under the bindings
        \* made so far (a node is kept when no CONSISTENT match of the negated rule exists)
        p4 == PatAtoms(U, 4)
        C5 == IF ~full THEN {} ELSE
              { [op |-> "all", subs |-> <<x, [op |-> "not", sub |-> y]>>] : x \in p4, y \in p4 }
              \cup { [op |-> "all", subs |-> <<x, [op |-> "not", sub |-> [op |-> o, sub |-> y, stop |-> EndStop, field |-> ""]]>>] :
                       x \in p4, y \in p4, o \in {"inside", "has"} }
        \* a relational rule whose sub-rule is directly a relational rule (no rule object in between): the inner rule hands
        \* the node IT found to the outer one (Labels.tla: what each of them records as its secondary label)
        ne == {Neighbor, EndStop}
        C6 == { [op |-> o1, sub |-> [op |-> o2, sub |-> x, stop |-> s2, field |-> ""], stop |-> s1, field |-> ""] :
                    o1 \in Relations, o2 \in Relations, x \in k1 \cup p1, s1 \in ne, s2 \in ne }
              \cup { [op |-> o, sub |-> [op |-> o, sub |-> [op |-> o, sub |-> x, stop |-> EndStop, field |-> ""], stop |-> s, field |-> ""],
                       stop |-> EndStop, field |-> ""] : o \in {"has", "inside"}, x \in k1 \cup p1, s \in ne }
    IN A \cup R2 \cup C2 \cup R3 \cup C3 \cup C4 \cup C5 \cup C6

\* documents with local utilities: [rule, utils]
UtilDocs(U) ==
    LET k1 == KindAtoms(U, 1)  p1 == PatAtoms(U, 1)
        m(id) == [op |-> "matches", id |-> id] IN
    { [rule |-> r, utils |-> ut] :
        r \in { m("u2"), [op |-> "not", sub |-> m("u1")],
                [op |-> "has", sub |-> m("u1"), stop |-> EndStop, field |-> ""],
                [op |-> "all", subs |-> <<m("u1"), m("u2")>>] },
        \* u1 may be a rule without potential kinds (a regex): references to it must not narrow any kind set
        \* ... or a bare relational rule: `matches` hands on the node that rule found
        ut \in { [u1 |-> a, u2 |-> [op |-> "any", subs |-> <<m("u1"), b>>]] :
                    a \in k1 \cup p1 \cup RegexAtoms(U) \cup { [op |-> "has", sub |-> k, stop |-> EndStop, field |-> ""] : k \in k1 },
                    b \in k1 \cup p1 } }

\* documents that refer to a global utility rule with a constraint (the rule `sub` of the utility is one of the
\* universe's patterns, the constraint restricts one of its variables); the reference stands where a losing
\* alternative, a conjunct, a negated rule or a relational sub-rule stands
ConsRefs(U) ==
    { [op |-> "cons", sub |-> [op |-> "pattern", pidx |-> i], var |-> v, crule |-> c] :
        i \in 1..(IF Len(U.patterns) < 3 THEN Len(U.patterns) ELSE 3),
        v \in UNION { { U.patterns[j].PT[g].mv.name : g \in { x \in 1..Len(U.patterns[j].PT) : U.patterns[j].PT[x].ty = "M" /\ U.patterns[j].PT[x].mv.name # "" } }
                       : j \in 1..(IF Len(U.patterns) < 3 THEN Len(U.patterns) ELSE 3) },
        c \in RegexAtoms(U) \cup KindAtoms(U, 2) }
ConsDocs(U) ==
    LET G == ConsRefs(U)
        X == PatAtoms(U, 3) \cup KindAtoms(U, 2) IN
    { [rule |-> r, utils |-> <<>>] :
        r \in G \cup { [op |-> c, subs |-> <<g, x>>] : c \in {"all", "any"}, g \in G, x \in X }
               \cup { [op |-> c, subs |-> <<x, g>>] : c \in {"all", "any"}, g \in G, x \in X }
               \cup { [op |-> "not", sub |-> g] : g \in G }
               \cup { [op |-> "has", sub |-> g, stop |-> EndStop, field |-> ""] : g \in G } }
RECURSIVE HasCons(_, _)
HasCons(U, r) ==
    CASE r.op = "cons" -> TRUE
      [] r.op \in {"all", "any"} -> \E k \in 1..Len(r.subs) : HasCons(U, r.subs[k])
      [] r.op = "not" -> HasCons(U, r.sub)
      [] r.op = "matches" -> HasCons(U, U.utils[r.id])
      [] r.op \in Relations -> HasCons(U, r.sub)
      [] r.op = "nth" -> r.of.op # "none" /\ HasCons(U, r.of)
      [] OTHER -> FALSE

\* ---- what the properties speak about --------------------------------------
RECURSIVE PatOccs(_, _)
\* bag (as a sequence) of pattern indices occurring in a rule, utilities expanded once
PatOccs(U, r) ==
    CASE r.op = "pattern" -> <<r.pidx>>
      [] r.op = "nth" -> IF r.of.op = "none" THEN <<>> ELSE PatOccs(U, r.of)
      [] r.op \in {"all", "any"} -> FlattenSeq([k \in 1..Len(r.subs) |-> PatOccs(U, r.subs[k])])
      [] r.op = "not" -> PatOccs(U, r.sub)
      [] r.op = "matches" -> PatOccs(U, U.utils[r.id])
      [] r.op = "cons" -> PatOccs(U, r.sub) \o PatOccs(U, r.crule)
      [] r.op \in Relations ->
            PatOccs(U, r.sub) \o (IF r.stop.op \in {"neighbor", "end"} THEN <<>> ELSE PatOccs(U, r.stop))
      [] OTHER -> <<>>

VarsOfPattern(P) == { P.PT[g].mv.name : g \in { x \in 1..Len(P.PT) : P.PT[x].ty = "M" /\ P.PT[x].mv.name # "" } }

\* C05 is stated for variable-disjoint sub-patterns
VarDisjoint(U, r) ==
    LET occ == PatOccs(U, r) IN
    \A i, j \in 1..Len(occ) : i # j =>
        VarsOfPattern(U.patterns[occ[i]]) \cap VarsOfPattern(U.patterns[occ[j]]) = {}

RECURSIVE HasNthOfWithVars(_, _)
HasNthOfWithVars(U, r) ==
    CASE r.op = "nth" -> r.of.op # "none" /\ PatOccs(U, r.of) # <<>>
      [] r.op \in {"all", "any"} -> \E k \in 1..Len(r.subs) : HasNthOfWithVars(U, r.subs[k])
      [] r.op = "not" -> HasNthOfWithVars(U, r.sub)
      [] r.op = "matches" -> HasNthOfWithVars(U, U.utils[r.id])
      [] r.op = "cons" -> HasNthOfWithVars(U, r.sub)
      [] r.op \in Relations -> HasNthOfWithVars(U, r.sub)
      [] OTHER -> FALSE

RECURSIVE FieldsUsed(_, _)
FieldsUsed(U, r) ==
    CASE r.op \in Relations -> (IF r.field = "" THEN {} ELSE {r.field}) \cup FieldsUsed(U, r.sub)
                                \cup (IF r.stop.op \in {"neighbor", "end"} THEN {} ELSE FieldsUsed(U, r.stop))
      [] r.op \in {"all", "any"} -> UNION { FieldsUsed(U, r.subs[k]) : k \in 1..Len(r.subs) }
      [] r.op = "not" -> FieldsUsed(U, r.sub)
      [] r.op = "nth" -> IF r.of.op = "none" THEN {} ELSE FieldsUsed(U, r.of)
      [] r.op = "matches" -> FieldsUsed(U, U.utils[r.id])
      [] r.op = "cons" -> FieldsUsed(U, r.sub)
      [] OTHER -> {}

\* the property's restriction: a field name labels at most one child of any parent
FieldsUnique(T, fs) ==
    \A i \in 1..Len(T) : \A f \in fs :
        Cardinality({ k \in 1..Len(T[i].ch) : T[T[i].ch[k]].f = f }) <= 1

RECURSIVE HasBindingNot(_, _)
\* rules containing a `not` whose sub-rule can bind variables (the scenario of fix 1aa7345; kept as a
\* classifier for the evidence, it excludes nothing)
HasBindingNot(U, r) ==
    CASE r.op = "not" -> PatOccs(U, r.sub) # <<>> /\ \E i \in 1..Len(PatOccs(U, r.sub)) : VarsOfPattern(U.patterns[PatOccs(U, r.sub)[i]]) # {}
      [] r.op \in {"all", "any"} -> \E k \in 1..Len(r.subs) : HasBindingNot(U, r.subs[k])
      [] r.op = "matches" -> HasBindingNot(U, U.utils[r.id])
      [] r.op = "cons" -> HasBindingNot(U, r.sub)
      [] r.op \in Relations -> HasBindingNot(U, r.sub)
      [] r.op = "nth" -> r.of.op # "none" /\ HasBindingNot(U, r.of)
      [] OTHER -> FALSE
=============================================================================
