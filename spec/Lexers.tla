------------------------------- MODULE Lexers -------------------------------
(***************************************************************************)
(* The small textual notations of ast-grep as character machines (I level, *)
(* transcribed from the Rust code) next to what the notation is documented *)
(* to mean (P level).  Strings are sequences of one-character strings.     *)
(*                                                                         *)
(*  I  ExtractMetaVar   crates/core/src/meta_var.rs  extract_meta_var      *)
(*     PreProcess       crates/language/src/lib.rs   pre_process_pattern   *)
(*     TemplateItems    crates/core/src/replacer.rs  split_first_meta_var  *)
(*                      crates/core/src/replacer/template.rs create_template*)
(*     ParseAnB/IsMatched  crates/config/src/rule/nth_child.rs             *)
(*     Substring        crates/config/src/transform/transformation.rs      *)
(*  P  Spelling, TemplateP, AnBP / SelectP, PySlice                         *)
(***************************************************************************)
EXTENDS Naturals, Integers, Sequences, SequencesExt, FiniteSets

Upper == {"A","B","C","D","E","F","G","H","I","J","K","L","M","N","O","P","Q","R","S","T","U","V","W","X","Y","Z"}
Digit == {"0","1","2","3","4","5","6","7","8","9"}

IsValidFirst(c) == c \in Upper \/ c = "_"
IsValidChar(c)  == IsValidFirst(c) \/ c \in Digit
AllValid(s)     == \A i \in 1..Len(s) : IsValidChar(s[i])
StartsWith(s, p) == Len(s) >= Len(p) /\ SubSeq(s, 1, Len(p)) = p
Drop(s, n)      == SubSeq(s, n + 1, Len(s))
Rep(c, n)       == [i \in 1..n |-> c]
Has(s, c)       == \E i \in 1..Len(s) : s[i] = c

\* meta-variable values, one record shape for all
MV(ty, name, named) == [ty |-> ty, name |-> name, named |-> named]
NoneMV      == MV("none", <<>>, FALSE)
MultipleMV  == MV("multiple", <<>>, FALSE)

\* ------------------------------------------------------------------ I ----
ExtractMetaVar(mc, s) ==
    LET ell == <<mc, mc, mc>> IN
    IF s = ell THEN MultipleMV
    ELSE IF StartsWith(s, ell) THEN
        LET t == Drop(s, 3) IN
        IF ~IsValidFirst(t[1]) \/ ~AllValid(t) THEN NoneMV    \* (first-char test: fix 2 of C20)
        ELSE IF t[1] = "_" THEN MultipleMV
        ELSE MV("multicap", t, FALSE)
    ELSE IF ~StartsWith(s, <<mc>>) THEN NoneMV
    ELSE LET t1 == Drop(s, 1)
             named == ~StartsWith(t1, <<mc>>)
             t == IF named THEN t1 ELSE Drop(t1, 1) IN
         IF t = <<>> THEN NoneMV
         ELSE IF ~IsValidFirst(t[1]) \/ ~AllValid(t) THEN NoneMV
         ELSE IF t[1] = "_" THEN MV("dropped", <<>>, named)
         ELSE MV("capture", t, named)

RECURSIVE PP(_, _, _, _)
\* the dollar counter of pre_process_pattern
PP(e, s, i, dc) ==
    IF i > Len(s) THEN Rep(IF dc = 3 THEN e ELSE "$", dc)
    ELSE IF s[i] = "$" THEN PP(e, s, i + 1, dc + 1)
    ELSE LET need == s[i] \in Upper \/ s[i] = "_" \/ dc = 3
             sig == IF need THEN e ELSE "$" IN
         Rep(sig, dc) \o <<s[i]>> \o PP(e, s, i + 1, 0)

\* languages whose expando is the sigil itself keep the default (identity) pre_process_pattern
PreProcess(e, s) == IF e = "$" THEN s ELSE PP(e, s, 1, 0)

\* what a language makes of pattern text s
LangMetaVar(e, s) == ExtractMetaVar(e, PreProcess(e, s))

\* ------------------------------------------------------------------ P ----
RECURSIVE LeadingSigils(_)
LeadingSigils(s) == IF s # <<>> /\ s[1] = "$" THEN 1 + LeadingSigils(Tail(s)) ELSE 0
IsName(t) == t # <<>> /\ IsValidFirst(t[1]) /\ AllValid(t)

\* the documented spellings: $A  $$A  $_  $$_  $$$  $$$A  $$$_ ; nothing else is a hole
Spelling(s) ==
    LET k == LeadingSigils(s)  t == Drop(s, LeadingSigils(s)) IN
    CASE k = 3 /\ t = <<>>   -> MultipleMV
      [] k = 3 /\ IsName(t)  -> IF t[1] = "_" THEN MultipleMV ELSE MV("multicap", t, FALSE)
      [] k = 1 /\ IsName(t)  -> IF t[1] = "_" THEN MV("dropped", <<>>, TRUE) ELSE MV("capture", t, TRUE)
      [] k = 2 /\ IsName(t)  -> IF t[1] = "_" THEN MV("dropped", <<>>, FALSE) ELSE MV("capture", t, FALSE)
      [] OTHER               -> NoneMV

RECURSIVE MaxSigilRun(_, _, _)
MaxSigilRun(s, i, run) ==
    IF i > Len(s) THEN run
    ELSE IF s[i] = "$" THEN LET r == MaxSigilRun(s, i + 1, run + 1) IN r
    ELSE LET r == MaxSigilRun(s, i + 1, 0) IN IF run > r THEN run ELSE r

\* KNOWN FINDING C20/expando-literal (see /verif/known_findings.json): a language whose expando
\* character differs from the sigil cannot tell the expando typed literally from a rewritten sigil
\* ($_ -> __ in C is not a hole, __A is; zA is a hole in HTML).  With expando "_", which is itself a
\* name character, a rewritten sigil in the middle of a token also merges into the name ($A$A -> _A_A)
\* and a run of four sigils turns into an ellipsis.  The invariant excludes exactly these inputs.
SigilAfterText(s) == \E i \in 2..Len(s) : s[i] = "$" /\ \E j \in 1..(i-1) : s[j] # "$"
KnownExpandoLiteral(e, s) ==
    /\ e # "$"
    /\ \/ Has(s, e)
       \/ e = "_" /\ (MaxSigilRun(s, 1, 0) >= 4 \/ SigilAfterText(s))

SpellingOK(e, s) == KnownExpandoLiteral(e, s) \/ LangMetaVar(e, s) = Spelling(s)

\* --------------------------------------------------------- templates -----
\* I: items are [v |-> FALSE, c |-> char] (literal) or [v |-> TRUE, name |-> seq, multi |-> BOOLEAN]
Lit(c) == [v |-> FALSE, c |-> c, name |-> <<>>, multi |-> FALSE, len |-> 1]
\* len = number of template characters the variable occupies (sigils + name)
Var(n, m, l) == [v |-> TRUE, c |-> "", name |-> n, multi |-> m, len |-> l]

RECURSIVE ValidRun(_, _)
\* length of the maximal run of meta-variable characters starting at position i
ValidRun(s, i) == IF i <= Len(s) /\ IsValidChar(s[i]) THEN 1 + ValidRun(s, i + 1) ELSE 0

\* split_first_meta_var at a sigil at position i: [ok, multi, name, len]
SplitFirst(s, i) ==
    LET k == IF i + 1 <= Len(s) /\ s[i+1] = "$"
             THEN (IF i + 2 <= Len(s) /\ s[i+2] = "$" THEN 3 ELSE 2) ELSE 1
        n == ValidRun(s, i + k) IN
    [ok |-> n > 0, multi |-> k = 3, name |-> SubSeq(s, i + k, i + k + n - 1), len |-> k + n]

RECURSIVE TemplateItems(_, _)
\* create_template: scan from position i
TemplateItems(s, i) ==
    IF i > Len(s) THEN <<>>
    ELSE IF s[i] # "$" THEN <<Lit(s[i])>> \o TemplateItems(s, i + 1)
    ELSE LET r == SplitFirst(s, i) IN
         IF r.ok THEN <<Var(r.name, r.multi, r.len)>> \o TemplateItems(s, i + r.len)
         ELSE <<Lit("$")>> \o TemplateItems(s, i + 1)

UsedVarsI(s) == { it.name : it \in { x \in ToSet(TemplateItems(s, 1)) : x.v } }

\* expansion with single bindings `single` and multi bindings `multi` (functions name -> text)
ExpandItems(items, single, multi) ==
    FlattenSeq([k \in 1..Len(items) |->
        LET it == items[k] IN
        IF ~it.v THEN <<it.c>>
        ELSE IF it.multi THEN (IF it.name \in DOMAIN multi THEN multi[it.name] ELSE <<>>)
        ELSE (IF it.name \in DOMAIN single THEN single[it.name] ELSE <<>>)])

\* P: judged only for templates whose every sigil run has length <= 3 and is followed by an
\* upper-case-first name (a capturing spelling) or by no name at all (a lone sigil); sigils followed
\* by "_" or a digit are outside the statement.
RECURSIVE TemplateP(_, _)
TemplateP(s, i) ==
    IF i > Len(s) THEN <<>>
    ELSE IF s[i] # "$" THEN <<Lit(s[i])>> \o TemplateP(s, i + 1)
    ELSE LET k == LeadingSigils(Drop(s, i - 1))
             n == ValidRun(s, i + k) IN
         IF n = 0 THEN [j \in 1..k |-> Lit("$")] \o TemplateP(s, i + k)
         ELSE <<Var(SubSeq(s, i + k, i + k + n - 1), k = 3, k + n)>> \o TemplateP(s, i + k + n)

RECURSIVE TemplateJudged(_, _)
TemplateJudged(s, i) ==
    IF i > Len(s) THEN TRUE
    ELSE IF s[i] # "$" THEN TemplateJudged(s, i + 1)
    ELSE LET k == LeadingSigils(Drop(s, i - 1))
             n == ValidRun(s, i + k) IN
         /\ k <= 3
         /\ (n > 0 => s[i + k] \in Upper)
         /\ TemplateJudged(s, i + k + (IF n = 0 THEN 0 ELSE n))

TemplateOK(s) == TemplateJudged(s, 1) => TemplateItems(s, 1) = TemplateP(s, 1)

\* ------------------------------------------------------------- An+B ------
NoSpace(s) == SelectSeq(s, LAMBDA c : c # " ")
DigitVal(c) == CHOOSE v \in 0..9 : <<"0","1","2","3","4","5","6","7","8","9">>[v + 1] = c

\* I: the four-state machine.  st \in {"init","n","sign","num"}; returns [ok, a, b]
RECURSIVE AnBScan(_, _, _, _, _, _, _)
AnBScan(s, i, st, hasN, step, sign, num) ==
    IF i > Len(s) THEN
        IF st \in {"sign", "init"} THEN [ok |-> FALSE, a |-> 0, b |-> 0]
        ELSE [ok |-> TRUE, a |-> step, b |-> num * sign]
    ELSE LET c == s[i] IN
    IF c = " " THEN AnBScan(s, i + 1, st, hasN, step, sign, num)
    ELSE IF st = "init" THEN
        IF c \in {"+", "-"} THEN AnBScan(s, i + 1, "sign", FALSE, step, IF c = "+" THEN 1 ELSE -1, num)
        ELSE IF c \in Digit THEN AnBScan(s, i + 1, "num", FALSE, step, sign, DigitVal(c))
        ELSE IF c \in {"n", "N"} THEN AnBScan(s, i + 1, "n", hasN, sign, sign, num)
        ELSE [ok |-> FALSE, a |-> 0, b |-> 0]
    ELSE IF st = "sign" THEN
        IF c \in {"+", "-"} THEN [ok |-> FALSE, a |-> 0, b |-> 0]
        ELSE IF c \in Digit THEN AnBScan(s, i + 1, "num", hasN, step, sign, DigitVal(c))
        ELSE IF c \in {"n", "N"} THEN
            (IF hasN THEN [ok |-> FALSE, a |-> 0, b |-> 0]
             ELSE AnBScan(s, i + 1, "n", hasN, sign, sign, num))
        ELSE [ok |-> FALSE, a |-> 0, b |-> 0]
    ELSE IF st = "num" THEN
        IF c \in {"+", "-"} THEN [ok |-> FALSE, a |-> 0, b |-> 0]
        ELSE IF c \in Digit THEN AnBScan(s, i + 1, "num", hasN, step, sign, num * 10 + DigitVal(c))
        ELSE IF c \in {"n", "N"} THEN
            (IF hasN THEN [ok |-> FALSE, a |-> 0, b |-> 0]
             ELSE AnBScan(s, i + 1, "n", hasN, sign * num, sign, 0))
        ELSE [ok |-> FALSE, a |-> 0, b |-> 0]
    ELSE \* st = "n"
        IF c \in {"+", "-"} THEN AnBScan(s, i + 1, "sign", TRUE, step, IF c = "+" THEN 1 ELSE -1, 0)
        ELSE [ok |-> FALSE, a |-> 0, b |-> 0]
ParseAnB(s) == AnBScan(s, 1, "init", FALSE, 0, 1, 0)

\* FunctionalPosition::is_matched on the 1-based index (Rust `/` and `%` truncate toward zero)
TruncDiv(x, y) == IF (x >= 0) = (y > 0) THEN (IF x >= 0 THEN x \div y ELSE (-x) \div (-y))
                  ELSE (IF x >= 0 THEN -(x \div (-y)) ELSE -((-x) \div y))
TruncRem(x, y) == x - y * TruncDiv(x, y)
IsMatched(a, b, idx) ==
    IF a = 0 THEN idx = b
    ELSE LET n == idx - b IN TruncDiv(n, a) >= 0 /\ TruncRem(n, a) = 0

\* P: the CSS-like grammar on the space-free string:  [sign] digits  |  [sign] [digits] n [sign digits]
RECURSIVE DigitsVal(_)
DigitsVal(ds) == IF ds = <<>> THEN 0 ELSE DigitsVal(Front(ds)) * 10 + DigitVal(Last(ds))
AllDigits(ds) == \A i \in 1..Len(ds) : ds[i] \in Digit
SignOf(c) == IF c = "-" THEN -1 ELSE 1

AnBP(s) ==
    LET t  == NoSpace(s)
        hs == t # <<>> /\ t[1] \in {"+", "-"}
        sg == IF hs THEN SignOf(t[1]) ELSE 1
        u  == IF hs THEN Tail(t) ELSE t
        ns == { i \in 1..Len(u) : u[i] \in {"n", "N"} } IN
    IF ns = {} THEN
        IF u # <<>> /\ AllDigits(u) THEN [ok |-> TRUE, a |-> 0, b |-> sg * DigitsVal(u)]
        ELSE [ok |-> FALSE, a |-> 0, b |-> 0]
    ELSE IF Cardinality(ns) > 1 THEN [ok |-> FALSE, a |-> 0, b |-> 0]
    ELSE LET k == CHOOSE i \in ns : TRUE
             pre == SubSeq(u, 1, k - 1)
             post == SubSeq(u, k + 1, Len(u)) IN
         IF ~AllDigits(pre) THEN [ok |-> FALSE, a |-> 0, b |-> 0]
         ELSE LET a == sg * (IF pre = <<>> THEN 1 ELSE DigitsVal(pre)) IN
              IF post = <<>> THEN [ok |-> TRUE, a |-> a, b |-> 0]
              ELSE IF post[1] \in {"+", "-"} /\ Len(post) > 1 /\ AllDigits(Tail(post))
                   THEN [ok |-> TRUE, a |-> a, b |-> SignOf(post[1]) * DigitsVal(Tail(post))]
                   ELSE [ok |-> FALSE, a |-> 0, b |-> 0]

\* white space is judged only where the notation allows it: not between two digits / inside a number
SpacesJudged(s) ==
    \A i \in 2..(Len(s) - 1) : s[i] = " " =>
        ~(\E l \in 1..(i-1), r \in (i+1)..Len(s) :
             /\ s[l] \in Digit /\ s[r] \in Digit
             /\ \A m \in (l+1)..(r-1) : s[m] = " ")

\* "idx = a*n + b for some n >= 0": any witness satisfies n <= idx + |b| (|a| >= 1 when n matters)
AbsV(x) == IF x < 0 THEN -x ELSE x
SelectP(a, b, idx) == \E n \in 0..(idx + AbsV(b)) : idx = a * n + b

AnBOK(s, maxIdx) ==
    SpacesJudged(s) =>
        LET i == ParseAnB(s)  p == AnBP(s) IN
        /\ i.ok = p.ok
        /\ p.ok => \A idx \in 1..maxIdx : IsMatched(i.a, i.b, idx) = SelectP(p.a, p.b, idx)

\* ---------------------------------------------------------- substring ----
\* I: resolve_char + Substring::compute; absent bounds are the constant Absent
Absent == 99
ResolveChar(c, dft, len) ==
    LET v == IF c = Absent THEN dft ELSE c IN
    IF v >= len THEN len ELSE IF v >= 0 THEN v ELSE IF len + v < 0 THEN 0 ELSE len + v
SubstringI(chars, start, end) ==
    LET len == Len(chars)
        st == ResolveChar(start, 0, len)
        en == ResolveChar(end, len, len) IN
    IF st > en \/ st >= len \/ en > len THEN <<>> ELSE SubSeq(chars, st + 1, en)

\* P: Python's chars[start:end]
PyBound(c, dft, len) ==
    IF c = Absent THEN dft
    ELSE IF c < 0 THEN (IF len + c < 0 THEN 0 ELSE len + c)
    ELSE (IF c > len THEN len ELSE c)
PySlice(chars, start, end) ==
    LET len == Len(chars)
        lo == PyBound(start, 0, len)
        hi == PyBound(end, len, len) IN
    [k \in 1..(IF hi > lo THEN hi - lo ELSE 0) |-> chars[lo + k]]

SubstringOK(chars, start, end) == SubstringI(chars, start, end) = PySlice(chars, start, end)
=============================================================================
