------------------------------- MODULE Merger -------------------------------
(***************************************************************************)
(* The plain-text report of `sg run` (crates/cli/src/print/colored_print.rs*)
(* print_matches_with_prefix / _with_heading and colored_print/            *)
(* match_merger.rs): which lines of a file are printed, in how many groups. *)
(*                                                                         *)
(* A file has N lines (1-based).  The matches of one file arrive in        *)
(* document order as [s, e, sl, el]: byte range and 0-based first / last   *)
(* line.  With context (b, a) a match is shown with b lines before and a   *)
(* lines after it.                                                         *)
(*                                                                         *)
(* P: the lines printed for the file are the union of the windows          *)
(*    [sl + 1 - b, el + 1 + a] (clipped to 1..N) of its matches, each      *)
(*    once, in increasing order; a group is a maximal run of consecutive   *)
(*    line numbers (groups are separated by `--` when there is context).   *)
(* I: the MatchMerger machine: (lastStart, lastEndLine, lastEndOffset)     *)
(*    check_overlapping - a match that starts before lastEndOffset lies    *)
(*    inside the previous one and is passed over; merge_adjacent - a match *)
(*    whose window starts at or before lastEndLine + a (1-based) extends   *)
(*    the group; otherwise the group is printed and conclude_match starts  *)
(*    a new one.                                                           *)
(* C16 itself only demands that every printed entry carries the text of    *)
(* its line (Trace_C16 EntryReasons); this module adds WHICH lines.        *)
(***************************************************************************)
EXTENDS Naturals, Sequences, FiniteSets

Max(x, y) == IF x > y THEN x ELSE y
Min(x, y) == IF x < y THEN x ELSE y
Minus(x, y) == IF x > y THEN x - y ELSE 0

\* 1-based window of a match
WinLo(m, b) == Max(1, Minus(m.sl + 1, b))
WinHi(m, a, N) == Min(N, m.el + 1 + a)

\* ---- P -------------------------------------------------------------------
PrintedP(N, ms, b, a) == UNION { WinLo(ms[k], b)..WinHi(ms[k], a, N) : k \in 1..Len(ms) }
GroupsP(N, ms, b, a) ==            \* number of maximal runs
    LET S == PrintedP(N, ms, b, a) IN Cardinality({ x \in S : x - 1 \notin S })

\* ---- I -------------------------------------------------------------------
\* state: [groups (finished, as <<lo, hi>>), lo, endLine (1-based), endOff, hi]
\* asCode = TRUE: merge_adjacent as written - it moves lastEndOffset and the trailing text but NOT lastEndLine, so after
\* a merge the next match is compared with the end line of the group's FIRST match: a match close behind a merged one
\* starts a new group although its window touches the previous one, and the line(s) they share are printed twice
\* (finding outside the listed properties, DESIGN 11.5; MC_Merger_witness.cfg).  asCode = FALSE: the end line moves
\* along, which is what the statement P needs.
RECURSIVE Run(_, _, _, _, _, _, _)
Run(asCode, N, ms, b, a, k, st) ==
    IF k > Len(ms) THEN Append(st.groups, <<st.lo, st.hi>>)
    ELSE LET m == ms[k] IN
         IF m.s < st.endOff THEN Run(asCode, N, ms, b, a, k + 1, st)                          \* check_overlapping
         ELSE IF Minus(m.sl, b) <= st.endLine + a                                            \* merge_adjacent (display.start_line is 0-based)
              THEN Run(asCode, N, ms, b, a, k + 1,
                       [st EXCEPT !.endLine = IF asCode THEN @ ELSE m.el + 1, !.endOff = m.e, !.hi = WinHi(m, a, N)])
              ELSE Run(asCode, N, ms, b, a, k + 1,                                            \* print the group, conclude_match
                       [groups |-> Append(st.groups, <<st.lo, st.hi>>), lo |-> WinLo(m, b), endLine |-> m.el + 1,
                        endOff |-> m.e, hi |-> WinHi(m, a, N)])
GroupsV(asCode, N, ms, b, a) ==
    IF ms = <<>> THEN <<>>
    ELSE Run(asCode, N, ms, b, a, 2, [groups |-> <<>>, lo |-> WinLo(ms[1], b), endLine |-> ms[1].el + 1, endOff |-> ms[1].e,
                                      hi |-> WinHi(ms[1], a, N)])
GroupsI(N, ms, b, a) == GroupsV(TRUE, N, ms, b, a)
RECURSIVE LinesOf(_)
LinesOf(gs) == IF gs = <<>> THEN <<>> ELSE [i \in 1..(gs[1][2] + 1 - gs[1][1]) |-> gs[1][1] + i - 1] \o LinesOf(Tail(gs))

\* document order and nesting of real matches: sorted by start, a later match is either after or inside an earlier one
WellNested(ms) == \A i, j \in 1..Len(ms) : i < j =>
                     /\ ms[i].s <= ms[j].s
                     /\ (ms[j].s < ms[i].e => ms[j].e <= ms[i].e /\ ms[i].sl <= ms[j].sl /\ ms[j].el <= ms[i].el)
                     /\ (ms[j].s >= ms[i].e => ms[j].sl >= ms[i].el)
=============================================================================
