------------------------------- MODULE Indent -------------------------------
(***************************************************************************)
(* Indentation-sensitive replacement (crates/core/src/replacer/indent.rs,  *)
(* template.rs).  Texts are sequences of one-character strings.            *)
(*                                                                         *)
(* I: GetIndentAtOffset (backward scan with the MAX_LOOK_AHEAD window),    *)
(*    ExtractWithDeindent, IndentLines (equal / remove_indent /            *)
(*    indent_lines_impl), ReplaceFixer (fragments and slots of             *)
(*    Lexers.TemplateItems, slot indent = indent of the template prefix),  *)
(*    GenerateReplacement (outer re-indent by the match site).             *)
(* P: Verbatim, RelIndent, SelfRewriteIdentity - stated on lines.          *)
(***************************************************************************)
EXTENDS Naturals, Integers, Sequences, SequencesExt, FiniteSets

CONSTANT LookBehind          \* MAX_LOOK_AHEAD (512 in the code; scaled down in bounded models)

NL == "\n"
SP == " "

Spaces(n) == [i \in 1..n |-> SP]
HasNL(s) == \E i \in 1..Len(s) : s[i] = NL

\* ---------------------------------------------------------------- I ------
RECURSIVE BackIndent(_, _, _, _)
\* scan src[lo+1..i] backwards; returns [found |-> newline seen, n |-> count]
BackIndent(src, i, lo, indent) ==
    IF i <= lo THEN [found |-> FALSE, n |-> indent]
    ELSE IF src[i] = NL THEN [found |-> TRUE, n |-> indent]
    ELSE BackIndent(src, i - 1, lo, IF src[i] = SP THEN indent + 1 ELSE 0)

\* get_indent_at_offset(src): src is the text before the position
GetIndentAtOffset(src) ==
    LET lo == IF Len(src) > LookBehind THEN Len(src) - LookBehind ELSE 0
        r == BackIndent(src, Len(src), lo, 0) IN
    IF r.found THEN r.n
    ELSE IF lo = 0 /\ r.n # 0 THEN r.n ELSE 0

\* split a text into lines (without the newlines)
RECURSIVE SplitLines(_)
SplitLines(s) ==
    LET ks == { i \in 1..Len(s) : s[i] = NL } IN
    IF ks = {} THEN <<s>>
    ELSE LET k == CHOOSE i \in ks : \A j \in ks : i <= j IN
         <<SubSeq(s, 1, k - 1)>> \o SplitLines(SubSeq(s, k + 1, Len(s)))

RECURSIVE JoinLines(_)
JoinLines(ls) == IF Len(ls) = 1 THEN ls[1] ELSE ls[1] \o <<NL>> \o JoinLines(Tail(ls))

StartsWithSpaces(line, n) == Len(line) >= n /\ \A i \in 1..n : line[i] = SP

\* remove_indent: strips the prefix from EVERY line that has it (also the first)
RemoveIndent(n, s) ==
    JoinLines([k \in 1..Len(SplitLines(s)) |->
        LET line == SplitLines(s)[k] IN
        IF StartsWithSpaces(line, n) THEN SubSeq(line, n + 1, Len(line)) ELSE line])

\* indent_lines_impl: every line but the first gets n more spaces
AddIndent(n, s) ==
    LET ls == SplitLines(s) IN
    JoinLines([k \in 1..Len(ls) |-> IF k = 1 THEN ls[k] ELSE Spaces(n) \o ls[k]])

\* extract = [multi |-> BOOLEAN, text, ind]
ExtractWithDeindent(src, lo, hi) ==       \* bytes lo+1 .. hi (0-based range lo..hi)
    LET slice == SubSeq(src, lo + 1, hi) IN
    IF ~HasNL(slice) THEN [multi |-> FALSE, text |-> slice, ind |-> 0]
    ELSE [multi |-> TRUE, text |-> slice, ind |-> GetIndentAtOffset(SubSeq(src, 1, lo))]

IndentLines(indent, ex) ==
    IF ~ex.multi THEN ex.text
    ELSE IF ex.ind = indent THEN ex.text
    ELSE IF ex.ind > indent THEN RemoveIndent(ex.ind - indent, ex.text)
    ELSE AddIndent(indent - ex.ind, ex.text)

\* ---- template: items as in Lexers.TemplateItems; here a template is given already scanned:
\* tpl = sequence of [v |-> FALSE, c] | [v |-> TRUE, name, multi], plus the raw text for slot indents
\* binding of a variable: [lo, hi] byte range in src (single node or sibling run), or absent
RECURSIVE SlotOffsets(_, _, _)
\* raw offset (count of characters before) of each item in the template text
SlotOffsets(items, k, off) ==
    IF k > Len(items) THEN <<>>
    ELSE <<off>> \o SlotOffsets(items, k + 1,
             off + (IF items[k].v THEN items[k].len ELSE 1))

ReplaceFixer(src, raw, items, bind) ==
    LET offs == SlotOffsets(items, 1, 0) IN
    FlattenSeq([k \in 1..Len(items) |->
        LET it == items[k] IN
        IF ~it.v THEN <<it.c>>
        ELSE IF it.name \notin DOMAIN bind THEN <<>>
        ELSE LET b == bind[it.name]
                 slot == GetIndentAtOffset(SubSeq(raw, 1, offs[k])) IN
             IndentLines(slot, ExtractWithDeindent(src, b.lo, b.hi))])

\* TemplateFix::generate_replacement for a match starting at byte offset `site`
GenerateReplacement(src, raw, items, bind, site) ==
    LET indent == GetIndentAtOffset(SubSeq(src, 1, site))
        bytes == ReplaceFixer(src, raw, items, bind) IN
    IndentLines(indent, [multi |-> TRUE, text |-> bytes, ind |-> 0])

\* ---------------------------------------------------------------- P ------
LeadingSpaces(line) ==
    LET ks == { i \in 1..Len(line) : line[i] # SP } IN
    IF ks = {} THEN Len(line) ELSE (CHOOSE i \in ks : \A j \in ks : i <= j) - 1

\* indentation (leading spaces) of the line of src that contains offset off
LineIndentAt(src, off) ==
    LET before == { i \in 1..off : src[i] = NL }
        ls == IF before = {} THEN 1 ELSE (CHOOSE i \in before : \A j \in before : j <= i) + 1
        after == { i \in ls..Len(src) : src[i] = NL }
        le == IF after = {} THEN Len(src) ELSE (CHOOSE i \in after : \A j \in after : i <= j) - 1 IN
    LeadingSpaces(SubSeq(src, ls, le))

\* the indentation clause applies to captures whose continuation lines are neither blank nor
\* indented less than the capture's first line
WellIndented(src, lo, hi) ==
    LET first == LineIndentAt(src, lo)
        ls == SplitLines(SubSeq(src, lo + 1, hi)) IN
    \A k \in 2..Len(ls) : ls[k] # <<>> /\ LeadingSpaces(ls[k]) < Len(ls[k]) /\ LeadingSpaces(ls[k]) >= first
=============================================================================
