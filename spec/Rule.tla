-------------------------------- MODULE Rule --------------------------------
(***************************************************************************)
(* Rule objects (crates/config/src/rule, crates/core/src/ops.rs).          *)
(*                                                                         *)
(*  P / C05  Sem(U, T, pv, r, n)   reference semantics: plain booleans on  *)
(*           the node table, written from the rule reference.  Pattern     *)
(*           atoms are looked up in the oracle pv (verdict of the pattern  *)
(*           alone on each node), so Sem is about the rule combinators     *)
(*           only and is independent of how patterns are matched.          *)
(*  I        Eval(U, T, r, n, env) = [ok, env]: the environment threading  *)
(*           of the code (Cow<MetaVarEnv>), operator by operator.          *)
(*  P / C04  EvalClean: the same recursion with every attempt that can     *)
(*           fail run on a private copy; only winners commit.              *)
(*  I / C01  PK(U, r): potential_kinds, operator by operator.              *)
(*                                                                         *)
(* A rule is a nested record:                                              *)
(*   [op |-> "pattern", pidx]  [op |-> "kind", kid]  [op |-> "regex", texts]*)
(*   [op |-> "nth", a, b, rev, of]   (of = [op |-> "none"] when absent)    *)
(*   [op |-> "cons", sub, var, crule]  a reference to a global utility rule *)
(*        whose rule is `sub` and which constrains variable `var` by crule *)
(*   [op |-> "range", sl, sc, el, ec]                                      *)
(*   [op |-> "all"|"any", subs]  [op |-> "not", sub]  [op |-> "matches", id]*)
(*   [op |-> "inside"|"has"|"precedes"|"follows", sub, stop, field]        *)
(*        stop = [op |-> "neighbor"] | [op |-> "end"] | a rule             *)
(*        field = "" or a field name                                       *)
(* U = [patterns |-> <<[PT, strict]>>, utils |-> id :> rule]               *)
(* T rows: Tree.tla + kid, nm, cm, t, tx (full text), f (field name),      *)
(*         sl, el (lines), scc, ecc (character columns)                    *)
(***************************************************************************)
EXTENDS Match, Integers

Relations == {"inside", "has", "precedes", "follows"}

\* first child of node i labelled with field f (child_by_field_id), 0 if none
FieldChild(T, i, f) ==
    LET ks == { k \in 1..Len(T[i].ch) : T[T[i].ch[k]].f = f } IN
    IF ks = {} THEN 0 ELSE T[i].ch[CHOOSE k \in ks : \A j \in ks : k <= j]

NamedKids(T, i) == SelectSeq(T[i].ch, LAMBDA c : T[c].nm)

AnBSelect(a, b, idx) == IF a = 0 THEN idx = b ELSE \E k \in 0..64 : idx = a * k + b

\* ================================================================ P: Sem ====
RECURSIVE Sem(_, _, _, _, _)
RECURSIVE UptoStop(_, _, _, _, _)
RECURSIVE ReachStop(_, _, _, _, _)

\* prefix of the candidate sequence limited by stopBy: neighbor = first; end = all;
\* rule = up to AND INCLUDING the first candidate the stop rule matches
UptoStop(U, T, pv, stop, seq) ==
    IF seq = <<>> THEN <<>>
    ELSE IF stop.op = "neighbor" THEN <<seq[1]>>
    ELSE IF stop.op = "end" THEN seq
    ELSE IF Sem(U, T, pv, stop, seq[1]) THEN <<seq[1]>>
    ELSE <<seq[1]>> \o UptoStop(U, T, pv, stop, Tail(seq))

\* descendants visited by `has` with a stop rule: every child is inspected; a child matching the
\* stop rule is inspected but not entered
ReachStop(U, T, pv, stop, i) ==
    UNION { {c} \cup (IF Sem(U, T, pv, stop, c) THEN {} ELSE ReachStop(U, T, pv, stop, c))
            : c \in ToSet(T[i].ch) }

HasCandidates(U, T, pv, r, n) ==
    IF r.field = "" THEN
        CASE r.stop.op = "neighbor" -> ToSet(T[n].ch)
          [] r.stop.op = "end"      -> Desc(T, n)
          [] OTHER                  -> ReachStop(U, T, pv, r.stop, n)
    ELSE LET fc == FieldChild(T, n, r.field) IN
        IF fc = 0 THEN {}
        ELSE CASE r.stop.op = "neighbor" -> {fc}
               [] r.stop.op = "end"      -> DescSelf(T, fc)
               [] OTHER -> {fc} \cup (IF Sem(U, T, pv, r.stop, fc) THEN {} ELSE ReachStop(U, T, pv, r.stop, fc))

Sem(U, T, pv, r, n) ==
    CASE r.op = "pattern" -> pv[r.pidx][n]
      [] r.op = "kind"    -> T[n].kid = r.kid
      [] r.op = "regex"   -> \E k \in 1..Len(r.texts) : r.texts[k] = T[n].tx
      [] r.op = "range"   -> <<T[n].sl, T[n].scc, T[n].el, T[n].ecc>> = <<r.sl, r.sc, r.el, r.ec>>
      [] r.op = "nth"     ->
           /\ T[n].p # 0
           /\ LET named == NamedKids(T, T[n].p)
                  kept  == IF r.of.op = "none" THEN named
                           ELSE SelectSeq(named, LAMBDA c : Sem(U, T, pv, r.of, c))
                  lst   == IF r.rev THEN Reverse(kept) ELSE kept IN
              \E k \in 1..Len(lst) : lst[k] = n /\ AnBSelect(r.a, r.b, k)
      [] r.op = "all"     -> \A k \in 1..Len(r.subs) : Sem(U, T, pv, r.subs[k], n)
      [] r.op = "any"     -> \E k \in 1..Len(r.subs) : Sem(U, T, pv, r.subs[k], n)
      [] r.op = "not"     -> ~Sem(U, T, pv, r.sub, n)
      [] r.op = "matches" -> Sem(U, T, pv, U.utils[r.id], n)
      [] r.op = "cons"    -> Sem(U, T, pv, r.sub, n)      \* verdict-only reading; documents with constraints are not judged by Sem
      [] r.op = "inside"  ->
           LET chain == ParentChain(T, n)
               cand  == UptoStop(U, T, pv, r.stop, chain) IN
           \E k \in 1..Len(cand) :
              /\ (r.field # "" => FieldChild(T, cand[k], r.field) = (IF k = 1 THEN n ELSE cand[k-1]))
              /\ Sem(U, T, pv, r.sub, cand[k])
      [] r.op = "has"     -> \E c \in HasCandidates(U, T, pv, r, n) : Sem(U, T, pv, r.sub, c)
      [] r.op = "precedes" ->
           LET cand == UptoStop(U, T, pv, r.stop, NextAll(T, n)) IN
           \E k \in 1..Len(cand) : Sem(U, T, pv, r.sub, cand[k])
      [] r.op = "follows" ->
           LET cand == UptoStop(U, T, pv, r.stop, PrevAll(T, n)) IN
           \E k \in 1..Len(cand) : Sem(U, T, pv, r.sub, cand[k])
      [] OTHER -> FALSE

\* ================================================================ I: Eval ===
\* mode "impl"  : as the code threads the environment
\* mode "clean" : C04's demand - an attempt that can fail runs on a private copy
RECURSIVE Eval(_, _, _, _, _, _)
RECURSIVE ScanCands(_, _, _, _, _, _, _)
RECURSIVE HasRuleWalk(_, _, _, _, _, _, _)
RECURSIVE FoldAll(_, _, _, _, _, _, _)
RECURSIVE FirstAny(_, _, _, _, _, _, _, _)
RECURSIVE TakeUntil(_, _, _, _, _)

\* `n.matches(rule)` evaluates the stop rule on a fresh environment
StopHit(mode, U, T, stop, x) == Eval(mode, U, T, stop, x, EmptyEnv).ok

\* take_while(inclusive_until(stop))
TakeUntil(mode, U, T, stop, seq) ==
    IF seq = <<>> THEN <<>>
    ELSE IF StopHit(mode, U, T, stop, seq[1]) THEN <<seq[1]>>
    ELSE <<seq[1]>> \o TakeUntil(mode, U, T, stop, Tail(seq))

LimitBy(mode, U, T, stop, seq) ==
    IF seq = <<>> THEN <<>>
    ELSE IF stop.op = "neighbor" THEN <<seq[1]>>
    ELSE IF stop.op = "end" THEN seq
    ELSE TakeUntil(mode, U, T, stop, seq)

\* find_map(finder) over candidates with ONE environment (impl) or a private copy per attempt (clean).
\* ok(k) is an extra admission test for candidate k (the `field` test of inside)
ScanCands(mode, U, T, sub, cands, admit, env) ==
    IF cands = <<>> THEN Fail(env)
    ELSE IF ~admit[1] THEN ScanCands(mode, U, T, sub, Tail(cands), Tail(admit), env)
    ELSE LET m == Eval(mode, U, T, sub, cands[1], env) IN
         IF m.ok THEN m
         ELSE ScanCands(mode, U, T, sub, Tail(cands), Tail(admit), IF mode = "impl" THEN m.env ELSE env)

AllTrue(k) == [i \in 1..k |-> TRUE]

\* Has with a stop rule: children in order; inner first, then (unless stopped) the subtree
HasRuleWalk(mode, U, T, r, kids, i, env) ==
    IF i > Len(kids) THEN Fail(env)
    ELSE LET c == kids[i]
             m == Eval(mode, U, T, r.sub, c, env)
             e1 == IF mode = "impl" THEN m.env ELSE env IN
         IF m.ok THEN m
         ELSE IF StopHit(mode, U, T, r.stop, c) THEN HasRuleWalk(mode, U, T, r, kids, i + 1, e1)
         ELSE LET d == HasRuleWalk(mode, U, T, r, T[c].ch, 1, e1) IN
              IF d.ok THEN d
              ELSE HasRuleWalk(mode, U, T, r, kids, i + 1, IF mode = "impl" THEN d.env ELSE env)

FoldAll(mode, U, T, subs, i, n, env) ==
    IF i > Len(subs) THEN Ok(env)
    ELSE LET m == Eval(mode, U, T, subs[i], n, env) IN
         IF m.ok THEN FoldAll(mode, U, T, subs, i + 1, n, m.env) ELSE Fail(env)

FirstAny(mode, U, T, subs, i, n, env, dummy) ==
    IF i > Len(subs) THEN Fail(env)
    ELSE LET m == Eval(mode, U, T, subs[i], n, env) IN          \* every branch restarts from env
         IF m.ok THEN m ELSE FirstAny(mode, U, T, subs, i + 1, n, env, dummy)

\* nthChild.ofRule: every named sibling is tested on its own, starting from the environment the rule was given
\* (since the fix: before, the bindings of one sibling constrained the test of the next)
OfRuleKept(mode, U, T, of, sibs, env) == SelectSeq(sibs, LAMBDA c : Eval(mode, U, T, of, c, env).ok)

Eval(mode, U, T, r, n, env) ==
    CASE r.op = "pattern" ->
           LET P == U.patterns[r.pidx]
               m == MatchNode(P.PT, T, P.strict, 1, n, env) IN      \* matches into a copy, commits on success
           IF m.r = "both" THEN Ok(m.env) ELSE Fail(env)
      [] r.op \in {"kind", "regex", "range"} ->
           [ok |-> Sem(U, T, <<>>, r, n), env |-> env]
      [] r.op = "nth" ->
           IF T[n].p = 0 THEN Fail(env)
           ELSE LET named == NamedKids(T, T[n].p)
                    kept == IF r.of.op = "none" THEN named ELSE OfRuleKept(mode, U, T, r.of, named, env)
                    lst == IF r.rev THEN Reverse(kept) ELSE kept
                    ok == \E k \in 1..Len(lst) : lst[k] = n /\ AnBSelect(r.a, r.b, k) IN
                \* the variables of the ofRule are exposed as bound on the node itself
                IF ok /\ r.of.op # "none" THEN Ok(Eval(mode, U, T, r.of, n, env).env)
                ELSE [ok |-> ok, env |-> env]
      [] r.op = "all" -> FoldAll(mode, U, T, r.subs, 1, n, env)
      [] r.op = "any" -> FirstAny(mode, U, T, r.subs, 1, n, env, 0)
      [] r.op = "not" ->
           LET m == Eval(mode, U, T, r.sub, n, env) IN
           [ok |-> ~m.ok, env |-> env]        \* the negated rule runs on a scratch env (fix 1aa7345)
      [] r.op = "matches" -> Eval(mode, U, T, U.utils[r.id], n, env)
      \* RuleCore::do_match of a global utility: the rule matches into a scratch environment, then
      \* MetaVarEnv::match_constraints tests the constrained variable if it is bound; the scratch environment is
      \* committed only when the constraints hold (since fix fdd2b68; before, a rejected node left its bindings in
      \* the caller's environment and spoiled the next candidate of a relational rule)
      [] r.op = "cons" ->
           LET m == Eval(mode, U, T, r.sub, n, env) IN
           IF ~m.ok THEN Fail(env)
           ELSE IF r.var \notin DOMAIN m.env.single \/ Eval(mode, U, T, r.crule, m.env.single[r.var], m.env).ok THEN Ok(m.env)
           ELSE Fail(env)
      [] r.op = "inside" ->
           LET chain == ParentChain(T, n)
               cand  == LimitBy(mode, U, T, r.stop, chain)
               admit == [k \in 1..Len(cand) |->
                            r.field = "" \/ FieldChild(T, cand[k], r.field) = (IF k = 1 THEN n ELSE cand[k-1])] IN
           ScanCands(mode, U, T, r.sub, cand, admit, env)
      [] r.op = "precedes" ->
           LET cand == LimitBy(mode, U, T, r.stop, NextAll(T, n)) IN
           ScanCands(mode, U, T, r.sub, cand, AllTrue(Len(cand)), env)
      [] r.op = "follows" ->
           LET cand == LimitBy(mode, U, T, r.stop, PrevAll(T, n)) IN
           ScanCands(mode, U, T, r.sub, cand, AllTrue(Len(cand)), env)
      [] r.op = "has" ->
           IF r.field = "" THEN
               CASE r.stop.op = "neighbor" -> ScanCands(mode, U, T, r.sub, T[n].ch, AllTrue(Len(T[n].ch)), env)
                 [] r.stop.op = "end" ->
                      LET d == Tail(PreOrder(T, n)) IN ScanCands(mode, U, T, r.sub, d, AllTrue(Len(d)), env)
                 [] OTHER -> HasRuleWalk(mode, U, T, r, T[n].ch, 1, env)
           ELSE LET fc == FieldChild(T, n, r.field) IN
               IF fc = 0 THEN Fail(env)
               ELSE CASE r.stop.op = "neighbor" -> ScanCands(mode, U, T, r.sub, <<fc>>, <<TRUE>>, env)
                      [] r.stop.op = "end" ->
                           LET d == PreOrder(T, fc) IN ScanCands(mode, U, T, r.sub, d, AllTrue(Len(d)), env)
                      [] OTHER ->
                           \* the field child itself, then (unless it matches the stop rule) the bounded
                           \* descent shared with the field-less form (fix e7a9480)
                           LET m == Eval(mode, U, T, r.sub, fc, env)
                               e1 == IF mode = "impl" THEN m.env ELSE env IN
                           IF m.ok THEN m
                           ELSE IF StopHit(mode, U, T, r.stop, fc) THEN Fail(e1)
                           ELSE HasRuleWalk(mode, U, T, r, T[fc].ch, 1, e1)
      [] OTHER -> Fail(env)

\* ============================================================= I: kinds ====
\* potential_kinds: [any |-> TRUE] for `None` (every kind), else [any |-> FALSE, set |-> kind ids]
AnyKind == [any |-> TRUE, set |-> {}]
Kinds(S) == [any |-> FALSE, set |-> S]

RECURSIVE PK(_, _)
PK(U, r) ==
    CASE r.op = "pattern" ->
           LET p == U.patterns[r.pidx].PT[1] IN
           IF p.ty = "M" THEN AnyKind                      \* bare meta variable without rootKind
           ELSE IF p.ty = "I" /\ p.kid = ErrorKind THEN AnyKind
           ELSE Kinds({p.kid})
      [] r.op = "kind" -> Kinds({r.kid})
      [] r.op = "nth"  -> IF r.of.op = "none" THEN AnyKind ELSE PK(U, r.of)
      [] r.op = "all"  ->
           LET sets == { x \in { PK(U, r.subs[k]) : k \in 1..Len(r.subs) } : ~x.any } IN
           IF sets = {} THEN AnyKind
           ELSE Kinds({ x \in UNION { s.set : s \in sets } : \A s \in sets : x \in s.set })
      [] r.op = "any"  ->
           LET sets == { PK(U, r.subs[k]) : k \in 1..Len(r.subs) } IN
           IF \E s \in sets : s.any THEN AnyKind ELSE Kinds(UNION { s.set : s \in sets })
      [] r.op = "matches" -> PK(U, U.utils[r.id])
      [] r.op = "cons" -> PK(U, r.sub)
      [] OTHER -> AnyKind                                  \* regex, range, not, relations

KindAllowed(pk, kid) == pk.any \/ kid \in pk.set
=============================================================================
