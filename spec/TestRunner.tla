----------------------------- MODULE TestRunner -----------------------------
(***************************************************************************)
(* `sg test` for one rule test file (crates/cli/src/verify.rs,             *)
(* verify/test_case.rs, case_result.rs, snapshot.rs, reporter.rs).         *)
(*                                                                         *)
(* A case is [kind, hit, snap]:                                            *)
(*   kind  "valid" | "invalid"     where the text is listed                *)
(*   hit   the rule has a match in the text                                *)
(*   snap  "absent" | "same" | "stale"  the recorded snapshot of the text  *)
(*         compared with what the rule produces now (invalid cases only)   *)
(* A run has flags skip (--skip-snapshot-tests) and update (--update-all). *)
(* Status of a case, in the letters the summary line prints:               *)
(*   "." pass (Validated / Reported)   "N" noisy   "M" missing             *)
(*   "W" wrong snapshot                "U" snapshot updated                *)
(***************************************************************************)
EXTENDS Naturals, Sequences, FiniteSets

\* ---------------------------------------------------------------- I ------
StatusI(c, skip, update) ==
    IF c.kind = "valid" THEN (IF c.hit THEN "N" ELSE ".")
    ELSE IF ~c.hit THEN "M"
    ELSE IF skip THEN "."
    ELSE IF c.snap = "same" THEN "."
    ELSE IF update THEN "U" ELSE "W"
MarksI(cases, skip, update) == [k \in 1..Len(cases) |-> StatusI(cases[k], skip, update)]
PassI(cases, skip, update) == \A k \in 1..Len(cases) : StatusI(cases[k], skip, update) \in {".", "U"}
\* the snapshot state of every case after the run: --update-all writes what the rule produces now
SnapAfterI(c, skip, update) ==
    IF c.kind = "invalid" /\ c.hit /\ ~skip /\ update /\ c.snap # "same" THEN "same" ELSE c.snap
AfterI(cases, skip, update) == [k \in 1..Len(cases) |-> [cases[k] EXCEPT !.snap = SnapAfterI(cases[k], skip, update)]]

\* ---------------------------------------------------------------- P ------
\* C09: a text listed as valid passes exactly when the rule reports nothing in it, a text listed as invalid
\*      passes exactly when the rule reports something (snapshots aside)
VerdictP(c) == IF c.kind = "valid" THEN ~c.hit ELSE c.hit
VerdictsAgree(cases) == \A k \in 1..Len(cases) : (StatusI(cases[k], TRUE, FALSE) = ".") = VerdictP(cases[k])
\* C13: after `sg test --update-all`, a plain `sg test` finds no snapshot to complain about, and a second
\*      --update-all changes nothing
UpdateSettles(cases) ==
    LET after == AfterI(cases, FALSE, TRUE) IN
    /\ \A k \in 1..Len(after) : StatusI(after[k], FALSE, FALSE) # "W"
    /\ AfterI(after, FALSE, TRUE) = after
    /\ PassI(after, FALSE, FALSE) = (\A k \in 1..Len(cases) : VerdictP(cases[k]))
=============================================================================
