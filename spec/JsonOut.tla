------------------------------ MODULE JsonOut ------------------------------
(***************************************************************************)
(* What the CLI prints about a match (cli/src/print/json_print.rs,         *)
(* core/src/node.rs display_context, colored_print.rs prefix printer).     *)
(*                                                                         *)
(* Texts are character-class sequences as in Positions.tla (0 = newline,   *)
(* else UTF-8 width); byte offsets index bytes, "char offsets" index       *)
(* characters.                                                             *)
(*  I  DisplayContextI : the two byte loops of display_context             *)
(*  P  ContextP        : whole lines covering the match plus `before` /    *)
(*                       `after` context lines; charCount = characters of  *)
(*                       the leading / trailing parts                      *)
(*  Printer machine    : before_print / process(buffer) / after_print for  *)
(*                       the three JSON styles; P: the output is           *)
(*                       well-formed whatever the buffer sequence          *)
(***************************************************************************)
EXTENDS Positions, TLC

\* ---- I: display_context on bytes (Bytes(cw): 0 = newline byte) -----------
RECURSIVE ScanBack(_, _, _)
\* returns the byte offset `leading` reached
ScanBack(b, leading, linesBefore) ==
    IF leading = 0 THEN [off |-> 0, left |-> linesBefore]
    ELSE IF b[leading] = 0 /\ linesBefore - 1 = 0 THEN [off |-> leading, left |-> 0]
    ELSE ScanBack(b, leading - 1, IF b[leading] = 0 THEN linesBefore - 1 ELSE linesBefore)

RECURSIVE ScanFwd(_, _, _)
ScanFwd(b, trailing, linesAfter) ==
    IF trailing >= Len(b) THEN trailing
    ELSE IF b[trailing + 1] = 0 /\ linesAfter - 1 = 0 THEN trailing
    ELSE ScanFwd(b, trailing + 1, IF b[trailing + 1] = 0 THEN linesAfter - 1 ELSE linesAfter)

\* [lead, trail: byte offsets of the printed window, startLine: zero-based first line of the window]
DisplayContextI(cw, s, e, before, after) ==
    LET b == Bytes(cw)
        back == ScanBack(b, s, before + 1)
        e2 == IF e > Len(b) THEN Len(b) ELSE e
        fwd == ScanFwd(b, e2, after + 1)
        offset == IF back.left = 0 THEN before ELSE before + 1 - back.left IN
    [lead |-> back.off, trail |-> fwd, startLine |-> Line(cw, s) - offset]

\* ---- P: whole lines ------------------------------------------------------
\* byte offset of the start of zero-based line k (k may exceed the last line: then end of text)
LineStartOff(cw, k) ==
    LET st == Starts(cw)
        nls == { i \in 1..Len(cw) : cw[i] = 0 } IN
    IF k = 0 THEN 0
    ELSE IF Cardinality(nls) < k THEN ByteLen(cw)
    ELSE LET nl == CHOOSE i \in nls : Cardinality({ j \in nls : j <= i }) = k IN st[nl + 1]
\* byte offset just before the newline that ends zero-based line k (or end of text)
LineEndOff(cw, k) ==
    LET st == Starts(cw)
        nls == { i \in 1..Len(cw) : cw[i] = 0 } IN
    IF Cardinality(nls) <= k THEN ByteLen(cw)
    ELSE LET nl == CHOOSE i \in nls : Cardinality({ j \in nls : j <= i }) = k + 1 IN st[nl]

ContextP(cw, s, e, before, after) ==
    LET l0 == Line(cw, s)
        l1 == Line(cw, IF e > ByteLen(cw) THEN ByteLen(cw) ELSE e)
        first == IF l0 >= before THEN l0 - before ELSE 0 IN
    [lead |-> LineStartOff(cw, first), trail |-> LineEndOff(cw, l1 + after), startLine |-> first]

CharsBetween(cw, a, b) == LET st == Starts(cw) IN Cardinality({ i \in 1..Len(cw) : st[i] >= a /\ st[i] < b })

\* ---- the JSON printer machine ----------------------------------------------
\* output tokens: "[" "]" "," "nl" and "item" (one serialized non-empty buffer)
Styles == {"pretty", "stream", "compact"}
PrinterRun(style, buffers) ==       \* buffers: sequence of BOOLEAN (TRUE = non-empty)
    LET step(acc, nonEmpty) ==
            IF ~nonEmpty THEN acc
            ELSE [matched |-> TRUE,
                  out |-> acc.out \o (IF acc.matched
                                      THEN (CASE style = "pretty" -> <<",", "nl">> [] style = "stream" -> <<"nl">> [] OTHER -> <<",">>)
                                      ELSE (IF style = "pretty" THEN <<"nl">> ELSE <<>>))
                                  \o <<"item">>]
        start == [matched |-> FALSE, out |-> IF style = "stream" THEN <<>> ELSE <<"[">>]
        run == FoldLeft(step, start, buffers) IN
    IF style = "stream" THEN run.out
    ELSE run.out \o (IF run.matched /\ style = "pretty" THEN <<"nl">> ELSE <<>>) \o <<"]", "nl">>

NoNL(seq) == SelectSeq(seq, LAMBDA t : t # "nl")
RECURSIVE CommaList(_)
CommaList(n) == IF n = 0 THEN <<>> ELSE IF n = 1 THEN <<"item">> ELSE <<"item", ",">> \o CommaList(n - 1)
WellFormed(style, buffers) ==
    LET n == Len(SelectSeq(buffers, LAMBDA x : x))
        out == PrinterRun(style, buffers) IN
    IF style = "stream"
    THEN \* one item per line, nothing else
         NoNL(out) = [i \in 1..n |-> "item"] /\ (\A i \in 1..(Len(out) - 1) : out[i] = "item" => out[i+1] = "nl")
    ELSE NoNL(out) = <<"[">> \o CommaList(n) \o <<"]">>
=============================================================================
