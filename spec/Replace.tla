------------------------------ MODULE Replace ------------------------------
(***************************************************************************)
(* Edits (crates/core/src/source.rs Edit, matcher/node_match.rs make_edit, *)
(* node.rs replace_all, config/src/fixer.rs get_replaced_range, cli        *)
(* interactive_print.rs overlap filter + apply_rewrite, config transform   *)
(* rewrite.rs make_edit).                                                  *)
(*  An edit is [pos, del, ins] with ins a sequence of bytes (or characters).*)
(***************************************************************************)
EXTENDS Naturals, Sequences, SequencesExt, FiniteSets, TLC

EditEnd(e) == e.pos + e.del

\* ---- P: well-formedness -------------------------------------------------
InBounds(len, e) == e.pos <= EditEnd(e) /\ EditEnd(e) <= len
OrderedDisjoint(es) == \A k \in 1..(Len(es) - 1) : EditEnd(es[k]) <= es[k+1].pos

\* the text obtained by substituting the (ordered, disjoint, in-bounds) edits
RECURSIVE SpliceFrom(_, _, _, _)
SpliceFrom(text, es, k, start) ==
    IF k > Len(es) THEN SubSeq(text, start + 1, Len(text))
    ELSE SubSeq(text, start + 1, es[k].pos) \o es[k].ins \o SpliceFrom(text, es, k + 1, EditEnd(es[k]))
Splice(text, es) == SpliceFrom(text, es, 1, 0)

\* ---- I: the CLI's acceptance loop (process_diffs_interactive with accept_all):
\* edits arrive in report order; one that starts before the end of the last accepted one is dropped
RECURSIVE FilterFrom(_, _, _)
FilterFrom(es, k, end) ==
    IF k > Len(es) THEN <<>>
    ELSE IF es[k].pos < end THEN FilterFrom(es, k + 1, end)
    ELSE <<es[k]>> \o FilterFrom(es, k + 1, EditEnd(es[k]))
FilterOverlap(es) == FilterFrom(es, 1, 0)

\* ---- I: rewrite.rs make_edit - splice rewriter edits into the captured slice (offset = its start);
\* an edit that starts before the end of the previous accepted one is skipped
RECURSIVE RewriteFrom(_, _, _, _, _)
RewriteFrom(old, es, k, start, offset) ==
    IF k > Len(es) THEN SubSeq(old, start + 1, Len(old))
    ELSE LET pos == es[k].pos - offset IN
         IF start > pos THEN RewriteFrom(old, es, k + 1, start, offset)
         ELSE SubSeq(old, start + 1, pos) \o es[k].ins \o RewriteFrom(old, es, k + 1, pos + es[k].del, offset)
RewriteSplice(old, es, offset) == RewriteFrom(old, es, 1, 0, offset)
\* ---- P for --update-all (C18) ------------------------------------------------
\* P: every file = its original text with the announced edits of ALL its documents applied, an edit being
\* dropped iff its range intersects an earlier accepted one; files without accepted edits are untouched
Intersects(a, b) == a.pos < EditEnd(b) /\ b.pos < EditEnd(a)
RECURSIVE AcceptAll(_, _, _)
AcceptAll(es, k, acc) ==
    IF k > Len(es) THEN acc
    ELSE IF \E j \in 1..Len(acc) : Intersects(es[k], acc[j]) THEN AcceptAll(es, k + 1, acc)
    ELSE AcceptAll(es, k + 1, Append(acc, es[k]))
SortByPos(es) == SortSeq(es, LAMBDA a, b : a.pos < b.pos)
FinalP(original, announced) == Splice(original, SortByPos(AcceptAll(announced, 1, <<>>)))
=============================================================================
