------------------------------ MODULE Replace ------------------------------
(***************************************************************************)
(* Edits (crates/core/src/source.rs Edit, matcher/node_match.rs make_edit, *)
(* node.rs replace_all, config/src/fixer.rs get_replaced_range, cli        *)
(* interactive_print.rs overlap filter + apply_rewrite, config transform   *)
(* rewrite.rs make_edit).                                                  *)
(*  An edit is [pos, del, ins] with ins a sequence of bytes (or characters).*)
(***************************************************************************)
EXTENDS Naturals, Sequences, SequencesExt, FiniteSets, TLC

EditEnd(e) == e.pos + e.del

\* ---- P: well-formedness -------------------------------------------------
InBounds(len, e) == e.pos <= EditEnd(e) /\ EditEnd(e) <= len
OrderedDisjoint(es) == \A k \in 1..(Len(es) - 1) : EditEnd(es[k]) <= es[k+1].pos

\* the text obtained by substituting the (ordered, disjoint, in-bounds) edits
RECURSIVE SpliceFrom(_, _, _, _)
SpliceFrom(text, es, k, start) ==
    IF k > Len(es) THEN SubSeq(text, start + 1, Len(text))
    ELSE SubSeq(text, start + 1, es[k].pos) \o es[k].ins \o SpliceFrom(text, es, k + 1, EditEnd(es[k]))
Splice(text, es) == SpliceFrom(text, es, 1, 0)

\* ---- I: the CLI's acceptance loop (process_diffs_interactive with accept_all):
\* edits arrive in report order; one that starts before the end of the last accepted one is dropped
RECURSIVE FilterFrom(_, _, _)
FilterFrom(es, k, end) ==
    IF k > Len(es) THEN <<>>
    ELSE IF es[k].pos < end THEN FilterFrom(es, k + 1, end)
    ELSE <<es[k]>> \o FilterFrom(es, k + 1, EditEnd(es[k]))
FilterOverlap(es) == FilterFrom(es, 1, 0)

\* ---- I: rewrite.rs make_edit - splice rewriter edits into the captured slice (offset = its start);
\* an edit that starts before the end of the previous accepted one is skipped
RECURSIVE RewriteFrom(_, _, _, _, _)
RewriteFrom(old, es, k, start, offset) ==
    IF k > Len(es) THEN SubSeq(old, start + 1, Len(old))
    ELSE LET pos == es[k].pos - offset IN
         IF start > pos THEN RewriteFrom(old, es, k + 1, start, offset)
         ELSE SubSeq(old, start + 1, pos) \o es[k].ins \o RewriteFrom(old, es, k + 1, pos + es[k].del, offset)
RewriteSplice(old, es, offset) == RewriteFrom(old, es, 1, 0, offset)
\* ---- `rewrite` transformation (transform/rewrite.rs Rewrite::compute, replace_one) ----------------------
\* cands: the nodes under the captured node(s) in DFS order, each with the rewriters that match it:
\* [s, e, hits |-> <<[rw (position in the listed order), pos, del, ins]>>].
\* I: per node the first listed rewriter that matches gives the edit ("stop at first fix")
FirstHit(c) == LET ks == { k \in 1..Len(c.hits) : \A j \in 1..Len(c.hits) : c.hits[k].rw <= c.hits[j].rw } IN
               c.hits[CHOOSE k \in ks : TRUE]
RewriteEdits(cands) ==
    LET idx == SelectSeq([k \in 1..Len(cands) |-> k], LAMBDA k : cands[k].hits # <<>>) IN
    [i \in 1..Len(idx) |-> LET h == FirstHit(cands[idx[i]]) IN [pos |-> h.pos, del |-> h.del, ins |-> h.ins]]
\* with joinBy: the replacement texts of the accepted edits joined; everything between them is dropped
RECURSIVE JoinFrom(_, _, _, _, _)
JoinFrom(es, k, start, offset, joiner) ==
    IF k > Len(es) THEN <<>>
    ELSE LET pos == es[k].pos - offset IN
         IF start > pos THEN JoinFrom(es, k + 1, start, offset, joiner)
         ELSE joiner \o es[k].ins \o JoinFrom(es, k + 1, pos + es[k].del, offset, joiner)
RewriteJoin(es, offset, joiner) ==
    IF es = <<>> THEN <<>>
    ELSE es[1].ins \o JoinFrom(es, 2, es[1].pos - offset + es[1].del, offset, joiner)
\* an edit that a rewriter's expandStart / expandEnd widened beyond the captured text (len bytes from offset) is no edit of
\* that text: it is left out before joining (fix d73ee94)
RewriteJoinIn(es, offset, joiner, len) ==
    RewriteJoin(SelectSeq(es, LAMBDA e : e.pos >= offset /\ e.pos - offset + e.del <= len), offset, joiner)
\* P (C06, last clause) for the accepted edits of a rewrite: each lies inside the captured text, they are ordered and
\* disjoint, and the result is the captured text with exactly those ranges substituted
RECURSIVE AcceptedFrom(_, _, _, _)
AcceptedFrom(es, k, start, offset) ==
    IF k > Len(es) THEN <<>>
    ELSE LET pos == es[k].pos - offset IN
         IF start > pos THEN AcceptedFrom(es, k + 1, start, offset)
         ELSE <<[pos |-> pos, del |-> es[k].del, ins |-> es[k].ins]>> \o AcceptedFrom(es, k + 1, pos + es[k].del, offset)
RewriteP(old, es, offset, out) ==
    LET acc == AcceptedFrom(es, 1, 0, offset) IN
    /\ \A k \in 1..Len(acc) : InBounds(Len(old), acc[k])
    /\ OrderedDisjoint(acc)
    /\ out = Splice(old, acc)

\* ---- P for --update-all (C18) ------------------------------------------------
\* P: every file = its original text with the announced edits of ALL its documents applied, an edit being
\* dropped iff its range intersects an earlier accepted one; files without accepted edits are untouched
Intersects(a, b) == a.pos < EditEnd(b) /\ b.pos < EditEnd(a)
RECURSIVE AcceptAll(_, _, _)
AcceptAll(es, k, acc) ==
    IF k > Len(es) THEN acc
    ELSE IF \E j \in 1..Len(acc) : Intersects(es[k], acc[j]) THEN AcceptAll(es, k + 1, acc)
    ELSE AcceptAll(es, k + 1, Append(acc, es[k]))
SortByPos(es) == SortSeq(es, LAMBDA a, b : a.pos < b.pos)
FinalP(original, announced) == Splice(original, SortByPos(AcceptAll(announced, 1, <<>>)))
\* The same statement without an order on the announcements (`scan --json` lists the findings rule by rule, in an
\* order that is not the order of application): a selection S of the announced edits is an accepted one when its
\* members are pairwise disjoint and every edit left out intersects a member that does not start after it.
AcceptedSelection(es, S) ==
    /\ \A i, j \in S : i # j => ~Intersects(es[i], es[j])
    /\ \A k \in (1..Len(es)) \ S : \E j \in S : Intersects(es[k], es[j]) /\ es[j].pos <= es[k].pos
\* number of edits of an accepted selection that produces `final`, or -1 when there is none
AcceptedCount(original, es, final) ==
    LET good == { S \in SUBSET (1..Len(es)) : AcceptedSelection(es, S) /\ final = Splice(original, SortByPos([k \in 1..Cardinality(S) |->
                        es[CHOOSE j \in S : Cardinality({ i \in S : i < j }) = k - 1]])) } IN
    IF good = {} THEN -1 ELSE Cardinality(CHOOSE S \in good : TRUE)
=============================================================================
