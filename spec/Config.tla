------------------------------- MODULE Config -------------------------------
(***************************************************************************)
(* Rule documents (crates/config/src/rule_config.rs, rule_core.rs,         *)
(* check_var.rs, rule/deserialize_env.rs, rule/referent_rule.rs,           *)
(* transform/mod.rs, fixer.rs).                                            *)
(*                                                                         *)
(* A document is described abstractly by what it defines, uses and refers  *)
(* to:                                                                     *)
(*   mainVars   : variables bound by the patterns of `rule`                *)
(*   mainRefs   : set of [to, edge] - utilities `rule` refers to           *)
(*   utils      : id :> [refs |-> set of [to, edge], vars |-> set]         *)
(*                edge = "same"  reference evaluated on the same node      *)
(*                               (matches under all/any/not)               *)
(*                       "nthof" reference inside nthChild.ofRule (the     *)
(*                               node itself is among the siblings tested) *)
(*                       "rel"   reference under inside/has/follows/       *)
(*                               precedes (another node)                   *)
(*   consKeys, consVars, consRefs : keys of `constraints`, variables they  *)
(*                bind, utilities they refer to                            *)
(*   trans      : key :> [src |-> variable, rewriters |-> set of ids]      *)
(*   fixVars, fixForm : variables of the fix template, "string"|"object"   *)
(*   rewriters  : id :> [hasFix |-> BOOLEAN, refs |-> set of [to, edge],   *)
(*                       uses |-> rewriter ids its own transform applies]  *)
(*   hasKinds   : `rule` has potential kinds                               *)
(*                                                                         *)
(* P: Accept    - the statement of C12                                     *)
(* I: AcceptImpl - the checks the code performs, in its order              *)
(***************************************************************************)
EXTENDS Naturals, Sequences, FiniteSets, TLC

UtilIds(d) == DOMAIN d.utils
AllRefs(d) == d.mainRefs \cup UNION { d.utils[u].refs : u \in UtilIds(d) } \cup d.consRefs
              \cup UNION { d.rewriters[r].refs : r \in DOMAIN d.rewriters }

\* ---------------------------------------------------------------- P ------
Defined(d) == d.mainVars \cup UNION { d.utils[u].vars : u \in UtilIds(d) } \cup d.consVars

RefsResolve(d) == \A r \in AllRefs(d) : r.to \in UtilIds(d)

\* a utility can require itself on the same node: a cycle along "same"/"nthof" edges
RECURSIVE ReachSame(_, _, _)
ReachSame(d, frontier, seen) ==
    LET next == { r.to : r \in UNION { { x \in d.utils[u].refs : x.edge \in {"same", "nthof"} } : u \in frontier \cap UtilIds(d) } } \ seen IN
    IF next = {} THEN seen ELSE ReachSame(d, next, seen \cup next)
SameNodeCycle(d) == \E u \in UtilIds(d) : u \in ReachSame(d, {u}, {})

TransKeys(d) == DOMAIN d.trans
RECURSIVE ReachTrans(_, _, _)
ReachTrans(d, frontier, seen) ==
    LET next == { d.trans[k].src : k \in frontier \cap TransKeys(d) } \ seen IN
    IF next = {} THEN seen ELSE ReachTrans(d, next, seen \cup next)
TransformCycle(d) == \E k \in TransKeys(d) : k \in ReachTrans(d, {k}, {})

VarsOK(d) ==
    /\ d.consKeys \subseteq Defined(d)
    /\ \A k \in TransKeys(d) : d.trans[k].src \in Defined(d) \cup TransKeys(d)
    /\ d.fixVars \subseteq Defined(d) \cup TransKeys(d)
\* rewriters may apply other rewriters through their own `rewrite` transformations (uses); every id must resolve,
\* however deep the chain and whether or not the rule itself ever applies the rewriter
RewriterUses(d, r) == IF "uses" \in DOMAIN d.rewriters[r] THEN d.rewriters[r].uses ELSE {}
RewritersOK(d) ==
    /\ \A k \in TransKeys(d) : d.trans[k].rewriters \subseteq DOMAIN d.rewriters
    /\ \A r \in DOMAIN d.rewriters : d.rewriters[r].hasFix
    /\ \A r \in DOMAIN d.rewriters : RewriterUses(d, r) \subseteq DOMAIN d.rewriters

Accept(d) == /\ RefsResolve(d) /\ ~SameNodeCycle(d) /\ ~TransformCycle(d)
             /\ VarsOK(d) /\ RewritersOK(d) /\ d.hasKinds

\* for an accepted document every variable of the fix is substituted (captured or transformed value)
FixFlows(d) == TRUE      \* at P level this is unconditional; the I level below says where the code can fail

\* ---------------------------------------------------------------- I ------
\* TopologicalSort over `utils` and insert_local's check_cyclic follow matches under all/any/not and (since fix
\* 5007826) nthChild.ofRule; relations are not followed (they move to another node).
CyclicUtilDetected(d) == SameNodeCycle(d)

\* check_utils_defined: verify_util on `rule`, the constraints and (since the fix) the bodies of the local utilities
AllRefsResolve(d) == RefsResolve(d)

\* since fix 555811e the object form of `fix` receives the transformation keys like the string form
FixSeesTransforms(d) == TRUE

AcceptImpl(d) ==
    /\ ~CyclicUtilDetected(d)
    /\ AllRefsResolve(d)
    /\ d.consKeys \subseteq Defined(d)
    /\ \A k \in TransKeys(d) : k \notin Defined(d)                          \* AlreadyDefined
    /\ \A k \in TransKeys(d) : d.trans[k].src \in Defined(d) \cup TransKeys(d)
    /\ ~TransformCycle(d)
    /\ d.fixVars \subseteq Defined(d) \cup TransKeys(d)
    /\ RewritersOK(d)
    /\ d.hasKinds

\* what the code does with a fix variable that names a transformation
FixSubstitutedImpl(d, v) == v \in Defined(d) \/ (v \in TransKeys(d) /\ (d.fixForm = "string" \/ FixSeesTransforms(d)))
=============================================================================
