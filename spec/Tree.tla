------------------------------- MODULE Tree -------------------------------
(***************************************************************************)
(* Node tables.  A tree is a sequence T of node records, ids = positions   *)
(* in document (pre-)order, root = 1.  The same shape is produced by the   *)
(* harness for real tree-sitter trees (`agv project`, harness/src/proj.rs) *)
(* and by the bounded models for generated trees, so every operator here   *)
(* runs on both.                                                           *)
(*                                                                         *)
(* Fields used by this module: p (parent id, 0 for the root), ch (child    *)
(* ids in order).  Other modules use k, kid, nm, cm, err, leaf, t, f, s, e,*)
(* sl, sc, el, ec.                                                         *)
(***************************************************************************)
EXTENDS Naturals, Sequences, SequencesExt, FiniteSets

Ids(T) == 1..Len(T)

\* ---------------------------------------------------------------- shape --
\* A parent vector par (par[1] = 0, par[i] < i) denotes a tree whose ids are
\* a preorder numbering iff every node's parent lies on the path from the
\* previous node to the root.
RECURSIVE AncSelfPar(_, _)
AncSelfPar(par, i) == IF i = 0 THEN {} ELSE {i} \cup AncSelfPar(par, par[i])

IsPreorderVector(par) ==
    /\ par[1] = 0
    /\ \A i \in 2..Len(par) : par[i] \in AncSelfPar(par, i - 1)

RECURSIVE ParVectors(_)
\* all preorder parent vectors with exactly n nodes (Catalan(n-1) of them)
ParVectors(n) ==
    IF n = 1 THEN { <<0>> }
    ELSE UNION { { Append(v, q) : q \in AncSelfPar(v, n - 1) } : v \in ParVectors(n - 1) }

\* node table (p, ch only) of a parent vector
ShapeOf(par) ==
    [ i \in 1..Len(par) |->
        [ p  |-> par[i],
          ch |-> SelectSeq([j \in 1..Len(par) |-> j], LAMBDA j : par[j] = i) ] ]

\* ------------------------------------------------------------ relations --
WellFormed(T) ==
    /\ Len(T) >= 1 /\ T[1].p = 0
    /\ \A i \in Ids(T) :
         /\ \A k \in 1..Len(T[i].ch) : T[i].ch[k] \in Ids(T) /\ T[T[i].ch[k]].p = i
         /\ i > 1 => T[i].p \in 1..(i-1) /\ \E k \in 1..Len(T[T[i].p].ch) : T[T[i].p].ch[k] = i

RECURSIVE PreOrder(_, _)
PreOrder(T, i) ==
    <<i>> \o FlattenSeq([k \in 1..Len(T[i].ch) |-> PreOrder(T, T[i].ch[k])])

RECURSIVE PostOrder(_, _)
PostOrder(T, i) ==
    FlattenSeq([k \in 1..Len(T[i].ch) |-> PostOrder(T, T[i].ch[k])]) \o <<i>>

RECURSIVE LevelFrom(_, _)
\* breadth first: the frontier is a sequence of ids
LevelFrom(T, frontier) ==
    IF frontier = <<>> THEN <<>>
    ELSE frontier \o LevelFrom(T, FlattenSeq([k \in 1..Len(frontier) |-> T[frontier[k]].ch]))
LevelOrder(T, i) == LevelFrom(T, <<i>>)

RECURSIVE Desc(_, _)
DescSelf(T, i) == ToSet(PreOrder(T, i))
Desc(T, i) == DescSelf(T, i) \ {i}

RECURSIVE ParentChain(_, _)
\* <<parent, grand parent, ..., root>> (nearest first), the documented order of `ancestors()`
ParentChain(T, i) == IF T[i].p = 0 THEN <<>> ELSE <<T[i].p>> \o ParentChain(T, T[i].p)

IndexIn(seq, x) == CHOOSE k \in 1..Len(seq) : seq[k] = x

Siblings(T, i) == IF T[i].p = 0 THEN <<i>> ELSE T[T[i].p].ch
NextAll(T, i) == LET s == Siblings(T, i) k == IndexIn(s, i) IN SubSeq(s, k + 1, Len(s))
PrevAll(T, i) == LET s == Siblings(T, i) k == IndexIn(s, i) IN Reverse(SubSeq(s, 1, k - 1))
NextSib(T, i) == LET n == NextAll(T, i) IN IF n = <<>> THEN 0 ELSE n[1]
PrevSib(T, i) == LET n == PrevAll(T, i) IN IF n = <<>> THEN 0 ELSE n[1]
FirstChild(T, i) == IF T[i].ch = <<>> THEN 0 ELSE T[i].ch[1]

NoDup(seq) == \A a, b \in 1..Len(seq) : seq[a] = seq[b] => a = b

\* ranges nest: children lie inside the parent, in order, without overlap
RangesNest(T) ==
    \A i \in Ids(T) :
       /\ T[i].s <= T[i].e
       /\ \A k \in 1..Len(T[i].ch) :
             LET c == T[i].ch[k] IN
             /\ T[i].s <= T[c].s /\ T[c].e <= T[i].e
             /\ k > 1 => T[T[i].ch[k-1]].e <= T[c].s

HasZeroWidthChild(T, i) == \E k \in 1..Len(T[i].ch) : T[T[i].ch[k]].s = T[T[i].ch[k]].e
=============================================================================
