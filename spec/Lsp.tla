-------------------------------- MODULE Lsp --------------------------------
(***************************************************************************)
(* The language server's document handling (crates/lsp/src/lib.rs:         *)
(* did_open/on_open, did_change/on_change, did_close/on_close) for one     *)
(* document.                                                               *)
(*                                                                         *)
(* tower-lsp (transport.rs, Server::serve) turns every incoming message    *)
(* into a future and drives up to MaxConc of them with buffer_unordered    *)
(* inside ONE task: handlers interleave only at `.await`s, their           *)
(* synchronous prefixes run in arrival order, and a handler that blocks    *)
(* synchronously (a DashMap shard lock held by a suspended handler) blocks *)
(* the whole server.  One action below = the code between two awaits.      *)
(* Every `.await` is a possible suspension point (client.log_message and   *)
(* publish_diagnostics suspend when the outgoing channel is full, the      *)
(* workspace/workspaceFolders request always does).                        *)
(*                                                                         *)
(* Protocol = "pre"   the code before the repair: on_open inserts the       *)
(*                    document after all its awaits; on_change keeps the    *)
(*                    RefMut across two awaits                              *)
(* Protocol = "fix"   every handler updates the map before its first await  *)
(*                    (on_open inserts the document as pending until the    *)
(*                    workspace answer arrives), no guard is held across    *)
(*                    an await, and every publish sends the diagnostics of  *)
(*                    what the map holds at that moment                     *)
(*                                                                         *)
(* A text stands for its diagnostics (Findings is a function of the text;  *)
(* the findings themselves are C09's other clause, see Trace_C09).         *)
(***************************************************************************)
EXTENDS LspAbs, TLC

CONSTANTS MaxMsgs, MaxVer, MaxConc, Protocol

NoDoc == [ver |-> 0, text |-> 0, pending |-> FALSE]

VARIABLES
    outside,   \* the document lies outside the first workspace folder (decided by the client's answer)
    sent,      \* notifications the client has sent, in order: [kind, ver, text]
    next,      \* index of the next notification whose handler has not been started
    hs,        \* handlers in flight: set of [id, msg, pc]
    map,       \* the document's DashMap entry: [ver, text, pending] or NoDoc
    lock,      \* id of the handler holding the entry's RefMut across an await, or 0
    pubs,      \* publishDiagnostics sent, in order: [ver, text]
    dead       \* a handler blocked synchronously on the held lock: the server is stuck for good
vars == <<outside, sent, next, hs, map, lock, pubs, dead>>

Fix == Protocol = "fix"

\* ---- the client ----------------------------------------------------------
ClientOpen == OpenAfter(sent)
Send == /\ Len(sent) < MaxMsgs /\ ~dead
        /\ \E kind \in {"open", "change", "close"}, v \in 1..MaxVer :
             /\ (kind = "open") = ~ClientOpen                 \* open only when closed; change/close only when open
             /\ (kind = "close" => v = 1)                       \* a close carries no version
             /\ sent' = Append(sent, [kind |-> kind, ver |-> v, text |-> Len(sent) + 1])
             /\ VersionsDistinct(sent')                         \* versions identify texts within a session; they may
                                                               \* arrive in any order (stale versions arriving late)
        /\ UNCHANGED <<outside, next, hs, map, lock, pubs, dead>>

Set(h, pc) == hs' = (hs \ {h}) \cup {[h EXCEPT !.pc = pc]}
Done(h) == hs' = hs \ {h}
Entry(m, p) == [ver |-> m.ver, text |-> m.text, pending |-> p]
Publish == pubs' = Append(pubs, [ver |-> map.ver, text |-> map.text])

\* ---- tower-lsp starts the handler of the next notification; its synchronous prefix runs now ----
Dispatch ==
    /\ next <= Len(sent) /\ Cardinality(hs) < MaxConc /\ ~dead
    /\ next' = next + 1
    /\ LET m == sent[next]  h == [id |-> next, msg |-> m, pc |-> "start"] IN
       CASE m.kind = "close" ->                                   \* on_close: map.remove, nothing awaited before it
              IF lock # 0 THEN dead' = TRUE /\ UNCHANGED <<hs, map>>
              ELSE map' = NoDoc /\ UNCHANGED <<hs, dead>>
         [] m.kind = "open" /\ Fix ->                              \* parse + insert(pending) before the first await
              /\ map' = Entry(m, TRUE) /\ hs' = hs \cup {h} /\ UNCHANGED dead
         [] m.kind = "change" /\ Fix ->                            \* parse; get_mut(uri)?; version check; store; drop the guard
              /\ UNCHANGED dead
              /\ IF map = NoDoc \/ map.ver > m.ver THEN UNCHANGED <<hs, map>>
                 ELSE map' = Entry(m, map.pending) /\ hs' = hs \cup {[h EXCEPT !.pc = "stored"]}
         [] OTHER -> hs' = hs \cup {h} /\ UNCHANGED <<map, dead>>
    /\ UNCHANGED <<outside, sent, lock, pubs>>

\* ---- on_open ------------------------------------------------------------------
\* the client's answer to workspace/workspaceFolders arrives: skip documents outside the workspace
OpenSkip(h) ==  /\ h.msg.kind = "open" /\ h.pc = "start" /\ outside
                /\ map' = IF Fix THEN NoDoc ELSE map
                /\ Done(h) /\ UNCHANGED <<outside, sent, next, lock, pubs, dead>>
\* pre: (awaits) publish the text this handler parsed ...
OpenPublishPre(h) == /\ ~Fix /\ h.msg.kind = "open" /\ h.pc = "start" /\ ~outside
                     /\ pubs' = Append(pubs, [ver |-> h.msg.ver, text |-> h.msg.text])
                     /\ Set(h, "published") /\ UNCHANGED <<outside, sent, next, map, lock, dead>>
\* ... (await) and only then insert it
OpenInsertPre(h) == /\ ~Fix /\ h.msg.kind = "open" /\ h.pc = "published"
                    /\ IF lock # 0 THEN dead' = TRUE /\ UNCHANGED <<hs, map>>
                       ELSE map' = Entry(h.msg, FALSE) /\ Done(h) /\ UNCHANGED dead
                    /\ UNCHANGED <<outside, sent, next, lock, pubs>>
\* fix: (awaits) confirm the entry that is in the map now and publish its diagnostics
OpenConfirmFix(h) == /\ Fix /\ h.msg.kind = "open" /\ h.pc = "start" /\ ~outside
                     /\ IF map = NoDoc THEN UNCHANGED <<map, pubs>>              \* closed meanwhile
                        ELSE map' = [map EXCEPT !.pending = FALSE] /\ Publish
                     /\ Done(h) /\ UNCHANGED <<outside, sent, next, lock, dead>>

\* ---- on_change --------------------------------------------------------------
\* (await log) parse; get_mut(uri)? ; version check; store
ChangeStore(h) ==
    /\ ~Fix /\ h.msg.kind = "change" /\ h.pc = "start"
    /\ IF lock # 0 THEN dead' = TRUE /\ UNCHANGED <<hs, map, lock>>
       ELSE /\ UNCHANGED dead
            /\ IF map = NoDoc \/ map.ver > h.msg.ver
               THEN Done(h) /\ UNCHANGED <<map, lock>>               \* `?` / "skip old version update"
               ELSE /\ map' = Entry(h.msg, map.pending)
                    /\ Set(h, "stored")
                    /\ lock' = h.id                                  \* the RefMut lives on across the awaits
    /\ UNCHANGED <<outside, sent, next, pubs>>
\* (await log) publish
ChangePublish(h) ==
    /\ h.msg.kind = "change" /\ h.pc = "stored"
    /\ IF Fix THEN /\ IF map = NoDoc \/ map.pending THEN UNCHANGED pubs ELSE Publish   \* what the map holds now
                   /\ UNCHANGED lock
       ELSE Publish /\ lock' = 0                                     \* its own entry, still locked
    /\ Done(h) /\ UNCHANGED <<outside, sent, next, map, dead>>

Step(h) == ~dead /\ (OpenSkip(h) \/ OpenPublishPre(h) \/ OpenInsertPre(h) \/ OpenConfirmFix(h)
                     \/ ChangeStore(h) \/ ChangePublish(h))
Init == /\ outside \in BOOLEAN /\ sent = <<>> /\ next = 1 /\ hs = {} /\ map = NoDoc
        /\ lock = 0 /\ pubs = <<>> /\ dead = FALSE
Next == Send \/ Dispatch \/ \E h \in hs : Step(h)
Spec == Init /\ [][Next]_vars

\* ---- C09, history clause ------------------------------------------------------
Quiescent == next > Len(sent) /\ hs = {}
Newest == NewestOf(sent)
NewestPublished == Quiescent => NewestPublishedOf(sent, pubs, outside)
NothingOutside == NothingOutsideOf(pubs, outside)
NoDeadlock == ~dead
\* the map agrees with the client's view once quiet
MapAgrees == Quiescent => ((map # NoDoc) = (ClientOpen /\ ~outside)) /\ (map # NoDoc => ~map.pending /\ map.text = sent[Newest].text)
=============================================================================
