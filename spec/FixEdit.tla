------------------------------ MODULE FixEdit ------------------------------
(***************************************************************************)
(* The edit a rule's fix proposes for one match (crates/core/src/           *)
(* replacer.rs Replacer::get_replaced_range, matcher/node_match.rs          *)
(* make_edit / replace_by, config/src/fixer.rs Fixer::get_replaced_range,   *)
(* expand_start / expand_end, rule/stop_by.rs StopBy::find).                *)
(*                                                                         *)
(* A match is described by                                                  *)
(*   s, e     byte range of the matched node                                *)
(*   mlen     length the matcher actually matched (a pattern without the    *)
(*            trailing `;` matches a statement that has one), -1 = whole    *)
(*   before   preceding siblings, nearest first: [s, e, hit]                *)
(*   after    following siblings, nearest first: [s, e, hit]                *)
(*            hit = the expansion rule (expandStart resp. expandEnd)        *)
(*            matches that sibling                                          *)
(*   ins      the replacement text the fixer generates (C07 decides it)     *)
(* and the fixer by exp = [hasS, hasE, stopS, stopE], stop in               *)
(* {"neighbor", "end"}.                                                     *)
(*                                                                         *)
(* An edit is [pos, del, ins] as in Replace.tla.                            *)
(***************************************************************************)
EXTENDS Replace

\* StopBy::find over the siblings on one side: the sibling the range grows to, 0 = none
Grow(sibs, stop) ==
    IF stop = "neighbor" THEN (IF Len(sibs) > 0 /\ sibs[1].hit THEN 1 ELSE 0)
    ELSE LET hits == { k \in 1..Len(sibs) : sibs[k].hit } IN
         IF hits = {} THEN 0 ELSE CHOOSE k \in hits : \A j \in hits : k <= j

\* ---- the three range computations found in the code ------------------------------------------
\* Fixer::get_replaced_range: without expansions the matched length, with expansions the grown range
FixerRange(m, exp) ==
    IF ~exp.hasS /\ ~exp.hasE
    THEN [lo |-> m.s, hi |-> IF m.mlen >= 0 THEN m.s + m.mlen ELSE m.e]
    ELSE [lo |-> IF exp.hasS /\ Grow(m.before, exp.stopS) # 0 THEN m.before[Grow(m.before, exp.stopS)].s ELSE m.s,
          hi |-> IF exp.hasE /\ Grow(m.after, exp.stopE) # 0 THEN m.after[Grow(m.after, exp.stopE)].e ELSE m.e]
\* the default body of Replacer::get_replaced_range: the matched length, no expansion
DefaultRange(m, exp) == [lo |-> m.s, hi |-> IF m.mlen >= 0 THEN m.s + m.mlen ELSE m.e]
\* NodeMatch::replace_by: the node
NodeRange(m, exp) == [lo |-> m.s, hi |-> m.e]

EditBy(R(_, _), m, exp) == [pos |-> R(m, exp).lo, del |-> R(m, exp).hi - R(m, exp).lo, ins |-> m.ins]

\* ---- P: one rule, one fix - the fixer decides the range, whoever asks ------------------------
EditP(m, exp) == EditBy(FixerRange, m, exp)
EditsP(ms, exp) == [k \in 1..Len(ms) |-> EditP(ms[k], exp)]

\* ---- I: the route each front end takes to its range (after the repairs all go through the fixer) ----
\*   json, updated        print/mod.rs Diff::generate -> make_edit(matcher, &Fixer)
\*   snapshot, lib_*      Node::replace / replace_all -> make_edit(&matcher, &replacer): the blanket
\*                        `impl Replacer for &T` forwards get_replaced_range since the fix
\*   lsp_*                utils.rs RewriteData carries the fixer's range since the fix
RouteOf(frontend) == "fixer"
EditI(frontend, m, exp) ==
    CASE RouteOf(frontend) = "fixer" -> EditBy(FixerRange, m, exp)
      [] RouteOf(frontend) = "default" -> EditBy(DefaultRange, m, exp)
      [] OTHER -> EditBy(NodeRange, m, exp)

PairwiseDisjoint(es) == \A i, j \in 1..Len(es) : i < j => ~Intersects(es[i], es[j])
=============================================================================
