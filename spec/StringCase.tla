----------------------------- MODULE StringCase -----------------------------
(***************************************************************************)
(* Word splitting of the `convert` transformation                          *)
(* (crates/config/src/transform/string_case.rs: Delimiter::delimit,        *)
(* conclude, split, join).  Not one of the listed properties by itself: it *)
(* is the part of a rule document's behaviour that depends on the captured *)
(* text character by character, i.e. where C11 (no input crashes) and the *)
(* value a fix variable receives (C12) are decided.                        *)
(*                                                                         *)
(* A string is a sequence of characters [cls, w]:                          *)
(*   cls  "lo" lower-case letter, "up" upper-case letter, "ot" neither,    *)
(*        "dl" one of the configured delimiter characters                  *)
(*   w    its UTF-8 length in bytes                                        *)
(* The machine works on byte offsets, like the code.                       *)
(***************************************************************************)
EXTENDS Naturals, Sequences, FiniteSets

\* ---------------------------------------------------------------- I ------
\* state: [left, right, st, lastw];  st \in {"Lower","OneUpper","MultiUpper","Ignore"}
InitState(caseChange) == [left |-> 0, right |-> 0, st |-> IF caseChange THEN "Lower" ELSE "Ignore", lastw |-> 0]
None == [lo |-> 0, hi |-> 0, some |-> FALSE]
Rng(lo, hi) == [lo |-> lo, hi |-> hi, some |-> TRUE]

\* Delimiter::delimit(c): [state, range]
Delimit(d, c) ==
    IF c.cls = "dl" THEN
        [state |-> [left |-> d.right + 1, right |-> d.right + 1, st |-> IF d.st = "Ignore" THEN "Ignore" ELSE "Lower", lastw |-> d.lastw],
         range |-> Rng(d.left, d.right)]
    ELSE IF d.st = "Lower" /\ c.cls = "up" THEN
        [state |-> [left |-> d.right, right |-> d.right + c.w, st |-> "OneUpper", lastw |-> d.lastw],
         range |-> Rng(d.left, d.right)]
    ELSE IF d.st = "MultiUpper" /\ c.cls = "lo" THEN
        [state |-> [left |-> d.right - d.lastw, right |-> d.right + c.w, st |-> "Lower", lastw |-> d.lastw],
         range |-> Rng(d.left, d.right - d.lastw)]
    ELSE
        [state |-> [left |-> d.left, right |-> d.right + c.w,
                    st |-> IF d.st = "Ignore" THEN "Ignore"
                           ELSE IF c.cls = "lo" THEN "Lower"
                           ELSE IF d.st = "Lower" THEN "OneUpper" ELSE "MultiUpper",
                    lastw |-> IF d.st \notin {"Ignore", "Lower"} /\ c.cls # "lo" THEN c.w ELSE d.lastw],
         range |-> None]

RECURSIVE SplitFrom(_, _, _, _)
\* split(): the non-empty ranges in the order they are produced; conclude() at the end
SplitFrom(s, i, d, len) ==
    IF i > Len(s) THEN
        (IF d.left < d.right /\ d.right <= len THEN <<[lo |-> d.left, hi |-> d.right]>> ELSE <<>>)
    ELSE LET r == Delimit(d, s[i]) IN
         (IF r.range.some /\ r.range.lo # r.range.hi THEN <<[lo |-> r.range.lo, hi |-> r.range.hi]>> ELSE <<>>)
         \o SplitFrom(s, i + 1, r.state, len)
RECURSIVE ByteLen(_)
ByteLen(s) == IF s = <<>> THEN 0 ELSE s[1].w + ByteLen(Tail(s))
SplitI(s, caseChange) == SplitFrom(s, 1, InitState(caseChange), ByteLen(s))

\* ---------------------------------------------------------------- P ------
\* byte offset at which character k starts (0-based), k \in 1..Len(s)+1
RECURSIVE StartOfChar(_, _)
StartOfChar(s, k) == IF k = 1 THEN 0 ELSE StartOfChar(s, k - 1) + s[k - 1].w
Boundaries(s) == { StartOfChar(s, k) : k \in 1..(Len(s) + 1) }
\* what must hold of any splitting into words, whatever the exact rule for case changes:
\* words are cut at character boundaries inside the text, come in order and do not overlap
WellFormed(s, ws) ==
    /\ \A k \in 1..Len(ws) : ws[k].lo \in Boundaries(s) /\ ws[k].hi \in Boundaries(s) /\ ws[k].lo < ws[k].hi
    /\ \A k \in 1..(Len(ws) - 1) : ws[k].hi <= ws[k + 1].lo
\* no character that is not a delimiter is dropped, no delimiter is kept
Covers(s, ws) ==
    \A k \in 1..Len(s) :
        LET b == StartOfChar(s, k)
            inWord == \E j \in 1..Len(ws) : ws[j].lo <= b /\ b < ws[j].hi IN
        (s[k].cls = "dl") = ~inWord
\* the documented case rules: a word starts at an upper-case letter that follows a lower-case one, and at the last
\* upper-case letter of a run of them that is followed by a lower-case letter (XMLHttp -> XML, Http)
Cut(s, k, caseChange) ==      \* a word boundary lies before character k (2 <= k)
    \/ s[k].cls = "dl" \/ s[k - 1].cls = "dl"
    \/ caseChange /\ s[k].cls = "up" /\ s[k - 1].cls = "lo"
    \/ caseChange /\ k < Len(s) /\ s[k].cls = "up" /\ s[k - 1].cls = "up" /\ s[k + 1].cls = "lo"
SplitP(s, caseChange) ==
    LET starts == { k \in 1..Len(s) : s[k].cls # "dl" /\ (k = 1 \/ Cut(s, k, caseChange)) }
        endOf(k) == CHOOSE e \in k..Len(s) : (e = Len(s) \/ Cut(s, e + 1, caseChange) \/ s[e + 1].cls = "dl")
                                            /\ \A m \in (k + 1)..e : ~Cut(s, m, caseChange)
        order == CHOOSE f \in [1..Cardinality(starts) -> starts] : \A a, b \in 1..Cardinality(starts) : a < b => f[a] < f[b] IN
    [i \in 1..Cardinality(starts) |-> [lo |-> StartOfChar(s, order[i]), hi |-> StartOfChar(s, endOf(order[i]) + 1)]]
\* the documented rules speak about letters; a text is in their scope when every character is a letter or a delimiter
LettersOnly(s) == \A k \in 1..Len(s) : s[k].cls # "ot"
=============================================================================
