---------------------------- MODULE Interactive ----------------------------
(***************************************************************************)
(* The interactive rewrite session `sg run -r .. -i` / `sg scan -i`        *)
(* (crates/cli/src/print/interactive_print.rs: InteractivePrinter::process,*)
(* process_diffs, process_diffs_interactive, print_diff_and_prompt_action, *)
(* rewrite_action, after_print; crates/cli/src/utils/mod.rs prompt).       *)
(* `--update-all` is the session in which accept_all is set from the       *)
(* start (UpdateAll.tla is that special case, C18).                        *)
(*                                                                         *)
(* One payload per DOCUMENT of a file.  For every diff of a payload, in    *)
(* report order: a diff that starts before the end of the last confirmed   *)
(* one is passed over; otherwise the user is prompted (unless `all`):      *)
(*   y      confirm                a     confirm, and confirm all later    *)
(*   n / Enter / e   do not confirm (e opens $EDITOR first)                *)
(*   q      leave: the session ends with an error, the payload in progress *)
(*          is NOT written (confirmed diffs of it are lost), nothing more  *)
(*          is processed, "Applied N changes" is not printed               *)
(*   other  the prompt is repeated                                          *)
(* At the end of a payload the confirmed diffs are merged with the diffs   *)
(* already written to the same file in this session and the file is        *)
(* rewritten from the payload's original text.                             *)
(*                                                                         *)
(* The session state is one record `st`; every step of the code is a pure  *)
(* operator on it (DoBegin, DoSkip, DoAuto, DoKey, DoFinish, DoDone), used  *)
(* both by the actions below (model checking, MC_Interactive) and by        *)
(* RunToEnd (trace validation of real sessions driven through a pty,        *)
(* Trace_Interactive).                                                      *)
(***************************************************************************)
EXTENDS Replace

KeyAlphabet == {"y", "n", "a", "q", "e", "enter", "x"}

NoCur == [active |-> FALSE, path |-> "", old |-> <<>>, diffs |-> <<>>, idx |-> 1, end |-> 0, confirmed |-> <<>>, all |-> FALSE]

\* payloads: sequence of [path, old, diffs]; disk: path :> text; keys: the user's input
InitState(disk, payloads, keys, acceptAll) ==
    [disk |-> disk, payloads |-> payloads, cur |-> NoCur, acceptAll |-> acceptAll, committed |-> 0,
     rewritten |-> [p \in DOMAIN disk |-> <<>>], input |-> keys, status |-> "run",
     answers |-> <<>>,          \* ghost: what was decided for every diff that was offered: [path, e, yes]
     written |-> <<>>,          \* ghost: [path, e] of every confirmed diff of a payload that reached its end
     passed |-> <<>>]           \* ghost: [e, hit] of every diff passed over without asking; hit = it intersects a diff
                                \*        confirmed before it in its payload

Pending(st) == st.cur.active /\ st.cur.idx <= Len(st.cur.diffs)
CurDiff(st) == st.cur.diffs[st.cur.idx]
Offered(st) == Pending(st) /\ CurDiff(st).pos >= st.cur.end

\* ---- steps ---------------------------------------------------------------
CanBegin(st) == st.status = "run" /\ ~st.cur.active /\ st.payloads # <<>>
DoBegin(st) ==
    LET p == Head(st.payloads) IN
    [st EXCEPT !.payloads = Tail(st.payloads),
               !.cur = [active |-> TRUE, path |-> p.path, old |-> p.old, diffs |-> p.diffs, idx |-> 1, end |-> 0,
                        confirmed |-> <<>>, all |-> st.acceptAll]]

CanSkip(st) == st.status = "run" /\ Pending(st) /\ ~Offered(st)
DoSkip(st) == [st EXCEPT !.cur.idx = @ + 1,
                         !.passed = Append(@, [e |-> CurDiff(st),
                                               hit |-> \E k \in 1..Len(st.cur.confirmed) : Intersects(CurDiff(st), st.cur.confirmed[k])])]

Confirm(st, becomeAll) ==
    [st EXCEPT !.cur.idx = @ + 1, !.cur.end = EditEnd(CurDiff(st)),
               !.cur.confirmed = Append(@, CurDiff(st)), !.cur.all = @ \/ becomeAll,
               !.committed = @ + 1,
               !.answers = Append(@, [path |-> st.cur.path, e |-> CurDiff(st), yes |-> TRUE])]
Reject(st) ==
    [st EXCEPT !.cur.idx = @ + 1,
               !.answers = Append(@, [path |-> st.cur.path, e |-> CurDiff(st), yes |-> FALSE])]

CanAuto(st) == st.status = "run" /\ Offered(st) /\ st.cur.all
DoAuto(st) == Confirm(st, FALSE)

CanKey(st) == st.status = "run" /\ Offered(st) /\ ~st.cur.all /\ st.input # <<>>
DoKey(st) ==
    LET k == Head(st.input)  s1 == [st EXCEPT !.input = Tail(@)] IN
    CASE k = "y" -> Confirm(s1, FALSE)
      [] k = "a" -> Confirm(s1, TRUE)
      [] k \in {"n", "enter", "e"} -> Reject(s1)
      [] k = "q" -> [s1 EXCEPT !.status = "quit", !.cur.active = FALSE]
      [] OTHER -> s1                      \* unrecognised: the prompt is repeated

CanFinish(st) == st.status = "run" /\ st.cur.active /\ ~Pending(st)
DoFinish(st) ==
    LET c == st.cur
        merged == SortByPos(c.confirmed \o st.rewritten[c.path]) IN
    [st EXCEPT !.cur = NoCur,
               !.acceptAll = @ \/ c.all,
               !.disk = IF c.confirmed = <<>> THEN @ ELSE [@ EXCEPT ![c.path] = Splice(c.old, merged)],
               !.rewritten = IF c.confirmed = <<>> THEN @ ELSE [@ EXCEPT ![c.path] = merged],
               !.written = @ \o [k \in 1..Len(c.confirmed) |-> [path |-> c.path, e |-> c.confirmed[k]]]]

CanDone(st) == st.status = "run" /\ ~st.cur.active /\ st.payloads = <<>>
DoDone(st) == [st EXCEPT !.status = "done"]

\* the user ran out of input while a prompt is open: the real session would wait for ever; drivers always append
\* enough `n` keys, the model marks the state
Starved(st) == st.status = "run" /\ Offered(st) /\ ~st.cur.all /\ st.input = <<>>

Final(st) == st.status \in {"done", "quit"}

StepOf(st) == IF CanBegin(st) THEN DoBegin(st) ELSE IF CanSkip(st) THEN DoSkip(st) ELSE IF CanAuto(st) THEN DoAuto(st)
              ELSE IF CanKey(st) THEN DoKey(st) ELSE IF CanFinish(st) THEN DoFinish(st) ELSE IF CanDone(st) THEN DoDone(st) ELSE st
RECURSIVE RunToEnd(_)
RunToEnd(st) == IF Final(st) \/ Starved(st) THEN st ELSE RunToEnd(StepOf(st))

\* ---- P: what the user may rely on ------------------------------------------
\* (stated on the ghost history of decisions, not on the cursor arithmetic)
YesOf(s, path) == SelectSeq(s.answers, LAMBDA a : a.path = path /\ a.yes)
WrittenOf(s, path) == LET w == SelectSeq(s.written, LAMBDA a : a.path = path) IN [k \in 1..Len(w) |-> w[k].e]

\* P1  every file is its original text with exactly the diffs that were confirmed in payloads that reached their end
FilesP(s, original) ==
    \A p \in DOMAIN s.disk : s.disk[p] = Splice(original[p], SortByPos(WrittenOf(s, p)))
\* P2  the diffs written to one file never intersect
DisjointP(s) ==
    \A p \in DOMAIN s.disk : LET w == WrittenOf(s, p) IN \A i, j \in 1..Len(w) : i # j => ~Intersects(w[i], w[j])
\* P3  a diff is passed over without asking only if it intersects a diff confirmed before it in its payload
PassedP(s) == \A k \in 1..Len(s.passed) : s.passed[k].hit
\* P4  a session that ends normally wrote every confirmed diff and counted exactly those
CountP(s) == s.status = "done" =>
                 /\ s.committed = Len(SelectSeq(s.answers, LAMBDA a : a.yes))
                 /\ Len(s.written) = s.committed
\* P5  nothing the user declined is written
DeclinedP(s) == \A k \in 1..Len(s.answers) : ~s.answers[k].yes =>
                    ~\E j \in 1..Len(s.written) : s.written[j] = [path |-> s.answers[k].path, e |-> s.answers[k].e]
\* P6  after `a` no key is consumed any more (the rest of the input is left untouched) - stated in MC_Interactive
\* ---- the specification ----------------------------------------------------
VARIABLE st
Next == \/ CanBegin(st) /\ st' = DoBegin(st)
        \/ CanSkip(st) /\ st' = DoSkip(st)
        \/ CanAuto(st) /\ st' = DoAuto(st)
        \/ CanKey(st) /\ st' = DoKey(st)
        \/ CanFinish(st) /\ st' = DoFinish(st)
        \/ CanDone(st) /\ st' = DoDone(st)


\* ---- variants the model must reject (MC_Interactive_witness_*.cfg) -----------
\* (1) every payload rewrites the file from its own original text alone (the defect repaired by 107e408)
DoFinishAlone(s) ==
    LET c == s.cur IN
    [s EXCEPT !.cur = NoCur, !.acceptAll = @ \/ c.all,
              !.disk = IF c.confirmed = <<>> THEN @ ELSE [@ EXCEPT ![c.path] = Splice(c.old, c.confirmed)],
              !.written = @ \o [k \in 1..Len(c.confirmed) |-> [path |-> c.path, e |-> c.confirmed[k]]]]
\* (2) a diff that merely touches the last confirmed one (starts at its end) is passed over
CanSkipClosed(s) == s.status = "run" /\ Pending(s) /\ CurDiff(s).pos <= s.cur.end /\ s.cur.confirmed # <<>>
\* (3) the printer remembers the edits of the LAST file it wrote only (seeded change C18-rewritten-cache-last-file-only): a
\* document of another file arriving between two documents of one file makes the second one forget the first one's edits
DoFinishLastOnly(s) ==
    LET c == s.cur
        merged == SortByPos(c.confirmed \o s.rewritten[c.path]) IN
    [s EXCEPT !.cur = NoCur, !.acceptAll = @ \/ c.all,
              !.disk = IF c.confirmed = <<>> THEN @ ELSE [@ EXCEPT ![c.path] = Splice(c.old, merged)],
              !.rewritten = IF c.confirmed = <<>> THEN @ ELSE [p \in DOMAIN @ |-> IF p = c.path THEN merged ELSE <<>>],
              !.written = @ \o [k \in 1..Len(c.confirmed) |-> [path |-> c.path, e |-> c.confirmed[k]]]]
NextLastOnly == \/ (CanBegin(st) /\ st' = DoBegin(st)) \/ (CanSkip(st) /\ st' = DoSkip(st)) \/ (CanAuto(st) /\ st' = DoAuto(st))
                \/ (CanKey(st) /\ st' = DoKey(st)) \/ (CanFinish(st) /\ st' = DoFinishLastOnly(st)) \/ (CanDone(st) /\ st' = DoDone(st))
NextAlone == \/ (CanBegin(st) /\ st' = DoBegin(st)) \/ (CanSkip(st) /\ st' = DoSkip(st)) \/ (CanAuto(st) /\ st' = DoAuto(st))
             \/ (CanKey(st) /\ st' = DoKey(st)) \/ (CanFinish(st) /\ st' = DoFinishAlone(st)) \/ (CanDone(st) /\ st' = DoDone(st))
NextClosed == \/ (CanBegin(st) /\ st' = DoBegin(st)) \/ (CanSkipClosed(st) /\ st' = DoSkip(st))
              \/ (~CanSkipClosed(st) /\ CanAuto(st) /\ st' = DoAuto(st)) \/ (~CanSkipClosed(st) /\ CanKey(st) /\ st' = DoKey(st))
              \/ (CanFinish(st) /\ st' = DoFinish(st)) \/ (CanDone(st) /\ st' = DoDone(st))
=============================================================================
