------------------------------ MODULE DocEdit ------------------------------
(***************************************************************************)
(* Editing a parsed document (crates/core/src/node.rs Root::do_edit,       *)
(* source.rs perform_edit / String::accept_edit / position_for_offset).    *)
(*                                                                         *)
(* State: the text (character classes of Positions.tla), the ranges of the *)
(* old tree's tokens (maximal runs of non-blank characters - a stand-in    *)
(* for leaves), the pending InputEdit and how often it has been applied to *)
(* the old tree.  One do_edit = PerformEdit ; [ExtraTreeEdit] ; Reparse.   *)
(*                                                                         *)
(* P: after every do_edit the text is the spliced text and the tree is the *)
(*    tree of a fresh parse.  In the model "tree of a fresh parse" is       *)
(*    guaranteed iff the old tree handed to the incremental parser is       *)
(*    consistent with the new text: every token wholly outside the edited   *)
(*    span denotes the same bytes after shifting, and the InputEdit's       *)
(*    points are the (row, byte column) of its byte offsets.               *)
(***************************************************************************)
EXTENDS Positions, TLC

CONSTANTS MaxLen,        \* characters in the initial text
          MaxEdits,      \* length of a history
          ExtraEdit      \* TRUE = model the pre-fix code that applied the InputEdit to the tree twice

Chars == {0, 1, 2, 4}    \* newline, 1-, 2-, 4-byte character

VARIABLES cw, tokens, pending, applied, pc, nEdits, oldCw
vars == <<cw, tokens, pending, applied, pc, nEdits, oldCw>>

\* token ranges (byte offsets [s, e)) of a text: maximal runs of non-newline characters
TokensOf(t) ==
    LET st == Starts(t)
        isTok(i) == t[i] # 0 IN
    { [s |-> st[i], e |-> st[j + 1]] : i \in 1..Len(t), j \in 1..Len(t) } \cap
    { r \in [s : 0..ByteLen(t), e : 0..ByteLen(t)] :
        \E i, j \in 1..Len(t) : /\ i <= j /\ r.s = st[i] /\ r.e = st[j + 1]
                                 /\ \A k \in i..j : isTok(k)
                                 /\ (i = 1 \/ ~isTok(i - 1)) /\ (j = Len(t) \/ ~isTok(j + 1)) }

\* ts_tree_edit on one range
ShiftRange(r, ed) ==
    IF r.e <= ed.start THEN r
    ELSE IF r.s >= ed.oldEnd THEN [s |-> r.s + ed.newEnd - ed.oldEnd, e |-> r.e + ed.newEnd - ed.oldEnd]
    ELSE [s |-> 0 - 1, e |-> 0 - 1]                      \* touched by the edit: will be re-parsed

\* bytes (as character classes with offsets) denoted by a byte range of text t
Slice(t, r) == LET st == Starts(t) IN { <<st[i] - r.s, t[i]>> : i \in { k \in 1..Len(t) : st[k] >= r.s /\ st[k] < r.e } }

Init == /\ cw \in UNION { [1..n -> Chars] : n \in 1..MaxLen }
        /\ tokens = TokensOf(cw) /\ pending = [start |-> 0, oldEnd |-> 0, newEnd |-> 0]
        /\ applied = 0 /\ pc = "idle" /\ nEdits = 0 /\ oldCw = cw

\* perform_edit: String::accept_edit (splice + InputEdit) and the first tree.edit
PerformEdit ==
    /\ pc = "idle" /\ nEdits < MaxEdits
    /\ \E i \in 1..(Len(cw) + 1), d \in 0..2, ins \in {<<>>, <<1>>, <<0>>, <<2, 1>>} :
         /\ i + d <= Len(cw) + 1
         /\ LET st == Starts(cw)
                new == SubSeq(cw, 1, i - 1) \o ins \o SubSeq(cw, i + d, Len(cw))
                ed == [start |-> st[i], oldEnd |-> st[i + d], newEnd |-> st[i] + ByteLen(ins)] IN
            /\ oldCw' = cw /\ cw' = new /\ pending' = ed
            /\ tokens' = { ShiftRange(r, ed) : r \in tokens }
    /\ applied' = 1 /\ pc' = "edited" /\ nEdits' = nEdits + 1

\* the second `self.inner.edit(&input_edit)` of the pre-fix do_edit
ExtraTreeEdit ==
    /\ pc = "edited" /\ ExtraEdit /\ applied = 1
    /\ tokens' = { IF r.s < 0 THEN r ELSE ShiftRange(r, pending) : r \in tokens }
    /\ applied' = 2 /\ UNCHANGED <<cw, pending, pc, nEdits, oldCw>>

Reparse ==
    /\ pc = "edited" /\ (ExtraEdit => applied = 2)
    /\ tokens' = TokensOf(cw) /\ applied' = 0 /\ pc' = "idle"
    /\ UNCHANGED <<cw, pending, nEdits, oldCw>>

Next == PerformEdit \/ ExtraTreeEdit \/ Reparse
Spec == Init /\ [][Next]_vars

\* ---- properties -----------------------------------------------------------
\* at the moment the old tree is handed to the parser, reused tokens denote the bytes they denoted
ReadyToParse == pc = "edited" /\ (ExtraEdit => applied = 2)
OldTreeConsistent ==
    ReadyToParse =>
        \A r \in TokensOf(oldCw) :
            (r.e <= pending.start \/ r.s >= pending.oldEnd) =>
                \E q \in tokens : q.s >= 0 /\ q.e - q.s = r.e - r.s /\ Slice(cw, q) = Slice(oldCw, r)
                                  /\ q = (IF r.e <= pending.start THEN r
                                          ELSE [s |-> r.s + pending.newEnd - pending.oldEnd, e |-> r.e + pending.newEnd - pending.oldEnd])
OncePerReparse == ReadyToParse => applied = 1

\* accept_edit's points: (row, byte column) by the forward scan = the declarative line / byte column
PointsOK ==
    pc = "edited" =>
        /\ PositionForOffset(oldCw, pending.start) = <<Line(oldCw, pending.start), ByteCol(oldCw, pending.start)>>
        /\ PositionForOffset(oldCw, pending.oldEnd) = <<Line(oldCw, pending.oldEnd), ByteCol(oldCw, pending.oldEnd)>>
        /\ PositionForOffset(cw, pending.newEnd) = <<Line(cw, pending.newEnd), ByteCol(cw, pending.newEnd)>>
=============================================================================
