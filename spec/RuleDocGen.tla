----------------------------- MODULE RuleDocGen -----------------------------
(***************************************************************************)
(* Generator model for C11: the grammar of rule documents as fields with   *)
(* value classes.  A document picks one class per field; the bounded model *)
(* enumerates every document that deviates from the all-default document   *)
(* in at most MaxDeviations fields (pairwise coverage for 2).              *)
(* The classes are abstract names; harness/src/c11.rs maps each            *)
(* (field, class) to a YAML fragment.  The property itself (no panic, no   *)
(* abort, no hang) is about the real process and is decided there.         *)
(***************************************************************************)
EXTENDS Naturals, FiniteSets, TLC

Classes ==
  [ pattern   |-> {"valid", "empty", "bare_ellipsis", "unclosed", "number_type", "contextual", "bad_selector",
                   "skipped_token_then_ellipsis", "lone_sigil", "multibyte",
                   \* no pattern at all: the rule's only kind is the parser's ERROR kind (numbered above the grammar's kinds)
                   "none_kind_error", "none_any_error",
                   \* two ellipses side by side followed by a node, in a child list that no closing token ends (the statements
                   \* of a `case`): the second ellipsis is reached with one sibling left
                   "adjacent_ellipses_open_list"},
    kind      |-> {"absent", "valid", "unknown", "list_type", "empty"},
    regex     |-> {"absent", "valid", "invalid", "empty", "lookaround"},
    nthChild  |-> {"absent", "one", "anb", "overflow", "garbage", "negative", "of_self_util", "zero", "object_missing_position",
                   \* formulas at the limits of the number type
                   "anb_min_offset", "anb_max_both", "anb_neg_step_max", "numeric_beyond_u32"},
    range     |-> {"absent", "valid", "reversed", "huge"},
    has       |-> {"absent", "valid", "bad_field", "bad_stopby", "stopby_rule", "field_on_follows", "empty_object"},
    matches   |-> {"absent", "undefined", "local_ok", "self_cycle", "mutual_cycle", "cycle_via_relation",
                   "cycle_via_sibling_key", "cycle_all_and_any", "cycle_via_ofrule",
                   \* the document read as a GLOBAL utility file: its local utils refer back to its own id
                   "global_self_via_local_utils",
                   \* 36 utilities in a chain, each naming the next one twice (any: [next, all: [kind, next]]): no cycle, linear work
                   "deep_chain_two_refs"},
    cons      |-> {"absent", "valid", "sigil_key", "lowercase_key", "wrong_type", "undefined_key"},
    transform |-> {"absent", "substring", "empty_source", "no_sigil_source", "lone_sigil_source", "multibyte_source",
                   "bad_replace_regex", "bad_case", "undefined_rewriter", "huge_index", "self_cycle", "unknown_kind",
                   \* valid transformations whose work depends on the captured text (case splitting, char indices)
                   "convert_snake", "convert_camel", "convert_kebab", "convert_pascal", "convert_upper", "convert_capitalize",
                   "convert_separated", "substring_negative", "substring_crossed", "substring_reversed", "replace_valid", "chain"},
    fix       |-> {"absent", "string", "object", "expand_bad_rule", "number_type", "undefined_var", "sigils_only"},
    rewriters |-> {"absent", "valid", "duplicate_ids", "no_fix", "recursive", "clash_with_util",
                   \* rewriters used by a rewrite transformation whose fixes widen the edit beyond the rewritten text / overlap
                   "expand_start_outside", "expand_end_outside", "expand_both_joined", "used_overlapping",
                   \* a rewriter that rewrites the very node it matched with itself
                   "self_on_same_node"},
    severity  |-> {"default", "off", "invalid", "error"},
    globs     |-> {"absent", "valid", "invalid_glob", "wrong_type"},
    ident     |-> {"present", "missing", "empty", "duplicate_in_file"},
    language  |-> {"js", "unknown", "missing", "number_type"},
    extra     |-> {"none", "unknown_top_key", "unknown_rule_key", "yaml_anchor_cycle", "tabs", "deep_not"} ]

Default ==
  [ pattern |-> "valid", kind |-> "absent", regex |-> "absent", nthChild |-> "absent", range |-> "absent", has |-> "absent",
    matches |-> "absent", cons |-> "absent", transform |-> "absent", fix |-> "absent", rewriters |-> "absent",
    severity |-> "default", globs |-> "absent", ident |-> "present", language |-> "js", extra |-> "none" ]

Fields == DOMAIN Classes

CONSTANT MaxDeviations

Singles == UNION { { [Default EXCEPT ![f] = c] : c \in Classes[f] } : f \in Fields }
Pairs == UNION { UNION { { [Default EXCEPT ![f] = c, ![g] = e] : c \in Classes[f], e \in Classes[g] } : g \in Fields \ {f} } : f \in Fields }
Docs == {Default} \cup Singles \cup (IF MaxDeviations < 2 THEN {} ELSE Pairs)

Deviations(d) == Cardinality({ f \in Fields : d[f] # Default[f] })

VARIABLE doc
Init == doc \in Docs
Next == UNCHANGED doc
Spec == Init /\ [][Next]_doc

WellTyped == \A f \in Fields : doc[f] \in Classes[f]

\* ---- project configuration (sgconfig.yml) -----------------------------------
CfgClasses ==
  [ ruleDirs     |-> {"valid", "empty", "missing_key", "nonexistent", "string_type", "two_dirs"},
    utilDirs     |-> {"absent", "valid", "empty", "nonexistent", "string_type"},
    testConfigs  |-> {"absent", "valid", "empty", "no_testdir", "snapshot_dir", "nonexistent_dir"},
    languageGlobs |-> {"absent", "valid", "empty", "unknown_language", "string_type", "narrow"},
    languageInjections |-> {"absent", "valid", "empty", "unknown_host", "bad_rule", "no_injected"},
    customLanguages |-> {"absent", "empty", "missing_library"},
    snapshots    |-> {"none", "orphan", "garbage"} ]        \* what lies in the snapshot directory before `test -U`
CfgDefault == [ ruleDirs |-> "valid", utilDirs |-> "absent", testConfigs |-> "valid", languageGlobs |-> "absent",
                languageInjections |-> "absent", customLanguages |-> "absent", snapshots |-> "none" ]
CfgFields == DOMAIN CfgClasses
CfgSingles == UNION { { [CfgDefault EXCEPT ![f] = c] : c \in CfgClasses[f] } : f \in CfgFields }
CfgPairs == UNION { UNION { { [CfgDefault EXCEPT ![f] = c, ![g] = e] : c \in CfgClasses[f], e \in CfgClasses[g] } : g \in CfgFields \ {f} } : f \in CfgFields }
CfgDocs == {CfgDefault} \cup CfgSingles \cup CfgPairs
Bounded == Deviations(doc) <= MaxDeviations
=============================================================================
