----------------------------- MODULE Contextual -----------------------------
(***************************************************************************)
(* Contextual patterns: `pattern: {context: <code>, selector: <kind>}`,    *)
(* `sg run -p <code> --selector <kind>` (crates/core/src/matcher/pattern.rs*)
(* Pattern::contextual).                                                   *)
(*                                                                         *)
(* P: the pattern denoted by (context, selector) is the subtree of the     *)
(*    context's syntax tree rooted at the FIRST node of kind `selector` in *)
(*    document order - the outermost one of nodes that start together -,   *)
(*    and a match must have that kind.  With ids = positions in document   *)
(*    order that node is simply the least id of the kind.                  *)
(* I: `goal.find(&KindMatcher)` = Node::dfs().find(..): the cursor walk of *)
(*    Traversal.tla (Pre) stopped at the first hit; written here as the    *)
(*    recursive descent it amounts to.  root_kind = Some(kind of the hit). *)
(*                                                                         *)
(* Binding: harness/src/mrec.rs reference_table_sel realises SelectP on    *)
(* the recorder's own parse of the context (raw child walk) and tabulates  *)
(* that subtree as r.RT; Trace_Match.tla judges the real outcome of        *)
(* Pattern::contextual against r.RT (cut-not-matched) for contexts cut     *)
(* from corpus files of all 23 languages (harness/src/c03.rs stage f) and  *)
(* Trace_C01cli.tla compares `sg run --selector` / `sg scan` with the      *)
(* library search.                                                         *)
(***************************************************************************)
EXTENDS Tree, Naturals, Sequences, FiniteSets

OfKind(T, kid) == { j \in Ids(T) : T[j].kid = kid }
Least(S) == CHOOSE x \in S : \A y \in S : x <= y

\* P
SelectP(T, kid) == IF OfKind(T, kid) = {} THEN 0 ELSE Least(OfKind(T, kid))

\* I
RECURSIVE FindFrom(_, _, _)
FindFrom(T, i, kid) ==
    IF T[i].kid = kid THEN i
    ELSE LET hits == SelectSeq([k \in 1..Len(T[i].ch) |-> FindFrom(T, T[i].ch[k], kid)], LAMBDA x : x # 0)
         IN IF hits = <<>> THEN 0 ELSE hits[1]

\* the selected subtree as a table of its own (ids renumbered from 1), what convert_node_to_pattern is given
SubtreeIds(T, i) == PreOrder(T, i)
Renumber(T, i) ==
    LET ids == SubtreeIds(T, i)
        pos(x) == CHOOSE k \in 1..Len(ids) : ids[k] = x IN
    [ k \in 1..Len(ids) |->
        [ T[ids[k]] EXCEPT !.p  = IF k = 1 THEN 0 ELSE pos(T[ids[k]].p),
                           !.ch = [m \in 1..Len(T[ids[k]].ch) |-> pos(T[ids[k]].ch[m])] ] ]

\* variants a refactoring could slip into (each must be rejected by MC_Contextual_witness*)
FindLast(T, kid) == IF OfKind(T, kid) = {} THEN 0 ELSE CHOOSE x \in OfKind(T, kid) : \A y \in OfKind(T, kid) : y <= x
RECURSIVE Depth(_, _)
Depth(T, i) == IF T[i].p = 0 THEN 0 ELSE 1 + Depth(T, T[i].p)
\* breadth-first "first": the shallowest hit, leftmost among equals
FindShallowest(T, kid) ==
    IF OfKind(T, kid) = {} THEN 0
    ELSE CHOOSE x \in OfKind(T, kid) : \A y \in OfKind(T, kid) : Depth(T, x) < Depth(T, y) \/ (Depth(T, x) = Depth(T, y) /\ x <= y)
=============================================================================
