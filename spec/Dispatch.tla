------------------------------ MODULE Dispatch ------------------------------
(***************************************************************************)
(* Which rule runs on which file, and the exit status of `sg scan`         *)
(* (config/src/rule_collection.rs, cli/src/utils/rule_overwrite.rs,        *)
(* cli/src/scan.rs, cli/src/config.rs, cli/src/lang).                      *)
(*                                                                         *)
(* A configuration is [rules, ov, lglob]:                                  *)
(*   rules : sequence of [id, lang, files, ignores, sev]  (files/ignores   *)
(*           are sets of glob names, {} = key absent)                      *)
(*   ov    : [dflt |-> severity or "none", byId |-> id :> severity,        *)
(*            filter |-> set of ids the --filter regex selects or "all"]   *)
(*   lglob : "none" | "extra" (files .mjsx are JavaScript) | "override"    *)
(*           (.py, an extension a built-in language owns, is JavaScript)   *)
(*           | "narrow": files named x.view.ts are Tsx, other .ts files    *)
(*           TypeScript (a glob narrower than an extension)                *)
(* Paths, their languages and the glob truth table are fixed constants,    *)
(* written by hand from the glob documentation (not computed by globset).  *)
(***************************************************************************)
EXTENDS Naturals, Sequences, FiniteSets, TLC

Paths == {"a.js", "src/a.js", "src/sub/b.js", "test/c.js", "src/x.ts", "src/p.view.ts", "lib/y.py", "src/w.mjsx", "README.md"}

LangOf(p, lglob) ==
    CASE p \in {"a.js", "src/a.js", "src/sub/b.js", "test/c.js"} -> "JavaScript"
      [] p = "src/x.ts" -> "TypeScript"
      \* a glob narrower than an extension tells files of one extension apart
      [] p = "src/p.view.ts" -> IF lglob = "narrow" THEN "Tsx" ELSE "TypeScript"
      \* languageGlobs of the project win over the built-in extension table
      [] p = "lib/y.py" -> IF lglob = "override" THEN "JavaScript" ELSE "Python"
      [] p = "src/w.mjsx" -> IF lglob = "extra" THEN "JavaScript" ELSE "none"
      [] OTHER -> "none"

Globs == {"src/**", "**/sub/**", "test/**", "**/*.js", "src/a.js", "lib/**", "src/*.js"}
GlobMatch(g, p) ==
    CASE g = "src/**"    -> p \in {"src/a.js", "src/sub/b.js", "src/x.ts", "src/p.view.ts", "src/w.mjsx"}
      [] g = "**/sub/**" -> p = "src/sub/b.js"
      [] g = "test/**"   -> p = "test/c.js"
      [] g = "**/*.js"   -> p \in {"a.js", "src/a.js", "src/sub/b.js", "test/c.js"}
      [] g = "src/a.js"  -> p = "src/a.js"
      \* a single `*` is "zero or more characters" and crosses directory separators (globset without literal_separator)
      [] g = "src/*.js"  -> p \in {"src/a.js", "src/sub/b.js"}
      [] OTHER           -> p = "lib/y.py"

Severities == {"error", "warning", "info", "hint", "off"}

\* ---------------------------------------------------------------- P ------
Selected(ov, id) == ov.filter = {"*"} \/ id \in ov.filter
EffectiveP(ov, r) == IF r.id \in DOMAIN ov.byId THEN ov.byId[r.id]
                     ELSE IF ov.dflt # "none" THEN ov.dflt ELSE r.sev
AppliesP(cfg, r, p) ==
    /\ LangOf(p, cfg.lglob) = r.lang
    /\ (r.files = {} \/ \E g \in r.files : GlobMatch(g, p))
    /\ ~\E g \in r.ignores : GlobMatch(g, p)
    /\ Selected(cfg.ov, r.id)
    /\ EffectiveP(cfg.ov, r) # "off"
RulesOn(cfg, p) == { cfg.rules[k].id : k \in { j \in 1..Len(cfg.rules) : AppliesP(cfg, cfg.rules[j], p) } }
\* The exit clause is judged on the printed findings themselves (each carries its effective severity):
\* status 1 iff some printed finding has severity error.  This includes the unused-suppression pseudo rule,
\* whose own severity follows the same overrides.
ExitP(severities) == IF "error" \in severities THEN 1 ELSE 0
\* --filter that selects no rule is a command-level failure, reported before scanning
FilterSelectsNothing(cfg) == ~\E k \in 1..Len(cfg.rules) : Selected(cfg.ov, cfg.rules[k].id)

\* ---------------------------------------------------------------- I ------
\* RuleOverwrite::process_configs (filter, then overwrite), RuleCollection::try_new (drop off; tenured vs
\* contingent), the walker's file types (languages of the kept rules), get_rule_from_lang (ignores before files)
Kept(cfg) == SelectSeq(cfg.rules, LAMBDA r : Selected(cfg.ov, r.id) /\ EffectiveP(cfg.ov, r) # "off")
WalkedLangs(cfg) == { Kept(cfg)[k].lang : k \in 1..Len(Kept(cfg)) }
MatchesPath(r, p) == IF \E g \in r.ignores : GlobMatch(g, p) THEN FALSE
                     ELSE IF r.files # {} THEN \E g \in r.files : GlobMatch(g, p) ELSE TRUE
RulesOnI(cfg, p) ==
    LET lang == LangOf(p, cfg.lglob) kept == Kept(cfg) IN
    IF lang = "none" \/ lang \notin WalkedLangs(cfg) THEN {}
    ELSE { kept[k].id : k \in { j \in 1..Len(kept) :
              kept[j].lang = lang /\ (IF kept[j].files = {} /\ kept[j].ignores = {} THEN TRUE ELSE MatchesPath(kept[j], p)) } }
=============================================================================
