-------------------------------- MODULE Walk --------------------------------
(***************************************************************************)
(* Which files of a directory tree `sg run` looks at                       *)
(* (crates/cli/src/utils/args.rs InputArgs::walk / walk_lang, build_globs,  *)
(* crates/cli/src/utils/mod.rs NoIgnore::disregard, crates/cli/src/lang     *)
(* file_types, crates/cli/src/run.rs produce_item; the directory walk       *)
(* itself is the `ignore` crate's).                                         *)
(*                                                                         *)
(* A file is [path, hidden, hiddenDir, vcs, dot, lang, test, inSrc]:        *)
(*   hidden     its own name starts with a dot                              *)
(*   hiddenDir  it lies below a directory whose name starts with a dot      *)
(*   vcs / dot  .gitignore / .ignore excludes it (dirVcs: its directory)    *)
(*   lang       the language of its extension ("none": no language)         *)
(* A run has: lang ("infer" = no -l), noIgnore \subseteq {hidden, vcs, dot},*)
(* globs (a sequence of [neg, pat]) and a target (the tree, or one file      *)
(* named explicitly).                                                        *)
(*                                                                         *)
(*  P  Scanned = what the help texts describe: hidden files and directories *)
(*     and files excluded by ignore files are skipped unless --no-ignore    *)
(*     lifts that filter; --globs include / exclude (the last matching glob *)
(*     decides, any positive glob makes the list an allow-list); a file     *)
(*     named explicitly is always looked at; only files of the pattern's    *)
(*     language (-l) or of some language (no -l) are parsed.                 *)
(*  I  ScannedI = the order in which the walk consults its filters: an       *)
(*     allow-listing glob or a selected FILE TYPE answers before the hidden  *)
(*     test is reached, so with -l a hidden file of that language is         *)
(*     scanned although no --no-ignore hidden was given, and a glob that     *)
(*     names a file re-includes it over .gitignore / .ignore.                *)
(***************************************************************************)
EXTENDS Naturals, Sequences, FiniteSets

\* ---- the layout (built by harness/src/walkrec.rs) -------------------------------
F(path, hidden, hiddenDir, vcs, dirVcs, dot, lang, test, inSrc) ==
    [path |-> path, hidden |-> hidden, hiddenDir |-> hiddenDir, vcs |-> vcs, dirVcs |-> dirVcs, dot |-> dot, lang |-> lang,
     test |-> test, inSrc |-> inSrc]
Files == {
    F("src/a.js",       FALSE, FALSE, FALSE, FALSE, FALSE, "js",   FALSE, TRUE),
    F("src/a.test.js",  FALSE, FALSE, FALSE, FALSE, FALSE, "js",   TRUE,  TRUE),
    F("src/b.ts",       FALSE, FALSE, FALSE, FALSE, FALSE, "ts",   FALSE, TRUE),
    F("src/x.gen.js",   FALSE, FALSE, TRUE,  FALSE, FALSE, "js",   FALSE, TRUE),    \* .gitignore: *.gen.js
    F("src/skip.js",    FALSE, FALSE, FALSE, FALSE, TRUE,  "js",   FALSE, TRUE),    \* .ignore: src/skip.js
    F("src/.hid/h.js",  FALSE, TRUE,  FALSE, FALSE, FALSE, "js",   FALSE, TRUE),
    F(".top.js",        TRUE,  FALSE, FALSE, FALSE, FALSE, "js",   FALSE, FALSE),
    F("build/o.js",     FALSE, FALSE, FALSE, TRUE,  FALSE, "js",   FALSE, FALSE),   \* .gitignore: build/
    F("lib/i.js",       FALSE, FALSE, FALSE, FALSE, FALSE, "js",   FALSE, FALSE),
    F("notes.txt",      FALSE, FALSE, FALSE, FALSE, FALSE, "none", FALSE, FALSE) }

\* globs: "test" = `*.test.js`, "src" = `src/**`, "gen" = `*.gen.js`, "top" = `.top.js`
GlobHits(pat, f) == CASE pat = "test" -> f.test
                      [] pat = "src"  -> f.inSrc
                      [] pat = "gen"  -> f.path = "src/x.gen.js"
                      [] pat = "top"  -> f.path = ".top.js"
                      [] OTHER -> FALSE
\* the last glob that matches decides; none matches: excluded iff the list has a positive glob
GlobVerdict(globs, f) ==
    LET ks == { k \in 1..Len(globs) : GlobHits(globs[k].pat, f) } IN
    IF ks # {} THEN (IF globs[CHOOSE k \in ks : \A j \in ks : j <= k].neg THEN "out" ELSE "in")
    ELSE IF \E k \in 1..Len(globs) : ~globs[k].neg THEN "out" ELSE "none"

LangOK(lang, f) == IF lang = "infer" THEN f.lang # "none" ELSE f.lang = lang

\* ---- P -------------------------------------------------------------------------------
ScannedP(lang, noIgnore, globs, target) ==
    IF target # "tree" THEN { f \in Files : f.path = target /\ LangOK(lang, f) }
    ELSE { f \in Files :
             /\ LangOK(lang, f)
             /\ GlobVerdict(globs, f) # "out"
             /\ ((f.hidden \/ f.hiddenDir) => "hidden" \in noIgnore)
             /\ ((f.vcs \/ f.dirVcs) => "vcs" \in noIgnore)
             /\ (f.dot => "dot" \in noIgnore) }

\* ---- I -------------------------------------------------------------------------------
\* directories first (a pruned directory is never entered), then for the file: globs, ignore files, file types, hidden
\* (the only directory of the layout that a glob of the list matches is src/.hid, through `src/**`: a directory that an
\* allow-listing glob matches is entered whatever else holds, one that an excluding glob matches is not)
DirGlob(globs, f) ==
    LET ks == { k \in 1..Len(globs) : globs[k].pat = "src" /\ f.hiddenDir } IN
    IF ks = {} THEN "none" ELSE IF globs[CHOOSE k \in ks : \A j \in ks : j <= k].neg THEN "out" ELSE "in"
DirPruned(noIgnore, globs, f) ==
    IF DirGlob(globs, f) = "in" THEN FALSE
    ELSE IF DirGlob(globs, f) = "out" THEN TRUE
    ELSE (f.hiddenDir /\ "hidden" \notin noIgnore) \/ (f.dirVcs /\ "vcs" \notin noIgnore)
FileVerdict(lang, noIgnore, globs, f) ==
    LET g == GlobVerdict(globs, f) IN
    IF g = "in" THEN TRUE                                     \* an allow-listing glob: nothing else is asked
    ELSE IF g = "out" THEN FALSE
    ELSE IF (f.vcs /\ "vcs" \notin noIgnore) \/ (f.dot /\ "dot" \notin noIgnore) THEN FALSE
    ELSE IF lang # "infer" THEN f.lang = lang                 \* a selected file type answers before the hidden test
    ELSE ~(f.hidden /\ "hidden" \notin noIgnore)
ScannedI(lang, noIgnore, globs, target) ==
    IF target # "tree" THEN { f \in Files : f.path = target /\ f.lang # "none" /\ LangOK(lang, f) }
    ELSE { f \in Files : ~DirPruned(noIgnore, globs, f) /\ FileVerdict(lang, noIgnore, globs, f) /\ LangOK(lang, f) }

\* ---- runs -----------------------------------------------------------------------------
G(neg, pat) == [neg |-> neg, pat |-> pat]
GlobLists == { <<>>, <<G(FALSE, "test")>>, <<G(TRUE, "test")>>, <<G(TRUE, "src")>>, <<G(FALSE, "src"), G(TRUE, "test")>>,
               <<G(TRUE, "test"), G(FALSE, "src")>>, <<G(FALSE, "gen")>>, <<G(FALSE, "top")>> }
Targets == {"tree", "build/o.js", ".top.js", "notes.txt", "src/skip.js"}

VARIABLES lang, noIgnore, globs, target
vars == <<lang, noIgnore, globs, target>>
Init == /\ lang \in {"infer", "js", "ts"}
        /\ noIgnore \in SUBSET {"hidden", "vcs", "dot"}
        /\ globs \in GlobLists
        /\ target \in Targets
        /\ (target # "tree" => globs = <<>>)
Next == UNCHANGED vars
Spec == Init /\ [][Next]_vars

PathsOf(S) == { f.path : f \in S }
\* where the two readings agree: no -l and no allow-listing glob naming an ignored or hidden file
AgreeWhenInferred ==
    (lang = "infer" /\ \A k \in 1..Len(globs) : globs[k].neg) => ScannedI(lang, noIgnore, globs, target) = ScannedP(lang, noIgnore, globs, target)
\* an explicit file is looked at whatever the ignore files say
ExplicitAlways == target # "tree" => ScannedI(lang, noIgnore, globs, target) = ScannedP(lang, noIgnore, globs, target)
\* the general statement - violated (witness)
AgreeEverywhere == ScannedI(lang, noIgnore, globs, target) = ScannedP(lang, noIgnore, globs, target)
=============================================================================
