----------------------------- MODULE Positions -----------------------------
(***************************************************************************)
(* Bytes, lines and character columns.  A text is a sequence `cw` with one *)
(* entry per CHARACTER: 0 for "\n", otherwise the UTF-8 width (1..4) of    *)
(* the character ("\r" is an ordinary width-1 character).  Byte offsets,   *)
(* zero-based lines and zero-based character columns are then exact        *)
(* integer functions of `cw`.                                              *)
(*                                                                         *)
(* P level : Line / CharCol / ByteCol from the definition.                 *)
(* I level : GetCharColumn transcribes `Content::get_char_column` for      *)
(*           String (backward scan counting non-continuation bytes) and    *)
(*           PositionForOffset transcribes `position_for_offset`.          *)
(***************************************************************************)
EXTENDS Naturals, Sequences, SequencesExt, FiniteSets

W(c) == IF c = 0 THEN 1 ELSE c
IsNL(c) == c = 0

\* byte offset at which character k starts (k = Len+1: end of text), as a sequence of length Len+1
Starts(cw) ==
    LET step(acc, c) == Append(acc, acc[Len(acc)] + W(c))
    IN  FoldLeft(step, <<0>>, cw)

ByteLen(cw) == LET st == Starts(cw) IN st[Len(st)]

\* `off` is a character boundary of the text
OnCharBoundary(cw, off) == \E k \in 1..(Len(cw) + 1) : Starts(cw)[k] = off

\* number of characters that start before byte offset off
CharsBefore(st, off) == Cardinality({ k \in 1..(Len(st) - 1) : st[k] < off })

\* zero-based line of byte offset off = number of newlines that start before it
Line(cw, off) ==
    LET st == Starts(cw) IN Cardinality({ k \in 1..Len(cw) : IsNL(cw[k]) /\ st[k] < off })

\* index (1-based char) of the first character of the line containing off
LineStartChar(cw, st, off) ==
    LET nls == { k \in 1..Len(cw) : IsNL(cw[k]) /\ st[k] < off }
    IN  IF nls = {} THEN 1 ELSE (CHOOSE k \in nls : \A j \in nls : j <= k) + 1

\* zero-based character column of off = characters between line start and off
CharCol(cw, off) ==
    LET st == Starts(cw) ls == LineStartChar(cw, st, off)
    IN  Cardinality({ k \in ls..Len(cw) : st[k] < off })

\* zero-based byte column
ByteCol(cw, off) ==
    LET st == Starts(cw) ls == LineStartChar(cw, st, off) IN off - st[ls]

\* ---- I level -------------------------------------------------------------
\* bytes of the text: 0 = newline byte, 1 = lead/ascii byte, 2 = continuation byte
Bytes(cw) ==
    FlattenSeq([k \in 1..Len(cw) |->
        IF cw[k] = 0 THEN <<0>>
        ELSE <<1>> \o [j \in 1..(cw[k] - 1) |-> 2]])

RECURSIVE BackScan(_, _, _)
\* get_char_column: walk back from off, stop at a newline byte, count non-continuation bytes
BackScan(b, i, col) ==
    IF i = 0 THEN col
    ELSE IF b[i] = 0 THEN col
    ELSE BackScan(b, i - 1, IF b[i] # 2 THEN col + 1 ELSE col)
GetCharColumn(cw, off) == BackScan(Bytes(cw), off, 0)

RECURSIVE FwdScan(_, _, _, _, _)
\* position_for_offset: (row, byte col) by a forward scan over bytes
FwdScan(b, i, off, row, col) ==
    IF i > off THEN <<row, col>>
    ELSE IF b[i] = 0 THEN FwdScan(b, i + 1, off, row + 1, 0)
    ELSE FwdScan(b, i + 1, off, row, col + 1)
PositionForOffset(cw, off) == FwdScan(Bytes(cw), 1, off, 0, 0)

\* the two levels agree on every boundary offset (checked by MC_Positions)
PositionsAgree(cw) ==
    \A k \in 1..(Len(cw) + 1) :
        LET off == Starts(cw)[k] IN
        /\ GetCharColumn(cw, off) = CharCol(cw, off)
        /\ PositionForOffset(cw, off) = <<Line(cw, off), ByteCol(cw, off)>>
=============================================================================
