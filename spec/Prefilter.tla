----------------------------- MODULE Prefilter -----------------------------
(***************************************************************************)
(* The literal-substring file prefilter of `sg run` (crates/cli/src/utils/ *)
(* mod.rs filter_file_pattern, PatternNode::fixed_string).                 *)
(*  I: FixedString = the first longest terminal text of the pattern;       *)
(*     a file (document) is skipped when it does not contain that text,    *)
(*     provided the prefilter applies to the pattern's strictness.         *)
(*  P: skipping never changes the result (C01): whenever the pattern       *)
(*     matches a node of the document, the document is not skipped.        *)
(* Text lengths are supplied by the caller (strings are atomic in TLC).    *)
(***************************************************************************)
EXTENDS Match

RECURSIVE FixedOf(_, _, _)
\* fold over the pattern in document order keeping the first longest terminal: [t, len]
FixedOf(PT, g, len) ==
    LET p == PT[g] IN
    IF p.ty = "T" THEN [t |-> p.t, len |-> len[p.t]]
    ELSE IF p.ty = "M" THEN [t |-> "", len |-> 0]
    ELSE LET step(best, c) == LET x == FixedOf(PT, c, len) IN IF best.len >= x.len THEN best ELSE x
         IN  FoldLeft(step, [t |-> "", len |-> 0], p.ch)

\* since fix: the prefilter is applied only where every pattern terminal must be present verbatim.
\* (ast / relaxed / signature may skip anonymous pattern tokens, signature ignores text)
Applies(s) == s \in {"cst", "smart"}

LeafTexts(T) == { T[i].t : i \in { j \in 1..Len(T) : T[j].ch = <<>> } }

Skipped(PT, T, s, len) ==
    LET f == FixedOf(PT, 1, len) IN Applies(s) /\ f.len > 0 /\ f.t \notin LeafTexts(T)

PrefilterSound(PT, T, s, len) == Match(PT, T, s, 1).ok => ~Skipped(PT, T, s, len)
=============================================================================
