----------------------------- MODULE UpdateAll -----------------------------
(***************************************************************************)
(* `--update-all` (crates/cli/src/print/interactive_print.rs: one payload  *)
(* per DOCUMENT of a file - the host document and each injected document   *)
(* of an HTML file are separate payloads -, process_diffs_interactive with *)
(* accept_all, rewrite_action, after_print).                               *)
(*                                                                         *)
(* disk      : path :> text (sequence of bytes)                            *)
(* payloads  : sequence of [path, old (the text the document was parsed    *)
(*             from), diffs (edits in report order)]                       *)
(* committed : number of accepted edits, printed as "Applied N changes"    *)
(***************************************************************************)
EXTENDS Replace, TLC

VARIABLES disk, payloads, committed, accepted
uvars == <<disk, payloads, committed, accepted>>

\* I: one payload = filter overlaps against the payload's own cursor, splice, write.
\* MergeDocs = TRUE (since the fix): the edits already written to the same path in this run are applied
\* together with the new ones onto the original text; FALSE: each payload splices onto its own old source
\* alone (the pre-fix lost update).
CONSTANT MergeDocs
PrevOf(path) == LET idx == SelectSeq([k \in 1..Len(accepted) |-> k], LAMBDA k : accepted[k].path = path) IN
                [j \in 1..Len(idx) |-> accepted[idx[j]].e]
Process ==
    /\ payloads # <<>>
    /\ LET p == Head(payloads)  acc == FilterOverlap(p.diffs)
           all == IF MergeDocs THEN SortByPos(acc \o PrevOf(p.path)) ELSE acc IN
         /\ committed' = committed + Len(acc)
         /\ accepted' = accepted \o [k \in 1..Len(acc) |-> [path |-> p.path, e |-> acc[k]]]
         /\ disk' = IF acc = <<>> THEN disk ELSE [disk EXCEPT ![p.path] = Splice(p.old, all)]
    /\ payloads' = Tail(payloads)

\* P (FinalP, AcceptAll) is stated in Replace.tla: every file = its original text with the announced edits of ALL
\* its documents applied, an edit being dropped iff its range intersects an earlier accepted one.
=============================================================================
