SPECIFICATION Spec
INVARIANT Finished
CHECK_DEADLOCK FALSE
