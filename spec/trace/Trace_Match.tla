---------------------------- MODULE Trace_Match ----------------------------
(***************************************************************************)
(* Judges match records (real Pattern table PT, real candidate table T,    *)
(* real outcomes at the five strictness levels):                           *)
(*   P / C03 : a reported match has a legal alignment; the reported match  *)
(*             length ends inside the node on a descendant's end           *)
(*   P / C02 : a pattern cut from the node (premise SameShape, checked     *)
(*             here) matches at every level with exact bindings            *)
(*   I       : the transcribed matcher of Match.tla predicts the outcome   *)
(***************************************************************************)
EXTENDS Align, Json, IOUtils, TLC

Recs == ndJsonDeserialize(IOEnv.TRACE)
Levels == <<"cst", "smart", "ast", "relaxed", "signature">>

VARIABLES l, pFail
vars == <<l, pFail>>

PidOf(PT, name) == CHOOSE g \in 1..Len(PT) : PT[g].ty = "M" /\ PT[g].mv.name = name
HasVar(PT, name) == \E g \in 1..Len(PT) : PT[g].ty = "M" /\ PT[g].mv.name = name

FnEq(f, g) == DOMAIN f = DOMAIN g /\ \A k \in DOMAIN f : f[k] = g[k]

Holes(r) == { [pid |-> PidOf(r.PT, r.holes[k].name), id |-> r.holes[k].id] : k \in 1..Len(r.holes) }
TailOf(r) == IF r.tail.name = "" THEN [pid |-> 0, ids |-> <<>>]
             ELSE [pid |-> PidOf(r.PT, r.tail.name), ids |-> r.tail.ids]

\* the premise of C02 ("the pattern parses to the same tree shape as that code") is read off r.RT, the parse of the
\* pattern text tabulated by the recorder itself, never off the pattern object built by the code under test
HolesR(r) == { [pid |-> PidOf(r.RT, r.holes[k].name), id |-> r.holes[k].id] : k \in 1..Len(r.holes) }
TailOfR(r) == IF r.tail.name = "" THEN [pid |-> 0, ids |-> <<>>]
              ELSE [pid |-> PidOf(r.RT, r.tail.name), ids |-> r.tail.ids]
CutPremisePT(r) ==
    /\ ~r.nopat
    /\ \A k \in 1..Len(r.holes) : HasVar(r.PT, r.holes[k].name)
    /\ (r.tail.name # "" => HasVar(r.PT, r.tail.name))
    /\ SameShape(r.PT, r.T, 1, 1, Holes(r), TailOf(r))
CutPremise(r) ==
    /\ r.RT # <<>>
    /\ \A k \in 1..Len(r.holes) : HasVar(r.RT, r.holes[k].name)
    /\ (r.tail.name # "" => HasVar(r.RT, r.tail.name))
    /\ SameShape(r.RT, r.T, 1, 1, HolesR(r), TailOfR(r))

IsCtx(r) == "ctx" \in DOMAIN r
LeafTextOnlyDiff(A, B) ==
    /\ Len(A) = Len(B)
    /\ \A i \in 1..Len(A) : A[i].ty = B[i].ty /\ A[i].kid = B[i].kid /\ A[i].ch = B[i].ch /\ A[i].mv = B[i].mv
    /\ \E i \in 1..Len(A) : A[i].t # B[i].t

Reasons(r) ==
    LET PT == r.PT  T == r.T IN
    UNION { LET s == Levels[i]  o == r.outs[s] IN
            \* a panic of the matcher is "no match reported"; it is C02's business when the pattern was cut
            \* from the node (cut-not-matched below) and C11's otherwise
            (IF o.ok /\ ~Legal(PT, T, s, 1, 1) THEN {<<"illegal-match", s>>} ELSE {})
            \* C04: the reported bindings are consistent with an alignment in which a variable always stands for the same code
            \cup (IF o.ok /\ Legal(PT, T, s, 1, 1) /\ ~LegalB(PT, T, s, 1, 1, [single |-> o.single, multi |-> o.multi]) THEN {<<"same-variable-different-code", s>>} ELSE {})
            \cup (IF o.len >= 0 /\ ~EndOK(T, 1, T[1].s + o.len) THEN {<<"match-len", s>>} ELSE {})
            \* C04 inside one pattern: a candidate tried and rejected after an ellipsis leaves no trace.  Reported when the
            \* real verdict is the one of the matcher that keeps such bindings and not the one of the matcher that drops them
            \cup (IF ~o.panic /\ ~r.nopat /\ ~o.ok /\ Match(PT, T, s, 1).ok /\ ~MatchKeeping(PT, T, s, 1).ok
                  THEN {<<"rejected-candidate-left-bindings", s>>} ELSE {})
            \* the pattern written as a rule's pattern object {context, selector, strictness} is the same pattern
            \cup (IF ~o.panic /\ o.yaml # -1 /\ (o.yaml = 1) # o.ok THEN {<<"rule-pattern-object-differs-from-the-pattern", s>>} ELSE {})
            \* ... and so is the pattern built by the infallible constructor, whatever that constructor built before
            \cup (IF ~o.panic /\ o.vianew # -1 /\ (o.vianew = 1) # o.ok THEN {<<"pattern-new-differs-from-try-new", s>>} ELSE {})
          : i \in 1..5 }
    \* the kept text of a cut pattern is copied from the code: when the parsed pattern has the structure of the code but
    \* a kept leaf reads differently, the pattern text was altered on its way to the matcher
    \* (a contextual pattern is cut from the text of an enclosing node; parsed on its own, that text may read differently
    \* - a YAML sequence whose first item lost its indentation becomes one multi-line scalar - so there the parsed pattern
    \* is compared with the recorder's own parse of the same context, r.RT, not with the code)
    \cup (IF r.mode = "cut" /\ IsCtx(r) /\ ~r.nopat /\ r.RT # <<>> /\ LeafTextOnlyDiff(r.PT, r.RT)
          THEN {<<"pattern-text-altered", "smart">>} ELSE {})
    \cup (IF r.mode = "cut" /\ ~IsCtx(r) /\ ~r.nopat /\ ~CutPremisePT(r) /\ (\A k \in 1..Len(r.holes) : HasVar(r.PT, r.holes[k].name))
             /\ (r.tail.name # "" => HasVar(r.PT, r.tail.name)) /\ SameKinds(r.PT, r.T, 1, 1, Holes(r), TailOf(r))
          THEN {<<"pattern-text-altered", "smart">>} ELSE {})
    \cup (IF r.mode = "cut" /\ CutPremise(r)
          THEN UNION { LET s == Levels[i]  o == r.outs[s] IN
                       IF CutOK(r.RT, T, HolesR(r), TailOfR(r), o) THEN {} ELSE {<<"cut-not-matched", s>>}
                     : i \in 1..5 }
          ELSE IF r.mode = "cut" /\ CutPremisePT(r)
          THEN UNION { LET s == Levels[i]  o == r.outs[s] IN
                       IF CutOK(PT, T, Holes(r), TailOf(r), o) THEN {} ELSE {<<"cut-not-matched", s>>}
                     : i \in 1..5 }
          ELSE {})

Drift(r) ==
    UNION { LET s == Levels[i]  o == r.outs[s]  m == Match(r.PT, r.T, s, 1) IN
            IF o.panic \/ r.nopat THEN {}
            ELSE IF m.ok # o.ok THEN {<<"verdict", s>>}
            ELSE IF o.ok /\ ~(FnEq(m.env.single, o.single) /\ FnEq(m.env.multi, o.multi)) THEN {<<"env", s>>}
            ELSE {}
          : i \in 1..5 }

Init == l = 1 /\ pFail = <<>>

Step == /\ l <= Len(Recs)
        /\ LET r == Recs[l]  rs == Reasons(r)  dr == Drift(r) IN
             /\ (r.mode = "cut" /\ ~CutPremise(r) /\ ~CutPremisePT(r)) => PrintT(<<"DISCARD", l>>)
             /\ (dr # {} /\ rs = {}) => PrintT(<<"DRIFT", l, r.id, dr>>)
             /\ (\E i \in 1..5 : r.outs[Levels[i]].panic) => PrintT(<<"PANIC", l, r.id>>)
             /\ pFail' = IF rs = {} THEN pFail
                         ELSE IF PrintT(<<"PFAIL", l, r.id, rs>>) THEN Append(pFail, l) ELSE pFail
        /\ l' = l + 1

Spec == Init /\ [][Step]_vars
Finished == (l = Len(Recs) + 1) => PrintT(<<"RESULT", Len(Recs), Len(pFail)>>)
=============================================================================
