----------------------------- MODULE Trace_C19 -----------------------------
(***************************************************************************)
(* Direction B for C19: every record is one real tree (raw tree-sitter     *)
(* projection) plus what ast-grep's public Node API returned on it.  The   *)
(* record is accepted iff the outcomes equal the declarative operators of  *)
(* Tree.tla / Positions.tla.  One step per record; failures are collected, *)
(* not fatal, so one bad record does not hide the rest.                    *)
(***************************************************************************)
EXTENDS Tree, Positions, Json, IOUtils, TLC

Recs == ndJsonDeserialize(IOEnv.TRACE)

VARIABLES l, pFail
vars == <<l, pFail>>

ObsOK(r, T, o) ==
    LET n == o.n
        reasons ==
          (IF o.par = T[n].p THEN {} ELSE {"parent"})
          \cup (IF o.kids = T[n].ch THEN {} ELSE {"children"})
          \cup (IF \A k \in 1..Len(o.kidpar) : o.kidpar[k] = n THEN {} ELSE {"child.parent"})
          \cup (IF o.anc = ParentChain(T, n) THEN {} ELSE {"ancestors"})
          \cup (IF o.rng = <<T[n].s, T[n].e>> THEN {} ELSE {"range"})
          \cup (IF T[n].p # 0 /\ HasZeroWidthChild(T, T[n].p) THEN {}
                ELSE (IF o.next = NextAll(T, n) THEN {} ELSE {"next_all"})
                     \cup (IF o.prev = PrevAll(T, n) THEN {} ELSE {"prev_all"})
                     \cup (IF o.nx = NextSib(T, n) THEN {} ELSE {"next"})
                     \cup (IF o.pv = PrevSib(T, n) THEN {} ELSE {"prev"}))
          \cup (IF ~o.trav THEN {}
                ELSE (IF o.pre = PreOrder(T, n) THEN {} ELSE {"pre"})
                     \cup (IF o.dfs = PreOrder(T, n) THEN {} ELSE {"dfs"})
                     \cup (IF o.post = PostOrder(T, n) THEN {} ELSE {"post"})
                     \cup (IF o.level = LevelOrder(T, n) THEN {} ELSE {"level"}))
          \cup (IF ~r.hasText THEN {}
                ELSE IF o.pos = << Line(r.cw, T[n].s), CharCol(r.cw, T[n].s),
                                   Line(r.cw, T[n].e), CharCol(r.cw, T[n].e) >> THEN {} ELSE {"position"})
          \* the raw tree-sitter points (row, byte column) of the projection itself
          \cup (IF ~r.hasText THEN {}
                ELSE IF <<T[n].sl, T[n].sc>> = <<Line(r.cw, T[n].s), ByteCol(r.cw, T[n].s)>> THEN {} ELSE {"ts-point"})
    IN reasons

RecReasons(r) ==
    LET T == r.T IN
    (IF WellFormed(T) THEN {} ELSE {"projection-not-a-tree"})
    \cup (IF RangesNest(T) THEN {} ELSE {"ranges-nest"})
    \cup UNION { ObsOK(r, T, r.obs[k]) : k \in 1..Len(r.obs) }

Init == l = 1 /\ pFail = <<>>

Step == /\ l <= Len(Recs)
        /\ LET rs == RecReasons(Recs[l]) IN
             pFail' = IF rs = {} THEN pFail
                      ELSE IF PrintT(<<"PFAIL", l, Recs[l].id, rs>>) THEN Append(pFail, l) ELSE pFail
        /\ l' = l + 1

Spec == Init /\ [][Step]_vars

\* printed once, at the last state: proof that every line was consumed
Finished == (l = Len(Recs) + 1) => PrintT(<<"RESULT", Len(Recs), Len(pFail)>>)
=============================================================================
