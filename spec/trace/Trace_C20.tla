----------------------------- MODULE Trace_C20 -----------------------------
(***************************************************************************)
(* Judges what the real code did with every string TLC enumerated:         *)
(*  - P (alarm): the declarative notation of Lexers.tla                    *)
(*  - I (drift): the transcribed character machines of Lexers.tla          *)
(***************************************************************************)
EXTENDS Lexers, Json, IOUtils, TLC

Recs == ndJsonDeserialize(IOEnv.TRACE)

VARIABLES l, pFail
vars == <<l, pFail>>

\* bindings of the host match  f($A, $$$B)  on  f(a, b, c)
HostSingle == [n \in {<<"A">>} |-> <<"a">>]
HostMulti  == [n \in {<<"B">>} |-> <<"b", ",", " ", "c">>]

MvReasons(r) ==
    LET want == Spelling(r.s) IN
    UNION { LET x == r.langs[k]
                known == KnownExpandoLiteral(x.e, r.s) IN
            (IF x.mv = want THEN {}
             ELSE IF known THEN {<<"known:expando-literal", x.lang>>} ELSE {<<"spelling", x.lang>>})
            \cup (IF x.pat.ty = "panic" THEN {<<"pattern-panic", x.lang>>} ELSE {})
            \cup (IF known THEN {}
                  ELSE IF x.pat.ty = "metavar" /\ x.pat.mv # want THEN {<<"pattern-hole", x.lang>>}
                  ELSE IF x.pat.ty = "terminal" /\ want.ty # "none" THEN {<<"pattern-literal", x.lang>>}
                  \* ... nor a pattern with structure of its own (a grammar may read `$$A` as several tokens: the pattern is the hole
                  \* all the same)
                  ELSE IF x.pat.ty = "internal" /\ want.ty # "none" THEN {<<"pattern-structure-instead-of-hole", x.lang>>}
                  ELSE {})
          : k \in 1..Len(r.langs) }
    \cup (IF r.tpl.panic THEN {<<"template-panic", "">>} ELSE {})
    \cup (IF ~TemplateJudged(r.s, 1) THEN {}
          ELSE LET items == TemplateP(r.s, 1) IN
               (IF r.tpl.out = ExpandItems(items, HostSingle, HostMulti) THEN {} ELSE {<<"template-output", "">>})
               \cup (IF ToSet(r.tpl.used) = { it.name : it \in { y \in ToSet(items) : y.v } } THEN {}
                     ELSE {<<"template-vars", "">>}))

MvDrift(r) ==
    UNION { LET x == r.langs[k] IN
            (IF x.pre = PreProcess(x.e, r.s) THEN {} ELSE {<<"pre_process", x.lang>>})
            \cup (IF x.mv = LangMetaVar(x.e, r.s) THEN {} ELSE {<<"extract_meta_var", x.lang>>})
          : k \in 1..Len(r.langs) }
    \cup (IF r.tpl.out = ExpandItems(TemplateItems(r.s, 1), HostSingle, HostMulti) THEN {} ELSE {<<"template", "">>})

AnBReasons(r) ==
    (IF r.panic THEN {<<"anb-panic", "">>} ELSE {})
    \cup (IF ~SpacesJudged(r.s) THEN {}
          ELSE LET p == AnBP(r.s) IN
               IF p.ok # r.accepted THEN {<<"anb-accept", "">>}
               ELSE IF p.ok /\ ToSet(r.matched) # { i \in 1..12 : SelectP(p.a, p.b, i) } THEN {<<"anb-select", "">>}
               \* with an ofRule that every sibling satisfies (the unnamed commas and brackets too) the index still counts the
               \* named siblings only
               ELSE IF p.ok /\ ToSet(r.matched_of) # { i \in 1..12 : SelectP(p.a, p.b, i) } THEN {<<"anb-select-with-ofrule", "">>}
               ELSE {})
AnBDrift(r) ==
    LET i == ParseAnB(r.s) IN
    IF i.ok # r.accepted THEN {<<"parse_an_b", "">>}
    ELSE IF i.ok /\ ToSet(r.matched) # { x \in 1..12 : IsMatched(i.a, i.b, x) } THEN {<<"is_matched", "">>}
    ELSE {}

SubReasons(r) ==
    UNION { LET o == r.outs[k] IN
            IF o.panic THEN {<<"substring-panic", o.st, o.en>>}
            ELSE IF o.out = PySlice(r.s, o.st, o.en) THEN {} ELSE {<<"substring", o.st, o.en>>}
          : k \in 1..Len(r.outs) }
SubDrift(r) ==
    UNION { LET o == r.outs[k] IN
            IF o.out = SubstringI(r.s, o.st, o.en) THEN {} ELSE {<<"resolve_char", o.st, o.en>>}
          : k \in 1..Len(r.outs) }

Reasons(r) == CASE r.k = "mv" -> MvReasons(r) [] r.k = "anb" -> AnBReasons(r) [] OTHER -> SubReasons(r)
Drift(r)   == CASE r.k = "mv" -> MvDrift(r)   [] r.k = "anb" -> AnBDrift(r)   [] OTHER -> SubDrift(r)

Init == l = 1 /\ pFail = <<>>

Step == /\ l <= Len(Recs)
        /\ LET r == Recs[l]  rs == Reasons(r)  dr == Drift(r) IN
             /\ (dr # {} /\ rs = {}) => PrintT(<<"DRIFT", l, r.s, dr>>)
             /\ pFail' = IF rs = {} THEN pFail
                         ELSE IF PrintT(<<"PFAIL", l, r.s, rs>>) THEN Append(pFail, l) ELSE pFail
        /\ l' = l + 1

Spec == Init /\ [][Step]_vars
Finished == (l = Len(Recs) + 1) => PrintT(<<"RESULT", Len(Recs), Len(pFail)>>)
=============================================================================
