------------------------- MODULE Trace_Interactive -------------------------
(* one record per real interactive session (`sgv run -p .. -r .. -i` on a pseudo terminal): the keys typed, the
   diffs the same command announces under --json grouped into payloads (one per document), the files before and
   after, the exit status and the "Applied N changes" line.
   The session is accepted when SOME processing order of the payloads (the order in which documents and files
   reach the printer is not observable) run through Interactive.tla with the typed keys ends in the observed
   files, with the observed way of ending (normal / left with q) and count. *)
EXTENDS Interactive, Json, IOUtils

Recs == ndJsonDeserialize(IOEnv.TRACE)
VARIABLES l, pFail
vars == <<l, pFail, st>>

FileOf(r, path) == r.files[CHOOSE k \in 1..Len(r.files) : r.files[k].path = path]
Paths(r) == { r.files[k].path : k \in 1..Len(r.files) }
Disk0(r) == [p \in Paths(r) |-> FileOf(r, p).before]
PayloadOf(r, k) == [path |-> r.payloads[k].path, old |-> FileOf(r, r.payloads[k].path).before,
                    diffs |-> [j \in 1..Len(r.payloads[k].diffs) |-> [pos |-> r.payloads[k].diffs[j].pos, del |-> r.payloads[k].diffs[j].del, ins |-> r.payloads[k].diffs[j].ins]]]
Perms(n) == { f \in [1..n -> 1..n] : \A a, b \in 1..n : a # b => f[a] # f[b] }

Explains(r, fin) ==
    /\ \A p \in Paths(r) : fin.disk[p] = FileOf(r, p).after
    /\ fin.status = "done" => (r.exit = 0 /\ r.applied = fin.committed)
    /\ fin.status = "quit" => (r.exit # 0 /\ r.applied = 0)
    /\ Final(fin)

Reasons(r) ==
    LET n == Len(r.payloads)
        outcomes == { RunToEnd(InitState(Disk0(r), [k \in 1..n |-> PayloadOf(r, f[k])], r.keys \o <<"n", "n", "n", "n", "n", "n", "n", "n", "n", "n", "n", "n">>, FALSE)) : f \in Perms(n) } IN
    (IF r.panicked THEN {"session-panicked"} ELSE {})
    \cup (IF r.exit = 124 THEN {"session-hangs"} ELSE {})
    \cup (IF r.exit # 124 /\ ~\E fin \in outcomes : Explains(r, fin) THEN
             (IF \E fin \in outcomes : \A p \in Paths(r) : fin.disk[p] = FileOf(r, p).after THEN {"ending-or-count"} ELSE {"files-differ-from-the-decisions"})
          ELSE {})

Init == l = 1 /\ pFail = <<>> /\ st = 0      \* st: the session variable of Interactive.tla, unused here (RunToEnd is applied to records)
Step == /\ l <= Len(Recs)
        /\ LET r == Recs[l]  rs == Reasons(r) IN
             pFail' = IF rs = {} THEN pFail
                      ELSE IF PrintT(<<"PFAIL", l, r.id, rs>>) THEN Append(pFail, l) ELSE pFail
        /\ l' = l + 1 /\ UNCHANGED st
Spec == Init /\ [][Step]_vars
Finished == (l = Len(Recs) + 1) => PrintT(<<"RESULT", Len(Recs), Len(pFail)>>)
=============================================================================
