----------------------------- MODULE Trace_Fix -----------------------------
(***************************************************************************)
(* Judges replacement records.                                             *)
(*  mode "tpl"  (C07): the real generated replacement vs the line-level    *)
(*       statement (Template.tla OutP, when Judged) and vs the transcribed *)
(*       arithmetic (Indent.tla GenerateReplacement)                       *)
(*  mode "edit" (C06): the real edits of Node::replace_all, of `sg scan    *)
(*       --json`, and the file after `--update-all`                        *)
(*  mode "rewrite" (C06): the text a `rewrite` transformation produced vs  *)
(*       the captured text with the rewriters' edits substituted            *)
(***************************************************************************)
EXTENDS Template, Replace, Positions, Tree, Lexers, Json, IOUtils, TLC

Recs == ndJsonDeserialize(IOEnv.TRACE)
VARIABLES l, pFail
vars == <<l, pFail>>

\* ---- C07 -------------------------------------------------------------------
BindOf(r) == [n \in { r.bind[k].name : k \in 1..Len(r.bind) } |->
                LET k == CHOOSE k \in 1..Len(r.bind) : r.bind[k].name = n IN [lo |-> r.bind[k].lo, hi |-> r.bind[k].hi]]
\* single vs multi bindings share a name space in the template scanner's view: $A reads the single
\* binding, $$$A the multi binding
BindFor(r, items) ==
    [n \in { items[k].name : k \in { j \in 1..Len(items) : items[j].v /\
                 \E b \in 1..Len(r.bind) : r.bind[b].name = items[j].name /\ r.bind[b].multi = items[j].multi } } |->
        LET b == CHOOSE b \in 1..Len(r.bind) : r.bind[b].name = n IN [lo |-> r.bind[b].lo, hi |-> r.bind[b].hi]]

\* characters between the start of the line and offset off
ColOf(src, off) == LET before == { i \in 1..off : src[i] = NL } IN
                   IF before = {} THEN off ELSE off - (CHOOSE i \in before : \A j \in before : j <= i)
SelfJudged(r, items, bind) ==
    /\ TemplateJudged(r.raw, 1) /\ NoTabs(r.src) /\ NoTabs(r.raw)
    /\ \A k \in 1..Len(items) :
          (items[k].v /\ items[k].name \in DOMAIN bind) =>
              LET b == bind[items[k].name] IN
              HasNL(SubSeq(r.src, b.lo + 1, b.hi)) => WellIndented(r.src, b.lo, b.hi)
\* the same statement for text indented with TAB characters only (every line starts with tabs followed by a character
\* that is neither a tab nor a space, tabs occur nowhere else, no CR): relative indentation is then counted in tabs
RECURSIVE LeadingTabs(_)
LeadingTabs(line) == IF line = <<>> \/ line[1] # "\t" THEN 0 ELSE 1 + LeadingTabs(Tail(line))
PureTabIndent(src) ==
    /\ \E i \in 1..Len(src) : src[i] = "\t"
    /\ \A i \in 1..Len(src) : src[i] # "\r"
    /\ LET ls == SplitLines(src) IN
       \A k \in 1..Len(ls) : LET n == LeadingTabs(ls[k]) IN
           /\ \A j \in (n + 1)..Len(ls[k]) : ls[k][j] # "\t"
           /\ (Len(ls[k]) > n => ls[k][n + 1] # " ")
TabsBefore(src, off) ==      \* leading tabs of the line that contains offset off
    LET before == { i \in 1..off : src[i] = NL }
        start == IF before = {} THEN 0 ELSE CHOOSE i \in before : \A j \in before : j <= i IN
    LeadingTabs(SubSeq(src, start + 1, Len(src)))
SelfJudgedTabs(r, items, bind) ==
    /\ TemplateJudged(r.raw, 1) /\ NoTabs(r.raw) /\ PureTabIndent(r.src)
    /\ \A k \in 1..Len(items) :
          (items[k].v /\ items[k].name \in DOMAIN bind) =>
              LET b == bind[items[k].name]  ls == SplitLines(SubSeq(r.src, b.lo + 1, b.hi)) IN
              \A j \in 2..Len(ls) : ls[j] # <<>> /\ LeadingTabs(ls[j]) < Len(ls[j]) /\ LeadingTabs(ls[j]) >= TabsBefore(r.src, b.lo)
\* the indentation of a line is looked for at most LookBehind characters back: the match may start within that
\* distance of its line's start while a multi-line capture on the same line starts beyond it
AtLookBehindBoundary(r, bind) ==
    \E n \in DOMAIN bind : LET b == bind[n] IN
        /\ HasNL(SubSeq(r.src, b.lo + 1, b.hi))
        /\ ~HasNL(SubSeq(r.src, r.site + 1, b.lo))
        /\ ColOf(r.src, r.site) <= LookBehind /\ ColOf(r.src, b.lo) >= LookBehind

TplReasons(r) ==
    LET items == TemplateItems(r.raw, 1)
        bind == BindFor(r, items) IN
    (IF r.panic THEN {"panic"} ELSE {})
    \cup (IF ~TemplateJudged(r.raw, 1) \/ ~Judged(r.src, r.raw, items, bind) THEN {}
          ELSE (IF r.out = OutP(r.src, r.raw, TemplateP(r.raw, 1), bind, r.site) THEN {} ELSE {"replacement-text"}))
    \* "rewriting a node to itself is a no-op" is judged on lines of any length
    \cup (IF ~r.self \/ ~SelfJudged(r, items, bind) \/ r.out = SubSeq(r.src, r.site + 1, r.siteEnd) THEN {}
          ELSE IF AtLookBehindBoundary(r, bind) THEN {"known:lookbehind-boundary"} ELSE {"self-rewrite"})
    \cup (IF ~r.self \/ ~SelfJudgedTabs(r, items, bind) \/ r.out = SubSeq(r.src, r.site + 1, r.siteEnd) THEN {} ELSE {"self-rewrite"})
TplDrift(r) ==
    LET items == TemplateItems(r.raw, 1) IN
    IF r.panic \/ r.out = GenerateReplacement(r.src, r.raw, items, BindFor(r, items), r.site) THEN {} ELSE {"indent-model"}

\* ---- C06 -------------------------------------------------------------------
AsEdit(e) == [pos |-> e.pos, del |-> e.del, ins |-> e.ins]
SibsAndSelf(T, n) == IF T[n].p = 0 THEN {n} ELSE ToSet(T[T[n].p].ch)

\* the configured expansion, for the fixes of the recorder (r.exp = <<expandStart, expandEnd>>): 1 = the sibling next to
\* the node when it is a comma; 2 = expandStart: the NEAREST comma among the earlier siblings (stopBy: end), expandEnd: the
\* nearest `]` among the later siblings (stopBy: end); 0 = none; 9 = not judged
SibsBefore(T, n) == IF T[n].p = 0 THEN <<>> ELSE LET cs == T[T[n].p].ch  k == CHOOSE i \in 1..Len(cs) : cs[i] = n IN [i \in 1..(k - 1) |-> cs[k - i]]
SibsAfter(T, n)  == IF T[n].p = 0 THEN <<>> ELSE LET cs == T[T[n].p].ch  k == CHOOSE i \in 1..Len(cs) : cs[i] = n IN [i \in 1..(Len(cs) - k) |-> cs[k + i]]
ExpStart(T, n, el) ==
    LET ps == SibsBefore(T, n)  hits == SelectSeq(ps, LAMBDA x : T[x].tx = 1) IN
    CASE el = 1 -> IF ps # <<>> /\ T[ps[1]].tx = 1 THEN T[ps[1]].s ELSE T[n].s
      [] el = 2 -> IF hits # <<>> THEN T[hits[1]].s ELSE T[n].s
      [] OTHER -> T[n].s
ExpEnd(T, n, er) ==
    LET ns == SibsAfter(T, n)  hits == SelectSeq(ns, LAMBDA x : T[x].tx = 2) IN
    CASE er = 1 -> IF ns # <<>> /\ T[ns[1]].tx = 1 THEN T[ns[1]].e ELSE T[n].e
      [] er = 2 -> IF hits # <<>> THEN T[hits[1]].e ELSE T[n].e
      \* 3: `expandEnd: {pattern: $S}` with $S bound to the matched statement - the next sibling when it reads the same
      [] er = 3 -> IF ns # <<>> /\ T[n].tx >= 100 /\ T[ns[1]].tx = T[n].tx THEN T[ns[1]].e ELSE T[n].e
      [] OTHER -> T[n].e

EditReasons(r) ==
    LET T == r.T  len == Len(r.src)
        lib == [k \in 1..Len(r.lib) |-> AsEdit(r.lib[k])]
        cli == [k \in 1..Len(r.cli) |-> AsEdit(r.cli[k])]
        st == Starts(r.cw) IN
    UNION { LET e == r.lib[k]  n == e.node  end == e.pos + e.del IN
            (IF InBounds(len, AsEdit(e)) THEN {} ELSE {"lib-out-of-bounds"})
            \cup (IF (\E c \in 1..Len(st) : st[c] = e.pos) /\ (\E c \in 1..Len(st) : st[c] = end) THEN {} ELSE {"lib-splits-character"})
            \cup (IF ~e.utf8 THEN {"lib-replacement-not-utf8"} ELSE {})
            \cup (IF n = 0 THEN {"lib-unknown-node"}
                  ELSE IF ~r.expanded
                       THEN (IF e.pos = T[n].s THEN {} ELSE {"lib-start-not-at-node"})
                            \cup (IF end <= T[n].e /\ (\E d \in DescSelf(T, n) : T[d].e = end) THEN {} ELSE {"lib-end-outside-node"})
                       ELSE (IF e.pos <= T[n].s /\ (\E x \in SibsAndSelf(T, n) : T[x].s = e.pos) THEN {} ELSE {"lib-expand-start"})
                            \cup (IF end >= T[n].s /\ (\E x \in SibsAndSelf(T, n) : \E d \in DescSelf(T, x) : T[d].e = end) THEN {} ELSE {"lib-expand-end"})
                            \cup (IF r.exp[1] = 9 \/ (e.pos = ExpStart(T, n, r.exp[1]) /\ end = ExpEnd(T, n, r.exp[2])) THEN {}
                                  ELSE {"lib-edit-is-not-the-configured-expansion"}))
          : k \in 1..Len(r.lib) }
    \cup (IF OrderedDisjoint(lib) THEN {} ELSE {"lib-edits-overlap"})
    \* a fixer handed over by reference (`replace_all(&matcher, &fixer)`) is the same fixer: same ranges, same texts
    \cup (IF [k \in 1..Len(r.lib_by_ref) |-> AsEdit(r.lib_by_ref[k])] = lib THEN {} ELSE {"lib-fixer-by-reference-differs"})
    \* r.raw: the edit of every match of the non-reentrant traversal, in its order.  Node::replace_all returns the edits of
    \* that list that do not start before the end of the one returned before them (Replace!FilterOverlap): edits that merely
    \* touch are both returned, and without expansion every match has its edit
    \cup (LET raw == [k \in 1..Len(r.raw) |-> AsEdit(r.raw[k])]  want == FilterOverlap(raw) IN
          (IF [k \in 1..Len(lib) |-> <<lib[k].pos, lib[k].del>>] = [k \in 1..Len(want) |-> <<want[k].pos, want[k].del>>] THEN {}
           ELSE {"lib-edits-are-not-the-disjoint-selection-of-the-matches"})
          \cup (IF r.expanded \/ Len(lib) = Len(raw) THEN {} ELSE {"lib-match-without-edit"}))
    \cup UNION { (IF InBounds(len, cli[k]) THEN {} ELSE {"cli-out-of-bounds"}) : k \in 1..Len(cli) }
    \cup (IF r.codes[2] # 0 /\ r.codes[2] # 1 THEN {"update-all-failed"}
          ELSE LET acc == FilterOverlap(cli) IN
               (IF r.after = Splice(r.src, acc) THEN {} ELSE {"file-after-update-all"})
               \cup (IF r.applied = Len(acc) THEN {} ELSE {"applied-count"})
               \cup (IF r.after_utf8 THEN {} ELSE {"file-not-utf8"}))

\* ---- C06, `rewrite` transformations ---------------------------------------------
\* The value is stored through MetaVarEnv::insert_transformation, which removes the indentation of the line the
\* captured text starts on from every continuation line (so that a template can indent it again - C07's matter).
\* A multi-line result is therefore compared with the indentation of continuation lines removed on both sides.
RECURSIVE StripIndentFrom(_, _, _)
StripIndentFrom(bs, i, atLineStart) ==
    IF i > Len(bs) THEN <<>>
    ELSE IF atLineStart /\ bs[i] = 32 THEN StripIndentFrom(bs, i + 1, TRUE)
    ELSE <<bs[i]>> \o StripIndentFrom(bs, i + 1, bs[i] = 10)
StripIndent(bs) == StripIndentFrom(bs, 1, FALSE)
RewriteReasons(r) ==
    LET old == SubSeq(r.src, r.cs + 1, r.ce)
        es == RewriteEdits(r.cands)
        acc == AcceptedFrom(es, 1, 0, r.cs) IN
    (IF r.has_out THEN {} ELSE {"rewrite-produced-nothing"})
    \* the edit of a rewriter starts at the node its rule matched and stays inside it (no rewriter here widens its edit)
    \cup (IF \A k \in 1..Len(r.cands) : \A h \in 1..Len(r.cands[k].hits) :
               IF r.cands[k].hits[h].by = "expanding-fix"
               THEN r.cands[k].hits[h].pos <= r.cands[k].s /\ r.cands[k].hits[h].pos + r.cands[k].hits[h].del <= r.cands[k].e
               ELSE r.cands[k].hits[h].pos = r.cands[k].s /\ r.cands[k].hits[h].pos + r.cands[k].hits[h].del <= r.cands[k].e
          THEN {} ELSE {"rewriter-edit-is-not-at-the-node-its-rule-matched"})
    \cup (IF r.out_utf8 THEN {} ELSE {"rewrite-not-utf8"})
    \cup (IF ~r.has_out THEN {}
          ELSE IF r.join THEN (IF StripIndent(r.out) = StripIndent(RewriteJoinIn(es, r.cs, r.joiner, r.ce - r.cs)) THEN {} ELSE {"rewrite-joined-text"})
          ELSE IF /\ \A k \in 1..Len(acc) : InBounds(Len(old), acc[k])
                  /\ OrderedDisjoint(acc)
                  /\ StripIndent(r.out) = StripIndent(Splice(old, acc))
               THEN {} ELSE {"rewrite-text-not-capture-with-edits-substituted"})
RewriteDrift(r) ==
    IF r.has_out /\ ~r.join /\ StripIndent(r.out) # StripIndent(RewriteSplice(SubSeq(r.src, r.cs + 1, r.ce), RewriteEdits(r.cands), r.cs))
    THEN {"rewrite-splice-model"} ELSE {}

\* ---- C07, "or the transformed string" -----------------------------------------------
\* vals: what every variable stands for - captured text, or the string a transformation produced; single-line values
ValOf(r, name, multi) ==
    LET ks == { k \in 1..Len(r.vals) : r.vals[k].name = name /\ r.vals[k].multi = multi } IN
    IF ks = {} THEN <<>> ELSE r.vals[CHOOSE k \in ks : TRUE].val
TplxExpected(r) ==
    LET items == TemplateP(r.raw, 1) IN
    FlattenSeq([k \in 1..Len(items) |-> IF ~items[k].v THEN <<items[k].c>> ELSE ValOf(r, items[k].name, items[k].multi)])
TplxReasons(r) ==
    (IF r.panic THEN {"panic"} ELSE {})
    \cup (IF ~TemplateJudged(r.raw, 1) \/ r.out = TplxExpected(r) THEN {} ELSE {"replacement-text"})

\* mode "selfx": the fix is the rule's own pattern with every variable passed through a transformation that changes
\* nothing; the transformed string stands where the captured text would stand, so the node is rewritten to itself
SelfxReasons(r) == (IF r.panic THEN {"panic"} ELSE {})
                   \cup (IF r.out = r.matched THEN {} ELSE {"self-rewrite-through-identity-transform"})
Reasons(r) == IF r.mode = "selfx" THEN SelfxReasons(r) ELSE IF r.mode = "tpl" THEN TplReasons(r) ELSE IF r.mode = "tplx" THEN TplxReasons(r)
              ELSE IF r.mode = "rewrite" THEN RewriteReasons(r) ELSE EditReasons(r)
Drift(r)   == IF r.mode = "tpl" THEN TplDrift(r) ELSE IF r.mode = "rewrite" THEN RewriteDrift(r) ELSE {}

Init == l = 1 /\ pFail = <<>>
Step == /\ l <= Len(Recs)
        /\ LET r == Recs[l]  rs == Reasons(r)  dr == Drift(r) IN
             /\ (dr # {} /\ rs = {}) => PrintT(<<"DRIFT", l, r.id, dr>>)
             /\ pFail' = IF rs = {} THEN pFail
                         ELSE IF PrintT(<<"PFAIL", l, r.id, rs>>) THEN Append(pFail, l) ELSE pFail
        /\ l' = l + 1
Spec == Init /\ [][Step]_vars
Finished == (l = Len(Recs) + 1) => PrintT(<<"RESULT", Len(Recs), Len(pFail)>>)
=============================================================================
