----------------------------- MODULE Trace_Sets -----------------------------
(* one record per set of rule files scanned together by the real CombinedScan::scan over one tree, in both modes
   (separate_fix false / true), some members carrying a fix.
   P (Combined.tla SameAsAlone): what the scan reports for a member - through `matches`, or through `diffs` for a
   member with a fix when fixes are separated - is the sequence of nodes that member's find_all reports alone. *)
EXTENDS Sequences, FiniteSets, Naturals, TLC, Json, IOUtils

Recs == ndJsonDeserialize(IOEnv.TRACE)
VARIABLES l, pFail
vars == <<l, pFail>>

Reasons(r) ==
    (IF r.panic THEN {<<"C01", "combined-scan-panic">>} ELSE {})
    \cup UNION { LET m == r.members[k] IN
                 (IF ~r.panic /\ m.together # m.alone THEN {<<"C01", "scanned-together-differs">>} ELSE {})
                 \cup (IF ~r.panic /\ m.together_sep # m.alone THEN {<<"C01", "scanned-together-separate-fix-differs">>} ELSE {})
               : k \in 1..Len(r.members) }

Init == l = 1 /\ pFail = <<>>
Step == /\ l <= Len(Recs)
        /\ LET r == Recs[l]  rs == Reasons(r) IN
             /\ pFail' = IF rs = {} THEN pFail
                         ELSE IF PrintT(<<"PFAIL", l, r.id, rs>>) THEN Append(pFail, l) ELSE pFail
        /\ l' = l + 1
Spec == Init /\ [][Step]_vars
Finished == (l = Len(Recs) + 1) => PrintT(<<"RESULT", Len(Recs), Len(pFail)>>)
=============================================================================
