--------------------------- MODULE Trace_Project ---------------------------
(* each record: one `sgv scan` in the layout of Project.tla (current directory, -c, path argument as typed) and the *)
(* (file, rule) pairs it reported.                                                                                   *)
(*  I     the report is ReportI (globs matched against the path as walked); else DRIFT project-paths-model          *)
(*  P     C15's slice (started in the project directory, clean relative argument): the report is ReportP;           *)
(*        anywhere else a difference is an extension finding (C15 speaks about runs from the project root)          *)
EXTENDS Project, Json, IOUtils, TLC

Recs == ndJsonDeserialize(IOEnv.TRACE)
VARIABLES l, pFail
tvars == <<l, pFail, cwd, cfg, arg>>

AsSet(rep) == { <<rep[k][1], rep[k][2]>> : k \in 1..Len(rep) }
ArgOf(r) == [kind |-> r.arg.kind, segs |-> r.arg.segs, target |-> r.arg.target]
AtRoot(r) == r.cwd = ProjectDir(r.cwd, r.cfg) /\ Clean(ArgOf(r))

Reasons(r) ==
    IF r.exit # 0 THEN {"scan-failed"}
    ELSE IF AtRoot(r) /\ AsSet(r.report) # ReportP(r.cwd, r.cfg, ArgOf(r)) THEN {"rules-applied-differ-from-files-and-ignores"} ELSE {}
Drift(r) ==
    IF r.exit # 0 THEN {}
    ELSE (IF AsSet(r.report) = ReportI(r.cwd, r.cfg, ArgOf(r)) THEN {} ELSE {"project-paths-model"})
         \cup (IF ~AtRoot(r) /\ AsSet(r.report) # ReportP(r.cwd, r.cfg, ArgOf(r))
               THEN {"ext:globs-are-matched-against-the-path-as-typed-not-relative-to-the-project"} ELSE {})

TInit == l = 1 /\ pFail = <<>> /\ cwd = <<>> /\ cfg = <<"-">> /\ arg = [kind |-> "none"]   \* the variables of Project are not used here
TStep == /\ l <= Len(Recs)
         /\ LET r == Recs[l]  rs == Reasons(r)  dr == Drift(r) IN
              /\ (dr # {}) => PrintT(<<"DRIFT", l, r.id, dr>>)
              /\ pFail' = IF rs = {} THEN pFail
                          ELSE IF PrintT(<<"PFAIL", l, r.id, rs>>) THEN Append(pFail, l) ELSE pFail
         /\ l' = l + 1 /\ UNCHANGED <<cwd, cfg, arg>>
TSpec == TInit /\ [][TStep]_tvars
Finished == (l = Len(Recs) + 1) => PrintT(<<"RESULT", Len(Recs), Len(pFail)>>)
=============================================================================
