SPECIFICATION TraceSpec
CONSTANTS Files <- TraceFiles  Outcome <- TraceOutcome  Threads <- TraceThreads
INVARIANT ExactlyOnce
INVARIANT Union
INVARIANT PerFileOrder
INVARIANT Accepted
POSTCONDITION Post
CHECK_DEADLOCK FALSE
