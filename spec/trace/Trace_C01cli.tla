--------------------------- MODULE Trace_C01cli ---------------------------
(***************************************************************************)
(* C01, front-end clause: for the same pattern, strictness and source, the *)
(* `sg run` command (file mode with the literal prefilter, and --stdin)    *)
(* and the `sg scan` command report exactly the library search, in         *)
(* document order.                                                          *)
(*  P: all five result sequences are equal.                                 *)
(*  I: Prefilter.tla - file mode = library result unless the document is    *)
(*     skipped, which happens iff the prefilter applies to the strictness   *)
(*     and the fixed string is absent.                                      *)
(***************************************************************************)
EXTENDS Naturals, Sequences, FiniteSets, Json, IOUtils, TLC

Recs == ndJsonDeserialize(IOEnv.TRACE)
VARIABLES l, pFail
vars == <<l, pFail>>

Applies(s) == s \in {"cst", "smart"}          \* as in Prefilter.tla

Reasons(r) ==
    \* a command that failed before searching (usage error, exit status other than 0/1) reports nothing to compare
    (IF r.codes[1] \notin {0, 1} \/ r.run_file = r.lib THEN {} ELSE {"run-file"})
    \cup (IF r.codes[2] \notin {0, 1} \/ r.run_stdin = r.lib THEN {} ELSE {"run-stdin"})
    \* `sg scan` refuses (exit status other than 0/1) rules without a known set of kinds, e.g. a pattern that
    \* parses to an ERROR node; `sg run` has no such requirement.  A refused rule scanned nothing: not compared.
    \cup (IF r.codes[3] \notin {0, 1} \/ r.scan_file = r.lib THEN {} ELSE {"scan-file"})
    \cup (IF r.codes[4] \notin {0, 1} \/ r.scan_stdin = r.lib THEN {} ELSE {"scan-stdin"})

Drift(r) ==
    LET skipped == Applies(r.s) /\ ~r.fixed_present IN
    IF r.run_file = (IF skipped THEN <<>> ELSE r.lib) THEN {} ELSE {"prefilter-model"}

Init == l = 1 /\ pFail = <<>>
Step == /\ l <= Len(Recs)
        /\ LET r == Recs[l]  rs == Reasons(r)  dr == Drift(r) IN
             /\ (dr # {} /\ rs = {}) => PrintT(<<"DRIFT", l, r.id, dr>>)
             /\ pFail' = IF rs = {} THEN pFail
                         ELSE IF PrintT(<<"PFAIL", l, r.id, rs>>) THEN Append(pFail, l) ELSE pFail
        /\ l' = l + 1
Spec == Init /\ [][Step]_vars
Finished == (l = Len(Recs) + 1) => PrintT(<<"RESULT", Len(Recs), Len(pFail)>>)
=============================================================================
