SPECIFICATION TSpec
INVARIANT Finished
CHECK_DEADLOCK FALSE
