----------------------------- MODULE Trace_C15 -----------------------------
(* each record: one project configuration (from MC_C15) run by `sg scan --json` from the project root;
   the rule ids that fired per file and the exit status are judged by Dispatch.tla *)
EXTENDS Dispatch, SequencesExt, Json, IOUtils

Recs == ndJsonDeserialize(IOEnv.TRACE)
VARIABLES l, pFail
vars == <<l, pFail>>

CfgOf(c) ==
    [rules |-> [k \in 1..Len(c.rules) |->
                  [id |-> c.rules[k].id, lang |-> c.rules[k].lang, files |-> ToSet(c.rules[k].files),
                   ignores |-> ToSet(c.rules[k].ignores), sev |-> c.rules[k].sev]],
     ov |-> [dflt |-> c.dflt,
             byId |-> [id \in { c.byId[k][1] : k \in 1..Len(c.byId) } |->
                          (LET k == CHOOSE k \in 1..Len(c.byId) : c.byId[k][1] = id IN c.byId[k][2])],
             filter |-> ToSet(c.filter)],
     lglob |-> c.lglob]

Reasons(r) ==
    LET cfg == CfgOf(r.cfg) IN
    IF FilterSelectsNothing(cfg) THEN
        \* command-level failure before scanning: nothing may be printed and the status is neither 0 nor 1
        (IF \A p \in Paths : r.fired[p] = <<>> THEN {} ELSE {"finding-printed-on-command-failure"})
        \cup (IF r.exit \notin {0, 1} THEN {} ELSE {"status-on-command-failure"})
    ELSE
        UNION { LET want == IF p \in ToSet(r.suppressed) THEN {} ELSE RulesOn(cfg, p) IN
                (IF ToSet(r.fired[p]) = want /\ Len(r.fired[p]) = Cardinality(ToSet(r.fired[p])) THEN {}
                 ELSE IF ToSet(r.fired[p]) \ want # {} THEN {<<"rule-ran-where-it-must-not", p>>}
                 ELSE IF want \ ToSet(r.fired[p]) # {} THEN {<<"rule-did-not-run", p>>}
                 ELSE {<<"duplicate-finding", p>>}) : p \in Paths }
        \cup UNION { (IF r.sev[k][2] = EffectiveP(cfg.ov, [id |-> r.sev[k][1], sev |-> r.sev[k][3]]) THEN {}
                      ELSE {<<"printed-severity", r.sev[k][1]>>}) : k \in 1..Len(r.sev) }
        \* the command's own account (--inspect entity): the number of rules applied to each file it visited
        \cup (IF ~r.inspected THEN {}
              ELSE UNION { (IF p \notin DOMAIN r.applied \/ r.applied[p] = Cardinality(RulesOn(cfg, p)) THEN {}
                            ELSE IF r.applied[p] > Cardinality(RulesOn(cfg, p)) THEN {<<"more-rules-applied-than-the-statement-allows", p>>}
                            ELSE {<<"fewer-rules-applied-than-the-statement-demands", p>>}) : p \in Paths })
        \cup (IF DOMAIN r.fired = Paths THEN {} ELSE {<<"unexpected-file", "">>})
        \cup (IF r.exit = ExitP(ToSet(r.severities)) THEN {} ELSE {<<"exit-status", "">>})
Drift(r) ==
    LET cfg == CfgOf(r.cfg) IN
    IF FilterSelectsNothing(cfg) \/ \A p \in Paths \ ToSet(r.suppressed) : ToSet(r.fired[p]) = RulesOnI(cfg, p) THEN {} ELSE {"collection-model"}

Init == l = 1 /\ pFail = <<>>
Step == /\ l <= Len(Recs)
        /\ LET r == Recs[l]  rs == Reasons(r)  dr == Drift(r) IN
             /\ (dr # {} /\ rs = {}) => PrintT(<<"DRIFT", l, r.id, dr>>)
             /\ pFail' = IF rs = {} THEN pFail
                         ELSE IF PrintT(<<"PFAIL", l, r.id, rs>>) THEN Append(pFail, l) ELSE pFail
        /\ l' = l + 1
Spec == Init /\ [][Step]_vars
Finished == (l = Len(Recs) + 1) => PrintT(<<"RESULT", Len(Recs), Len(pFail)>>)
=============================================================================
