----------------------------- MODULE Trace_C09 -----------------------------
(* kind "fe":   one rule set and one text through every front end of the real tool, judged by FrontEnds.tla *)
(* kind "hist": a notification history sent to the real language server, judged by LspAbs.tla; `allowed`   *)
(*              holds the publish sequences MC_C09 (Lsp.tla) reached for this very history                  *)
EXTENDS FrontEnds, LspAbs, SequencesExt, Json, IOUtils, TLC

Recs == ndJsonDeserialize(IOEnv.TRACE)
VARIABLES l, pFail
vars == <<l, pFail>>

JsonShown(xs) == { <<xs[k].rule, xs[k].s, xs[k].e, xs[k].sp[1], xs[k].sp[2], xs[k].ep[1], xs[k].ep[2], xs[k].msg, xs[k].sev>> : k \in 1..Len(xs) }
GithubShown(xs) == { <<xs[k].rule, xs[k].line, xs[k].endLine, xs[k].msg>> : k \in 1..Len(xs) }
ColoredShown(xs) == { <<xs[k].rule, xs[k].line, xs[k].col, xs[k].msg>> : k \in 1..Len(xs) }
LspShown(xs) == { <<xs[k].rule, xs[k].sp[1], xs[k].sp[2], xs[k].ep[1], xs[k].ep[2], xs[k].msg, xs[k].sev>> : k \in 1..Len(xs) }

Cmp(name, shown, n, want) ==
    (IF want \ shown # {} THEN {<<name, "finding-missing">>} ELSE {})
    \cup (IF shown \ want # {} THEN {<<name, "finding-not-in-the-others">>} ELSE {})
    \cup (IF n # Cardinality(shown) THEN {<<name, "duplicate-finding">>} ELSE {})

FeReasons(r) ==
    LET ref == ToSet(r.ref)  raw == ToSet(r.raw)  fe == r.fe  has(n) == n \in DOMAIN fe IN
    UNION { IF has(n) THEN Cmp(n, JsonShown(fe[n]), Len(fe[n]), ExpectedJson(n, ref)) ELSE {}
            : n \in {"cfg-stream", "r-stream", "r-pretty", "r-compact", "stdin"} }
    \cup (IF has("stdin-github") /\ r.exits["stdin-github"].code \notin {0, 1} THEN {<<"stdin-github", "command-failed">>} ELSE {})
    \cup UNION { IF has(n) /\ r.exits[n].code \in {0, 1} THEN
                    LET want == ExpectedGithub(n, ref)  shown == GithubShown(fe[n])
                        hints == { GithubOf(f) : f \in { g \in ref : g.sev = "hint" } } IN
                    IF shown \subseteq want /\ want \ shown # {} /\ (want \ shown) \subseteq hints /\ Len(fe[n]) = Cardinality(shown)
                    THEN {<<n, "known:github-omits-hint">>}
                    ELSE Cmp(n, shown, Len(fe[n]), want)
                 ELSE {} : n \in {"github", "stdin-github"} }
    \* a finding with a fix is reported as a diff: line, no column (recorded as column 0)
    \cup (LET shown == ColoredShown(fe.colored)
              full == ExpectedColored(ref)
              nocol == { <<t[1], t[2], 0, t[4]>> : t \in full }
          \* KNOWN FINDING C09/colored-omits-overlapping-diffs: findings of rules with a fix are shown as diffs, and a diff that
          \* starts inside the range of the previous shown diff of the file is left out (print_diffs), e.g. the inner call of
          \* foo(foo(10)) under rule foo($A) -> foo2($A); every other front end lists both
              fixable(f) == \E k \in 1..Len(r.rules) : r.rules[k].id = f.rule /\ "hasfix" \in DOMAIN r.rules[k] /\ r.rules[k].hasfix
              isShown(f) == ColoredOf(f) \in shown \/ <<f.rule, f.sp[1] + 1, 0, f.msg>> \in shown
              missing == { f \in RefFor("colored", ref) : ~isShown(f) }
              covered == \A f \in missing : fixable(f) /\ \E g \in RefFor("colored", ref) \ missing :
                                                              fixable(g) /\ g # f /\ g.s <= f.s /\ f.s < g.e IN
          (IF missing = {} THEN {} ELSE IF covered THEN {<<"colored", "known:colored-omits-overlapping-diffs">>} ELSE {<<"colored", "finding-missing">>})
          \cup (IF shown \subseteq full \cup nocol THEN {} ELSE {<<"colored", "finding-not-in-the-others">>})
          \cup (IF Len(fe.colored) = Cardinality(RefFor("colored", ref) \ (IF covered THEN missing ELSE {})) THEN {} ELSE {<<"colored", "finding-count">>}))
    \cup Cmp("lsp", LspShown(fe.lsp), Len(fe.lsp), ExpectedLsp(r.rules, ref))
    \cup (IF r.exits.lsp.npub = 1 THEN {} ELSE {<<"lsp", "publish-count">>})
    \cup UNION { IF id \notin DOMAIN fe.test THEN {<<"test", "no-verdict">>}
                 ELSE IF fe.test[id] = ExpectedVerdict(ref, id) THEN {}
                 ELSE IF fe.test[id] = ImplVerdict(raw, id) THEN {<<"test", "known:test-ignores-suppression">>}
                 ELSE {<<"test", "verdict">>} : id \in TestedRules(r.rules, r.lang) }
    \* levels / severities shown with the findings
    \cup UNION { IF has(n) THEN
                   { <<n, "level">> : k \in { k \in 1..Len(fe[n]) :
                        \E f \in ref : GithubOf(f) = <<fe[n][k].rule, fe[n][k].line, fe[n][k].endLine, fe[n][k].msg>>
                                       /\ GithubLevel(f.sev) # fe[n][k].level } }
                 ELSE {} : n \in {"github", "stdin-github"} }
    \cup { <<"colored", "level">> : k \in { k \in 1..Len(fe.colored) :
              \E f \in ref : f.rule = fe.colored[k].rule /\ f.sp[1] + 1 = fe.colored[k].line /\ f.msg = fe.colored[k].msg
                             /\ ColoredLevel(f.sev) # fe.colored[k].level } }

FeDrift(r) ==
    LET ref == ToSet(r.ref) IN
    (IF GithubShown(r.fe.github) = ImplGithub("github", ref) THEN {} ELSE {"github-route"})
    \cup (IF LspShown(r.fe.lsp) = ImplLsp(r.rules, ref) THEN {} ELSE {"lsp-route"})

HistReasons(r) ==
    (IF r.alive THEN {} ELSE {<<"lsp-history", "server-stopped-answering">>})
    \cup (IF NothingOutsideOf(r.pubs, r.outside) THEN {} ELSE {<<"lsp-history", "published-outside-workspace">>})
    \cup (IF ~r.alive \/ NewestPublishedOf(r.sent, r.pubs, r.outside) THEN {} ELSE {<<"lsp-history", "stale-diagnostics-last">>})
HistDrift(r) == IF r.bounded /\ r.pubs \notin ToSet(r.allowed) THEN {"publish-sequence-not-in-model"} ELSE {}

Reasons(r) == IF r.kind = "fe" THEN FeReasons(r) ELSE HistReasons(r)
Drift(r) == IF r.kind = "fe" THEN FeDrift(r) ELSE HistDrift(r)

Init == l = 1 /\ pFail = <<>>
Step == /\ l <= Len(Recs)
        /\ LET r == Recs[l]  rs == Reasons(r)  dr == Drift(r) IN
             /\ (dr # {} /\ rs = {}) => PrintT(<<"DRIFT", l, r.id, dr>>)
             /\ pFail' = IF rs = {} THEN pFail
                         ELSE IF PrintT(<<"PFAIL", l, r.id, rs>>) THEN Append(pFail, l) ELSE pFail
        /\ l' = l + 1
Spec == Init /\ [][Step]_vars
Finished == (l = Len(Recs) + 1) => PrintT(<<"RESULT", Len(Recs), Len(pFail)>>)
=============================================================================
