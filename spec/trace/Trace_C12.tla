----------------------------- MODULE Trace_C12 -----------------------------
(* one record per rule document of MC_C12: what the real loader decided and, when it accepted, what the fix
   produced on `foo(abc)`.
   P: accepted iff Accept(doc) (documents the statement does not decide are skipped); an accepted document
      neither panics nor crashes when applied, and every fix variable is substituted (replacement = expected).
   I: accepted iff AcceptImpl(doc). *)
EXTENDS Json, IOUtils, TLC, Sequences, Naturals

Recs == ndJsonDeserialize(IOEnv.TRACE)
VARIABLES l, pFail
vars == <<l, pFail>>

\* re-defining a matched variable by a transformation key is rejected by the code (AlreadyDefined); the statement
\* neither demands nor forbids it.  No variant of MC_C12 does that, so every document is decided by Accept.
Reasons(r) ==
    LET accepted == r.res.load = "accepted" IN
    (IF r.res.load = "panic" THEN {"load-panicked"} ELSE IF r.res.load = "crash" THEN {"load-crashed"} ELSE {})
    \cup (IF accepted /\ ~r.v.acceptP THEN {"inconsistent-document-accepted"} ELSE {})
    \cup (IF ~accepted /\ r.res.load \notin {"panic", "crash"} /\ r.v.acceptP THEN {"consistent-document-rejected"} ELSE {})
    \cup (IF accepted /\ r.res.apply # "ok" THEN {"accepted-document-crashes-when-applied"} ELSE {})
    \cup (IF accepted /\ r.v.acceptP /\ r.res.apply = "ok" /\ r.v.f # "f0"
          THEN (IF ~r.res.matched THEN {}      \* this combination of parts does not fire on the probe source: nothing to observe
                ELSE IF r.res.replacement = r.expected THEN {} ELSE {"fix-variable-not-substituted"})
          ELSE {})
Drift(r) == IF r.res.load \in {"panic", "crash"} \/ (r.res.load = "accepted") = r.v.acceptI THEN {} ELSE {"accept-model"}

Init == l = 1 /\ pFail = <<>>
Step == /\ l <= Len(Recs)
        /\ LET r == Recs[l]  rs == Reasons(r)  dr == Drift(r) IN
             /\ (dr # {} /\ rs = {}) => PrintT(<<"DRIFT", l, r.id, dr>>)
             /\ pFail' = IF rs = {} THEN pFail
                         ELSE IF PrintT(<<"PFAIL", l, r.id, rs>>) THEN Append(pFail, l) ELSE pFail
        /\ l' = l + 1
Spec == Init /\ [][Step]_vars
Finished == (l = Len(Recs) + 1) => PrintT(<<"RESULT", Len(Recs), Len(pFail)>>)
=============================================================================
