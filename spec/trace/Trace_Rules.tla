---------------------------- MODULE Trace_Rules ----------------------------
(***************************************************************************)
(* Judges rule records: TLC-enumerated rule programs executed by the real  *)
(* code (bare Rule through DeserializeEnv; full RuleConfig with find_all,  *)
(* Visitor and CombinedScan) on every node of a real tree.                 *)
(*  C05 P: verdict on each node = Sem (variable-disjoint rules, unique     *)
(*         fields)                                                          *)
(*  C04 P: verdict and exposed bindings = EvalClean (guarded: the pattern   *)
(*         atoms alone behave as the transcribed matcher predicts)          *)
(*  C01 P: every matched node's kind is in the rule's potential kinds;      *)
(*         find_all = Visitor = CombinedScan = per-node matching in         *)
(*         document order; overlap-free visit = outermost matches           *)
(*  I    : verdict/env = Eval("impl"), potential kinds = PK; the secondary   *)
(*         labels of every match = Labels!LabelsOf("P"), the nodes the      *)
(*         relational rules selected (drift `labels` otherwise)             *)
(***************************************************************************)
EXTENDS RuleGen, Labels, Json, IOUtils, TLC

Us   == JsonDeserialize(IOEnv.UNIVERSE)
Recs == ndJsonDeserialize(IOEnv.TRACE)

VARIABLES l, pFail
vars == <<l, pFail>>

RecPK(pk) == [any |-> pk.any, set |-> ToSet(pk.set)]
FnEq(f, g) == DOMAIN f = DOMAIN g /\ \A k \in DOMAIN f : f[k] = g[k]

EnvOf(r, n) == LET ks == { k \in 1..Len(r.envs) : r.envs[k].n = n } IN
               IF ks = {} THEN [single |-> <<>>, multi |-> <<>>]
               ELSE LET e == r.envs[CHOOSE k \in ks : TRUE] IN [single |-> e.single, multi |-> e.multi]
EnvEq(a, b) == FnEq(a.single, b.single) /\ FnEq(a.multi, b.multi)
LabelsRec(r, n) == LET ks == { k \in 1..Len(r.envs) : r.envs[k].n = n } IN
                   IF ks = {} THEN <<>> ELSE r.envs[CHOOSE k \in ks : TRUE].labels

\* guard of the C04 judgement: every pattern atom alone, on every node, behaves as Match.tla predicts
OracleAgrees(U, tree) ==
    \A i \in 1..Len(U.patterns) : \A n \in 1..Len(tree.T) :
        LET m == Match(U.patterns[i].PT, tree.T, U.patterns[i].strict, n) IN
        /\ m.ok = tree.pv[i][n]
        /\ m.ok => EnvEq(m.env, tree.penv[i][n])

Outermost(T, S) == { m \in S : ~\E a \in S : a # m /\ m \in Desc(T, a) }

Reasons(r) ==
    LET U0 == Us[r.u]
        tree == U0.trees[r.t]
        T == tree.T
        U == [patterns |-> U0.patterns, utils |-> r.utils]
        hits == ToSet(r.hits)
        N == 1..Len(T) IN
    IF r.load # "ok" THEN (IF r.load = "panic" THEN {<<"C11", "load-panic">>} ELSE {})
    ELSE
    (IF r.panic THEN {<<"C11", "match-panic">>} ELSE {})
    \cup (IF HasCons(U, r.rule) \/ ~(VarDisjoint(U, r.rule) /\ FieldsUnique(T, FieldsUsed(U, r.rule))) THEN {}
          ELSE IF \A n \in N : (n \in hits) = Sem(U, T, tree.pv, r.rule, n) THEN {}
          ELSE {<<"C05", "sem">>})
    \cup (IF ~OracleAgrees(U0, tree) THEN {}
          ELSE IF \A n \in N : LET c == Eval("clean", U, T, r.rule, n, EmptyEnv) IN
                               (n \in hits) = c.ok /\ (c.ok => EnvEq(c.env, EnvOf(r, n))) THEN {}
          ELSE {<<"C04", "clean">>})
    \cup (IF \A n \in hits : KindAllowed(RecPK(r.pk), T[n].kid) THEN {} ELSE {<<"C01", "kind-sound">>})
    \cup (IF ~r.cfg.ok THEN {}
          ELSE LET order == SelectSeq(PreOrder(T, 1), LAMBDA n : n \in ToSet(r.cfg.hits)) IN
               (IF r.cfg.hits = r.hits THEN {} ELSE {<<"C01", "rulecore-vs-rule">>})
               \cup (IF \A n \in ToSet(r.cfg.hits) : KindAllowed(RecPK(r.cfg.pk), T[n].kid) THEN {} ELSE {<<"C01", "cfg-kind-sound">>})
               \cup (IF r.cfg.find_all = order THEN {} ELSE {<<"C01", "find_all">>})
               \cup (IF r.cfg.visit = order THEN {} ELSE {<<"C01", "visitor">>})
               \cup (IF r.cfg.combined = order THEN {} ELSE {<<"C01", "combined-scan">>})
               \cup (IF r.cfg.visit_outer = SelectSeq(order, LAMBDA n : n \in Outermost(T, ToSet(r.cfg.hits)))
                     THEN {} ELSE {<<"C01", "overlap-free">>})
               \* Node::replace_all rewrites exactly the matches of that visit, one edit each, in its order
               \cup (IF r.cfg.ra_pos = r.cfg.outer_pos THEN {} ELSE {<<"C01", "overlap-free-rewrite">>}))

Drift(r) ==
    LET U0 == Us[r.u]
        tree == U0.trees[r.t]
        T == tree.T
        U == [patterns |-> U0.patterns, utils |-> r.utils] IN
    IF r.load # "ok" THEN {}
    ELSE (IF \A n \in 1..Len(T) : LET e == Eval("impl", U, T, r.rule, n, EmptyEnv) IN
                                  (n \in ToSet(r.hits)) = e.ok /\ (e.ok => EnvEq(e.env, EnvOf(r, n)))
          THEN {} ELSE {"eval"})
         \cup (IF PK(U, r.rule).any = r.pk.any /\ (~r.pk.any => PK(U, r.rule).set = ToSet(r.pk.set)) THEN {} ELSE {"potential_kinds"})
         \* secondary labels (judged where the oracle of the pattern atoms agrees, so that Eval("clean") is the code's verdict)
         \cup (IF ~OracleAgrees(U0, tree) \/ ~(\A n \in ToSet(r.hits) : Eval("clean", U, T, r.rule, n, EmptyEnv).ok) THEN {}
               ELSE IF \A n \in ToSet(r.hits) : LabelsOf("P", U, T, r.rule, n, EmptyEnv) = LabelsRec(r, n) THEN {}
               ELSE IF \A n \in ToSet(r.hits) : LabelsOf("pre", U, T, r.rule, n, EmptyEnv) = LabelsRec(r, n)
                    THEN {"labels:the-node-the-sub-rule-returned-as-before-fix-7f25c3d"} ELSE {"labels"})

Init == l = 1 /\ pFail = <<>>

Step == /\ l <= Len(Recs)
        /\ LET r == Recs[l]  rs == Reasons(r)  dr == Drift(r) IN
             /\ (dr # {}) => PrintT(<<"DRIFT", l, r.id, dr>>)
             /\ pFail' = IF rs = {} THEN pFail
                         ELSE IF PrintT(<<"PFAIL", l, r.id, rs>>) THEN Append(pFail, l) ELSE pFail
        /\ l' = l + 1

Spec == Init /\ [][Step]_vars
Finished == (l = Len(Recs) + 1) => PrintT(<<"RESULT", Len(Recs), Len(pFail)>>)
=============================================================================
