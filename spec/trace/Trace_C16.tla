----------------------------- MODULE Trace_C16 -----------------------------
(* one record per CLI invocation: the scanned files (characters + character classes) and everything printed.
   P: every JSON item agrees with the bytes on disk (text, zero-based line / character column, whole lines with
      the requested context, charCount, meta-variables, replacementOffsets in range), the output parsed
      (well-formed for the style), every `path:line:text` entry carries the text of that 1-based line.
   I: lines/startLine as the byte loops of display_context compute them. *)
EXTENDS JsonOut, Merger, Json, IOUtils

Recs == ndJsonDeserialize(IOEnv.TRACE)
VARIABLES l, pFail
vars == <<l, pFail>>

EmptyFile == [path |-> "", chars |-> <<>>, cw |-> <<>>, lines |-> <<>>, st |-> <<0>>]
FileOf(r, path) == LET ks == { k \in 1..Len(r.files) : r.files[k].path = path } IN
                   IF ks = {} THEN EmptyFile ELSE r.files[CHOOSE k \in ks : TRUE]

\* The start offsets f.st are supplied with the record (computing them in TLC is quadratic) and verified here;
\* the operators below are the definitions of Positions.tla / JsonOut.tla specialised to a given offset table.
StOK(f) == /\ Len(f.st) = Len(f.cw) + 1 /\ f.st[1] = 0
           /\ \A i \in 1..Len(f.cw) : f.st[i + 1] = f.st[i] + W(f.cw[i])
LenB(f) == f.st[Len(f.st)]
NLs(f) == { i \in 1..Len(f.cw) : f.cw[i] = 0 }
CharIdx(f, off) == Cardinality({ i \in 1..Len(f.cw) : f.st[i] < off })          \* characters starting before off
OnBoundary(f, off) == \E k \in 1..Len(f.st) : f.st[k] = off
LineF(f, off) == Cardinality({ i \in NLs(f) : f.st[i] < off })
ColF(f, off) == LET before == { i \in NLs(f) : f.st[i] < off }
                    ls == IF before = {} THEN 1 ELSE (CHOOSE i \in before : \A j \in before : j <= i) + 1 IN
                CharIdx(f, off) - (ls - 1)
Slice(f, a, b) == LET k0 == CharIdx(f, a)  n == CharIdx(f, b) - CharIdx(f, a) IN [k \in 1..n |-> f.chars[k0 + k]]
\* whole lines covering [s, e) plus context (ContextP of JsonOut.tla)
LineStartF(f, k) == IF k = 0 THEN 0
                    ELSE IF Cardinality(NLs(f)) < k THEN LenB(f)
                    ELSE f.st[(CHOOSE i \in NLs(f) : Cardinality({ j \in NLs(f) : j <= i }) = k) + 1]
LineEndF(f, k) == IF Cardinality(NLs(f)) <= k THEN LenB(f)
                  ELSE f.st[CHOOSE i \in NLs(f) : Cardinality({ j \in NLs(f) : j <= i }) = k + 1]
ContextF(f, s, e, before, after) ==
    LET l0 == LineF(f, s)  l1 == LineF(f, IF e > LenB(f) THEN LenB(f) ELSE e)
        first == IF l0 >= before THEN l0 - before ELSE 0 IN
    [lead |-> LineStartF(f, first), trail |-> LineEndF(f, l1 + after)]

RangeReasons(f, rg, text, what) ==
    IF ~(rg.s <= rg.e /\ rg.e <= LenB(f) /\ OnBoundary(f, rg.s) /\ OnBoundary(f, rg.e)) THEN {<<what, "range-outside-file">>}
    ELSE (IF text = Slice(f, rg.s, rg.e) THEN {} ELSE {<<what, "text-differs-from-bytes">>})
         \cup (IF <<rg.sl, rg.sc>> = <<LineF(f, rg.s), ColF(f, rg.s)>> THEN {} ELSE {<<what, "start-position">>})
         \cup (IF <<rg.el, rg.ec>> = <<LineF(f, rg.e), ColF(f, rg.e)>> THEN {} ELSE {<<what, "end-position">>})

ItemReasons(r, it) ==
    LET f == FileOf(r, it.file) IN
    IF f.path = "" THEN {<<"item", "unknown-file">>}
    ELSE IF ~StOK(f) THEN {<<"harness", "offset-table">>}
    ELSE RangeReasons(f, it.range, it.text, "match")
         \cup UNION { RangeReasons(f, it.mvs[k].range, it.mvs[k].text, "meta-variable") : k \in 1..Len(it.mvs) }
         \cup (IF ~(it.range.s <= it.range.e /\ it.range.e <= LenB(f)) THEN {}
               ELSE LET c == ContextF(f, it.range.s, it.range.e, r.before, r.after) IN
                    (IF it.lines = Slice(f, c.lead, c.trail) THEN {} ELSE {<<"lines", "not-the-covering-lines">>})
                    \cup (IF it.lead = CharIdx(f, it.range.s) - CharIdx(f, c.lead) /\ it.trail = CharIdx(f, c.trail) - CharIdx(f, it.range.e)
                          THEN {} ELSE {<<"charCount", "wrong">>}))
         \cup (IF ~it.hasRepl \/ (it.rs <= it.re /\ it.re <= LenB(f) /\ OnBoundary(f, it.rs) /\ OnBoundary(f, it.re)) THEN {}
               ELSE {<<"replacementOffsets", "outside-file">>})

EntryReasons(r, en) ==
    LET f == FileOf(r, en.path) IN
    IF f.path = "" THEN {<<"entry", "unknown-file">>}
    ELSE IF en.line >= 1 /\ en.line <= Len(f.lines) /\ f.lines[en.line] = en.text THEN {} ELSE {<<"entry", "not-the-text-of-that-line">>}

Reasons(r) ==
    (IF r.parsed THEN {} ELSE {<<"output", "not-well-formed">>})
    \cup UNION { ItemReasons(r, r.items[k]) : k \in 1..Len(r.items) }
    \cup UNION { EntryReasons(r, r.entries[k]) : k \in 1..Len(r.entries) }

\* ---- which lines the plain report prints (Merger.tla; beyond the statement of C16: reported, never an alarm) -------
NLinesOf(f) == IF Len(f.lines) > 0 /\ f.lines[Len(f.lines)] = "" THEN Len(f.lines) - 1 ELSE Len(f.lines)
TwinOf(r, path) == LET idx == SelectSeq([k \in 1..Len(r.twin) |-> k], LAMBDA k : r.twin[k].file = path) IN
                   [j \in 1..Len(idx) |-> [s |-> r.twin[idx[j]].s, e |-> r.twin[idx[j]].e, sl |-> r.twin[idx[j]].sl, el |-> r.twin[idx[j]].el]]
PrintedOf(r, path) == LET idx == SelectSeq([k \in 1..Len(r.entries) |-> k], LAMBDA k : r.entries[k].path = path) IN
                      [j \in 1..Len(idx) |-> r.entries[idx[j]].line]
MergerDrift(r) ==
    IF r.style # "plain" \/ r.scan \/ r.rewrite \/ ~r.parsed THEN {}
    ELSE UNION { LET f == r.files[k]  ms == TwinOf(r, f.path)  got == PrintedOf(r, f.path)  n == NLinesOf(f) IN
                 IF ~WellNested(ms) THEN {}
                 ELSE (IF { got[i] : i \in 1..Len(got) } = PrintedP(n, ms, r.before, r.after) /\ (\A i \in 1..(Len(got) - 1) : got[i] < got[i + 1])
                       THEN {} ELSE {"ext:lines-printed-are-not-the-union-of-the-match-windows"})
                      \cup (IF got = LinesOf(GroupsI(n, ms, r.before, r.after)) THEN {} ELSE {"merger-model"})
               : k \in 1..Len(r.files) }

\* the byte loops of display_context (I level) are compared on texts short enough for the quadratic operators
Drift(r) == MergerDrift(r) \cup
    UNION { LET it == r.items[k]  f == FileOf(r, it.file) IN
            IF f.path = "" \/ Len(f.cw) > 120 \/ ~(it.range.s <= it.range.e /\ it.range.e <= LenB(f)) THEN {}
            ELSE LET c == DisplayContextI(f.cw, it.range.s, it.range.e, r.before, r.after) IN
                 IF it.lines = Slice(f, c.lead, c.trail) THEN {} ELSE {"display_context-model"}
          : k \in 1..Len(r.items) }

Init == l = 1 /\ pFail = <<>>
Step == /\ l <= Len(Recs)
        /\ LET r == Recs[l]  rs == Reasons(r)  dr == Drift(r) IN
             /\ (dr # {} /\ rs = {}) => PrintT(<<"DRIFT", l, r.id, dr>>)
             /\ pFail' = IF rs = {} THEN pFail
                         ELSE IF PrintT(<<"PFAIL", l, r.id, rs>>) THEN Append(pFail, l) ELSE pFail
        /\ l' = l + 1
Spec == Init /\ [][Step]_vars
Finished == (l = Len(Recs) + 1) => PrintT(<<"RESULT", Len(Recs), Len(pFail)>>)
=============================================================================
