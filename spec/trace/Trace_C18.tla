----------------------------- MODULE Trace_C18 -----------------------------
(* one record per invocation of `... -U` on a materialised project (each project is invoked twice): the files
   before and after, the edits the same command announces under --json, the "Applied N" count.
   P: every file = FinalP(before, announced edits of that file) - hence byte-identical when nothing was
      announced for it - and N = number of accepted edits.
   I: UpdateAll.tla - one write per document payload (from the `write` hook events). *)
EXTENDS Replace, Json, IOUtils

Recs == ndJsonDeserialize(IOEnv.TRACE)
VARIABLES l, pFail
vars == <<l, pFail>>

AsEdit(a) == [pos |-> a.pos, del |-> a.del, ins |-> a.ins]
EditsOf(r, path) == LET idx == SelectSeq([k \in 1..Len(r.announced) |-> k], LAMBDA k : r.announced[k].path = path) IN
                    [j \in 1..Len(idx) |-> AsEdit(r.announced[idx[j]])]
LangsOf(r, path) == { r.announced[k].lang : k \in { j \in 1..Len(r.announced) : r.announced[j].path = path } }

\* up to 12 announced edits per file the order-free statement is used (--json lists findings rule by rule in an
\* order that varies from run to run); beyond that the announced order is taken as the order of application
CountFor(f, es) == IF Len(es) <= 12 THEN AcceptedCount(f.before, es, f.after)
                   ELSE IF f.after = FinalP(f.before, es) THEN Len(AcceptAll(es, 1, <<>>)) ELSE -1
FileReasons(r, f) ==
    LET es == EditsOf(r, f.path) IN
    IF CountFor(f, es) >= 0 THEN {}
    ELSE IF es = <<>> THEN {<<"file-without-announced-edits-changed", f.path>>}
    ELSE {<<"file-differs-from-announced-edits", f.path>>}

Reasons(r) ==
    UNION { FileReasons(r, r.files[k]) : k \in 1..Len(r.files) }
    \cup (LET total == FoldLeft(LAMBDA acc, f : acc + (IF CountFor(f, EditsOf(r, f.path)) < 0 THEN 0 ELSE CountFor(f, EditsOf(r, f.path))), 0, r.files) IN
          IF r.applied = total \/ \E k \in 1..Len(r.files) : CountFor(r.files[k], EditsOf(r, r.files[k].path)) < 0 THEN {} ELSE {<<"applied-count", "">>})
    \cup (IF r.codes[2] = 0 THEN {} ELSE {<<"update-all-exit-status", "">>})

Drift(r) ==
    \* the model writes a file once per document that has accepted edits
    LET expected == FoldLeft(LAMBDA acc, f : acc + Cardinality(LangsOf(r, f.path)), 0, r.files) IN
    IF Len(r.writes) = expected THEN {} ELSE {"writes-per-document"}

Init == l = 1 /\ pFail = <<>>
Step == /\ l <= Len(Recs)
        /\ LET r == Recs[l]  rs == Reasons(r)  dr == Drift(r) IN
             /\ (dr # {} /\ rs = {}) => PrintT(<<"DRIFT", l, r.id, dr>>)
             /\ pFail' = IF rs = {} THEN pFail
                         ELSE IF PrintT(<<"PFAIL", l, r.id, rs>>) THEN Append(pFail, l) ELSE pFail
        /\ l' = l + 1
Spec == Init /\ [][Step]_vars
Finished == (l = Len(Recs) + 1) => PrintT(<<"RESULT", Len(Recs), Len(pFail)>>)
=============================================================================
