SPECIFICATION Spec
CONSTANT MULTI = TRUE
INVARIANT Finished
CHECK_DEADLOCK FALSE
