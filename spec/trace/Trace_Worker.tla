---------------------------- MODULE Trace_Worker ----------------------------
(***************************************************************************)
(* One `sg run -j N` execution.  Line 1 of the trace is the run's config   *)
(* and outcome, the remaining lines are the hook events in emission order. *)
(*  P (alarm, needs no hook): the printed records are, as a bag, the union *)
(*    of the per-file runs; the output parsed; scanned = files of the tree,*)
(*    skipped = faulty files; exit status 0.                               *)
(*  I (drift): the event sequence is a behaviour of Worker.tla - every     *)
(*    event is the next step of the named action with the logged thread    *)
(*    and file, and Worker's invariants hold in every state on the way.    *)
(***************************************************************************)
EXTENDS Worker, WorkerOutcome, Json, IOUtils

Recs == ndJsonDeserialize(IOEnv.TRACE)
Cfg == Recs[1]
Events == Tail(Recs)

TraceFiles == ToSet(Cfg.files)
TraceOutcome == [f \in TraceFiles |-> Cfg.outcome[CHOOSE k \in 1..Len(Cfg.files) : Cfg.files[k] = f]]
TraceThreads == ToSet(Cfg.tids)

VARIABLE l
tvars == <<vars, l>>

Ev(name) == l <= Len(Events) /\ Events[l].ev = name /\ l' = l + 1

TraceInit == Init /\ l = 1
TraceNext ==
    \/ /\ Ev("file_start") /\ Take(Events[l].tid, Events[l].path)
    \/ /\ Ev("file_skip")  /\ cur[Events[l].tid] = Events[l].path /\ Fail(Events[l].tid)
    \/ /\ Ev("send")       /\ cur[Events[l].tid] = Events[l].path
                           /\ Events[l].i = Items(Events[l].path) - left[Events[l].tid] /\ Send(Events[l].tid)
    \/ /\ Ev("file_done")  /\ cur[Events[l].tid] = Events[l].path /\ Finish(Events[l].tid)
    \/ /\ Ev("walk_done")  /\ WalkDone
    \/ /\ Ev("recv")       /\ Recv
    \/ /\ Ev("chan_closed") /\ ConsumerDone
    \/ /\ Ev("consume_done") /\ consumerDone /\ UNCHANGED vars
TraceSpec == TraceInit /\ [][TraceNext]_tvars

\* ---- acceptance ------------------------------------------------------------
\* `scan` runs use an error-level rule: the exit status is 1 exactly when the model's tally of the sends is positive
TallyReasons == IF Cfg.front = "scan" /\ l = Len(Events) + 1 /\ ((acc.total > 0) # (Cfg.exit = 1))
                THEN {"exit-status-tally"} ELSE {}
OutcomeReasons == OutcomeReasonsOf(Cfg)

\* printed when the last event has been consumed (or from the postcondition when the trace was rejected)
Accepted == (l = Len(Events) + 1) =>
               PrintT(<<"ACCEPTED", Cfg.id, Len(Events), consumerDone, OutcomeReasons \cup TallyReasons>>)
Post == IF TLCGet("stats").diameter - 1 = Len(Events) THEN TRUE
        ELSE PrintT(<<"REJECTED", Cfg.id, TLCGet("stats").diameter - 1, Len(Events), OutcomeReasons>>)
=============================================================================
