----------------------------- MODULE Trace_C10 -----------------------------
(***************************************************************************)
(* One record per edit step of a history applied through AstGrep::edit.    *)
(*  P (the property's own oracle): the text is the spliced text, and when  *)
(*    that text parses without errors the document's tree (kind, range of  *)
(*    every node in DFS order) equals the tree of a fresh parse.           *)
(*  I (DocEdit.tla, from the hook trace): the InputEdit's byte offsets and *)
(*    points are those of the specification, and the InputEdit is applied  *)
(*    to the old tree exactly once before the re-parse.                    *)
(***************************************************************************)
EXTENDS Positions, Replace, Json, IOUtils, TLC

Recs == ndJsonDeserialize(IOEnv.TRACE)
VARIABLES l, pFail
vars == <<l, pFail>>

Ev(r, name) == SelectSeq(r.events, LAMBDA e : e.ev = name)

\* the steps of the edit as the hooks saw them: one accepted edit whose byte and point coordinates are those of the
\* splice, one tree.edit, one reparse
StepsAsModelled(r) ==
    /\ Len(Ev(r, "accept_edit")) = 1 /\ Len(Ev(r, "tree_edit")) = 1 /\ Len(Ev(r, "reparse")) = 1
    /\ LET a == Ev(r, "accept_edit")[1] IN
       /\ <<a.start, a.old_end, a.new_end>> = <<r.edit.pos, r.edit.pos + r.edit.del, r.edit.pos + Len(r.edit.ins)>>
       /\ a.sp = PositionForOffset(r.cw, a.start) /\ a.oep = PositionForOffset(r.cw, a.old_end)
       /\ a.nep = PositionForOffset(r.cwAfter, a.new_end)

Reasons(r) ==
    IF r.panic THEN {"edit-panicked"}
    ELSE (IF r.after = Splice(r.before, <<[pos |-> r.edit.pos, del |-> r.edit.del, ins |-> r.edit.ins]>>) THEN {} ELSE {"text-not-spliced"})
         \cup (IF r.fresh_error \/ r.inc = r.fresh THEN {}
               \* listed finding: the parser library's error recovery leaves an ERROR/MISSING node in the re-used tree
               \* that a parse from scratch does not produce, although ast-grep performed the edit exactly as modelled
               ELSE IF r.inc_error /\ StepsAsModelled(r) THEN {"known:incremental-error-recovery"}
               ELSE {"tree-differs-from-fresh-parse"})

Drift(r) ==
    IF r.panic THEN {}
    ELSE
    LET acc == Ev(r, "accept_edit") IN
    (IF Len(acc) # 1 THEN {"accept_edit-count"}
     ELSE LET a == acc[1]
              newEnd == r.edit.pos + Len(r.edit.ins) IN
          (IF <<a.start, a.old_end, a.new_end>> = <<r.edit.pos, r.edit.pos + r.edit.del, newEnd>> THEN {} ELSE {"input-edit-bytes"})
          \cup (IF /\ a.sp = PositionForOffset(r.cw, a.start)
                   /\ a.oep = PositionForOffset(r.cw, a.old_end)
                   /\ a.nep = PositionForOffset(r.cwAfter, a.new_end) THEN {} ELSE {"input-edit-points"}))
    \cup (IF Len(Ev(r, "tree_edit")) = 1 THEN {} ELSE {"tree_edit-count"})
    \cup (IF Len(Ev(r, "reparse")) = 1 THEN {} ELSE {"reparse-count"})

Init == l = 1 /\ pFail = <<>>
Step == /\ l <= Len(Recs)
        /\ LET r == Recs[l]  rs == Reasons(r)  dr == Drift(r) IN
             /\ (dr # {} /\ rs = {}) => PrintT(<<"DRIFT", l, r.id, dr>>)
             /\ pFail' = IF rs = {} THEN pFail
                         ELSE IF PrintT(<<"PFAIL", l, r.id, rs>>) THEN Append(pFail, l) ELSE pFail
        /\ l' = l + 1
Spec == Init /\ [][Step]_vars
Finished == (l = Len(Recs) + 1) => PrintT(<<"RESULT", Len(Recs), Len(pFail)>>)
=============================================================================
