--------------------------- MODULE Trace_WorkerBig ---------------------------
(***************************************************************************)
(* Runs over hundreds of files: thousands of hook events, too long to be   *)
(* replayed step by step through Worker.tla.  The outcome is judged as in  *)
(* Trace_Worker (WorkerOutcome.tla); of the events only the counting facts *)
(* Worker.tla implies are checked: every file is started exactly once,      *)
(* every item sent is received, a skipped file sends nothing.               *)
(***************************************************************************)
EXTENDS WorkerOutcome, Json, IOUtils, TLC

Recs == ndJsonDeserialize(IOEnv.TRACE)
Cfg == Recs[1]
Events == Tail(Recs)
Count(P(_)) == Cardinality({ k \in 1..Len(Events) : P(Events[k]) })
EventFacts ==
    LET starts == [f \in ToSet(Cfg.all_files) |-> Cardinality({ k \in 1..Len(Events) : Events[k].ev = "file_start" /\ Events[k].path = f })] IN
    (IF \A f \in DOMAIN starts : starts[f] <= 1 THEN {} ELSE {"file-started-twice"})
    \cup (IF Count(LAMBDA e : e.ev = "send") = Count(LAMBDA e : e.ev = "recv") THEN {} ELSE {"sent-items-not-all-received"})
    \cup (IF \A k \in 1..Len(Events) : Events[k].ev = "file_skip" =>
              ~\E j \in 1..Len(Events) : Events[j].ev = "send" /\ Events[j].path = Events[k].path THEN {} ELSE {"skipped-file-sent-items"})

VARIABLE done
Init == done = FALSE
Next == ~done /\ done' = TRUE
Spec == Init /\ [][Next]_done
Accepted == done => PrintT(<<"ACCEPTED", Cfg.id, Len(Events), TRUE, OutcomeReasonsOf(Cfg) \cup EventFacts>>)
=============================================================================
