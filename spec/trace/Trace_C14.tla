----------------------------- MODULE Trace_C14 -----------------------------
(* every record: one suppression layout (from MC_C14) scanned by one front end (library CombinedScan::scan with
   both separate_fix values, or `sg scan --json` in a project); reported findings and unused-suppression reports
   are judged by the statement of C14 (P) and compared with the table model (I) *)
EXTENDS Suppress, SequencesExt, Json, IOUtils, TLC

Recs == ndJsonDeserialize(IOEnv.TRACE)
VARIABLES l, pFail
vars == <<l, pFail>>

FileOf(layout) == [k \in 1..Len(layout) |->
    [kind |-> layout[k].kind,
     stmts |-> [j \in 1..Len(layout[k].stmts) |-> ToSet(layout[k].stmts[j])],
     trail |-> ToSet(layout[k].trail), ids |-> ToSet(layout[k].ids)]]

Reported(r) == { [line |-> r.findings[k].line, k |-> r.findings[k].k, rule |-> r.findings[k].rule] : k \in 1..Len(r.findings) }

Reasons(r) ==
    LET file == FileOf(r.layout) IN
    (IF Reported(r) = ReportedP(file) THEN {}
     ELSE (IF Reported(r) \ ReportedP(file) # {} THEN {"suppressed-finding-reported"} ELSE {})
          \cup (IF ReportedP(file) \ Reported(r) # {} THEN {"finding-wrongly-suppressed"} ELSE {}))
    \cup (IF ToSet(r.unused) = { c.line : c \in UnusedP(file) } /\ Len(r.unused) = Cardinality(ToSet(r.unused)) THEN {}
          ELSE {"unused-suppression-report"})
    \* the project's second file: one suppression comment that silences nothing, whether or not any rule applies to the file
    \cup (IF ~r.outside.checked \/ r.outside.reports = << <<"unused-suppression", r.outside.line>> >> THEN {}
          ELSE {"unused-suppression-report-in-the-second-file"})
Drift(r) ==
    LET file == FileOf(r.layout) IN
    IF Reported(r) = ReportedI(file) /\ ToSet(r.unused) = { c.line : c \in UnusedI(file) } THEN {} ELSE {"table-model"}

Init == l = 1 /\ pFail = <<>>
Step == /\ l <= Len(Recs)
        /\ LET r == Recs[l]  rs == Reasons(r)  dr == Drift(r) IN
             /\ (dr # {} /\ rs = {}) => PrintT(<<"DRIFT", l, r.id, dr>>)
             /\ pFail' = IF rs = {} THEN pFail
                         ELSE IF PrintT(<<"PFAIL", l, r.id, rs>>) THEN Append(pFail, l) ELSE pFail
        /\ l' = l + 1
Spec == Init /\ [][Step]_vars
Finished == (l = Len(Recs) + 1) => PrintT(<<"RESULT", Len(Recs), Len(pFail)>>)
=============================================================================
