SPECIFICATION Spec
CONSTANT LookBehind = 512
INVARIANT Finished
CHECK_DEADLOCK FALSE
