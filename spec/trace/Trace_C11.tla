----------------------------- MODULE Trace_C11 -----------------------------
(* one record per generated (or byte-mutated) document; each was offered to the real CLI in several roles, every
   role in an isolated child under a timeout.  C11: every child either succeeds or exits with an error; a panic,
   a fatal signal (stack overflow, abort) or a hang is a violation. *)
EXTENDS Json, IOUtils, TLC, Sequences, Naturals

Recs == ndJsonDeserialize(IOEnv.TRACE)
VARIABLES l, pFail
vars == <<l, pFail>>

\* KNOWN FINDING C11/relational-util-cycle: a utility that refers to itself through both a descending (`has`) and an
\* ascending (`inside`) relation is accepted and recurses without bound while scanning
\* (a byte-mutated document is recognised by its text: the recorder says whether the construct survived the mutation)
KnownDoc(r) == IF r.mutation THEN r.doc.keeps_relational_cycle ELSE r.doc.matches = "cycle_via_relation"
\* KNOWN FINDING C11/rewriter-self-recursion: a rewriter whose own `rewrite` transformation applies the rewriter itself to
\* the very node it matched (rule `pattern: $B`, transform `rewrite: {source: $B, rewriters: [itself]}`) is accepted and
\* recurses without bound while scanning
KnownRw(r) == IF r.mutation THEN r.doc.keeps_self_rewriter ELSE r.doc.rewriters = "self_on_same_node"

Reasons(r) ==
    { IF KnownDoc(r) /\ r.runs[k].outcome = "signal" THEN <<"known:relational-util-cycle", r.runs[k].mode>>
      ELSE IF KnownRw(r) /\ r.runs[k].outcome = "signal" THEN <<"known:rewriter-self-recursion", r.runs[k].mode>>
      ELSE <<r.runs[k].outcome, r.runs[k].mode>>
      : k \in { j \in 1..Len(r.runs) : r.runs[j].outcome \notin {"ok", "error"} } }

Init == l = 1 /\ pFail = <<>>
Step == /\ l <= Len(Recs)
        /\ LET r == Recs[l]  rs == Reasons(r) IN
             pFail' = IF rs = {} THEN pFail
                      ELSE IF PrintT(<<"PFAIL", l, r.id, rs>>) THEN Append(pFail, l) ELSE pFail
        /\ l' = l + 1
Spec == Init /\ [][Step]_vars
Finished == (l = Len(Recs) + 1) => PrintT(<<"RESULT", Len(Recs), Len(pFail)>>)
=============================================================================
