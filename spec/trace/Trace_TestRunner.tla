-------------------------- MODULE Trace_TestRunner --------------------------
(* each record: one test file of MC_TestRunner run by the real `sg test` (flags of the vector), then plain      *)
(* `sg test`, then `sg test -U`, then plain again.                                                               *)
(*  C09 (alarm): with snapshots skipped, a text passes exactly when valid = no finding / invalid = a finding;    *)
(*               the exit status is 0 exactly when every text passes                                             *)
(*  C13 (alarm): after --update-all a plain run complains about no snapshot, passes iff the verdicts hold, and   *)
(*               a second --update-all leaves the snapshot file byte-identical                                    *)
(*  drift      : the marks of the summary line are those of TestRunner.tla in all four runs                       *)
EXTENDS TestRunner, SequencesExt, Json, IOUtils, TLC

Recs == ndJsonDeserialize(IOEnv.TRACE)
VARIABLES l, pFail
vars == <<l, pFail>>

CasesOf(r) == [k \in 1..Len(r.cases) |-> [kind |-> r.cases[k].kind, hit |-> r.cases[k].hit, snap |-> r.cases[k].snap]]
\* the summary line lists the valid cases first, then the invalid ones
Ordered(cs) == SelectSeq(cs, LAMBDA c : c.kind = "valid") \o SelectSeq(cs, LAMBDA c : c.kind = "invalid")

Reasons(r) ==
    LET cs == Ordered(CasesOf(r)) IN
    (IF r.skip /\ Len(r.marks) = Len(cs) /\ \E k \in 1..Len(cs) : (r.marks[k] = ".") # VerdictP(cs[k])
     THEN {<<"C09", "test-verdict">>} ELSE {})
    \cup (IF r.skip /\ (r.exit = 0) # (\A k \in 1..Len(cs) : VerdictP(cs[k])) THEN {<<"C09", "test-exit-status">>} ELSE {})
    \cup (IF r.update /\ (\E k \in 1..Len(r.marks2) : r.marks2[k] = "W") THEN {<<"C13", "snapshot-wrong-after-update-all">>} ELSE {})
    \cup (IF r.update /\ (r.exit2 = 0) # (\A k \in 1..Len(cs) : VerdictP(cs[k])) THEN {<<"C13", "test-after-update-all">>} ELSE {})
    \cup (IF r.snap_changed_by_second_update THEN {<<"C13", "second-update-all-changes-snapshots">>} ELSE {})
    \cup (IF \E k \in 1..Len(r.marks4) : r.marks4[k] = "W" THEN {<<"C13", "snapshot-wrong-after-update-all">>} ELSE {})
Drift(r) ==
    LET cs == Ordered(CasesOf(r))
        a1 == AfterI(cs, r.skip, r.update)
        a3 == AfterI(a1, FALSE, TRUE) IN
    (IF r.marks = MarksI(cs, r.skip, r.update) /\ (r.exit = 0) = PassI(cs, r.skip, r.update) THEN {} ELSE {"run-1"})
    \cup (IF r.marks2 = MarksI(a1, FALSE, FALSE) /\ (r.exit2 = 0) = PassI(a1, FALSE, FALSE) THEN {} ELSE {"run-2-plain"})
    \cup (IF r.marks3 = MarksI(a1, FALSE, TRUE) THEN {} ELSE {"run-3-update"})
    \cup (IF r.marks4 = MarksI(a3, FALSE, FALSE) THEN {} ELSE {"run-4-plain"})

Init == l = 1 /\ pFail = <<>>
Step == /\ l <= Len(Recs)
        /\ LET r == Recs[l]  rs == Reasons(r)  dr == Drift(r) IN
             /\ (dr # {} /\ rs = {}) => PrintT(<<"DRIFT", l, r.id, dr>>)
             /\ pFail' = IF rs = {} THEN pFail
                         ELSE IF PrintT(<<"PFAIL", l, r.id, rs>>) THEN Append(pFail, l) ELSE pFail
        /\ l' = l + 1
Spec == Init /\ [][Step]_vars
Finished == (l = Len(Recs) + 1) => PrintT(<<"RESULT", Len(Recs), Len(pFail)>>)
=============================================================================
