----------------------------- MODULE Trace_Walk -----------------------------
(* each record: one `sgv run -p 'foo($A)'` over the tree of Walk.tla and the files it reported.                        *)
(*  I    the files are ScannedI (the order of the walk's filters); else DRIFT walk-model                               *)
(*  ext  where that differs from the documented reading ScannedP (no listed property speaks about which files are      *)
(*       walked): reported as an extension finding                                                                      *)
EXTENDS Walk, Json, IOUtils, TLC

Recs == ndJsonDeserialize(IOEnv.TRACE)
VARIABLES l, pFail
tvars == <<l, pFail, lang, noIgnore, globs, target>>

ToSet(s) == { s[k] : k \in 1..Len(s) }
Drift(r) ==
    LET ni == ToSet(r.no_ignore)  real == ToSet(r.files) IN
    IF r.exit \notin {0, 1} THEN {"run-failed"}
    ELSE (IF real = PathsOf(ScannedI(r.lang, ni, r.globs, r.target)) THEN {} ELSE {"walk-model"})
         \cup (IF real = PathsOf(ScannedP(r.lang, ni, r.globs, r.target)) THEN {}
               ELSE {"ext:files-walked-differ-from-the-documented-filters"})

TInit == l = 1 /\ pFail = <<>> /\ lang = "infer" /\ noIgnore = {} /\ globs = <<>> /\ target = "tree"   \* Walk's variables are not used
TStep == /\ l <= Len(Recs)
         /\ LET r == Recs[l]  dr == Drift(r) IN
              (dr # {}) => PrintT(<<"DRIFT", l, r.id, dr>>)
         /\ l' = l + 1 /\ UNCHANGED <<pFail, lang, noIgnore, globs, target>>
TSpec == TInit /\ [][TStep]_tvars
Finished == (l = Len(Recs) + 1) => PrintT(<<"RESULT", Len(Recs), Len(pFail)>>)
=============================================================================
