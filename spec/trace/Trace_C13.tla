----------------------------- MODULE Trace_C13 -----------------------------
(* one record per permutation of the project (map keys and rule file names permuted; record 1 is the
   unpermuted project); each record holds N runs in fresh processes (new hash seeds).
   P: the canonicalised findings / messages / fixes and the exit status of EVERY run of EVERY permutation are
      those of the first run of the first record; `sg test -U` then `sg test` passes and the snapshot files are
      byte-identical everywhere.
   I: every topo_order hook event is explained by TopoSort.tla: the result is a permutation of the iterated
      keys in which every key comes after the keys it depends on. *)
EXTENDS Json, IOUtils, TLC, Sequences, Naturals, FiniteSets

Recs == ndJsonDeserialize(IOEnv.TRACE)
VARIABLES l, pFail
vars == <<l, pFail>>

Ref == Recs[1].runs[1]
RefSnap == Recs[1].snaps[1]

Reasons(r) ==
    UNION { (IF r.runs[k].out = Ref.out THEN {} ELSE {<<"findings-differ", r.runs[k].k>>})
            \cup (IF r.runs[k].exit = Ref.exit THEN {} ELSE {<<"exit-differs", r.runs[k].k>>}) : k \in 1..Len(r.runs) }
    \cup UNION { (IF r.snaps[k].update_exit = 0 /\ r.snaps[k].verify_exit = 0 THEN {} ELSE {<<"test-after-update-fails", k>>})
                 \cup (IF r.snaps[k].r1 = RefSnap.r1 /\ r.snaps[k].r2 = RefSnap.r2 THEN {} ELSE {<<"snapshot-bytes-differ", k>>}) : k \in 1..Len(r.snaps) }
    \* the fixes `scan -U` writes (several rules fix the same nodes) are the same whatever the order of keys and files
    \cup (IF r.updated = Recs[1].updated THEN {} ELSE {<<"files-after-update-differ", 0>>})

ToSet(s) == { s[i] : i \in 1..Len(s) }
Index(s, x) == CHOOSE i \in 1..Len(s) : s[i] = x
Graphs(r) == { r.graphs.utils, r.graphs.utils2, r.graphs.transform, r.graphs.globals }
GraphFor(r, keys) == CHOOSE g \in Graphs(r) : DOMAIN g = keys
TopoOK(r, e) ==
    LET keys == ToSet(e.iter) IN
    /\ e.cyclic = ""
    /\ Len(e.order) = Len(e.iter) /\ ToSet(e.order) = keys /\ Cardinality(keys) = Len(e.iter)
    /\ \E g \in Graphs(r) : DOMAIN g = keys
    /\ LET g == GraphFor(r, keys) IN
       \A a \in keys : \A j \in 1..Len(g[a]) : g[a][j] \in keys => Index(e.order, g[a][j]) < Index(e.order, a)
Drift(r) == IF \A k \in 1..Len(r.runs) : \A j \in 1..Len(r.runs[k].topo) : TopoOK(r, r.runs[k].topo[j]) THEN {} ELSE {"toposort-model"}

Init == l = 1 /\ pFail = <<>>
Step == /\ l <= Len(Recs)
        /\ LET r == Recs[l]  rs == Reasons(r)  dr == Drift(r) IN
             /\ (dr # {} /\ rs = {}) => PrintT(<<"DRIFT", l, r.id, dr>>)
             /\ pFail' = IF rs = {} THEN pFail
                         ELSE IF PrintT(<<"PFAIL", l, r.id, rs>>) THEN Append(pFail, l) ELSE pFail
        /\ l' = l + 1
Spec == Init /\ [][Step]_vars
Finished == (l = Len(Recs) + 1) => PrintT(<<"RESULT", Len(Recs), Len(pFail)>>)
=============================================================================
