----------------------------- MODULE Trace_C08 -----------------------------
(* each record: one rule with a fix and one text through scan --json, --update-all, sg test snapshots, the *)
(* library calls and the language server; the edits they propose are judged by FixEdit.tla                   *)
EXTENDS FixEdit, Json, IOUtils

Recs == ndJsonDeserialize(IOEnv.TRACE)
VARIABLES l, pFail
vars == <<l, pFail>>

Norm(e) == [pos |-> e.pos, del |-> e.del, ins |-> e.ins]
SetOf(es) == { Norm(es[k]) : k \in 1..Len(es) }

Reasons(r) ==
    LET want == EditsP(r.matches, r.exp)
        wantSet == SetOf(want)
        disjoint == PairwiseDisjoint(want)
        fe == r.fe
        has(name) == name \in DOMAIN fe
        CmpAll(name) == IF ~has(name) \/ (SetOf(fe[name]) = wantSet /\ Len(fe[name]) = Len(want)) THEN {} ELSE {<<name, "edit-differs">>}
        \* a front end that applies several edits keeps a conflict-free subset (C06/C18 decide which); every edit
        \* it keeps must be the rule's edit, and it keeps all of them when none intersect
        \* ... and when some intersect, what it keeps is an accepted selection in the sense of Replace.tla (C06/C18): the kept
        \* edits are pairwise disjoint and every edit left out intersects a kept one that does not start after it
        CmpSomeOf(name, w) ==
            LET wSet == SetOf(w)
                dj == PairwiseDisjoint(w)
                sorted == SortByPos([k \in 1..Len(w) |-> Norm(w[k])])
                KeptIdx == { k \in 1..Len(sorted) : sorted[k] \in SetOf(fe[name]) } IN
            IF ~has(name) \/ (/\ SetOf(fe[name]) \subseteq wSet
                              /\ (dj => SetOf(fe[name]) = wSet)
                              /\ (w = <<>> \/ fe[name] # <<>>))
            THEN (IF has(name) /\ ~dj /\ Len(sorted) <= 10 /\ Cardinality(SetOf(sorted)) = Len(sorted)
                     /\ ~AcceptedSelection(sorted, KeptIdx)
                  THEN {<<name, "kept-edits-are-not-an-accepted-selection">>} ELSE {})
            ELSE {<<name, "edit-differs">>}
        CmpSome(name) == CmpSomeOf(name, want)
        \* Node::replace_all rewrites the matches of the overlap-free visit (C01): a match inside the NODE of another match is
        \* not rewritten, even where the other match's edit ends before it (`if ($A) $B` on an else-if chain)
        ms == r.matches
        IsOuter(k) == ~\E j \in 1..Len(ms) : j # k /\ ms[j].s <= ms[k].s /\ ms[k].e <= ms[j].e
                                              /\ (ms[j].s < ms[k].s \/ ms[k].e < ms[j].e \/ j < k)
        outerIdx == SelectSeq([k \in 1..Len(ms) |-> k], IsOuter)
        wantOuter == EditsP([i \in 1..Len(outerIdx) |-> ms[outerIdx[i]]], r.exp) IN
    CmpAll("json") \cup CmpAll("lib_make_edit") \cup CmpAll("lsp_quickfix")
    \cup (IF fe.lib_replace = (IF want = <<>> THEN <<>> ELSE <<Norm(want[1])>>) THEN {} ELSE {<<"lib_replace", "edit-differs">>})
    \cup CmpSomeOf("lib_replace_all", wantOuter) \cup CmpSome("lsp_fixall") \cup CmpSome("lsp_apply")
    \cup (IF disjoint /\ fe.updated # Splice(r.bytes, SortByPos(want)) THEN {<<"updated", "file-differs">>} ELSE {})
    \cup (IF ~has("snapshot") THEN {}
          ELSE IF want = <<>> THEN (IF fe.snapshot.present THEN {<<"snapshot", "unexpected">>} ELSE {})
          ELSE IF ~fe.snapshot.present THEN {<<"snapshot", "no-fixed-recorded">>}
          ELSE IF fe.snapshot.fixed = Splice(r.bytes, <<want[1]>>) THEN {} ELSE {<<"snapshot", "fixed-differs">>})
    \cup (IF r.ndiag = Len(r.matches) THEN {} ELSE {<<"lsp", "diagnostic-count">>})

\* the cases of MC_C08 carry the edits the model computed from its own layout of the siblings
Drift(r) == IF r.kind = "scan" /\ r.family = "model"
               /\ [k \in 1..Len(r.matches) |-> [pos |-> EditP(r.matches[k], r.exp).pos, del |-> EditP(r.matches[k], r.exp).del]]
                   # [k \in 1..Len(r.model_edits) |-> [pos |-> r.model_edits[k].pos, del |-> r.model_edits[k].del]]
            THEN {"model-siblings-differ-from-the-tree"} ELSE {}

Init == l = 1 /\ pFail = <<>>
Step == /\ l <= Len(Recs)
        /\ LET r == Recs[l]  rs == Reasons(r)  dr == Drift(r) IN
             /\ (dr # {} /\ rs = {}) => PrintT(<<"DRIFT", l, r.id, dr>>)
             /\ pFail' = IF rs = {} THEN pFail
                      ELSE IF PrintT(<<"PFAIL", l, r.id, rs>>) THEN Append(pFail, l) ELSE pFail
        /\ l' = l + 1
Spec == Init /\ [][Step]_vars
Finished == (l = Len(Recs) + 1) => PrintT(<<"RESULT", Len(Recs), Len(pFail)>>)
=============================================================================
