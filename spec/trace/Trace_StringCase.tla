-------------------------- MODULE Trace_StringCase --------------------------
(* each record: one string of MC_StringCase rendered with concrete characters and converted by the real    *)
(* `convert: {toCase: snakeCase, separatedBy: ..}` transformation.  A panic is a crash of an accepted rule *)
(* (C11); a result that is not the machine's words, lower-cased and joined by `_`, is drift of              *)
(* StringCase.tla; a result that drops or invents a letter is printed as LOSS (no listed property)          *)
EXTENDS StringCase, SequencesExt, Json, IOUtils, TLC

Recs == ndJsonDeserialize(IOEnv.TRACE)
VARIABLES l, pFail
vars == <<l, pFail>>

Chars(r) == [k \in 1..Len(r.s) |-> [cls |-> r.s[k].cls, w |-> r.s[k].w]]
WordText(r, wd) == LET ks == SelectSeq([k \in 1..Len(r.s) |-> k], LAMBDA k : wd.lo <= StartOfChar(Chars(r), k) /\ StartOfChar(Chars(r), k) < wd.hi) IN
                   [i \in 1..Len(ks) |-> r.lower[ks[i]]]
RECURSIVE JoinWords(_, _, _)
JoinWords(r, ws, k) == IF k > Len(ws) THEN <<>>
                       ELSE (IF k = 1 THEN <<>> ELSE <<"_">>) \o WordText(r, ws[k]) \o JoinWords(r, ws, k + 1)
Expected(r) == JoinWords(r, SplitI(Chars(r), r.cc), 1)

Reasons(r) == IF r.panic THEN {"panic-in-convert"} ELSE {}
Drift(r) == IF r.panic \/ r.real = Expected(r) THEN {} ELSE {"string-case-machine"}
Loss(r) == ~r.panic /\ SelectSeq(r.real, LAMBDA c : c # "_") # SelectSeq(r.lower, LAMBDA c : c # "_")

Init == l = 1 /\ pFail = <<>>
Step == /\ l <= Len(Recs)
        /\ LET r == Recs[l]  rs == Reasons(r)  dr == Drift(r) IN
             /\ (dr # {} /\ rs = {}) => PrintT(<<"DRIFT", l, r.id, dr>>)
             /\ Loss(r) => PrintT(<<"DRIFT", l, r.id, {"letters-lost-or-invented"}>>)
             /\ pFail' = IF rs = {} THEN pFail
                         ELSE IF PrintT(<<"PFAIL", l, r.id, rs>>) THEN Append(pFail, l) ELSE pFail
        /\ l' = l + 1
Spec == Init /\ [][Step]_vars
Finished == (l = Len(Recs) + 1) => PrintT(<<"RESULT", Len(Recs), Len(pFail)>>)
=============================================================================
