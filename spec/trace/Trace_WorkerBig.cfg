SPECIFICATION Spec
INVARIANT Accepted
CHECK_DEADLOCK FALSE
