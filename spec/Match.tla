------------------------------- MODULE Match -------------------------------
(***************************************************************************)
(* I level: the tree matcher of crates/core/src/match_tree, transcribed.   *)
(*                                                                         *)
(*   match_node_impl, match_nodes_impl_recursive, may_match_ellipsis_impl, *)
(*   match_single_node_while_skip_trivial, MatchStrictness::match_terminal,*)
(*   should_skip_trailing, should_skip_goal, match_leaf_meta_var,          *)
(*   the Cow<MetaVarEnv> aggregator (match_ellipsis with skipped_anonymous *)
(*   trimming), MetaVarEnv::insert / insert_multi, does_node_match_exactly.*)
(*                                                                         *)
(* T  : candidate node table (Tree.tla shape + k, kid, nm, cm, t)          *)
(* PT : pattern node table, entries                                        *)
(*      [ty |-> "T"|"M"|"I", kid, nm, t, mv |-> [ty, name, named], ch]     *)
(*      mv.ty \in {"capture","dropped","multiple","multicap","none"}       *)
(* env: [single |-> name :> node id, multi |-> name :> <<node ids>>]       *)
(* The sibling loop is written as the iterator machine it is: the state is *)
(* (gi, ci, env) = positions of the two Peekable iterators.                *)
(***************************************************************************)
EXTENDS Tree, Naturals, Sequences, FiniteSets, TLC

ErrorKind == 65535
Strictness == {"cst", "smart", "ast", "relaxed", "signature"}

EmptyEnv == [single |-> <<>>, multi |-> <<>>]     \* <<>> is the function with empty domain

KindsMatch(g, c) == g = c \/ g = ErrorKind

IsEllipsis(p)   == p.ty = "M" /\ p.mv.ty \in {"multiple", "multicap"}
IsTrivialGoal(p) == p.ty = "T" /\ ~p.nm
SkipCommentOrUnnamed(n) == ~n.nm \/ n.cm

\* ---- does_node_match_exactly --------------------------------------------
NamedLeaf(T, i) == \A k \in 1..Len(T[i].ch) : ~T[T[i].ch[k]].nm
RECURSIVE ExactlyEqual(_, _, _)
ExactlyEqual(T, a, b) ==
    IF a = b THEN TRUE
    ELSE IF NamedLeaf(T, a) \/ NamedLeaf(T, b) THEN T[a].t = T[b].t
    ELSE IF T[a].kid # T[b].kid THEN FALSE
    ELSE IF Len(T[a].ch) # Len(T[b].ch) THEN FALSE
    ELSE \A k \in 1..Len(T[a].ch) : ExactlyEqual(T, T[a].ch[k], T[b].ch[k])

\* ---- MetaVarEnv::insert / insert_multi: [ok, env] ------------------------
Put(f, k, v) == [x \in DOMAIN f \cup {k} |-> IF x = k THEN v ELSE f[x]]

Insert(T, env, name, node) ==
    IF name \in DOMAIN env.single /\ ~ExactlyEqual(T, env.single[name], node)
    THEN [ok |-> FALSE, env |-> env]
    ELSE [ok |-> TRUE, env |-> [env EXCEPT !.single = Put(env.single, name, node)]]

NamedOf(T, ids) == SelectSeq(ids, LAMBDA i : T[i].nm)
MultiEq(T, xs, ys) ==
    LET a == NamedOf(T, xs) b == NamedOf(T, ys) IN
    Len(a) = Len(b) /\ \A k \in 1..Len(a) : ExactlyEqual(T, a[k], b[k])

InsertMulti(T, env, name, nodes) ==
    IF name \in DOMAIN env.multi /\ ~MultiEq(T, env.multi[name], nodes)
    THEN [ok |-> FALSE, env |-> env]
    ELSE [ok |-> TRUE, env |-> [env EXCEPT !.multi = Put(env.multi, name, nodes)]]

\* Cow<MetaVarEnv>::match_ellipsis: the anonymous pattern tokens after the ellipsis (`skipped` of them) stand for
\* trailing anonymous nodes only - at most `skipped` trailing unnamed nodes are dropped from the capture
RECURSIVE DropTrailing(_, _, _)
DropTrailing(T, nodes, k) ==
    IF k > 0 /\ nodes # <<>> /\ ~T[nodes[Len(nodes)]].nm THEN DropTrailing(T, SubSeq(nodes, 1, Len(nodes) - 1), k - 1)
    ELSE nodes
AggEllipsis(T, env, mv, nodes, skipped) ==
    IF mv.ty = "multicap"
    THEN InsertMulti(T, env, mv.name, DropTrailing(T, nodes, skipped))
    ELSE [ok |-> TRUE, env |-> env]

\* match_leaf_meta_var
MatchLeafMV(T, mv, c, env) ==
    CASE mv.ty = "capture"  -> IF mv.named /\ ~T[c].nm THEN [ok |-> FALSE, env |-> env]
                               ELSE Insert(T, env, mv.name, c)
      [] mv.ty = "dropped"  -> [ok |-> ~(mv.named /\ ~T[c].nm), env |-> env]
      [] mv.ty = "multiple" -> [ok |-> TRUE, env |-> env]       \* debug_assert!(false) in dev builds
      [] mv.ty = "multicap" -> Insert(T, env, mv.name, c)
      [] OTHER              -> [ok |-> FALSE, env |-> env]

\* A pattern token is compared with the candidate's whole text, whatever the candidate is: a token of the pattern can
\* stand against a candidate that has children (a pattern leaf that is a parse error matches any kind; some kinds occur
\* with and without children).  Node tables carry the whole text of a node with children only when it is short
\* (n.tk = "text known"); an unknown text decides nothing.
TextKnown(n) == IF "tk" \in DOMAIN n THEN n.tk ELSE TRUE
TextAgrees(g, n) == IF TextKnown(n) THEN g.t = n.t ELSE TRUE

\* ---- MatchStrictness ------------------------------------------------------
\* match_terminal: "both" | "skipboth" | "skipgoal" | "skipcand" | "nomatch"
MatchTerminal(s, g, n) ==
    LET km == KindsMatch(g.kid, n.kid) IN
    IF km /\ (~g.nm \/ TextAgrees(g, n)) THEN "both"
    ELSE IF s = "signature" /\ km THEN "both"
    ELSE LET sg == CASE s \in {"cst", "smart"} -> FALSE [] OTHER -> ~g.nm
             sc == CASE s = "cst" -> FALSE
                     [] s \in {"smart", "ast"} -> ~n.nm
                     [] OTHER -> SkipCommentOrUnnamed(n) IN
         CASE sg /\ sc -> "skipboth" [] sg -> "skipgoal" [] sc -> "skipcand" [] OTHER -> "nomatch"

ShouldSkipTrailing(s, n) ==
    CASE s \in {"cst", "ast"} -> FALSE
      [] s = "smart" -> TRUE
      [] OTHER -> SkipCommentOrUnnamed(n)

GoalSkippable(s, p) ==
    CASE s = "cst" -> FALSE
      [] s = "smart" -> IsEllipsis(p)
      [] OTHER -> \/ IsEllipsis(p)
                  \/ (p.ty = "M" /\ p.mv.ty \in {"capture", "dropped"} /\ ~p.mv.named)
                  \/ (p.ty = "T" /\ ~p.nm)

\* ---- the matcher ------------------------------------------------------------
\* results: [r |-> outcome, env |-> env]; env is threaded through FAILED attempts too (it is one
\* mutable Cow in the code), which is what makes pollution inside one pattern observable
R(r, env) == [r |-> r, env |-> env]

RECURSIVE MatchNode(_, _, _, _, _, _)
RECURSIVE Loop(_, _, _, _, _, _, _, _)
RECURSIVE LookAhead(_, _, _, _, _, _, _, _, _, _, _)
RECURSIVE SkipTrivial(_, _, _, _, _, _, _, _)
RECURSIVE LoopTail(_, _, _, _, _, _, _, _)

\* match_node_impl(goal = PT[g], candidate = T[c])
MatchNode(PT, T, s, g, c, env) ==
    LET p == PT[g] IN
    CASE p.ty = "T" -> R(MatchTerminal(s, p, T[c]), env)
      [] p.ty = "M" -> LET m == MatchLeafMV(T, p.mv, c, env) IN
                       R(IF m.ok THEN "both" ELSE "nomatch", m.env)
      [] OTHER ->
         IF ~KindsMatch(p.kid, T[c].kid) THEN R("nomatch", env)
         ELSE IF T[c].ch = <<>> THEN R("nomatch", env)                 \* cand_children.peek()?
         ELSE LET m == Loop(PT, T, s, p.ch, T[c].ch, 1, 1, env) IN
              R(IF m.ok THEN "both" ELSE "nomatch", m.env)

\* should_skip_goal from position gi: TRUE iff every remaining goal is skippable
AllGoalsSkippable(PT, s, gs, gi) == \A k \in gi..Len(gs) : GoalSkippable(s, PT[gs[k]])

RECURSIVE TrivialRun(_, _, _)
\* number of consecutive anonymous-terminal goals starting at gi
TrivialRun(PT, gs, gi) == IF gi <= Len(gs) /\ IsTrivialGoal(PT[gs[gi]]) THEN 1 + TrivialRun(PT, gs, gi + 1) ELSE 0

Ok(env)   == [ok |-> TRUE, env |-> env]
Fail(env) == [ok |-> FALSE, env |-> env]

RECURSIVE BindSkipped(_, _, _, _, _)
BindSkipped(PT, T, gs, gi, env) ==
    IF gi > Len(gs) THEN Ok(env)
    ELSE LET p == PT[gs[gi]] IN
         IF p.ty = "M" /\ p.mv.ty = "multicap"
         THEN LET a == InsertMulti(T, env, p.mv.name, <<>>) IN
              IF a.ok THEN BindSkipped(PT, T, gs, gi + 1, a.env) ELSE Fail(a.env)
         ELSE BindSkipped(PT, T, gs, gi + 1, env)

\* top of the loop of match_nodes_impl_recursive at iterator positions (gi, ci);
\* invariant at entry: ci <= Len(cs).  Returns [ok, env].
Loop(PT, T, s, gs, cs, gi, ci, env) ==
    IF gi > Len(gs) THEN Ok(env)                                         \* ControlFlow::Return
    ELSE IF ~IsEllipsis(PT[gs[gi]]) THEN SkipTrivial(PT, T, s, gs, cs, gi, ci, env)
    ELSE \* may_match_ellipsis_impl
        LET mv == PT[gs[gi]].mv
            k  == TrivialRun(PT, gs, gi + 1)          \* skipped_anonymous
            g2 == gi + 1 + k IN
        IF g2 > Len(gs) THEN                           \* the ellipsis (and trivia) end the goal list
            LET a == AggEllipsis(T, env, mv, SubSeq(cs, ci, Len(cs)), k) IN [ok |-> a.ok, env |-> a.env]
        ELSE IF IsEllipsis(PT[gs[g2]]) THEN            \* two ellipses: the first takes exactly one node
            IF ci + 1 > Len(cs) THEN Fail(env)         \* cand_children.peek()?
            ELSE LET a == AggEllipsis(T, env, mv, <<cs[ci]>>, k) IN
                 IF ~a.ok THEN Fail(a.env) ELSE Loop(PT, T, s, gs, cs, g2, ci + 1, a.env)   \* Continue
        ELSE LookAhead(PT, T, s, gs, cs, g2, ci, env, mv, k, <<>>)

\* the look-ahead loop: the first candidate that the next goal matches ends the ellipsis.  Since fix d602613 every
\* candidate is tried on a copy of the environment: what a candidate that does not fit binds is gone, and the one
\* that fits is matched again by the caller.  An environment carrying keep = TRUE reproduces the earlier behaviour -
\* one mutable environment threaded through the failed attempts too (MatchKeeping below; C04: `f($$$, g($A, 1), $A)`
\* did not match `f(g(x, 2), g(y, 1), y)` because the attempt on g(x, 2) left A = x behind).
Keeps(env) == "keep" \in DOMAIN env /\ env.keep
LookAhead(PT, T, s, gs, cs, gi, ci, env, mv, skipped, matched) ==
    LET m == MatchNode(PT, T, s, gs[gi], cs[ci], env)
        after == IF Keeps(env) THEN m.env ELSE env IN
    IF m.r = "both" THEN
        LET a == AggEllipsis(T, after, mv, matched, skipped) IN
        IF ~a.ok THEN Fail(a.env)
        ELSE SkipTrivial(PT, T, s, gs, cs, gi, ci, a.env)                \* ControlFlow::Fallthrough
    ELSE IF ci + 1 > Len(cs) THEN Fail(after)
    ELSE LookAhead(PT, T, s, gs, cs, gi, ci + 1, after, mv, skipped, Append(matched, cs[ci]))

\* match_single_node_while_skip_trivial; precondition gi <= Len(gs)
SkipTrivial(PT, T, s, gs, cs, gi, ci, env) ==
    IF ci > Len(cs) THEN
        \* the remaining goals are skipped; a named ellipsis among them captures nothing, which has to agree with
        \* its other occurrences
        IF AllGoalsSkippable(PT, s, gs, gi)
        THEN LET b == BindSkipped(PT, T, gs, gi, env) IN
             IF b.ok THEN LoopTail(PT, T, s, gs, cs, Len(gs) + 1, ci, b.env) ELSE Fail(b.env)
        ELSE Fail(env)
    ELSE LET m == MatchNode(PT, T, s, gs[gi], cs[ci], env) IN
         CASE m.r = "both"     -> LoopTail(PT, T, s, gs, cs, gi, ci, m.env)
           \* after a skipped goal, an ellipsis goes back to the top of the loop (ControlFlow::Continue) when a
           \* candidate is still there; it is never matched as a single node
           [] m.r = "skipgoal" -> IF gi + 1 > Len(gs) THEN LoopTail(PT, T, s, gs, cs, gi + 1, ci, m.env)
                                  ELSE IF IsEllipsis(PT[gs[gi + 1]]) THEN Loop(PT, T, s, gs, cs, gi + 1, ci, m.env)
                                  ELSE SkipTrivial(PT, T, s, gs, cs, gi + 1, ci, m.env)
           [] m.r = "skipboth" -> IF gi + 1 > Len(gs) THEN LoopTail(PT, T, s, gs, cs, gi + 1, ci + 1, m.env)
                                  ELSE IF ci + 1 <= Len(cs) /\ IsEllipsis(PT[gs[gi + 1]]) THEN Loop(PT, T, s, gs, cs, gi + 1, ci + 1, m.env)
                                  ELSE SkipTrivial(PT, T, s, gs, cs, gi + 1, ci + 1, m.env)
           [] m.r = "skipcand" -> SkipTrivial(PT, T, s, gs, cs, gi, ci + 1, m.env)
           [] OTHER            -> Fail(m.env)

\* the rest of the loop body: consume the matched pair, trailing check, next iteration
LoopTail(PT, T, s, gs, cs, gi, ci, env) ==
    LET consumed == gi <= Len(gs)
        g2 == IF consumed THEN gi + 1 ELSE gi
        c2 == IF consumed THEN ci + 1 ELSE ci IN
    IF g2 > Len(gs) THEN
        [ok |-> \A k \in c2..Len(cs) : ShouldSkipTrailing(s, T[cs[k]]), env |-> env]
    ELSE IF c2 > Len(cs) THEN Fail(env)                                   \* cand_children.peek()?
    ELSE Loop(PT, T, s, gs, cs, g2, c2, env)

\* Pattern::match_node_with_env on a fresh env: commits only on success
Match(PT, T, s, c) ==
    LET m == MatchNode(PT, T, s, 1, c, EmptyEnv) IN
    IF m.r = "both" THEN [ok |-> TRUE, env |-> m.env] ELSE [ok |-> FALSE, env |-> EmptyEnv]
\* the matcher with one environment threaded through failed look-ahead attempts (the behaviour before fix d602613)
MatchKeeping(PT, T, s, c) ==
    LET m == MatchNode(PT, T, s, 1, c, [single |-> <<>>, multi |-> <<>>, keep |-> TRUE]) IN
    IF m.r = "both" THEN [ok |-> TRUE, env |-> [single |-> m.env.single, multi |-> m.env.multi]] ELSE [ok |-> FALSE, env |-> EmptyEnv]
=============================================================================
