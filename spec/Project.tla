------------------------------ MODULE Project ------------------------------
(***************************************************************************)
(* Which project a `sg scan` belongs to and which text its rules' `files`  *)
(* / `ignores` globs are matched against (crates/cli/src/config.rs         *)
(* find_config_path_with_default / discover_project, crates/cli/src/scan.rs *)
(* produce_item -> RuleCollection::get_rule_from_lang(path, lang),          *)
(* crates/config/src/rule_collection.rs ContingentRule::matches_path).      *)
(*                                                                         *)
(* C15 speaks about runs "invoked from the project root"; this module is    *)
(* the general case, of which Dispatch.tla is the slice cwd = project       *)
(* directory with clean relative path arguments.                            *)
(*                                                                         *)
(* A directory or file is the sequence of its segments below the workspace  *)
(* W = <<>>.  Some directories hold an `sgconfig.yml`.                      *)
(*                                                                         *)
(*  discovery   without -c: the nearest directory at or above the current   *)
(*              directory that holds a configuration; with -c: the          *)
(*              directory of the named file                                 *)
(*  walk        every file below the path argument (default: the current    *)
(*              directory), files of nested projects included               *)
(*  I  subject  the text a glob is matched against = the path AS WALKED:    *)
(*              the argument as typed (a leading `./` and a trailing `/`    *)
(*              dropped, `..` and detours kept, an absolute argument kept   *)
(*              absolute) followed by the file's path below the argument    *)
(*  P  subject  the file's path relative to the project directory (what the *)
(*              rule reference describes)                                   *)
(* The two agree exactly when the run starts in the project directory and   *)
(* the argument is a clean relative path (AgreeAtRoot, checked); anywhere   *)
(* else `files` can silently switch a rule off and `ignores` can silently   *)
(* stop protecting a directory (witness: AgreeEverywhere is violated).      *)
(***************************************************************************)
EXTENDS Naturals, Sequences, FiniteSets, SequencesExt

\* ---- the layout (the recorder builds the same one: harness/src/projpaths.rs) ----
Dirs == { <<>>, <<"src">>, <<"src", "deep">>, <<"other">>, <<"pkg">>, <<"pkg", "lib">> }
Files == { <<"src", "a.js">>, <<"src", "deep", "b.js">>, <<"other", "c.js">>, <<"pkg", "lib", "d.js">>, <<"pkg", "e.js">> }
ConfigDirs == { <<>>, <<"pkg">> }

\* globs: [kind |-> "under", pre]  = `pre/**`      the path starts with the segments pre and goes on
\*        [kind |-> "indir", name] = `**/name/*.js` the file lies directly in a directory called name
GlobMatch(g, segs) ==
    CASE g.kind = "under" -> Len(segs) > Len(g.pre) /\ SubSeq(segs, 1, Len(g.pre)) = g.pre
      [] g.kind = "indir" -> Len(segs) >= 2 /\ segs[Len(segs) - 1] = g.name
      [] OTHER -> FALSE

NoGlob == [kind |-> "none"]
\* rules of a project: files / ignores (ignores are tested first)
RulesOf(projectDir) ==
    IF projectDir = <<>> THEN
        { [id |-> "r", files |-> [kind |-> "under", pre |-> <<"src">>], ignores |-> NoGlob],
          [id |-> "q", files |-> NoGlob, ignores |-> [kind |-> "under", pre |-> <<"src", "deep">>]],
          [id |-> "s", files |-> [kind |-> "indir", name |-> "deep"], ignores |-> NoGlob] }
    ELSE
        { [id |-> "p", files |-> [kind |-> "under", pre |-> <<"lib">>], ignores |-> NoGlob],
          [id |-> "n", files |-> NoGlob, ignores |-> [kind |-> "under", pre |-> <<"lib">>]] }

AppliesTo(rule, subject) ==
    /\ (rule.ignores.kind = "none" \/ ~GlobMatch(rule.ignores, subject))
    /\ (rule.files.kind = "none" \/ GlobMatch(rule.files, subject))

\* ---- a run ---------------------------------------------------------------------
\* cwd: a directory; cfg: <<"-">> (discover) or <<"+">> \o the directory whose sgconfig.yml is named with -c;
\* arg: [kind |-> "none"] | [kind |-> "rel", segs, target] | [kind |-> "abs", target]
\*      segs: the segments as typed, "." segments already dropped (`./src/` = <<"src">>), ".." kept
IsUnder(d, f) == Len(f) >= Len(d) /\ SubSeq(f, 1, Len(d)) = d
Below(d, f) == SubSeq(f, Len(d) + 1, Len(f))

ProjectDir(cwd, cfg) ==
    IF cfg[1] = "+" THEN Tail(cfg)
    ELSE LET cands == { d \in ConfigDirs : IsUnder(d, cwd) } IN
         CHOOSE d \in cands : \A e \in cands : Len(e) <= Len(d)

Target(cwd, arg) == IF arg.kind = "none" THEN cwd ELSE arg.target
Walked(cwd, arg) == { f \in Files : IsUnder(Target(cwd, arg), f) }

SubjectI(cwd, arg, f) ==
    CASE arg.kind = "none" -> Below(cwd, f)
      [] arg.kind = "rel"  -> arg.segs \o Below(arg.target, f)
      [] OTHER             -> <<"/ABS">> \o f                   \* an absolute path: no relative glob starts with it
SubjectP(cwd, cfg, f) ==
    LET pd == ProjectDir(cwd, cfg) IN
    IF IsUnder(pd, f) THEN Below(pd, f) ELSE <<"..">> \o f      \* outside the project: no rule glob reaches it

Ids == {"r", "q", "s", "p", "n"}
ReportI(cwd, cfg, arg) ==
    { p \in Files \X Ids :
        /\ p[1] \in Walked(cwd, arg)
        /\ \E r \in RulesOf(ProjectDir(cwd, cfg)) : r.id = p[2] /\ AppliesTo(r, SubjectI(cwd, arg, p[1])) }
ReportP(cwd, cfg, arg) ==
    { p \in Files \X Ids :
        /\ p[1] \in Walked(cwd, arg)
        /\ \E r \in RulesOf(ProjectDir(cwd, cfg)) : r.id = p[2] /\ AppliesTo(r, SubjectP(cwd, cfg, p[1])) }

\* ---- the arguments a user can type for a target directory, from cwd -----------------
Common(a, b) == LongestCommonPrefix({a, b})
Ups(n) == [i \in 1..n |-> ".."]
RelTyped(cwd, t) == Ups(Len(cwd) - Len(Common(cwd, t))) \o Below(Common(cwd, t), t)
ArgsFor(cwd, t) ==
    { [kind |-> "abs", target |-> t] }
    \cup (IF RelTyped(cwd, t) = <<>> THEN { [kind |-> "none"], [kind |-> "rel", segs |-> <<>>, target |-> t] }   \* nothing, or `.`
          ELSE { [kind |-> "rel", segs |-> RelTyped(cwd, t), target |-> t] })
    \* a detour through a sub-directory and back: `src/../other`
    \cup { [kind |-> "rel", segs |-> <<d[Len(cwd) + 1], "..">> \o RelTyped(cwd, t), target |-> t] :
             d \in { x \in Dirs : Len(x) = Len(cwd) + 1 /\ IsUnder(cwd, x) /\ IsUnder(cwd, t) /\ t # cwd } }

Clean(arg) == arg.kind = "none" \/ (arg.kind = "rel" /\ \A i \in 1..Len(arg.segs) : arg.segs[i] # "..")

VARIABLES cwd, cfg, arg
vars == <<cwd, cfg, arg>>
Init == /\ cwd \in Dirs
        /\ cfg \in { <<"-">> } \cup { <<"+">> \o d : d \in ConfigDirs }
        /\ arg \in UNION { ArgsFor(cwd, t) : t \in Dirs }
Next == UNCHANGED vars
Spec == Init /\ [][Next]_vars

\* C15's slice: started in the project directory, clean relative argument
AgreeAtRoot == (cwd = ProjectDir(cwd, cfg) /\ Clean(arg)) => ReportI(cwd, cfg, arg) = ReportP(cwd, cfg, arg)
\* the general statement - violated (witness configuration)
AgreeEverywhere == ReportI(cwd, cfg, arg) = ReportP(cwd, cfg, arg)
\* discovery picks the nearest configuration above the current directory
NearestWins == cfg = <<"-">> => \A d \in ConfigDirs : IsUnder(d, cwd) => IsUnder(d, ProjectDir(cwd, cfg))
=============================================================================
