------------------------------ MODULE Combined ------------------------------
(***************************************************************************)
(* CombinedScan (crates/config/src/combined.rs): many rules, one walk.     *)
(*                                                                         *)
(* new():  the rules are sorted (rules without a fix first, then by id)    *)
(*         and indexed under each of their potential kinds.                *)
(* scan(): the tree is walked in pre-order; at a node the rules indexed    *)
(*         under its kind are tried one after the other; a hit goes to     *)
(*         `matches` of that rule, or - for a rule with a fix when the     *)
(*         caller separates fixes (-i / -U) - to the common `diffs` list.  *)
(*                                                                         *)
(* P (C01, "whether one rule or many rules are scanned together"): what    *)
(* the scan reports for a rule is what that rule reports alone: the nodes  *)
(* it matches, in document order.                                          *)
(***************************************************************************)
EXTENDS Naturals, Sequences, FiniteSets

CONSTANTS Rules,      \* rule ids, a set of naturals (the id order is <)
          Kinds,
          NodeKinds,  \* the kinds of the nodes in pre-order
          Variant     \* "code" | "one-fix-per-node" (the variant the model must reject)

N == Len(NodeKinds)

VARIABLES pk,        \* pk[r]: potential kinds of rule r
          hit,       \* hit[r]: the nodes rule r matches when tried on them
          fix,       \* fix[r]: the rule has a fix
          sep,       \* separate_fix
          node,      \* the node the walk is at
          todo,      \* the rules of this node's kind still to be tried, in index order
          matches, diffs
vars == <<pk, hit, fix, sep, node, todo, matches, diffs>>

\* the sort of new(): rules without a fix first, then by id
Before(a, b) == (fix[a] = fix[b] /\ a < b) \/ (~fix[a] /\ fix[b])
RECURSIVE SortedSeq(_)
SortedSeq(S) == IF S = {} THEN <<>>
                ELSE LET m == CHOOSE x \in S : \A y \in S \ {x} : Before(x, y) IN <<m>> \o SortedSeq(S \ {m})
Indexed(k) == SortedSeq({ r \in Rules : k \in pk[r] })

Init == /\ pk \in [Rules -> SUBSET Kinds]
        /\ fix \in [Rules -> BOOLEAN]
        /\ sep \in BOOLEAN
        \* a rule can only match nodes of its potential kinds (C01's first clause, checked elsewhere)
        /\ hit \in [Rules -> SUBSET (1..N)]
        /\ \A r \in Rules : \A n \in hit[r] : NodeKinds[n] \in pk[r]
        /\ node = 1 /\ todo = Indexed(NodeKinds[1])
        /\ matches = [r \in Rules |-> <<>>] /\ diffs = <<>>

Advance == IF node + 1 <= N THEN node' = node + 1 /\ todo' = Indexed(NodeKinds[node + 1])
           ELSE node' = N + 1 /\ todo' = <<>>
\* one rule is tried on the node
Try == /\ node <= N /\ todo # <<>>
       /\ LET r == Head(todo) IN
          IF node \in hit[r]
          THEN /\ IF fix[r] /\ sep THEN diffs' = Append(diffs, <<r, node>>) /\ UNCHANGED matches
                  ELSE matches' = [matches EXCEPT ![r] = Append(@, node)] /\ UNCHANGED diffs
               /\ IF Variant = "one-fix-per-node" /\ fix[r] THEN Advance
                  ELSE todo' = Tail(todo) /\ UNCHANGED node
          ELSE todo' = Tail(todo) /\ UNCHANGED <<node, matches, diffs>>
       /\ UNCHANGED <<pk, hit, fix, sep>>
Step == /\ node <= N /\ todo = <<>> /\ Advance /\ UNCHANGED <<pk, hit, fix, sep, matches, diffs>>
Next == Try \/ Step
Spec == Init /\ [][Next]_vars

\* ---- C01 ----------------------------------------------------------------
Alone(r) == SelectSeq([n \in 1..N |-> n], LAMBDA n : n \in hit[r])
DiffsOf(r) == LET own == SelectSeq(diffs, LAMBDA d : d[1] = r) IN [k \in 1..Len(own) |-> own[k][2]]
Reported(r) == IF fix[r] /\ sep THEN DiffsOf(r) ELSE matches[r]
SameAsAlone == node = N + 1 => \A r \in Rules : Reported(r) = Alone(r)
\* a rule with a fix reports through one channel only
OneChannel == \A r \in Rules : (fix[r] /\ sep) => matches[r] = <<>>
=============================================================================
