------------------------------ MODULE Template ------------------------------
(***************************************************************************)
(* C07 at property level, on lines.  Given the source text, the scanned    *)
(* template (items of Lexers.tla), the bindings (byte ranges of captured   *)
(* nodes / sibling runs) and the match offset:                             *)
(*   - literal template text is copied unchanged, unbound variables vanish *)
(*   - a captured snippet is inserted verbatim; each continuation line     *)
(*     keeps its indentation relative to the capture's first line, shifted *)
(*     by the indentation of the template line holding the variable and by *)
(*     the indentation of the line where the matched node starts.          *)
(***************************************************************************)
EXTENDS Indent

\* shift the indentation of every continuation line by delta (may be negative)
Reindent(text, delta) ==
    LET ls == SplitLines(text) IN
    JoinLines([k \in 1..Len(ls) |->
        IF k = 1 \/ delta = 0 THEN ls[k]
        ELSE IF delta > 0 THEN Spaces(delta) \o ls[k]
        ELSE SubSeq(ls[k], 1 - delta, Len(ls[k]))])       \* drop -delta leading characters

\* leading spaces of the template line that contains raw offset off
TemplateLineIndent(raw, off) == LineIndentAt(raw, off)

BodyP(src, raw, items, bind) ==
    LET offs == SlotOffsets(items, 1, 0) IN
    FlattenSeq([k \in 1..Len(items) |->
        LET it == items[k] IN
        IF ~it.v THEN <<it.c>>
        ELSE IF it.name \notin DOMAIN bind THEN <<>>
        ELSE LET b == bind[it.name]
                 slice == SubSeq(src, b.lo + 1, b.hi) IN
             IF ~HasNL(slice) THEN slice
             ELSE Reindent(slice, TemplateLineIndent(raw, offs[k]) - LineIndentAt(src, b.lo))])

OutP(src, raw, items, bind, site) == Reindent(BodyP(src, raw, items, bind), LineIndentAt(src, site))

\* ---- where the indentation clause speaks --------------------------------
NoTabs(s) == \A i \in 1..Len(s) : s[i] # "\t" /\ s[i] # "\r"
RECURSIVE MaxLineLen(_)
MaxLineLen(s) == LET ls == SplitLines(s) IN
                 CHOOSE m \in { Len(ls[k]) : k \in 1..Len(ls) } : \A k \in 1..Len(ls) : Len(ls[k]) <= m

Judged(src, raw, items, bind) ==
    /\ NoTabs(src) /\ NoTabs(raw)
    /\ MaxLineLen(src) < LookBehind /\ MaxLineLen(raw) < LookBehind
    /\ \A k \in 1..Len(items) :
          (items[k].v /\ items[k].name \in DOMAIN bind) =>
              LET b == bind[items[k].name] IN
              HasNL(SubSeq(src, b.lo + 1, b.hi)) => WellIndented(src, b.lo, b.hi)
=============================================================================
