\* three rules over two kinds on a walk of three nodes; every assignment of kinds, hits and fixes, both modes
SPECIFICATION Spec
CONSTANTS Rules = {1, 2, 3}  Kinds = {1, 2}  NodeKinds <- MCNodeKinds  Variant = "code"
INVARIANT SameAsAlone
INVARIANT OneChannel
CHECK_DEADLOCK FALSE
