SPECIFICATION Spec
CONSTANT MaxLen = 6
INVARIANT Agree
CHECK_DEADLOCK FALSE
