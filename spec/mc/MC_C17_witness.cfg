SPECIFICATION SpecSplit
CONSTANTS f1 = f1 f2 = f2 f3 = f3 f4 = f4 t1 = t1 t2 = t2 t3 = t3
CONSTANTS Files <- MCFiles  Outcome <- MCOutcome  Threads <- MCThreads2
CHECK_DEADLOCK FALSE
INVARIANT Tally
