SPECIFICATION Spec
CONSTANTS MaxDocs = 2  MergeDocs = TRUE
INVARIANT C18
INVARIANT Export
CHECK_DEADLOCK FALSE
