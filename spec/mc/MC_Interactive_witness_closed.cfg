SPECIFICATION SpecClosed
CONSTANTS MaxKeys = 2  TwoFiles = FALSE
INVARIANT P3
CHECK_DEADLOCK FALSE
