--------------------------- MODULE MC_TestRunner ---------------------------
(* every test file of up to MaxCases cases x both flags *)
EXTENDS TestRunner, Json, TLC
CONSTANTS MaxCases
Case == [kind : {"valid"}, hit : BOOLEAN, snap : {"absent"}]
        \cup [kind : {"invalid"}, hit : BOOLEAN, snap : {"absent", "same", "stale"}]
VARIABLES cases, skip, update
vars == <<cases, skip, update>>
Init == cases = <<>> /\ skip \in BOOLEAN /\ update \in BOOLEAN /\ ~(skip /\ update)      \* the two flags conflict
Next == Len(cases) < MaxCases /\ \E c \in Case : cases' = Append(cases, c) /\ UNCHANGED <<skip, update>>
Spec == Init /\ [][Next]_vars
C09_Verdicts == VerdictsAgree(cases)
C13_UpdateSettles == UpdateSettles(cases)
Export == (cases # <<>>) => PrintT(<<"VEC", ToJson([cases |-> cases, skip |-> skip, update |-> update,
                                   marks |-> MarksI(cases, skip, update), pass |-> PassI(cases, skip, update)])>>)
=============================================================================
