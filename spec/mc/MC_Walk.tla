------------------------------- MODULE MC_Walk -------------------------------
(* every run of Walk.tla (language x --no-ignore subsets x glob lists x targets): where the documented reading and the    *)
(* order of the filters agree (AgreeWhenInferred, ExplicitAlways); every run is exported for the recorder                *)
EXTENDS Walk, TLC, Json

Export ==
    PrintT(<<"VEC", ToJson([lang |-> lang, no_ignore |-> noIgnore, globs |-> globs, target |-> target,
                            scanned_i |-> PathsOf(ScannedI(lang, noIgnore, globs, target)),
                            scanned_p |-> PathsOf(ScannedP(lang, noIgnore, globs, target))])>>)
Exported == Export
=============================================================================
