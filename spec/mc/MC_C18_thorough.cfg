SPECIFICATION Spec
CONSTANTS MaxDocs = 3  MergeDocs = TRUE
INVARIANT C18
INVARIANT Export
CHECK_DEADLOCK FALSE
