\* all tree shapes with <= 8 nodes x every start node x 3 algorithms x (reentrant | every match set)
SPECIFICATION Spec
CONSTANT MaxNodes = 8
INVARIANT OrderOK
INVARIANT Inside
INVARIANT Bounded
INVARIANT PreOutermostOK
INVARIANT ExportCase
CHECK_DEADLOCK FALSE
