SPECIFICATION Spec
CONSTANT MaxDeviations = 1
INVARIANT WellTyped
INVARIANT Bounded
INVARIANT Export
CHECK_DEADLOCK FALSE
