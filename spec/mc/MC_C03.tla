------------------------------ MODULE MC_C03 ------------------------------
(* near-miss space: every goal sibling list x every candidate sibling list (bounded) x 5 strictness
   levels: whatever the transcribed matcher accepts has a legal alignment (C03);
   every pattern cut from a candidate list matches it with exact bindings (C02) *)
EXTENDS Align, Terms, Json

CONSTANTS MaxCand, MaxGoal, ExportMax, DisagreeMax

VARIABLES cs, gs
vars == <<cs, gs>>

Init == cs = <<>> /\ gs = <<>>
Next == \/ Len(cs) < MaxCand /\ gs = <<>> /\ \E x \in CandSyms : cs' = Append(cs, x) /\ UNCHANGED gs
        \/ Len(gs) < MaxGoal /\ cs # <<>> /\ \E x \in GoalSyms : gs' = Append(gs, x) /\ UNCHANGED cs
Spec == Init /\ [][Next]_vars

\* the repeated-variable universe (C04, first clause, on single patterns)
NextRep == \/ Len(cs) < MaxCand /\ gs = <<>> /\ \E x \in RepCandSyms : cs' = Append(cs, x) /\ UNCHANGED gs
           \/ Len(gs) < MaxGoal /\ cs # <<>> /\ \E x \in RepGoalSyms : gs' = Append(gs, x) /\ UNCHANGED cs
SpecRep == Init /\ [][NextRep]_vars
\* whatever the transcribed matcher accepts has a legal alignment in which every occurrence of a variable stands for
\* code identical to the binding it reports
SameVariable ==
    (cs # <<>>) =>
        LET T == CandTable(cs)  PT == GoalTable(gs) IN
        \A s \in Strictness : LET m == Match(PT, T, s, 1) IN
            m.ok => LegalB(PT, T, s, 1, 1, [single |-> m.env.single, multi |-> m.env.multi])

\* one evaluation per state: tables and the five verdicts are computed once
Verdicts(T, PT) == [s \in Strictness |-> Match(PT, T, s, 1).ok]

\* C03: the matcher is sound w.r.t. the alignment relation, at every level;
\* direction A export: small cases and every case on which two levels disagree
SoundAndExport ==
    (cs # <<>>) =>
        LET T == CandTable(cs)  PT == GoalTable(gs)  v == Verdicts(T, PT) IN
        /\ \A s \in Strictness : v[s] => Legal(PT, T, s, 1, 1)
        /\ (gs # <<>> /\ ( Len(cs) + Len(gs) <= ExportMax
                         \/ (Len(cs) + Len(gs) <= DisagreeMax /\ \E s1, s2 \in Strictness : v[s1] # v[s2]))) =>
              PrintT(<<"VEC", ToJson([cs |-> cs, gs |-> gs])>>)
=============================================================================
