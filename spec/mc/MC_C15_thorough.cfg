SPECIFICATION Spec
CONSTANT Full = TRUE
INVARIANT C15
INVARIANT Export
CHECK_DEADLOCK FALSE
