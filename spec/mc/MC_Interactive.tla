--------------------------- MODULE MC_Interactive ---------------------------
(* one file of 8 distinct bytes holding one or two documents (payloads), optionally a second file with one diff;
   every document announces 0-2 diffs (nested, touching or apart); every key sequence up to MaxKeys over
   y n a q e enter x, followed by enough `n` keys that no prompt starves.  Every reachable state satisfies the
   user-level statements of Interactive.tla; every behaviour ends (done or quit). *)
EXTENDS Interactive, Json

CONSTANTS MaxKeys, TwoFiles

Original == <<1, 2, 3, 4, 5, 6, 7, 8>>
Cands == { [pos |-> p, del |-> d, ins |-> <<0 - (p * 10 + d)>>] : p \in {0, 2, 3, 5}, d \in 1..2 }
Pairs == { p \in Cands \X Cands : p[1].pos <= p[2].pos /\ p[1] # p[2] }
DiffSeqs == { <<>> } \cup { <<a>> : a \in Cands } \cup { <<p[1], p[2]>> : p \in Pairs }
Small == { <<>> } \cup { <<a>> : a \in Cands }

RECURSIVE KeySeqs(_)
KeySeqs(n) == IF n = 0 THEN { <<>> } ELSE KeySeqs(n - 1) \cup { Append(s, k) : s \in { t \in KeySeqs(n - 1) : Len(t) = n - 1 }, k \in KeyAlphabet }
Pad == <<"n", "n", "n", "n", "n">>

\* mid: the second file's document arrives BETWEEN the two documents of the first file (walker threads send the documents
\* of different files interleaved)
VARIABLES docs, keys0, mid
vars == <<st, docs, keys0, mid>>

Disjoint(ds) == \A a, b \in 1..Len(ds) : a # b =>
                    \A i \in 1..Len(ds[a]), j \in 1..Len(ds[b]) : ~Intersects(ds[a][i], ds[b][j])
Orig == [p \in {"f", "g"} |-> Original]

Init == /\ docs \in { <<d>> : d \in DiffSeqs } \cup { ds \in { <<d, e>> : d \in DiffSeqs, e \in Small } : Disjoint(ds) }
        /\ keys0 \in KeySeqs(MaxKeys)
        /\ mid \in IF TwoFiles /\ Len(docs) = 2 THEN BOOLEAN ELSE {FALSE}
        /\ LET fdocs == [k \in 1..Len(docs) |-> [path |-> "f", old |-> Original, diffs |-> docs[k]]]
               gdoc == [path |-> "g", old |-> Original, diffs |-> << [pos |-> 1, del |-> 2, ins |-> <<0 - 99>>] >>] IN
           st = InitState(Orig,
                          IF ~TwoFiles THEN fdocs ELSE IF mid THEN <<fdocs[1], gdoc, fdocs[2]>> ELSE fdocs \o <<gdoc>>,
                          keys0 \o Pad, FALSE)
MCNext == Next /\ UNCHANGED <<docs, keys0, mid>>
Spec == Init /\ [][MCNext]_vars /\ WF_vars(MCNext)
SpecAlone == Init /\ [][NextAlone /\ UNCHANGED <<docs, keys0, mid>>]_vars
SpecClosed == Init /\ [][NextClosed /\ UNCHANGED <<docs, keys0, mid>>]_vars
SpecLastOnly == Init /\ [][NextLastOnly /\ UNCHANGED <<docs, keys0, mid>>]_vars

P1 == FilesP(st, Orig)
P2 == DisjointP(st)
P3 == PassedP(st)
P4 == CountP(st)
P5 == DeclinedP(st)
\* P6: once everything is accepted no key is consumed
P6 == [][(st.acceptAll \/ (st.cur.active /\ st.cur.all)) => st'.input = st.input]_vars
\* leaving: the payload in progress is not written, later payloads are not started
QuitP == st.status = "quit" => ~st.cur.active
NeverStarved == ~Starved(st)
Ends == <>Final(st)

\* direction A: one line per finished behaviour
Export == Final(st) =>
    PrintT(<<"VEC", ToJson([docs |-> [k \in 1..Len(docs) |-> [j \in 1..Len(docs[k]) |-> <<docs[k][j].pos, docs[k][j].del>>]],
                            keys |-> keys0, status |-> st.status, committed |-> st.committed,
                            written |-> [k \in 1..Len(st.written) |-> <<st.written[k].path, st.written[k].e.pos, st.written[k].e.del>>]])>>)
=============================================================================
