SPECIFICATION Spec
CONSTANTS MaxN = 6  AsCode = FALSE
INVARIANT Same
CHECK_DEADLOCK FALSE
