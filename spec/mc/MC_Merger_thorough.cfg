SPECIFICATION Spec
CONSTANT MaxN = 6
INVARIANT Same
CHECK_DEADLOCK FALSE
