SPECIFICATION Spec
CONSTANTS MaxMv = 5  MaxAnB = 4  MaxSub = 4  ExportMv = 4  ExportAnB = 4  ExportSub = 2
INVARIANT MvOK
INVARIANT TplOK
INVARIANT AnBInv
INVARIANT SubOK
INVARIANT Export
CHECK_DEADLOCK FALSE
