SPECIFICATION SpecLastOnly
CONSTANTS MaxKeys = 1  TwoFiles = TRUE
INVARIANT P1
CHECK_DEADLOCK FALSE
