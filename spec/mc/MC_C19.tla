------------------------------ MODULE MC_C19 ------------------------------
EXTENDS Traversal, Json

\* export one case per initial state for direction A (realised by `agv drive c19`)
ExportCase ==
    (out = <<>> /\ algo = "pre" /\ start = 1 /\ reentrant) =>
        PrintT(<<"VEC", ToJson([par |-> [i \in 1..Len(T) |-> T[i].p]])>>)
=============================================================================
