------------------------------ MODULE MC_C16 ------------------------------
(* every text up to MaxLen characters over {newline, 1-, 2-, 4-byte character} x every match range on
   character boundaries x context 0..MaxCtx: the byte loops of display_context yield exactly the whole lines
   covering the match plus context; every buffer sequence up to 4 (with empty buffers) x 3 styles is well-formed *)
EXTENDS JsonOut, Json

CONSTANTS MaxLen, MaxCtx
VARIABLES cw, bufs
vars == <<cw, bufs>>
Init == cw = <<>> /\ bufs = <<>>
Next == \/ Len(cw) < MaxLen /\ bufs = <<>> /\ \E c \in {0, 1, 2, 4} : cw' = Append(cw, c) /\ UNCHANGED bufs
        \/ cw = <<>> /\ Len(bufs) < 4 /\ \E x \in BOOLEAN : bufs' = Append(bufs, x) /\ UNCHANGED cw
Spec == Init /\ [][Next]_vars

ContextOK ==
    (cw # <<>>) =>
        LET st == Starts(cw) IN
        \A i \in 1..Len(st), j \in 1..Len(st), b \in 0..MaxCtx, a \in 0..MaxCtx :
            i <= j => DisplayContextI(cw, st[i], st[j], b, a) = ContextP(cw, st[i], st[j], b, a)
PrinterOK == \A s \in Styles : WellFormed(s, bufs)
=============================================================================
