SPECIFICATION Spec
CONSTANTS MaxCand = 5  ExportMax = 3
INVARIANT CutMatches
CHECK_DEADLOCK FALSE
