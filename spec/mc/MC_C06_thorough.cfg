SPECIFICATION Spec
CONSTANTS MaxTok = 4
INVARIANT C06
INVARIANT Export
CHECK_DEADLOCK FALSE
