SPECIFICATION Spec
CONSTANTS MaxLen = 5  MaxEdits = 2  ExtraEdit = FALSE
INVARIANT OldTreeConsistent
INVARIANT OncePerReparse
INVARIANT PointsOK
INVARIANT Export
CHECK_DEADLOCK FALSE
