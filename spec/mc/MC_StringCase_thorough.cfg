SPECIFICATION Spec
CONSTANTS MaxLen = 6  ExportLen = 5
INVARIANT MachineWellFormed
INVARIANT MachineCovers
INVARIANT MachineIsDocumented
INVARIANT Export
CHECK_DEADLOCK FALSE
