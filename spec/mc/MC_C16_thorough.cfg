SPECIFICATION Spec
CONSTANTS MaxLen = 7  MaxCtx = 2
INVARIANT ContextOK
INVARIANT PrinterOK
CHECK_DEADLOCK FALSE
