SPECIFICATION Spec
CONSTANTS MaxNodes = 5  Kinds = 2  Variant = "find"
INVARIANT SelectOK
INVARIANT SubtreeOK
CHECK_DEADLOCK FALSE
