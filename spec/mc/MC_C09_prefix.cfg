SPECIFICATION Spec
CONSTANTS MaxMsgs = 4  MaxVer = 3  MaxConc = 3  Protocol = "pre"
INVARIANT NewestPublished
INVARIANT NoDeadlock
INVARIANT NothingOutside
INVARIANT MapAgrees
INVARIANT Export
CHECK_DEADLOCK FALSE
