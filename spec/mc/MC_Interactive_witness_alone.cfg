SPECIFICATION SpecAlone
CONSTANTS MaxKeys = 2  TwoFiles = FALSE
INVARIANT P1
CHECK_DEADLOCK FALSE
