SPECIFICATION Spec
CONSTANTS MaxN = 4  AsCode = TRUE
INVARIANT Same
CHECK_DEADLOCK FALSE
