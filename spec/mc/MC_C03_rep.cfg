\* repeated variables: candidate lists <= 3 over 6 symbols x goal lists <= 3 over 6 symbols x 5 strictness levels
SPECIFICATION SpecRep
CONSTANTS MaxCand = 3  MaxGoal = 3  ExportMax = 0  DisagreeMax = 0
INVARIANT SameVariable
CHECK_DEADLOCK FALSE
