SPECIFICATION SpecSparse
CONSTANT Keys <- Keys4
INVARIANT CycleFound
INVARIANT Topological
INVARIANT OrderFree
CHECK_DEADLOCK FALSE
