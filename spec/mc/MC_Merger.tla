----------------------------- MODULE MC_Merger -----------------------------
(* files of N <= MaxN lines of 4 bytes each; up to 3 matches (spans of 1-2 lines or parts of a line, nested or apart,
   in document order); context b, a <= 2: the machine prints exactly the union of the windows, each line once, in
   increasing order, in as many groups as the union has runs (no two groups touch) - for the machine whose end line
   moves along on a merge (AsCode = FALSE).  The machine as the code has it (AsCode = TRUE) violates this
   (MC_Merger_witness.cfg): a finding outside the listed properties. *)
EXTENDS Merger, TLC
CONSTANTS MaxN, AsCode
VARIABLES n, ms, b, a
vars == <<n, ms, b, a>>

\* a match inside a file of n lines, 4 bytes per line: byte range [s, e), lines derived
Spans(nn) == { [s |-> s, e |-> e, sl |-> s \div 4, el |-> (e - 1) \div 4] : s \in 0..(4 * nn - 1), e \in 1..(4 * nn) }
Ok(m) == m.s < m.e /\ m.e - m.s <= 6 /\ (m.s % 2 = 0) /\ (m.e % 2 = 0)
Init == /\ n \in 1..MaxN /\ b \in 0..2 /\ a \in 0..2
        /\ ms \in { <<>> } \cup { <<x>> : x \in { m \in Spans(n) : Ok(m) } }
                  \cup { <<x, y>> : x \in { m \in Spans(n) : Ok(m) }, y \in { m \in Spans(n) : Ok(m) } }
                  \cup { <<x, y, z>> : x \in { m \in Spans(n) : Ok(m) /\ m.s = 0 }, y \in { m \in Spans(n) : Ok(m) }, z \in { m \in Spans(n) : Ok(m) /\ m.e - m.s = 2 } }
        /\ WellNested(ms)
Next == UNCHANGED vars
Spec == Init /\ [][Next]_vars

Same == LET gs == GroupsV(AsCode, n, ms, b, a)  ls == LinesOf(gs) IN
        /\ { ls[i] : i \in 1..Len(ls) } = PrintedP(n, ms, b, a)
        /\ \A i \in 1..(Len(ls) - 1) : ls[i] < ls[i + 1]                    \* each line once, increasing
        /\ Len(gs) = GroupsP(n, ms, b, a)                                    \* groups are the maximal runs
=============================================================================
