------------------------------ MODULE MC_C15 ------------------------------
(* project configurations: two rules x language x files x ignores x severity, the CLI overrides
   (default / by id / --filter) and the language-glob switch; decision table of the code = statement *)
EXTENDS Dispatch, Json, SequencesExt

CONSTANT Full
VARIABLES cfg
RuleSpace(id) ==
    [id : {id}, lang : {"JavaScript", "TypeScript"}, files : {{}, {"src/**"}, {"**/sub/**", "src/a.js"}, {"src/*.js"}},
     ignores : {{}, {"test/**"}, {"**/*.js"}, {"src/*.js"}}, sev : {"error", "warning", "off"}]
Overrides ==
    { [dflt |-> d, byId |-> b, filter |-> f] :
        d \in {"none", "error", "off"},
        b \in { <<>>, [x \in {"r1"} |-> "off"], [x \in {"r2"} |-> "error"], [x \in {"r1"} |-> "hint"] },
        f \in { {"*"}, {"r1"}, {"r9"} } }
    \* a bare flag together with the same flag carrying an id (--off --off=r1) is one option given twice with
    \* and without value; what that means is left open by the property, so it is not generated
    \ { o \in [dflt : {"error", "off"}, byId : { [x \in {"r1"} |-> "off"], [x \in {"r2"} |-> "error"] }, filter : { {"*"}, {"r1"}, {"r9"} }] :
          \E id \in DOMAIN o.byId : o.byId[id] = o.dflt }

Init == \E a \in RuleSpace("r1"), b \in { x \in RuleSpace("r2") : Full \/ (x.files = {} /\ x.ignores = {}) }, o \in Overrides, g \in {"none", "extra", "override", "narrow"} :
           cfg = [rules |-> <<a, b>>, ov |-> o, lglob |-> g]
Next == UNCHANGED cfg
Spec == Init /\ [][Next]_cfg

C15 == \A p \in Paths : RulesOnI(cfg, p) = RulesOn(cfg, p)

RuleJson(r) == [id |-> r.id, lang |-> r.lang, files |-> SetToSeq(r.files), ignores |-> SetToSeq(r.ignores), sev |-> r.sev]
Export == PrintT(<<"VEC", ToJson([rules |-> [k \in 1..2 |-> RuleJson(cfg.rules[k])],
                                  dflt |-> cfg.ov.dflt,
                                  byId |-> [k \in 1..Cardinality(DOMAIN cfg.ov.byId) |->
                                               LET id == SetToSeq(DOMAIN cfg.ov.byId)[k] IN <<id, cfg.ov.byId[id]>>],
                                  filter |-> SetToSeq(cfg.ov.filter), lglob |-> cfg.lglob])>>)
=============================================================================
