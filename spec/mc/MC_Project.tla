----------------------------- MODULE MC_Project -----------------------------
(* every (current directory, -c, path argument) of the layout of Project.tla: the slice of C15 agrees with the    *)
(* documented reading (AgreeAtRoot); every run is exported for the recorder (harness/src/projpaths.rs)            *)
EXTENDS Project, TLC, Json

Export ==
    PrintT(<<"VEC", ToJson([cwd |-> cwd, cfg |-> cfg,
                            arg |-> [kind |-> arg.kind,
                                     segs |-> IF arg.kind = "rel" THEN arg.segs ELSE <<>>,
                                     target |-> IF arg.kind = "none" THEN cwd ELSE arg.target],
                            project |-> ProjectDir(cwd, cfg),
                            at_root |-> (cwd = ProjectDir(cwd, cfg) /\ Clean(arg)),
                            report_i |-> ReportI(cwd, cfg, arg),
                            report_p |-> ReportP(cwd, cfg, arg)])>>)
Exported == Export
=============================================================================
