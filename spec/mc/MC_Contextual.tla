--------------------------- MODULE MC_Contextual ---------------------------
(* every tree shape with <= MaxNodes nodes x every assignment of Kinds kinds x every selector kind:
   the search the implementation performs (FindFrom from the root) selects the node the reference names (SelectP),
   the selected subtree is a well-formed table of its own whose root has the selector's kind. *)
EXTENDS Contextual, TLC
CONSTANTS MaxNodes, Kinds, Variant

VARIABLES T, sel
vars == <<T, sel>>

Shapes == UNION { { ShapeOf(v) : v \in ParVectors(n) } : n \in 1..MaxNodes }
Init == /\ \E sh \in Shapes : \E ks \in [1..Len(sh) -> 1..Kinds] :
             T = [i \in 1..Len(sh) |-> [p |-> sh[i].p, ch |-> sh[i].ch, kid |-> ks[i]]]
        /\ sel \in 1..Kinds
Next == UNCHANGED vars
Spec == Init /\ [][Next]_vars

Impl == CASE Variant = "find" -> FindFrom(T, 1, sel)
          [] Variant = "last" -> FindLast(T, sel)
          [] Variant = "shallowest" -> FindShallowest(T, sel)

SelectOK == Impl = SelectP(T, sel)
SubtreeOK == SelectP(T, sel) # 0 =>
                LET S == Renumber(T, SelectP(T, sel)) IN WellFormed(S) /\ S[1].kid = sel /\ Len(S) = Len(PreOrder(T, SelectP(T, sel)))
=============================================================================
