SPECIFICATION Spec
CONSTANTS f1 = f1 f2 = f2 f3 = f3 f4 = f4 t1 = t1 t2 = t2 t3 = t3
CONSTANTS Files <- MCFiles  Outcome <- MCOutcome  Threads <- MCThreads3
INVARIANT ExactlyOnce
INVARIANT Union
INVARIANT PerFileOrder
INVARIANT Tally
PROPERTY Terminates
CHECK_DEADLOCK FALSE
