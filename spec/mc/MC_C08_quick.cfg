SPECIFICATION Spec
CONSTANTS MaxLen = 3
INVARIANT EditsWellFormed
INVARIANT OtherRoutesDiffer
INVARIANT Export
CHECK_DEADLOCK FALSE
