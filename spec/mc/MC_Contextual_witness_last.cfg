SPECIFICATION Spec
CONSTANTS MaxNodes = 5  Kinds = 2  Variant = "last"
INVARIANT SelectOK
INVARIANT SubtreeOK
CHECK_DEADLOCK FALSE
