\* extension beyond the listed properties: the non-reentrant Post visit
SPECIFICATION Spec
CONSTANT MaxNodes = 4
INVARIANT PostInnermostOK
INVARIANT PostDebugAssert
CHECK_DEADLOCK FALSE
