------------------------------ MODULE MC_Rules ------------------------------
(* every rule program of RuleGen over the atoms of each universe x every tree of the universe:
     C05  Eval (the code's evaluation order and environment threading) agrees with the reference
          semantics Sem on every node, for variable-disjoint rules
     C04  Eval = EvalClean (failed attempts leave no trace), except the listed scenario
     C01  every node a rule matches has a kind in the rule's potential kinds
   and the export of (universe, tree, rule) vectors for the conformance run *)
EXTENDS RuleGen, Json, IOUtils, TLC

CONSTANTS CheckCorpus      \* also evaluate the invariants on corpus universes (thorough), or only export them

Us == JsonDeserialize(IOEnv.UNIVERSE)

VARIABLES u, t, doc
vars == <<u, t, doc>>

\* shadow = TRUE: the project also has global utility rules with the ids of the document's local utilities (and other
\* bodies); a local utility shadows a global one, so the meaning of the document is the same
Plain(D) == { [rule |-> d.rule, utils |-> d.utils, shadow |-> FALSE] : d \in D }
DocsOf(i) == Plain({ [rule |-> r, utils |-> <<>>] : r \in RulesOf(Us[i], Us[i].full) })
             \cup (IF Us[i].full THEN Plain(UtilDocs(Us[i]) \cup ConsDocs(Us[i]))
                                       \cup { [rule |-> d.rule, utils |-> d.utils, shadow |-> TRUE] : d \in UtilDocs(Us[i]) }
                    ELSE {})

Init == /\ u \in 1..Len(Us)
        /\ t \in 1..Len(Us[u].trees)
        /\ doc \in DocsOf(u)
Next == UNCHANGED vars
Spec == Init /\ [][Next]_vars

UU == [patterns |-> Us[u].patterns, utils |-> doc.utils]
TT == Us[u].trees[t].T
PV == Us[u].trees[t].pv

Judged == Us[u].full \/ CheckCorpus

C05_EvalIsSem ==
    (Judged /\ ~HasCons(UU, doc.rule) /\ VarDisjoint(UU, doc.rule) /\ FieldsUnique(TT, FieldsUsed(UU, doc.rule))) =>
        \A n \in 1..Len(TT) : Eval("impl", UU, TT, doc.rule, n, EmptyEnv).ok = Sem(UU, TT, PV, doc.rule, n)

C04_NoTrace ==
    Judged =>
        \A n \in 1..Len(TT) : LET i == Eval("impl", UU, TT, doc.rule, n, EmptyEnv)  c == Eval("clean", UU, TT, doc.rule, n, EmptyEnv) IN
                               \* what a caller can observe: the verdict, and the environment of a success
                               i.ok = c.ok /\ (i.ok => i.env = c.env)

C01_KindSound ==
    Judged =>
        LET pk == PK(UU, doc.rule) IN
        \A n \in 1..Len(TT) : Eval("impl", UU, TT, doc.rule, n, EmptyEnv).ok => KindAllowed(pk, TT[n].kid)

\* survey mode: print every failing case instead of stopping at the first (used while building)
Survey ==
    /\ (C05_EvalIsSem \/ PrintT(<<"MFAIL", "C05", u, t, doc>>))
    /\ (C04_NoTrace \/ PrintT(<<"MFAIL", "C04", u, t, doc>>))
    /\ (C01_KindSound \/ PrintT(<<"MFAIL", "C01", u, t, doc>>))

Export == PrintT(<<"VEC", ToJson([u |-> u, t |-> t, rule |-> doc.rule, utils |-> doc.utils, shadow |-> doc.shadow])>>)
=============================================================================
