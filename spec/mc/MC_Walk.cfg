SPECIFICATION Spec
INVARIANT AgreeWhenInferred
INVARIANT ExplicitAlways
INVARIANT Exported
CHECK_DEADLOCK FALSE
