SPECIFICATION Spec
CONSTANTS MaxKeys = 2  TwoFiles = TRUE
INVARIANT P1
INVARIANT P2
INVARIANT P3
INVARIANT P4
INVARIANT P5
INVARIANT QuitP
INVARIANT NeverStarved
PROPERTY P6
PROPERTY Ends
CHECK_DEADLOCK FALSE
