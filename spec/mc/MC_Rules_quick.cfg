SPECIFICATION Spec
CONSTANT CheckCorpus = FALSE
INVARIANT C05_EvalIsSem
INVARIANT C04_NoTrace
INVARIANT C01_KindSound
INVARIANT Export
CHECK_DEADLOCK FALSE
