---------------------------- MODULE MC_Prefilter ----------------------------
(* class-member shaped sibling lists with optional anonymous modifier tokens (static, async) that are
   longer than every other terminal: pattern modifiers Mp x source modifiers Ms x renamed member x
   5 strictness levels.  The prefilter must never hide a match (C01). *)
EXTENDS Prefilter, Terms, Json

VARIABLES mp, ms, pname, sname
vars == <<mp, ms, pname, sname>>

Mods == <<"static", "async">>
KStatic == 6  KAsync == 7
Len0 == [t \in {"static", "async", "a", "b", "m", ""} |->
            CASE t = "static" -> 6 [] t = "async" -> 5 [] t = "" -> 0 [] OTHER -> 1]

Init == /\ mp \in SUBSET {1, 2} /\ ms \in SUBSET {1, 2}
        /\ pname \in {"a", "$A"} /\ sname \in {"a", "b"}
Next == UNCHANGED vars
Spec == Init /\ [][Next]_vars

ModLeafC(i) == CLeaf(IF i = 1 THEN KStatic ELSE KAsync, FALSE, FALSE, Mods[i])
ModLeafG(i) == GT(IF i = 1 THEN KStatic ELSE KAsync, FALSE, Mods[i])

CandT ==
    LET kids == [k \in 1..Cardinality(ms) |-> ModLeafC(IF k = 1 /\ 1 \in ms THEN 1 ELSE 2)]
                \o <<CLeaf(KId, TRUE, FALSE, sname)>> IN
    <<[kid |-> KList, nm |-> TRUE, cm |-> FALSE, t |-> "", p |-> 0, ch |-> [k \in 1..Len(kids) |-> k + 1]]>>
    \o [k \in 1..Len(kids) |-> [kid |-> kids[k].kid, nm |-> kids[k].nm, cm |-> FALSE, t |-> kids[k].t, p |-> 1, ch |-> <<>>]]

GoalT ==
    LET kids == [k \in 1..Cardinality(mp) |-> ModLeafG(IF k = 1 /\ 1 \in mp THEN 1 ELSE 2)]
                \o <<IF pname = "a" THEN GT(KId, TRUE, "a") ELSE GM("capture", "A", TRUE)>> IN
    <<[ty |-> "I", kid |-> KList, nm |-> TRUE, t |-> "", mv |-> NoMV, ch |-> [k \in 1..Len(kids) |-> k + 1]]>>
    \o [k \in 1..Len(kids) |-> [ty |-> kids[k].ty, kid |-> kids[k].kid, nm |-> kids[k].nm, t |-> kids[k].t,
                                mv |-> kids[k].mv, ch |-> <<>>]]

Sound == \A s \in Strictness : PrefilterSound(GoalT, CandT, s, Len0)

\* the reason the prefilter cannot be applied at the looser levels: there the same check WOULD hide a match
WouldHide(s) == LET f == FixedOf(GoalT, 1, Len0) IN
                Match(GoalT, CandT, s, 1).ok /\ f.len > 0 /\ f.t \notin LeafTexts(CandT)

Export == PrintT(<<"VEC", ToJson([mp |-> [i \in 1..2 |-> i \in mp], ms |-> [i \in 1..2 |-> i \in ms],
                                  pname |-> pname, sname |-> sname,
                                  hide |-> [s \in Strictness |-> WouldHide(s)]])>>)
=============================================================================
