------------------------------ MODULE MC_C07 ------------------------------
(* indent vectors: site indent x capture continuation-line indents x template shapes.
   The transcribed de-indent / re-indent arithmetic yields exactly the line-level statement of C07. *)
EXTENDS Template, Json, TLC

CONSTANTS MaxSite, MaxExtra, MaxLines

VARIABLES site, own, inds, tpl
vars == <<site, own, inds, tpl>>

Ch(str) == str      \* readability: sequences of one-character strings are written out below

\* templates: [raw, items]
V(name, l) == [v |-> TRUE, c |-> "", name |-> name, multi |-> FALSE, len |-> l]
L(c) == [v |-> FALSE, c |-> c, name |-> <<>>, multi |-> FALSE, len |-> 1]
Lits(s) == [k \in 1..Len(s) |-> L(s[k])]
A == <<"A">>
Templates == <<
   [raw |-> <<"$","A">>, items |-> <<V(A, 2)>>],
   [raw |-> <<"h","(","$","A",")">>, items |-> Lits(<<"h","(">>) \o <<V(A, 2)>> \o Lits(<<")">>)],
   [raw |-> <<"h","(",NL,SP,SP,"$","A",NL,")">>,
    items |-> Lits(<<"h","(",NL,SP,SP>>) \o <<V(A, 2)>> \o Lits(<<NL,")">>)],
   [raw |-> <<"k","(",NL,SP,"$","A",",",NL,SP,SP,SP,"$","A",")">>,
    items |-> Lits(<<"k","(",NL,SP>>) \o <<V(A, 2)>> \o Lits(<<",",NL,SP,SP,SP>>) \o <<V(A, 2)>> \o Lits(<<")">>)],
   [raw |-> <<"g","(","$","A",")">>, items |-> Lits(<<"g","(">>) \o <<V(A, 2)>> \o Lits(<<")">>)],
   [raw |-> <<"$","B","$","A">>, items |-> <<V(<<"B">>, 2), V(A, 2)>>],
   \* a sigil that starts no meta variable is literal text; the slot after it sits on an indented line
   [raw |-> <<"$","(",NL,SP,SP,"$","A",NL,")">>,
    items |-> Lits(<<"$","(",NL,SP,SP>>) \o <<V(A, 2)>> \o Lits(<<NL,")">>)],
   [raw |-> <<"$","1",".","$","(",NL,SP,"$","A",",",NL,SP,SP,SP,"$","A",")">>,
    items |-> Lits(<<"$","1",".","$","(",NL,SP>>) \o <<V(A, 2)>> \o Lits(<<",",NL,SP,SP,SP>>) \o <<V(A, 2)>> \o Lits(<<")">>)],
   \* templates WITHOUT any variable, on several lines: their continuation lines are shifted to the match site like any
   \* other template's (one of them with a lone sigil)
   [raw |-> <<"h","(",NL,SP,SP,"1",NL,")">>, items |-> Lits(<<"h","(",NL,SP,SP,"1",NL,")">>)],
   [raw |-> <<"$","(",NL,SP,"x",",",NL,"y",")">>, items |-> Lits(<<"$","(",NL,SP,"x",",",NL,"y",")">>)]
>>

Init == /\ site \in 0..MaxSite /\ own \in BOOLEAN /\ tpl \in 1..Len(Templates)
        /\ inds = <<>>
Next == /\ Len(inds) < MaxLines
        /\ \E x \in 0..MaxExtra : inds' = Append(inds, site + x)     \* continuation lines never under-indented
        /\ UNCHANGED <<site, own, tpl>>
Spec == Init /\ [][Next]_vars

\* source:  "{" NL  <site> "g(" [own: NL <site+2>] "[" { NL <ind_i> "x," } NL <last> "]" ")" NL "}"
CapFirst == IF own THEN site + 2 ELSE site
Src ==
    <<"{", NL>> \o Spaces(site) \o <<"g", "(">>
    \o (IF own THEN <<NL>> \o Spaces(site + 2) ELSE <<>>) \o <<"[">>
    \o FlattenSeq([k \in 1..Len(inds) |-> <<NL>> \o Spaces(inds[k] + (IF own THEN 2 ELSE 0)) \o <<"x", ",">>])
    \o <<NL>> \o Spaces(CapFirst) \o <<"]", ")", NL, "}">>
SiteOff == 2 + site
CapLo == SiteOff + 2 + (IF own THEN 1 + site + 2 ELSE 0)
CapHi == Len(Src) - 3
Bind == [n \in {A} |-> [lo |-> CapLo, hi |-> CapHi]]

T == Templates[tpl]
OutI == GenerateReplacement(Src, T.raw, T.items, Bind, SiteOff)
Expect == OutP(Src, T.raw, T.items, Bind, SiteOff)

C07 == /\ Src[CapLo + 1] = "[" /\ Src[CapHi] = "]" /\ Src[SiteOff + 1] = "g"
       /\ Judged(Src, T.raw, T.items, Bind) => OutI = Expect
\* rewriting a node to itself is a no-op
SelfRewrite == (tpl = 5 /\ ~own /\ Judged(Src, T.raw, T.items, Bind)) => OutI = SubSeq(Src, SiteOff + 1, CapHi + 1)

Export == PrintT(<<"VEC", ToJson([src |-> Src, raw |-> T.raw, site |-> SiteOff])>>)
=============================================================================
