SPECIFICATION Spec
CONSTANT MaxN = 4
INVARIANT Same
CHECK_DEADLOCK FALSE
