SPECIFICATION Spec
CONSTANTS MaxN = 4  AsCode = FALSE
INVARIANT Same
CHECK_DEADLOCK FALSE
