------------------------------ MODULE MC_C17 ------------------------------
EXTENDS Worker
CONSTANTS f1, f2, f3, f4, t1, t2, t3
MCFiles == {f1, f2, f3, f4}
MCThreads3 == {t1, t2, t3}
MCThreads2 == {t1, t2}
\* one faulty file, an empty result, one and two items
MCOutcome == (f1 :> FailOutcome) @@ (f2 :> 0) @@ (f3 :> 1) @@ (f4 :> 2)
=============================================================================
