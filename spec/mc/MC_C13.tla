------------------------------ MODULE MC_C13 ------------------------------
(* every dependency graph on the keys x every iteration order of the map *)
EXTENDS TopoSort
Keys3 == {"a", "b", "c"}
Keys4 == {"a", "b", "c", "d"}
=============================================================================
