------------------------------ MODULE MC_C13 ------------------------------
(* every dependency graph on the keys x every iteration order of the map *)
EXTENDS TopoSort
Keys3 == {"a", "b", "c"}
Keys4 == {"a", "b", "c", "d"}
\* thorough: four keys, every graph in which a key has at most two dependencies (self-dependencies included,
\* the non-key dependency "zz" left to the three-key instance): 11^4 graphs x 24 iteration orders
InitSparse == /\ Deps \in [Keys -> { S \in SUBSET Keys : Cardinality(S) <= 2 }]
              /\ iter \in Perms(Keys) /\ pos = 1 /\ stack = <<>>
              /\ seen = [k \in {} |-> ""] /\ order = <<>> /\ err = ""
SpecSparse == InitSparse /\ [][Next]_vars
=============================================================================
