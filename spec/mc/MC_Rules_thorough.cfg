SPECIFICATION Spec
CONSTANT CheckCorpus = TRUE
INVARIANT C05_EvalIsSem
INVARIANT C04_NoTrace
INVARIANT C01_KindSound
INVARIANT Export
CHECK_DEADLOCK FALSE
