SPECIFICATION Spec
CONSTANTS MaxMsgs = 5  MaxVer = 3  MaxConc = 4  Protocol = "fix"
INVARIANT NewestPublished
INVARIANT NoDeadlock
INVARIANT NothingOutside
INVARIANT MapAgrees
INVARIANT Export
CHECK_DEADLOCK FALSE
