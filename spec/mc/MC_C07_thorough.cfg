SPECIFICATION Spec
CONSTANTS LookBehind = 40  MaxSite = 4  MaxExtra = 4  MaxLines = 3
INVARIANT C07
INVARIANT SelfRewrite
INVARIANT Export
CHECK_DEADLOCK FALSE
