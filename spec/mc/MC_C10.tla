------------------------------ MODULE MC_C10 ------------------------------
EXTENDS DocEdit, Json
\* abstract edit shapes for direction A: where (line start / middle / end of text), what is deleted
\* (nothing / one char / across a newline), what is inserted (nothing / text / newline / multi-byte)
Export ==
    (pc = "edited" /\ applied = 1) =>
        PrintT(<<"VEC", ToJson([ atLineStart |-> (pending.start = 0 \/ ByteCol(oldCw, pending.start) = 0),
                                 atEnd |-> pending.oldEnd = ByteLen(oldCw),
                                 del |-> pending.oldEnd - pending.start,
                                 delNewline |-> Line(oldCw, pending.oldEnd) # Line(oldCw, pending.start),
                                 ins |-> pending.newEnd - pending.start,
                                 insNewline |-> Line(cw, pending.newEnd) # Line(cw, pending.start),
                                 nth |-> nEdits ])>>)
=============================================================================
