SPECIFICATION Spec
CONSTANTS MaxLines = 3  MULTI = TRUE
INVARIANT C14
INVARIANT Export
CHECK_DEADLOCK FALSE
