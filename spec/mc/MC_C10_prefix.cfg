SPECIFICATION Spec
CONSTANTS MaxLen = 3  MaxEdits = 1  ExtraEdit = TRUE
INVARIANT OldTreeConsistent
CHECK_DEADLOCK FALSE
