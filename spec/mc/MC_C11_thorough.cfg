SPECIFICATION Spec
CONSTANT MaxDeviations = 2
INVARIANT WellTyped
INVARIANT Bounded
INVARIANT Export
CHECK_DEADLOCK FALSE
