SPECIFICATION Spec
CONSTANT Keys <- Keys3
INVARIANT CycleFound
INVARIANT Topological
INVARIANT OrderFree
CHECK_DEADLOCK FALSE
