SPECIFICATION Spec
INVARIANT AcceptAgree
INVARIANT FixFlowsOK
INVARIANT Export
CHECK_DEADLOCK FALSE
