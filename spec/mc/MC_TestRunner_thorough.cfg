SPECIFICATION Spec
CONSTANTS MaxCases = 4
INVARIANT C09_Verdicts
INVARIANT C13_UpdateSettles
INVARIANT Export
CHECK_DEADLOCK FALSE
