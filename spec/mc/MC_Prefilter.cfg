SPECIFICATION Spec
INVARIANT Sound
INVARIANT Export
CHECK_DEADLOCK FALSE
