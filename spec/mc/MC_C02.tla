------------------------------ MODULE MC_C02 ------------------------------
(* every candidate sibling list (bounded) x every set of named children abstracted to distinct holes
   x every trailing run abstracted to $$$W x 5 strictness levels: the cut pattern matches the code it
   was cut from and binds each hole exactly (C02) *)
EXTENDS Align, Terms, Json

CONSTANTS MaxCand, ExportMax

VARIABLES cs, holes, tail, done
vars == <<cs, holes, tail, done>>

VarName == <<"V1", "V2", "V3", "V4", "V5">>

IsNamedSym(x) == x # ","
Init == cs = <<>> /\ holes = {} /\ tail = 0 /\ done = FALSE
Next == \/ ~done /\ Len(cs) < MaxCand /\ \E x \in CandSyms : cs' = Append(cs, x) /\ UNCHANGED <<holes, tail, done>>
        \/ ~done /\ cs # <<>> /\ done' = TRUE /\ UNCHANGED cs
           /\ \E H \in SUBSET { i \in 1..Len(cs) : IsNamedSym(cs[i]) } :
              \E k \in {0} \cup { i \in 1..Len(cs) : IsNamedSym(cs[i]) /\ IsNamedSym(cs[Len(cs)]) } :
                 /\ \A h \in H : k = 0 \/ h < k
                 /\ holes' = H /\ tail' = k
Spec == Init /\ [][Next]_vars

\* the goal list obtained by cutting: candidate symbols kept verbatim, holes -> capture, tail -> $$$W
CandAsGoal(sym) ==
    CASE sym = "cm"  -> GT(KComment, TRUE, "/*c*/")
      [] sym = "Nab" -> GI(<<GT(KId, TRUE, "a"), GT(KComma, FALSE, ","), GT(KId, TRUE, "b")>>)
      [] OTHER -> GoalTerm(sym)
CutTerms ==
    LET n == IF tail = 0 THEN Len(cs) ELSE tail IN
    [i \in 1..n |->
        IF tail # 0 /\ i = tail THEN GM("multicap", "W", FALSE)
        ELSE IF i \in holes THEN GM("capture", VarName[i], TRUE)
        ELSE CandAsGoal(cs[i])]

GoalTableOf(terms) ==
    LET root == [ty |-> "I", kid |-> KList, nm |-> TRUE, t |-> "", mv |-> NoMV,
                 ch |-> [k \in 1..Len(terms) |-> StartId(terms, k)]]
        sub(k) == LET id == StartId(terms, k) tm == terms[k] IN
                  <<[ty |-> tm.ty, kid |-> tm.kid, nm |-> tm.nm, t |-> tm.t, mv |-> tm.mv,
                     ch |-> [m \in 1..Len(tm.kids) |-> id + m]]>>
                  \o [m \in 1..Len(tm.kids) |->
                        [ty |-> tm.kids[m].ty, kid |-> tm.kids[m].kid, nm |-> tm.kids[m].nm,
                         t |-> tm.kids[m].t, mv |-> tm.kids[m].mv, ch |-> <<>>]]
    IN <<root>> \o FlattenSeq([k \in 1..Len(terms) |-> sub(k)])

CutMatches ==
    done =>
        LET T == CandTable(cs)
            PT == GoalTableOf(CutTerms)
            hs == { [pid |-> PT[1].ch[i], id |-> T[1].ch[i]] : i \in holes }
            tl == IF tail = 0 THEN [pid |-> 0, ids |-> <<>>]
                  ELSE [pid |-> PT[1].ch[tail], ids |-> SubSeq(T[1].ch, tail, Len(T[1].ch))] IN
        /\ SameShape(PT, T, 1, 1, hs, tl)                 \* the premise of C02 holds by construction
        /\ \A s \in Strictness :
              LET m == Match(PT, T, s, 1) IN
              CutOK(PT, T, hs, tl, [ok |-> m.ok, single |-> m.env.single, multi |-> m.env.multi])
        /\ (Len(cs) <= ExportMax) =>
              PrintT(<<"VEC", ToJson([cs |-> cs, holes |-> [i \in 1..Len(cs) |-> i \in holes], tail |-> tail])>>)
=============================================================================
