------------------------------ MODULE MC_C14 ------------------------------
(* every file of up to MaxLines lines: code lines with 1-2 statements firing any subset of two rules and an
   optional trailing ignore comment, or own-line ignore comments, with every id list *)
EXTENDS Suppress, SequencesExt, Json, TLC

CONSTANTS MaxLines

VARIABLES file
IdLists == {AllIds, {"r1"}, {"r2"}, {"r1", "r2"}, {"r9"}}
StmtKinds == {{}, {"r1"}, {"r2"}, {"r1", "r2"}}
LinesSet ==
    { [kind |-> "code", stmts |-> ss, trail |-> t, ids |-> NoComment] :
        ss \in { <<a>> : a \in StmtKinds } \cup { <<a, b>> : a \in {{"r1"}, {"r1", "r2"}}, b \in {{"r2"}, {}} },
        t \in IdLists \cup {NoComment} }
    \cup { [kind |-> "comment", stmts |-> <<>>, trail |-> NoComment, ids |-> i] : i \in IdLists }

Init == file = <<>>
Next == Len(file) < MaxLines /\ \E ln \in LinesSet : file' = Append(file, ln)
Spec == Init /\ [][Next]_file

C14 == /\ ReportedI(file) = ReportedP(file)
       /\ UnusedI(file) = UnusedP(file)

IdsJson(i) == SetToSeq(i)
Export == (file # <<>>) =>
    PrintT(<<"VEC", ToJson([k \in 1..Len(file) |->
        [kind |-> file[k].kind, stmts |-> [j \in 1..Len(file[k].stmts) |-> SetToSeq(file[k].stmts[j])],
         trail |-> IdsJson(file[k].trail), ids |-> IdsJson(file[k].ids)]])>>)
=============================================================================
