SPECIFICATION Spec
CONSTANTS MaxLen = 5  ExportLen = 4
INVARIANT MachineWellFormed
INVARIANT MachineCovers
INVARIANT MachineIsDocumented
INVARIANT Export
CHECK_DEADLOCK FALSE
