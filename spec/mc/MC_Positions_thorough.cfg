SPECIFICATION Spec
CONSTANT MaxLen = 8
INVARIANT Agree
CHECK_DEADLOCK FALSE
