------------------------------ MODULE MC_C09 ------------------------------
(* Bounded instance of Lsp.tla.  Besides checking the invariants it exports, for every quiescent state,  *)
(* the history sent and the publish sequence the model produced: the recorder sends each history to the  *)
(* real server and Trace_C09 checks that what the server published is one of the sequences exported here. *)
EXTENDS Lsp, Json
Export == Quiescent => PrintT(<<"VEC", ToJson([sent |-> sent, outside |-> outside, pubs |-> pubs])>>)
=============================================================================
