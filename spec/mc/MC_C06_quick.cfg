SPECIFICATION Spec
CONSTANTS MaxTok = 3
INVARIANT C06
INVARIANT Export
CHECK_DEADLOCK FALSE
