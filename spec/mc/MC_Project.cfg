SPECIFICATION Spec
INVARIANT AgreeAtRoot
INVARIANT NearestWins
INVARIANT Exported
CHECK_DEADLOCK FALSE
