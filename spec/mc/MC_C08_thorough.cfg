SPECIFICATION Spec
CONSTANTS MaxLen = 4
INVARIANT EditsWellFormed
INVARIANT OtherRoutesDiffer
INVARIANT Export
CHECK_DEADLOCK FALSE
